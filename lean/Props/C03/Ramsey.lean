/-
C03 (share: Ramsey-type formulas, CPLS, Pitfall) — property theorems only.
Models: `CnfgenModel/Fam/{Ramsey,Cpls,Pitfall,PitfallTseitin}.lean`; helper lemmas: `Lemmas/Fam*.lean`.

Conventions: parameters that the generator accepts are natural numbers cast to `Int` (the
`…_rejects` theorems cover the rest of the integers); `F.holds α` is the arithmetic meaning of the
abstract constraints, and `…_rendered` transfers every statement to the clause list of the CNF
class and to the constraint list of the OPB class.
-/
import Lemmas.FamRamsey
import Lemmas.FamRamseyFinset
import Lemmas.FamCpls
import Lemmas.FamPitfallAxioms
import Mathlib.Tactic.IntervalCases
namespace Cnfgen.C03
open Cnfgen Cnfgen.Fam Cnfgen.FamRamsey

/-! ## Pythagorean triples (`PythagoreanTriples(N)`) -/

/-- `x < y < z ≤ N` with `x² + y² = z²` -/
def IsTriple (N x y z : Nat) : Prop := 1 ≤ x ∧ x < y ∧ y < z ∧ z ≤ N ∧ x ^ 2 + y ^ 2 = z ^ 2

/-- a 2-colouring of the numbers without monochromatic Pythagorean triple in `1..N` -/
def TripleFree (N : Nat) (col : Nat → Bool) : Prop :=
  ∀ x y z, IsTriple N x y z → ¬ (col x = col y ∧ col y = col z)

theorem ptn_accepts (N : Nat) : Ramsey.ptn (N : Int) = .ok ⟨N, Ramsey.ptnCons N⟩ := ptn_eq N

theorem ptn_rejects (N : Int) (h : N < 0) : Ramsey.ptn N = .error .valueError := ptn_neg N h

/-- documented variable count (one variable per number: variable `i` *is* the colour of `i`) and
well-formedness -/
theorem ptn_nvars_wf (N : Nat) (F : Formula) (h : Ramsey.ptn (N : Int) = .ok F) : F.nvars = N ∧ F.WF := by
  rw [ptn_eq] at h; cases h; exact ⟨rfl, ptn_wf N⟩

/-- exactly the documented axioms: the two clauses of every triple, nothing else -/
theorem ptn_exact_axioms (N : Nat) (F : Formula) (h : Ramsey.ptn (N : Int) = .ok F) (con : Con) :
    con ∈ F.cons ↔ ∃ x y z : Nat, IsTriple N x y z ∧
      (con = Con.clause [(x : Int), (y : Int), (z : Int)] ∨
       con = Con.clause [-(x : Int), -(y : Int), -(z : Int)]) := by
  rw [ptn_eq] at h; cases h
  simpa [IsTriple, and_assoc] using mem_ptnCons N con

/-- satisfying assignments = triple-free colourings (the assignment of `1..N` is the colouring) -/
theorem ptn_holds_iff (N : Nat) (F : Formula) (h : Ramsey.ptn (N : Int) = .ok F) (α : Assign) :
    F.holds α = true ↔ TripleFree N α := by
  rw [ptn_eq] at h; cases h
  rw [FamRamsey.ptn_holds_iff]
  simp only [TripleFree, IsTriple]
  constructor
  · rintro h x y z ⟨h1, h2, h3, h4, h5⟩; exact h x y z h1 h2 h3 h4 h5
  · intro h x y z h1 h2 h3 h4 h5; exact h x y z ⟨h1, h2, h3, h4, h5⟩

theorem ptn_rendered (N : Nat) (F : Formula) (h : Ramsey.ptn (N : Int) = .ok F) (α : Assign) :
    (F.toCNF.holds α = true ↔ TripleFree N α) ∧ (F.toOPB.holds α = true ↔ TripleFree N α) := by
  have hwf := (ptn_nvars_wf N F h).2
  rw [Formula.toCNF_holds α F hwf, Formula.toOPB_holds α F hwf]
  exact ⟨ptn_holds_iff N F h α, ptn_holds_iff N F h α⟩

/-- non-vacuity: `(3,4,5)` is a triple for `N = 5`, and a colouring separating 3 from 4 satisfies the
model formula -/
example : IsTriple 5 3 4 5 := ⟨by decide, by decide, by decide, by decide, by decide⟩
example : ∃ F, Ramsey.ptn ((5 : Nat) : Int) = .ok F := ⟨_, ptn_accepts 5⟩
example : TripleFree 5 (fun i => decide (i = 3)) ∧ ¬ TripleFree 5 (fun _ => true) := by
  constructor
  · rintro x y z ⟨h1, h2, h3, h4, h5⟩
    have hz : z ≤ 5 := h4
    have hy : y ≤ 4 := by omega
    have hx : x ≤ 3 := by omega
    interval_cases z <;> interval_cases y <;> interval_cases x <;> simp_all
  · intro h
    exact h 3 4 5 ⟨by decide, by decide, by decide, by decide, by decide⟩ ⟨rfl, rfl⟩

/-! ## Ramsey number (`RamseyNumber(s, k, N)`): `s` = independent-set size, `k` = clique size -/

/-- a set of vertices of `1..N`, as a strictly increasing list -/
def VertexSet (N : Nat) (S : List Nat) : Prop := S.Pairwise (· < ·) ∧ ∀ x ∈ S, 1 ≤ x ∧ x ≤ N

/-- adjacency in the graph encoded by `α`: the variable of the pair `{u,v}` (`u < v`) is true -/
def Adj (N : Nat) (α : Assign) (u v : Nat) : Prop := α (Ramsey.eId N (min u v) (max u v)) = true

/-- no independent set of size `s`: every `s`-set of vertices contains an edge -/
def NoIndepSet (N s : Nat) (α : Assign) : Prop :=
  ∀ S, VertexSet N S → S.length = s → ∃ u ∈ S, ∃ v ∈ S, u < v ∧ Adj N α u v
/-- no clique of size `k`: every `k`-set of vertices contains a non-edge -/
def NoClique (N k : Nat) (α : Assign) : Prop :=
  ∀ S, VertexSet N S → S.length = k → ∃ u ∈ S, ∃ v ∈ S, u < v ∧ ¬ Adj N α u v

theorem ramsey_accepts (s k N : Nat) (hs : 1 ≤ s) (hk : 1 ≤ k) :
    Ramsey.ramseyNumber (s : Int) (k : Int) (N : Int) =
      .ok ⟨(Vars.combosSeqs N 2).length, Ramsey.ramseyCons s k N⟩ := ramsey_eq s k N hs hk

theorem ramsey_rejects (s k N : Int) (h : N < 0 ∨ s < 1 ∨ k < 1) :
    Ramsey.ramseyNumber s k N = .error .valueError := ramsey_err s k N h

/-- documented variable count `N(N-1)/2` (one per pair) and well-formedness -/
theorem ramsey_nvars_wf (s k N : Nat) (hs : 1 ≤ s) (hk : 1 ≤ k) (F : Formula)
    (h : Ramsey.ramseyNumber (s : Int) (k : Int) (N : Int) = .ok F) :
    F.nvars = N * (N - 1) / 2 ∧ F.WF := by
  rw [ramsey_eq s k N hs hk] at h; cases h
  refine ⟨?_, ramsey_wf s k N⟩
  have := two_mul_length_pairs N
  show (Vars.combosSeqs N 2).length = _
  omega

theorem ramsey_holds_iff (s k N : Nat) (hs : 1 ≤ s) (hk : 1 ≤ k) (F : Formula)
    (h : Ramsey.ramseyNumber (s : Int) (k : Int) (N : Int) = .ok F) (α : Assign) :
    F.holds α = true ↔ NoIndepSet N s α ∧ NoClique N k α := by
  rw [ramsey_eq s k N hs hk] at h; cases h
  rw [FamRamsey.ramsey_holds_iff]
  simp only [NoIndepSet, NoClique, VertexSet, Adj]
  constructor
  · rintro ⟨h1, h2⟩
    constructor
    · intro S hS hl
      obtain ⟨u, hu, v, hv, huv, hα⟩ := h1 S hS hl
      exact ⟨u, hu, v, hv, huv, by rwa [Nat.min_eq_left (by omega), Nat.max_eq_right (by omega)]⟩
    · intro S hS hl
      obtain ⟨u, hu, v, hv, huv, hα⟩ := h2 S hS hl
      exact ⟨u, hu, v, hv, huv, by rw [Nat.min_eq_left (by omega), Nat.max_eq_right (by omega)]; simp [hα]⟩
  · rintro ⟨h1, h2⟩
    constructor
    · intro S hS hl
      obtain ⟨u, hu, v, hv, huv, hα⟩ := h1 S hS hl
      exact ⟨u, hu, v, hv, huv, by rwa [Nat.min_eq_left (by omega), Nat.max_eq_right (by omega)] at hα⟩
    · intro S hS hl
      obtain ⟨u, hu, v, hv, huv, hα⟩ := h2 S hS hl
      refine ⟨u, hu, v, hv, huv, ?_⟩
      rw [Nat.min_eq_left (by omega), Nat.max_eq_right (by omega)] at hα
      simpa using hα

theorem ramsey_rendered (s k N : Nat) (hs : 1 ≤ s) (hk : 1 ≤ k) (F : Formula)
    (h : Ramsey.ramseyNumber (s : Int) (k : Int) (N : Int) = .ok F) (α : Assign) :
    (F.toCNF.holds α = true ↔ NoIndepSet N s α ∧ NoClique N k α) ∧
    (F.toOPB.holds α = true ↔ NoIndepSet N s α ∧ NoClique N k α) := by
  have hwf := (ramsey_nvars_wf s k N hs hk F h).2
  rw [Formula.toCNF_holds α F hwf, Formula.toOPB_holds α F hwf]
  exact ⟨ramsey_holds_iff s k N hs hk F h α, ramsey_holds_iff s k N hs hk F h α⟩

/-- the same with vertex sets as finite sets: the formula holds iff every `s`-element set of vertices of
`1..N` spans an edge and every `k`-element set spans a non-edge of the graph `{uv | α e_uv}` -/
theorem ramsey_holds_iff_finset (s k N : Nat) (hs : 1 ≤ s) (hk : 1 ≤ k) (F : Formula)
    (h : Ramsey.ramseyNumber (s : Int) (k : Int) (N : Int) = .ok F) (α : Assign) :
    F.holds α = true ↔
      (∀ S : Finset Nat, (∀ x ∈ S, 1 ≤ x ∧ x ≤ N) → S.card = s → ∃ u ∈ S, ∃ v ∈ S, u ≠ v ∧ Adj N α u v) ∧
      (∀ S : Finset Nat, (∀ x ∈ S, 1 ≤ x ∧ x ≤ N) → S.card = k → ∃ u ∈ S, ∃ v ∈ S, u ≠ v ∧ ¬ Adj N α u v) := by
  rw [ramsey_holds_iff s k N hs hk F h α]
  have hsym : ∀ u v, Adj N α u v → Adj N α v u := by
    intro u v; simp only [Adj, Nat.min_comm, Nat.max_comm]; exact id
  have hsym' : ∀ u v, ¬ Adj N α u v → ¬ Adj N α v u := fun u v hn hvu => hn (hsym v u hvu)
  exact and_congr (sorted_lists_iff_finsets N s (Adj N α) hsym)
    (sorted_lists_iff_finsets N k (fun u v => ¬ Adj N α u v) hsym')

/-- one assignment per graph, part 1: every graph on `1..N` is encoded by some assignment -/
theorem ramsey_graph_has_assignment (N : Nat) (E : Nat → Nat → Bool) :
    ∃ α : Assign, ∀ u v, 1 ≤ u → u < v → v ≤ N → α (Ramsey.eId N u v) = E u v := by
  classical
  refine ⟨fun x => decide (∃ u v, (1 ≤ u ∧ u < v ∧ v ≤ N) ∧ Ramsey.eId N u v = x ∧ E u v = true), ?_⟩
  intro u v h1 h2 h3
  rw [Bool.eq_iff_iff]
  simp only [decide_eq_true_eq]
  constructor
  · rintro ⟨u', v', h', he, hE⟩
    obtain ⟨rfl, rfl⟩ := eId_inj h' he
    exact hE
  · intro hE; exact ⟨u, v, ⟨h1, h2, h3⟩, rfl, hE⟩

/-- part 2: two assignments encoding the same graph agree on all `N(N-1)/2` variables;
and (`eId_range`) the variable of a pair is one of them -/
theorem ramsey_assignment_unique (N : Nat) (α β : Assign)
    (h : ∀ u v, 1 ≤ u → u < v → v ≤ N → α (Ramsey.eId N u v) = β (Ramsey.eId N u v)) :
    ∀ x, 1 ≤ x → x ≤ N * (N - 1) / 2 → α x = β x := by
  intro x h1 h2
  have hl := two_mul_length_pairs N
  obtain ⟨u, v, huv, rfl⟩ := eId_surj (N := N) (i := x) h1 (by omega)
  exact h u v huv.1 huv.2.1 huv.2.2

theorem ramsey_var_of_pair (N u v : Nat) (h : 1 ≤ u ∧ u < v ∧ v ≤ N) :
    1 ≤ Ramsey.eId N u v ∧ Ramsey.eId N u v ≤ N * (N - 1) / 2 := by
  have := eId_range h
  have hl := two_mul_length_pairs N
  omega

/-- non-vacuity (`r(3,3) > 5`): the 5-cycle has neither a triangle nor an independent triple.
Its satisfiability is checked on the executable model. -/
example : ∃ F, Ramsey.ramseyNumber 3 3 5 = .ok F ∧
    F.holds (fun x => [1, 4, 5, 8, 10].contains x) = true := ⟨_, rfl, by decide⟩

/-! ## arithmetic progressions (`_vdw_ap_generator(N, k)`) -/

/-- `ap` is the progression `i, i+d, …, i+(k-1)d` inside `1..N` with gap `d ≥ 1`
(for `k = 1` this is a single number; the gap is immaterial) -/
def IsAP (N k : Nat) (ap : List Nat) : Prop :=
  ∃ i d, 1 ≤ i ∧ 1 ≤ d ∧ i + (k - 1) * d ≤ N ∧ ap = (List.range k).map (fun t => i + d * t)

theorem apGenerator_spec (N k : Nat) (hk : 1 ≤ k) (ap : List Nat) :
    ap ∈ Ramsey.apGenerator N k ↔ IsAP N k ap := mem_apGenerator hk ap

theorem apGenerator_no_repeat (N k : Nat) (hk : 1 ≤ k) : (Ramsey.apGenerator N k).Nodup :=
  apGenerator_nodup hk

/-- length 1: exactly the singletons `[1], …, [N]` -/
theorem apGenerator_one (N : Nat) (ap : List Nat) :
    ap ∈ Ramsey.apGenerator N 1 ↔ ∃ i, 1 ≤ i ∧ i ≤ N ∧ ap = [i] := by
  rw [mem_apGenerator (le_refl 1)]
  constructor
  · rintro ⟨i, d, h1, _, h3, rfl⟩; exact ⟨i, h1, by omega, by simp⟩
  · rintro ⟨i, h1, h2, rfl⟩; exact ⟨i, 1, h1, le_refl _, by omega, by simp⟩

example : IsAP 9 3 [1, 5, 9] := ⟨1, 4, by decide, by decide, by decide, by decide⟩

/-! ## van der Waerden, two colours (`VanDerWaerden(N, k1, k2)`) -/

/-- the colouring `col` has no progression of length `k` inside `1..N` that is entirely of colour `b` -/
def NoMonoAP2 (N k : Nat) (b : Bool) (col : Nat → Bool) : Prop :=
  ∀ ap, IsAP N k ap → ∃ i ∈ ap, col i ≠ b

theorem vdw2_accepts (N k1 k2 : Nat) (h1 : 1 ≤ k1) (h2 : 1 ≤ k2) :
    Ramsey.vdw (N : Int) (k1 : Int) (k2 : Int) [] = .ok ⟨N, Ramsey.vdw2Cons N k1 k2⟩ :=
  vdw2_eq N k1 k2 h1 h2

theorem vdw_rejects (N k1 k2 : Int) (ks : List Int) (h : N < 0 ∨ k1 < 1 ∨ k2 < 1 ∨ ∃ x ∈ ks, x < 1) :
    Ramsey.vdw N k1 k2 ks = .error .valueError := vdw_err N k1 k2 ks h

theorem vdw2_nvars_wf (N k1 k2 : Nat) (h1 : 1 ≤ k1) (h2 : 1 ≤ k2) (F : Formula)
    (h : Ramsey.vdw (N : Int) (k1 : Int) (k2 : Int) [] = .ok F) : F.nvars = N ∧ F.WF := by
  rw [vdw2_eq N k1 k2 h1 h2] at h; cases h; exact ⟨rfl, vdw2_wf N k1 k2 h1 h2⟩

/-- variable `i` is the colour of the number `i` (`false` = first colour, `true` = second colour):
satisfying assignments = colourings without a `k1`-progression of the first colour and without a
`k2`-progression of the second colour; includes progression length 1 -/
theorem vdw2_holds_iff (N k1 k2 : Nat) (h1 : 1 ≤ k1) (h2 : 1 ≤ k2) (F : Formula)
    (h : Ramsey.vdw (N : Int) (k1 : Int) (k2 : Int) [] = .ok F) (α : Assign) :
    F.holds α = true ↔ NoMonoAP2 N k1 false α ∧ NoMonoAP2 N k2 true α := by
  rw [vdw2_eq N k1 k2 h1 h2] at h; cases h
  rw [FamRamsey.vdw2_holds_iff N k1 k2 h1 h2]
  simp only [NoMonoAP2, IsAP]
  constructor
  · rintro ⟨ha, hb⟩
    constructor
    · rintro ap ⟨i, d, hi, hd, hN, rfl⟩
      obtain ⟨t, ht, hα⟩ := ha i d hi hd hN
      exact ⟨_, List.mem_map.2 ⟨t, List.mem_range.2 ht, rfl⟩, by simp [hα]⟩
    · rintro ap ⟨i, d, hi, hd, hN, rfl⟩
      obtain ⟨t, ht, hα⟩ := hb i d hi hd hN
      exact ⟨_, List.mem_map.2 ⟨t, List.mem_range.2 ht, rfl⟩, by simp [hα]⟩
  · rintro ⟨ha, hb⟩
    constructor
    · intro i d hi hd hN
      obtain ⟨x, hx, hα⟩ := ha _ ⟨i, d, hi, hd, hN, rfl⟩
      simp only [List.mem_map, List.mem_range] at hx
      obtain ⟨t, ht, rfl⟩ := hx
      exact ⟨t, ht, by simpa using hα⟩
    · intro i d hi hd hN
      obtain ⟨x, hx, hα⟩ := hb _ ⟨i, d, hi, hd, hN, rfl⟩
      simp only [List.mem_map, List.mem_range] at hx
      obtain ⟨t, ht, rfl⟩ := hx
      exact ⟨t, ht, by simpa using hα⟩

theorem vdw2_rendered (N k1 k2 : Nat) (h1 : 1 ≤ k1) (h2 : 1 ≤ k2) (F : Formula)
    (h : Ramsey.vdw (N : Int) (k1 : Int) (k2 : Int) [] = .ok F) (α : Assign) :
    (F.toCNF.holds α = true ↔ NoMonoAP2 N k1 false α ∧ NoMonoAP2 N k2 true α) ∧
    (F.toOPB.holds α = true ↔ NoMonoAP2 N k1 false α ∧ NoMonoAP2 N k2 true α) := by
  have hwf := (vdw2_nvars_wf N k1 k2 h1 h2 F h).2
  rw [Formula.toCNF_holds α F hwf, Formula.toOPB_holds α F hwf]
  exact ⟨vdw2_holds_iff N k1 k2 h1 h2 F h α, vdw2_holds_iff N k1 k2 h1 h2 F h α⟩

/-- non-vacuity: `vdw(3,3) > 8` — the colouring RRBBRRBB satisfies the model formula -/
example : ∃ F, Ramsey.vdw 8 3 3 [] = .ok F ∧ F.holds (fun x => [3, 4, 7, 8].contains x) = true :=
  ⟨_, rfl, by decide⟩
/-- … and length 1 is meaningful: with `k1 = 1` no number may have the first colour -/
example : ∃ F, Ramsey.vdw 3 1 4 [] = .ok F ∧ F.holds (fun _ => true) = true ∧ F.holds (fun x => decide (x ≠ 2)) = false :=
  ⟨_, rfl, by decide, by decide⟩

/-! ## van der Waerden, `C ≥ 3` colours (`VanDerWaerden(N, k1, k2, *ks)`) -/

/-- `χ` colours `1..N` with the colours `1..C` -/
def Colouring (N C : Nat) (χ : Nat → Nat) : Prop := ∀ i, 1 ≤ i ∧ i ≤ N → 1 ≤ χ i ∧ χ i ≤ C

/-- the assignment `α` encodes the colouring `χ`: `x_{i,c}` is true iff `i` has colour `c` -/
def Encodes (N C : Nat) (α : Assign) (χ : Nat → Nat) : Prop :=
  ∀ i c, 1 ≤ i ∧ i ≤ N → 1 ≤ c ∧ c ≤ C → (α (Ramsey.xId N C i c) = true ↔ χ i = c)

/-- for every colour `c` no progression of length `K[c-1]` inside `1..N` is entirely of colour `c` -/
def NoMonoAP (N : Nat) (K : List Nat) (χ : Nat → Nat) : Prop :=
  ∀ c, 1 ≤ c ∧ c ≤ K.length → ∀ ap, IsAP N (K.getD (c - 1) 0) ap → ∃ i ∈ ap, χ i ≠ c

theorem vdwMulti_accepts (N k1 k2 : Nat) (ks : List Nat) (hne : ks ≠ []) (h1 : 1 ≤ k1) (h2 : 1 ≤ k2)
    (hks : ∀ x ∈ ks, 1 ≤ x) :
    Ramsey.vdw (N : Int) (k1 : Int) (k2 : Int) (ks.map (fun (x : Nat) => (x : Int))) =
      .ok ⟨N * (ks.length + 2), Ramsey.vdwMultiCons N (k1 :: k2 :: ks)⟩ :=
  vdwMulti_eq N k1 k2 ks hne h1 h2 hks

theorem vdwMulti_nvars_wf (N k1 k2 : Nat) (ks : List Nat) (hne : ks ≠ []) (h1 : 1 ≤ k1) (h2 : 1 ≤ k2)
    (hks : ∀ x ∈ ks, 1 ≤ x) (F : Formula)
    (h : Ramsey.vdw (N : Int) (k1 : Int) (k2 : Int) (ks.map (fun (x : Nat) => (x : Int))) = .ok F) :
    F.nvars = N * (ks.length + 2) ∧ F.WF := by
  rw [vdwMulti_eq N k1 k2 ks hne h1 h2 hks] at h; cases h
  refine ⟨rfl, ?_⟩
  have := vdwMulti_wf N (k1 :: k2 :: ks) (by
    intro x hx; simp only [List.mem_cons] at hx
    rcases hx with rfl | rfl | hx
    · exact h1
    · exact h2
    · exact hks x hx)
  simpa using this

/-- satisfying assignments are exactly the encodings of colourings of `1..N` with `C = |K|` colours
that avoid, for every colour `c`, the progressions of length `K[c-1]` -/
theorem vdwMulti_holds_iff (N k1 k2 : Nat) (ks : List Nat) (hne : ks ≠ []) (h1 : 1 ≤ k1) (h2 : 1 ≤ k2)
    (hks : ∀ x ∈ ks, 1 ≤ x) (F : Formula)
    (h : Ramsey.vdw (N : Int) (k1 : Int) (k2 : Int) (ks.map (fun (x : Nat) => (x : Int))) = .ok F)
    (α : Assign) :
    F.holds α = true ↔ ∃ χ, Colouring N (ks.length + 2) χ ∧ Encodes N (ks.length + 2) α χ ∧
      NoMonoAP N (k1 :: k2 :: ks) χ := by
  rw [vdwMulti_eq N k1 k2 ks hne h1 h2 hks] at h; cases h
  have hK : ∀ x ∈ k1 :: k2 :: ks, 1 ≤ x := by
    intro x hx; simp only [List.mem_cons] at hx
    rcases hx with rfl | rfl | hx
    · exact h1
    · exact h2
    · exact hks x hx
  have hlen : (k1 :: k2 :: ks).length = ks.length + 2 := by simp
  have key := FamRamsey.vdwMulti_holds_iff N (k1 :: k2 :: ks) hK α
  rw [hlen] at key
  rw [key]
  simp only [Colouring, Encodes, NoMonoAP, IsAP, hlen]
  constructor
  · rintro ⟨ha, hb⟩
    choose! χ hχ using ha
    refine ⟨χ, fun i hi => (hχ i hi).1.1, ?_, ?_⟩
    · intro i c hi hc
      constructor
      · intro hα; exact ((hχ i hi).2 c hc hα).symm
      · rintro rfl; exact (hχ i hi).1.2
    · rintro c hc ap ⟨i, d, hi, hd, hN, rfl⟩
      obtain ⟨t, ht, hα⟩ := hb c hc i d hi hd hN
      refine ⟨_, List.mem_map.2 ⟨t, List.mem_range.2 ht, rfl⟩, ?_⟩
      intro hcol
      have hin := ap_elems hi hN _ (List.mem_map.2 ⟨t, List.mem_range.2 ht, rfl⟩)
      have := (hχ (i + d * t) hin).1.2
      rw [hcol] at this
      rw [this] at hα; exact Bool.noConfusion hα
  · rintro ⟨χ, hcol, henc, hfree⟩
    constructor
    · intro i hi
      refine ⟨χ i, ⟨hcol i hi, (henc i (χ i) hi (hcol i hi)).2 rfl⟩, ?_⟩
      intro c' hc' hα
      exact ((henc i c' hi hc').1 hα).symm
    · intro c hc i d hi hd hN
      obtain ⟨x, hx, hne'⟩ := hfree c hc _ ⟨i, d, hi, hd, hN, rfl⟩
      simp only [List.mem_map, List.mem_range] at hx
      obtain ⟨t, ht, rfl⟩ := hx
      refine ⟨t, ht, ?_⟩
      have hin := ap_elems hi hN _ (List.mem_map.2 ⟨t, List.mem_range.2 ht, rfl⟩)
      by_contra hα
      have hα' : α (Ramsey.xId N (ks.length + 2) (i + d * t) c) = true := by simpa using hα
      exact hne' ((henc _ c hin hc).1 hα')

theorem vdwMulti_rendered (N k1 k2 : Nat) (ks : List Nat) (hne : ks ≠ []) (h1 : 1 ≤ k1) (h2 : 1 ≤ k2)
    (hks : ∀ x ∈ ks, 1 ≤ x) (F : Formula)
    (h : Ramsey.vdw (N : Int) (k1 : Int) (k2 : Int) (ks.map (fun (x : Nat) => (x : Int))) = .ok F)
    (α : Assign) :
    F.toCNF.holds α = F.holds α ∧ F.toOPB.holds α = F.holds α := by
  have hwf := (vdwMulti_nvars_wf N k1 k2 ks hne h1 h2 hks F h).2
  exact ⟨Formula.toCNF_holds α F hwf, Formula.toOPB_holds α F hwf⟩

/-- one assignment per colouring, part 1: every colouring has an encoding -/
theorem colouring_has_assignment (N C : Nat) (χ : Nat → Nat) : ∃ α, Encodes N C α χ := by
  classical
  refine ⟨fun x => decide (∃ i c, (1 ≤ i ∧ i ≤ N) ∧ (1 ≤ c ∧ c ≤ C) ∧ Ramsey.xId N C i c = x ∧ χ i = c), ?_⟩
  intro i c hi hc
  simp only [decide_eq_true_eq]
  constructor
  · rintro ⟨i', c', hi', hc', he, hχ⟩
    obtain ⟨rfl, rfl⟩ := xId_inj hc' hc hi'.1 hi.1 he
    exact hχ
  · intro h; exact ⟨i, c, hi, hc, rfl, h⟩

/-- part 2: two encodings of the same colouring agree on all `N·C` variables -/
theorem encoding_unique (N C : Nat) (α β : Assign) (χ : Nat → Nat)
    (ha : Encodes N C α χ) (hb : Encodes N C β χ) : ∀ x, 1 ≤ x → x ≤ N * C → α x = β x := by
  intro x h1 h2
  obtain ⟨i, c, hi, hc, rfl⟩ := xId_surj h1 h2
  rw [Bool.eq_iff_iff, ha i c hi hc, hb i c hi hc]

/-- part 3: an assignment encodes at most one colouring of `1..N` -/
theorem colouring_unique (N C : Nat) (α : Assign) (χ χ' : Nat → Nat) (hc : Colouring N C χ)
    (ha : Encodes N C α χ) (hb : Encodes N C α χ') : ∀ i, 1 ≤ i ∧ i ≤ N → χ i = χ' i := by
  intro i hi
  have := (ha i (χ i) hi (hc i hi)).2 rfl
  exact ((hb i (χ i) hi (hc i hi)).1 this).symm

/-- non-vacuity: `vdw(2,2,2) > 3`; three colours, every number its own colour -/
example : ∃ F, Ramsey.vdw 3 2 2 [2] = .ok F ∧ F.holds (fun x => [1, 5, 9].contains x) = true :=
  ⟨_, rfl, by decide⟩

/-! ## Thapen's CPLS formula (`CPLSFormula(a, b, c)`) -/

/-- the generator accepts `a ≥ 1` levels with `b`, `c` powers of two … -/
theorem cpls_accepts (a p q : Nat) (ha : 1 ≤ a) :
    ∃ F, Cpls.cpls (a : Int) ((2 ^ p : Nat) : Int) ((2 ^ q : Nat) : Int) = .ok F :=
  ⟨_, FamCpls.cpls_ok a p q ha⟩

/-- … and nothing else -/
theorem cpls_accepts_only (a b c : Int) (F : Formula) (h : Cpls.cpls a b c = .ok F) :
    ∃ a' p q : Nat, 1 ≤ a' ∧ a = (a' : Int) ∧ b = ((2 ^ p : Nat) : Int) ∧ c = ((2 ^ q : Nat) : Int) :=
  FamCpls.cpls_accepts a b c F h

/-- every other parameter choice raises `ValueError`; in particular the two `assert`s at the end of
the generator (variable and clause count) never fire -/
theorem cpls_ok_or_valueError (a b c : Int) :
    (∃ F, Cpls.cpls a b c = .ok F) ∨ Cpls.cpls a b c = .error .valueError :=
  FamCpls.cpls_ok_or_valueError a b c

/-- the counts the code asserts, `a·b·c + a·b·log b + b·log c` variables and
`c + (a-1)·b²·c + b·c` clauses, and well-formedness -/
theorem cpls_counts_wf (a p q : Nat) (ha : 1 ≤ a) (F : Formula)
    (h : Cpls.cpls (a : Int) ((2 ^ p : Nat) : Int) ((2 ^ q : Nat) : Int) = .ok F) :
    F.nvars = a * 2 ^ p * 2 ^ q + a * (2 ^ p * p) + 2 ^ p * q ∧
    F.cons.length = 2 ^ q + (a - 1) * 2 ^ p * 2 ^ p * 2 ^ q + 2 ^ p * 2 ^ q ∧ F.WF :=
  ⟨FamCpls.cpls_nvars a p q ha F h, FamCpls.cpls_ncons a p q ha F h, FamCpls.cpls_wf a p q ha F h⟩

/-- exactly the three documented axiom groups (`G i x y` is the variable `G_i(x,y)`; `Vars.forbid s bits x j`
is the clause that is false iff the bits of `f(x)` spell `j`):
1. `¬G_1(1,y)`; 2. `f_i(x) = x' ∧ G_{i+1}(x',y) → G_i(x,y)`; 3. `u(x) = y → G_a(x,y)` -/
theorem cpls_exact_axioms (a p q : Nat) (ha : 1 ≤ a) (F : Formula)
    (h : Cpls.cpls (a : Int) ((2 ^ p : Nat) : Int) ((2 ^ q : Nat) : Int) = .ok F) (con : Con) :
    con ∈ F.cons ↔
      (∃ y, 1 ≤ y ∧ y ≤ 2 ^ q ∧ con = Con.clause [-(Cpls.gId a (2 ^ p) (2 ^ q) 1 1 y : Int)]) ∨
      (∃ i x x' y first, (1 ≤ i ∧ i < a) ∧ (1 ≤ x ∧ x ≤ 2 ^ p) ∧ (1 ≤ x' ∧ x' ≤ 2 ^ p) ∧ (1 ≤ y ∧ y ≤ 2 ^ q) ∧
        Vars.forbid (Cpls.fStart a (2 ^ p) (2 ^ q) i) p x (x' - 1) = .ok first ∧
        con = Con.clause (first ++ [-(Cpls.gId a (2 ^ p) (2 ^ q) (i + 1) x' y : Int),
            (Cpls.gId a (2 ^ p) (2 ^ q) i x y : Int)])) ∨
      (∃ x y first, (1 ≤ x ∧ x ≤ 2 ^ p) ∧ (1 ≤ y ∧ y ≤ 2 ^ q) ∧
        Vars.forbid (Cpls.uStart a (2 ^ p) (2 ^ q)) q x (y - 1) = .ok first ∧
        con = Con.clause (first ++ [(Cpls.gId a (2 ^ p) (2 ^ q) a x y : Int)])) := by
  rw [FamCpls.cpls_mem_iff a p q ha F h]
  have hpow : ∀ (n r : Nat), 1 ≤ r ∧ r ≤ 2 ^ n → r - 1 < 2 ^ n := fun n r hr => by omega
  constructor
  · rintro (h1 | ⟨i, x, x', y, hi, hx, hx', hy, rfl⟩ | ⟨x, y, hx, hy, rfl⟩)
    · exact Or.inl h1
    · exact Or.inr (Or.inl ⟨i, x, x', y, _, hi, hx, hx', hy, FamCpls.forbid_ok _ _ _ _ (hpow p x' hx'), rfl⟩)
    · exact Or.inr (Or.inr ⟨x, y, _, hx, hy, FamCpls.forbid_ok _ _ _ _ (hpow q y hy), rfl⟩)
  · rintro (h1 | ⟨i, x, x', y, first, hi, hx, hx', hy, hf, rfl⟩ | ⟨x, y, first, hx, hy, hf, rfl⟩)
    · exact Or.inl h1
    · rw [FamCpls.forbid_ok _ _ _ _ (hpow p x' hx')] at hf; cases hf
      exact Or.inr (Or.inl ⟨i, x, x', y, hi, hx, hx', hy, rfl⟩)
    · rw [FamCpls.forbid_ok _ _ _ _ (hpow q y hy)] at hf; cases hf
      exact Or.inr (Or.inr ⟨x, y, hx, hy, rfl⟩)

/-- CPLS is a contradiction for every accepted parameter choice: follow `x₁ = 1`, `x_{i+1} = f_i(x_i)`,
take the colour `u(x_a)` and descend with Axiom 2 to `G_1(1, y)`, which Axiom 1 forbids -/
theorem cpls_unsat (a b c : Int) (F : Formula) (h : Cpls.cpls a b c = .ok F) (α : Assign) :
    F.holds α = false ∧ F.toCNF.holds α = false ∧ F.toOPB.holds α = false := by
  obtain ⟨a', p, q, ha, rfl, rfl, rfl⟩ := FamCpls.cpls_accepts a b c F h
  have hwf := FamCpls.cpls_wf a' p q ha F h
  rw [Formula.toCNF_holds α F hwf, Formula.toOPB_holds α F hwf]
  have := FamCpls.cpls_unsat a' p q ha F h α
  exact ⟨this, this, this⟩

/-- non-vacuity: three levels, four nodes, two colours: 52 variables, 74 clauses (as in /repo) -/
example : ∃ F, Cpls.cpls 3 4 2 = .ok F ∧ F.nvars = 52 ∧ F.cons.length = 74 := by
  obtain ⟨F, hF⟩ := cpls_accepts 3 2 1 (by omega)
  have := cpls_counts_wf 3 2 1 (by omega) F hF
  exact ⟨F, hF, by simpa using this.1, by simpa using this.2.1⟩

/-! ## Pitfall formula (`PitfallFormula(v, d, ny, nz, k)`)

The random `d`-regular graph drawn by networkx is the input `g` of the model; the theorems hold for
EVERY graph object `g` (regular or not) with at least one vertex. -/

/-- what every `cnfgen.graphs.Graph` object satisfies: the adjacency lists of the vertices `1..n` are
strictly increasing, stay inside `1..n`, have no loops and are symmetric -/
def GraphOK (g : SimpleG) : Prop :=
  ∀ v, 1 ≤ v → v ≤ g.n →
    (g.nbrs v).Pairwise (· < ·) ∧ ∀ u ∈ g.nbrs v, 1 ≤ u ∧ u ≤ g.n ∧ u ≠ v ∧ v ∈ g.nbrs u

/-- … in particular every graph built by `Graph(n)` + `add_edge` (what `Graph.normalize` does with the
networkx graph, and what the driver does with the graph the harness observed) -/
theorem graph_ok_of_edges (n : Nat) (es : List (Nat × Nat)) (g : SimpleG)
    (h : SimpleG.ofEdges n es = .ok g) : GraphOK g ∧ g.n = n :=
  FamPitfall.ofEdges_ok n es g h

/-- the generator's own parameter check accepts exactly these parameters … -/
theorem pitfall_check_iff (v d ny nz k : Int) :
    Pitfall.check v d ny nz k = .ok () ↔
      1 ≤ v ∧ 1 ≤ d ∧ 1 ≤ ny ∧ 2 ≤ nz ∧ 1 ≤ k ∧ k % 2 = 0 ∧ d < v ∧ v * d % 2 ≠ 1 :=
  FamPitfall.check_iff v d ny nz k

/-- … and answers everything else (odd `k`, `nz < 2`, `d ≥ v`, odd `v·d`, non-positive values) with
`ValueError` -/
theorem pitfall_check_ok_or_valueError (v d ny nz k : Int) :
    Pitfall.check v d ny nz k = .ok () ∨ Pitfall.check v d ny nz k = .error .valueError :=
  FamPitfall.check_ok_or_valueError v d ny nz k

/-- accepted parameters admit a `d`-regular graph on `v` vertices (`d < v`, `v·d` even), i.e. satisfy the
precondition of the third-party generator: no networkx exception can escape (D41, fixed) -/
theorem pitfall_accepted_is_drawable (v d ny nz k : Int) (h : Pitfall.check v d ny nz k = .ok ()) :
    d < v ∧ v * d % 2 = 0 ∧ Pitfall.drawable v d = true := by
  obtain ⟨_, h2, _, _, _, _, h7, h8⟩ := (FamPitfall.check_iff v d ny nz k).1 h
  have h0 : v * d % 2 = 0 := by have := Int.emod_two_eq (v * d); omega
  refine ⟨h7, h0, ?_⟩
  simp only [Pitfall.drawable, decide_eq_true_eq]
  exact ⟨by omega, h7, h0⟩

/-- "parameters for which no `d`-regular graph on `v` vertices exists raise `ValueError`" -/
def UndrawableRaisesValueError : Prop :=
  ∀ v d ny nz k : Int, Pitfall.drawable v d = false → Pitfall.check v d ny nz k = .error .valueError

theorem undrawable_raises_valueError : UndrawableRaisesValueError := by
  intro v d ny nz k h
  rcases FamPitfall.check_ok_or_valueError v d ny nz k with hc | hc
  · have := (pitfall_accepted_is_drawable v d ny nz k hc).2.2
    rw [this] at h; exact Bool.noConfusion h
  · exact hc

example : Pitfall.check 2 2 2 2 2 = .error .valueError ∧ Pitfall.check 4 3 2 2 2 = .ok () := by decide

/-- the template `TseitinFormula(g, [True])` (odd total charge) is unsatisfiable — double counting -/
theorem tseitin_template_unsat (g : SimpleG) (hg : GraphOK g) (hn : 1 ≤ g.n) (β : Assign) :
    (PitfallTseitin.template g).holds β = false :=
  FamPitfall.template_unsat g hg hn β

/-- each hard clause is a template clause renamed into block `j`, followed by `z_{j,1} … z_{j,nz}` … -/
theorem pitfall_hard_part_is_copy (s : Pitfall.Shape) (T : List Clause) (j : Nat) (con : Con) :
    con ∈ Pitfall.hardCopy s T j ↔
      ∃ cl ∈ T, con = Con.clause (cl.map (Pitfall.shiftLit ((s.xStart j : Int) - 1)) ++ s.zs j) :=
  FamPitfall.pitfall_hard_part_is_copy s T j con

/-- … where "renamed" means: the literal over template variable `a` becomes the literal of the same sign
over variable `a + (j-1)·m` (the `j`-th copy of the edge variables); this is the statement that the
defect D29 falsified -/
theorem pitfall_shift_is_renaming (s : Pitfall.Shape) (j : Nat) (α : Assign) (cl : Clause) :
    clauseHolds α (cl.map (Pitfall.shiftLit ((s.xStart j : Int) - 1))) =
      clauseHolds (fun a => α (a + (j - 1) * s.m)) cl := by
  rw [FamPitfall.xStart_off]; exact FamPitfall.shift_holds α _ cl

theorem pitfall_shift_stays_in_block (s : Pitfall.Shape) (j : Nat) (cl : Clause)
    (h : ∀ l ∈ cl, l ≠ 0 ∧ l.natAbs ≤ s.m) :
    ∀ l ∈ cl.map (Pitfall.shiftLit ((s.xStart j : Int) - 1)),
      l ≠ 0 ∧ s.xStart j ≤ l.natAbs ∧ l.natAbs ≤ s.xStart j + s.m - 1 :=
  FamPitfall.shift_vars_in_block s j cl h

/-- the formula consists of exactly the five documented groups, for the copies `j = 1..k`:
hard copies, pitfall gadgets, pipe gadgets, tail gadgets, and Γ -/
theorem pitfall_axiom_groups (ny nz k : Nat) (g : SimpleG) (con : Con) :
    con ∈ (Pitfall.build ny nz k g).cons ↔
      let s : Pitfall.Shape := ⟨g.edges.length, ny, nz, k⟩
      (∃ j, (1 ≤ j ∧ j ≤ k) ∧ con ∈ Pitfall.hardCopy s (PitfallTseitin.template g).clauses j) ∨
      (∃ j, (1 ≤ j ∧ j ≤ k) ∧ con ∈ Pitfall.pitfallGadget s j) ∨
      (∃ j, (1 ≤ j ∧ j ≤ k) ∧ con ∈ Pitfall.pipeGadget s j) ∨
      (∃ j, (1 ≤ j ∧ j ≤ k) ∧ con ∈ Pitfall.tailGadget s j) ∨
      con ∈ Pitfall.gamma s :=
  FamPitfall.mem_build ny nz k g con

/-- pitfall gadget of copy `j`: `y_{j,i1} ∨ y_{j,i2} ∨ ¬p_{j,t}` for `i1 < i2`, every `t` -/
theorem pitfall_gadget_axioms (s : Pitfall.Shape) (j : Nat) (con : Con) :
    con ∈ Pitfall.pitfallGadget s j ↔
      ∃ i1 i2 t, (1 ≤ i1 ∧ i1 < i2 ∧ i2 ≤ s.ny) ∧ (1 ≤ t ∧ t ≤ s.m + s.nz) ∧
        con = Con.clause [(s.yId j i1 : Int), (s.yId j i2 : Int), -(s.pId j t : Int)] :=
  FamPitfall.mem_pitfallGadget s j con

/-- pipe gadget of copy `j`, for every `y_{j,i}`: with `S = X_j ++ Z_j`, clause `t` is
`y ∨ (P_j without its element m+nz-1-t) ∨ S_0 ∨ … ∨ S_{t-1} ∨ ¬S_t`; the last clause omits `z_{j,1}` -/
theorem pipe_gadget_axioms (s : Pitfall.Shape) (j : Nat) (con : Con) :
    con ∈ Pitfall.pipeGadget s j ↔
      ∃ i t, (1 ≤ i ∧ i ≤ s.ny) ∧ t < s.m + s.nz ∧
        con = Con.clause ([(s.yId j i : Int)] ++ (s.ps j).eraseIdx (s.m + s.nz - 1 - t) ++
          (if t + 1 = s.m + s.nz then ((s.xs j ++ s.zs j).take t).eraseIdx s.m
            else (s.xs j ++ s.zs j).take t) ++
          [-((s.xs j ++ s.zs j).getD t 0)]) :=
  FamPitfall.mem_pipeGadget s j con

/-- tail gadget of copy `j`: four clauses per pair `y_{j,i}`, `z_{j,r}` -/
theorem tail_gadget_axioms (s : Pitfall.Shape) (j : Nat) (con : Con) :
    con ∈ Pitfall.tailGadget s j ↔
      ∃ i r, (1 ≤ i ∧ i ≤ s.ny) ∧ (1 ≤ r ∧ r ≤ s.nz) ∧
        (con = Con.clause [-(s.aId j 1 : Int), (s.aId j 3 : Int), -(s.zId j r : Int)] ∨
         con = Con.clause [-(s.aId j 2 : Int), -(s.aId j 3 : Int), -(s.zId j r : Int)] ∨
         con = Con.clause [(s.aId j 1 : Int), -(s.zId j r : Int), -(s.yId j i : Int)] ∨
         con = Con.clause [(s.aId j 2 : Int), -(s.zId j r : Int), -(s.yId j i : Int)]) :=
  FamPitfall.mem_tailGadget s j con

/-- Γ: for odd `i < ny` the clause `⋁_{j=1..k} (¬y_{j,i} ∨ ¬y_{j,i+1})` -/
theorem gamma_axioms (s : Pitfall.Shape) (con : Con) :
    con ∈ Pitfall.gamma s ↔
      ∃ i, (1 ≤ i ∧ i % 2 = 1 ∧ i < s.ny) ∧
        con = Con.clause ((rangeN 1 (s.k + 1)).flatMap
          (fun j => [-(s.yId j i : Int), -(s.yId j (i + 1) : Int)])) :=
  FamPitfall.mem_gamma s con

/-- documented variable count (`k` copies of: `m` edge, `ny` easy, `nz` safety, `m + nz` pitfall and 3 tail
variables, `m` = number of edges of `g`) and well-formedness -/
theorem pitfall_nvars_wf (ny nz k : Nat) (g : SimpleG) (hg : GraphOK g) :
    (Pitfall.build ny nz k g).nvars =
      k * g.edges.length + k * ny + k * nz + k * (g.edges.length + nz) + k * 3 ∧
    (Pitfall.build ny nz k g).WF :=
  ⟨FamPitfall.build_nvars ny nz k g, FamPitfall.build_wf ny nz k g hg⟩

/-- Pitfall is a contradiction for every accepted parameter choice with at least two pitfall variables
(`ny ≥ 2`) and EVERY graph that may have been drawn: the Tseitin copy forces some `z_{1,·}` true, the tail
gadget then forces every `y_{1,·}` false, the pitfall gadget every `p_{1,·}` false, and the pipe gadget
every `z_{1,·}` false.  Also for the clauses of the CNF class and the constraints of the OPB class. -/
theorem pitfall_unsat (v d ny nz k : Int) (g : SimpleG) (hg : GraphOK g) (hn : 1 ≤ g.n)
    (hny : 2 ≤ ny) (F : Formula) (h : Pitfall.pitfall v d ny nz k g = .ok F) (α : Assign) :
    F.holds α = false ∧ F.toCNF.holds α = false ∧ F.toOPB.holds α = false := by
  have hu := FamPitfall.pitfall_unsat v d ny nz k g hg hn hny F h α
  have hwf : F.WF := by
    simp only [Pitfall.pitfall, bind, Except.bind] at h
    split at h
    · cases h
    · simp only [pure, Except.pure, Except.ok.injEq] at h
      subst h; exact FamPitfall.build_wf _ _ _ g hg
  rw [Formula.toCNF_holds α F hwf, Formula.toOPB_holds α F hwf]
  exact ⟨hu, hu, hu⟩

/-- the same without hypothesis on the graph, for graphs given by their edge list -/
theorem pitfall_unsat_of_edges (n : Nat) (es : List (Nat × Nat)) (g : SimpleG)
    (hg : SimpleG.ofEdges n es = .ok g) (hn : 1 ≤ n) (v d ny nz k : Int) (hny : 2 ≤ ny) (F : Formula)
    (h : Pitfall.pitfall v d ny nz k g = .ok F) (α : Assign) :
    F.holds α = false ∧ F.toCNF.holds α = false ∧ F.toOPB.holds α = false := by
  obtain ⟨hok, hgn⟩ := FamPitfall.ofEdges_ok n es g hg
  exact pitfall_unsat v d ny nz k g hok (by omega) hny F h α

/-- "at least two pitfall variables" cannot be dropped: `ny = 1` on the 4-cycle is satisfiable -/
theorem pitfall_one_pitfall_variable_sat :
    ∃ g, SimpleG.ofEdges 4 [(1,2),(2,3),(3,4),(1,4)] = .ok g ∧ GraphOK g ∧
      (Pitfall.build 1 2 2 g).holds (fun n => decide (11 ≤ n ∧ n < 27)) = true :=
  FamPitfall.ny1_sat_example

/-- non-vacuity: `pitfall 4 3 2 2 2` on `K4` (the replay of D29) is accepted and unsatisfiable -/
example : ∃ g F, SimpleG.ofEdges 4 [(1,2),(1,3),(1,4),(2,3),(2,4),(3,4)] = .ok g ∧
    Pitfall.pitfall 4 3 2 2 2 g = .ok F ∧ ∀ α, F.holds α = false :=
  ⟨_, _, rfl, rfl, fun α => (pitfall_unsat_of_edges 4 [(1,2),(1,3),(1,4),(2,3),(2,4),(3,4)] _ rfl (by decide)
    4 3 2 2 2 (by decide) _ rfl α).1⟩

end Cnfgen.C03
