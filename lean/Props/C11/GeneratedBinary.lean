/-
C11 — `BinaryMappingVariables` as TRANSLATED from cnfgen/formula/variables.py (`Generated/Funcs.lean`) is the
hand-written model (`binId`, `binIndex`, `binIndices`, `forbidFull` of `Vars/Groups.lean`, `Vars/Patterns.lean`).
-/
import Lemmas.GenBinary
set_option linter.unusedSimpArgs false
namespace Cnfgen.C11
open Cnfgen Cnfgen.Vars Cnfgen.PyGen Cnfgen.GenVars

/-- the constructor: the two sign checks, then the object the model describes — number of bits `clog2 m`
(`int(ceil(log(m, 2)))`, exact), identifiers `nv + 1 … nv + n·bits`, `flips = product([1, -1], repeat=bits)` -/
theorem gen_binary_init_eq (nv : Nat) (n m : Int) :
    BinaryMappingVariables.init ⟨nv⟩ n m =
      if m < 0 ∨ n < 0 then Except.error Err.valueError else Except.ok (binSelf nv n.toNat m.toNat) := by
  unfold BinaryMappingVariables.init
  by_cases h : m < 0 ∨ n < 0
  · rw [if_pos h, if_pos h]
  · rw [if_neg h, if_neg h]
    have hm : 0 ≤ m := by omega
    have hn : 0 ≤ n := by omega
    simp only [bitlength_eq m hm, Py.ok_bind, foldl_append_singleton, List.nil_append, Int.toNat_natCast, binSelf]
    rw [Int.toNat_of_nonneg hm, Int.toNat_of_nonneg hn]

/-- what the model keeps of a `BinaryMappingVariables` object -/
def binGroup (self : BinaryMappingVariables) (fmt : String) : Group :=
  .binary (self.id_offset + 1).toNat self.domain_size.toNat self.range_size.toNat fmt

/-- the constructor of the source is the constructor of the model (`mkGroup … (.binaryMapping …)`) -/
theorem gen_binary_init_eq_model (nv : Nat) (n m : Int) (label : Option String) :
    (BinaryMappingVariables.init ⟨nv⟩ n m).map (fun self => binGroup self (label.getD "v({},{})")) =
      mkGroup nv (.binaryMapping n m label) := by
  rw [gen_binary_init_eq]
  simp only [mkGroup]
  by_cases h : m < 0 ∨ n < 0
  · have h' : n < 0 ∨ m < 0 := h.symm
    simp [h, h', bind, Except.bind, throw, throwThe, MonadExceptOf.throw]
  · have h' : ¬ (n < 0 ∨ m < 0) := fun x => h x.symm
    rw [if_neg h]
    simp only [h', if_false, bind, Except.bind, Py.map_ok, binGroup, binSelf, pure, Except.pure]
    congr 2

theorem gen_binary_contains_iff (nv n m : Nat) (v : Int) :
    BinaryMappingVariables.contains (binSelf nv n m) v = true ↔
      nv + 1 ≤ v.natAbs ∧ v.natAbs < nv + 1 + n * clog2 m := by
  unfold BinaryMappingVariables.contains Py.Range.contains
  simp only [Bool.and_eq_true, decide_eq_true_iff]
  simp only [binSelf, Py.abs_eq]
  have : ((n : Int) * (clog2 m : Nat)) = ((n * clog2 m : Nat) : Int) := by push_cast; rfl
  rw [this]
  omega

/-- `lit in group` -/
theorem gen_binary_contains_eq_model (nv n m : Nat) (lit : Int) :
    BinaryMappingVariables.contains (binSelf nv n m) lit = (Group.binary (nv + 1) n m "").contains lit := by
  rw [Bool.eq_iff_iff, gen_binary_contains_iff]
  unfold Group.contains
  simp only [Bool.and_eq_true, decide_eq_true_iff]
  rfl

/-- `len(group)` -/
theorem gen_binary_len_eq_model (nv n m : Nat) :
    BinaryMappingVariables.len (binSelf nv n m) = ((Group.binary (nv + 1) n m "").len : Nat) := by
  have h := Py.range_len_nat ((nv : Int) + 1) (n * clog2 m)
  simp only [BinaryMappingVariables.len, binSelf, Group.len]
  rw [← h]; congr 2; push_cast; omega

/-- `_unsafe_index_to_lit((i, b))` is the model's `binId`, on the pairs `indices()` lets through -/
theorem gen_binary_index_to_lit_eq_model (nv n m i b : Nat) (hi : 1 ≤ i) (hb : b < clog2 m) :
    BinaryMappingVariables.index_to_lit (binSelf nv n m) [(i : Int), (b : Int)] =
      Except.ok ((binId (nv + 1) (clog2 m) i b : Nat) : Int) := by
  simp only [BinaryMappingVariables.index_to_lit, Py.unpack2, Py.ok_bind, binSelf, binId]
  congr 1
  have : b ≤ i * clog2 m := by
    calc b ≤ clog2 m := by omega
      _ = 1 * clog2 m := by omega
      _ ≤ i * clog2 m := Nat.mul_le_mul_right _ hi
  push_cast [this]
  omega

/-- `to_index` is the model's `binIndex`: the same pair, the same ValueError, for every literal
(`// bitlength` is never reached with zero bits: the group is then empty) -/
theorem gen_binary_to_index_eq_model (nv n m : Nat) (lit : Int) :
    BinaryMappingVariables.to_index (binSelf nv n m) lit =
      (binIndex (nv + 1) n (clog2 m) lit).map (fun p => ((p.1 : Int), (p.2 : Int))) := by
  simp only [BinaryMappingVariables.to_index, binIndex, Nat.add_sub_cancel]
  by_cases hc : nv + 1 ≤ lit.natAbs ∧ lit.natAbs < nv + 1 + n * clog2 m
  · have hc' := (gen_binary_contains_iff nv n m (Py.abs lit)).2 (by simpa using hc)
    rw [if_neg (by simpa using hc'), if_pos hc]
    have hbits : 0 < clog2 m := by
      rcases Nat.eq_zero_or_pos (clog2 m) with h0 | h0
      · rw [h0] at hc; omega
      · exact h0
    have hvar : (Py.abs lit - (binSelf nv n m).id_offset - 1) = ((lit.natAbs - nv - 1 : Nat) : Int) := by
      simp only [binSelf, Py.abs_eq]; omega
    have hb : (binSelf nv n m).bitlength = ((clog2 m : Nat) : Int) := rfl
    rw [hvar, hb, Py.floordiv_nat _ _ hbits, Py.mod_nat _ _ hbits]
    simp only [Py.ok_bind, Py.map_ok]
    congr 2
    have : (lit.natAbs - nv - 1) % clog2 m < clog2 m := Nat.mod_lt _ hbits
    omega
  · have hc' : ¬ BinaryMappingVariables.contains (binSelf nv n m) (Py.abs lit) = true := by
      rw [gen_binary_contains_iff]; simpa using hc
    rw [if_pos hc', if_neg hc]
    rfl

/-- `indices(*pattern)` is the model's `binIndices`: the same pairs in the same order (`i` ascending, bits from the
most significant), the same ValueError (arity other than 0 / 2, `i` outside `1..n`, bit outside `0..bits-1`) -/
theorem gen_binary_indices_eq_model (nv n m : Nat) (pat : List (Option Int)) :
    BinaryMappingVariables.indices (binSelf nv n m) pat = (binIndices n (clog2 m) pat).map intPairs := by
  have hdom : Py.Range.toList (BinaryMappingVariables.domain (binSelf nv n m)) = ints (rangeN 1 (n + 1)) :=
    range_toList_nat n
  have hds : (binSelf nv n m).domain_size = (n : Int) := rfl
  have hbl : (binSelf nv n m).bitlength = ((clog2 m : Nat) : Int) := rfl
  simp only [BinaryMappingVariables.indices, binIndices, hdom, hds, hbl, rangeStep_down]
  match pat with
  | [] =>
    have h0 : (Py.len ([] : List (Option Int))) ∈ [(0 : Int), 2] := by simp
    simp only [h0, not_true_eq_false, if_false, Py.len_eq, List.length_nil, Int.natCast_zero, if_true, Py.ok_bind,
      flatMap_pairs_ints]
    rfl
  | [a] =>
    have h0 : ¬ (Py.len [a]) ∈ [(0 : Int), 2] := by simp
    simp only [h0, not_false_eq_true, if_true]
    rfl
  | [a, b] =>
    have h0 : (Py.len [a, b]) ∈ [(0 : Int), 2] := by simp
    have h1 : ¬ Py.len [a, b] = 0 := by simp
    have h2 : ¬ ([a, b].length ≠ 0 ∧ [a, b].length ≠ 2) := by simp
    simp only [h0, not_true_eq_false, if_false, h1, h2, Py.index_zero, Py.index_one, Py.ok_bind,
      List.getD_cons_zero, List.getD_cons_succ, bind, Except.bind, pure, Except.pure, throw, throwThe,
      MonadExceptOf.throw]
    cases a with
    | none =>
      cases b with
      | none => simp only [Py.map_ok, flatMap_pairs_ints]
      | some b =>
        by_cases hb : 0 ≤ b ∧ b < ((clog2 m : Nat) : Int)
        · simp only [hb, not_true_eq_false, if_false, and_self, Py.map_ok]
          rw [show [b] = ints [b.toNat] by simp [ints, Int.toNat_of_nonneg hb.1], flatMap_pairs_ints]
        · simp only [hb, not_false_eq_true, if_true, Py.map_error]
    | some a =>
      by_cases ha : 1 ≤ a ∧ a ≤ (n : Int)
      · have ha' : [a] = ints [a.toNat] := by simp [ints, Int.toNat_of_nonneg (by omega : 0 ≤ a)]
        cases b with
        | none =>
          simp only [ha, not_true_eq_false, if_false, and_self, Py.map_ok]
          rw [ha', flatMap_pairs_ints]
        | some b =>
          by_cases hb : 0 ≤ b ∧ b < ((clog2 m : Nat) : Int)
          · simp only [ha, hb, not_true_eq_false, if_false, and_self, Py.map_ok]
            rw [ha', show [b] = ints [b.toNat] by simp [ints, Int.toNat_of_nonneg hb.1], flatMap_pairs_ints]
          · simp only [ha, hb, not_true_eq_false, not_false_eq_true, if_false, if_true, and_self, Py.map_error]
      · cases b <;> simp only [ha, not_false_eq_true, if_true, Py.map_error]
  | a :: b :: c :: r =>
    have h0 : ¬ (Py.len (a :: b :: c :: r)) ∈ [(0 : Int), 2] := by simp; omega
    have h2 : ((a :: b :: c :: r).length ≠ 0 ∧ (a :: b :: c :: r).length ≠ 2) := by simp
    simp only [h0, not_false_eq_true, if_true, h2]
    rfl

/-- every pair `indices` can produce is legal -/
theorem gen_binary_indices_legal {n bits : Nat} {pat : Pattern} {l : List (Nat × Nat)} (h : binIndices n bits pat = .ok l) :
    ∀ p ∈ l, 1 ≤ p.1 ∧ p.2 < bits := by
  by_cases hl : BinLegalPat n bits pat
  · rw [(binIndices_pattern n bits pat).1 hl] at h
    cases h
    intro p hp
    have := mem_binAll.1 (List.mem_of_mem_filter hp)
    exact ⟨this.1.1, this.2⟩
  · rw [(binIndices_pattern n bits pat).2 hl] at h; cases h

theorem gen_binary_ids_of_indices (nv n m : Nat) (l : List (Nat × Nat)) (h : ∀ p ∈ l, 1 ≤ p.1 ∧ p.2 < clog2 m) :
    List.mapM (fun (t : Int × Int) => (BinaryMappingVariables.index_to_lit (binSelf nv n m) [t.1, t.2]) >>=
        fun r => Except.ok r) (intPairs l) =
      Except.ok (ints (l.map (fun p => binId (nv + 1) (clog2 m) p.1 p.2))) := by
  induction l with
  | nil => rfl
  | cons p ps ih =>
    have hp := h p (by simp)
    simp only [intPairs, List.map_cons, List.mapM_cons, gen_binary_index_to_lit_eq_model nv n m p.1 p.2 hp.1 hp.2,
      Py.ok_bind] at ih ⊢
    rw [ih (fun q hq => h q (by simp [hq]))]
    rfl

/-- a scalar-or-iterable result of the model as the `Sum` the translation uses -/
def resSum : Res Nat → Sum Int (List Int)
  | .one a => .inl a
  | .many l => .inr (ints l)

/-- `group(*index)` (`BaseVariableGroup.__call__`, as translated for this class) is the model's `baseCall`:
the identifier for a full index, the identifiers in order for a projection, the same exceptions -/
theorem gen_binary_call_eq_model (nv n m : Nat) (pat : List (Option Int)) :
    BinaryMappingVariables.call (binSelf nv n m) pat =
      ((Group.binary (nv + 1) n m "").baseCall pat).map resSum := by
  simp only [BinaryMappingVariables.call, Group.baseCall, Group.indices, gen_binary_indices_eq_model]
  cases hb : binIndices n (clog2 m) pat with
  | error e => rfl
  | ok l =>
    simp only [Py.map_ok, Py.ok_bind]
    rw [gen_binary_ids_of_indices nv n m l (gen_binary_indices_legal hb)]
    simp only [Py.ok_bind]
    have hproj : (decide (Py.len pat = 0 ∨ none ∈ pat)) = isProjection pat := by
      cases pat with
      | nil => simp [isProjection]
      | cons a r =>
        have : ¬ ((r.length : Int) + 1 = 0) := by omega
        simp [isProjection, this]
    rw [hproj]
    have hids : (pairList l).map (Group.unsafeId (Group.binary (nv + 1) n m "")) =
        l.map (fun p => binId (nv + 1) (clog2 m) p.1 p.2) := by
      simp [pairList, Group.unsafeId, List.map_map, Function.comp_def]
    rw [hids]
    cases isProjection pat with
    | true => simp [resSum]
    | false =>
      cases l with
      | nil => simp [Py.next, ints, throw, throwThe, MonadExceptOf.throw]
      | cons p ps => simp [Py.next, ints, resSum]

/-- `group(i, None)`: the identifiers of the bits of `i`, most significant first -/
theorem gen_binary_call_row (nv n m : Nat) (i : Int) :
    BinaryMappingVariables.call (binSelf nv n m) [some i, none] =
      if 1 ≤ i ∧ i ≤ (n : Int) then
        Except.ok (Sum.inr (ints ((List.range (clog2 m)).map (fun t => binId (nv + 1) (clog2 m) i.toNat (clog2 m - 1 - t)))))
      else Except.error Err.valueError := by
  rw [gen_binary_call_eq_model]
  simp only [Group.baseCall, Group.indices, binIndices, Group.unsafeId]
  have h2 : ¬ ([some i, (none : Option Int)].length ≠ 0 ∧ [some i, (none : Option Int)].length ≠ 2) := by simp
  simp only [h2, if_false, List.getD_cons_zero, List.getD_cons_succ, bind, Except.bind, pure, Except.pure, throw,
    throwThe, MonadExceptOf.throw]
  by_cases hi : 1 ≤ i ∧ i ≤ (n : Int)
  · simp only [hi, and_self, not_true_eq_false, if_false, if_true, Py.map_ok, isProjection, resSum]
    simp [pairList, reverse_range_eq_map, List.map_map, Function.comp_def, resSum, Group.unsafeId]
  · simp only [hi, not_false_eq_true, if_true, if_false, Py.map_error]

/-- **`forbid(i, j)`** as translated — `flips[j]` taken from `product([1,-1], repeat=bits)`, the variables from
`self(i, None)` — is the model's `forbidFull`: the sign of the `t`-th literal is `-` exactly when bit `bits-1-t` of
`j` is set (`flipPattern`, arithmetic), negative `j` are Python indices from the end, the exceptions are the same
and come in the same order (`j` too large → ValueError, `j < -2^bits` → IndexError, then `i` outside `1..n`) -/
theorem gen_binary_forbid_eq_model (nv n m : Nat) (i j : Int) :
    BinaryMappingVariables.forbid (binSelf nv n m) i j = forbidFull (nv + 1) n (clog2 m) i j := by
  have hbl : (binSelf nv n m).bitlength = ((clog2 m : Nat) : Int) := rfl
  have hfl : (binSelf nv n m).flips = productRep [1, -1] (clog2 m) := rfl
  simp only [BinaryMappingVariables.forbid, forbidFull, hbl, hfl, Py.pow, Int.toNat_natCast, flips_index,
    gen_binary_call_row]
  by_cases hj : j ≥ 2 ^ clog2 m
  · rw [if_pos hj, if_pos hj]
  · rw [if_neg hj, if_neg hj]
    cases flipsGet (clog2 m) j with
    | error e => rfl
    | ok signs =>
      simp only [Py.ok_bind, bind, Except.bind]
      by_cases hi : 1 ≤ i ∧ i ≤ (n : Int)
      · simp only [hi, and_self, if_true, not_true_eq_false, if_false]
        congr 1
        simp only [ints, List.map_map]
        exact zip_map_mul _ _ _
      · simp only [hi, if_false, not_false_eq_true, if_true]

/-- whatever the constructor returns is the object the model describes -/
theorem gen_binary_init_ok {nv : Nat} {n m : Int} {self : BinaryMappingVariables}
    (hs : BinaryMappingVariables.init ⟨nv⟩ n m = .ok self) :
    0 ≤ n ∧ 0 ≤ m ∧ self = binSelf nv n.toNat m.toNat := by
  rw [gen_binary_init_eq] at hs
  by_cases h : m < 0 ∨ n < 0
  · rw [if_pos h] at hs; cases hs
  · rw [if_neg h] at hs
    exact ⟨by omega, by omega, (Except.ok.inj hs).symm⟩

/-- **`forbid` on the translated source, no model in the statement**: for the object the (translated) constructor
returns, `1 ≤ i ≤ n` and `0 ≤ j < 2^bits`, `forbid(i, j)` returns a clause of non-zero literals that is falsified
exactly by the assignments under which the bit variables `self(i, b)` spell `j` (`binVal`: bit `b` has weight
`2^b`) — "the unique clause that is false iff `i` is mapped to the bit string of `j`" -/
theorem gen_binary_forbid_spec {nv : Nat} {n m : Int} {self : BinaryMappingVariables}
    (hs : BinaryMappingVariables.init ⟨nv⟩ n m = .ok self) (α : Assign) {i j : Nat}
    (hi : 1 ≤ i ∧ (i : Int) ≤ n) (hj : j < 2 ^ (BinaryMappingVariables.bits self).toNat) :
    ∃ c, BinaryMappingVariables.forbid self i j = .ok c ∧ (∀ l ∈ c, l ≠ 0) ∧
      (clauseHolds α c = false ↔ binVal α (nv + 1) (BinaryMappingVariables.bits self).toNat i = j) := by
  obtain ⟨hn, hm, rfl⟩ := gen_binary_init_ok hs
  have hbits : (BinaryMappingVariables.bits (binSelf nv n.toNat m.toNat)).toNat = clog2 m.toNat := by
    simp [BinaryMappingVariables.bits, binSelf]
  rw [hbits] at hj ⊢
  rw [gen_binary_forbid_eq_model, forbidFull_eq_forbid (n := n.toNat) ⟨hi.1, by omega⟩]
  exact forbid_spec α (by omega) hi.1 hj

/-- non-vacuity: `BinaryMappingVariables(F, 4, 6)` on the empty formula: `forbid(4, 3) = [10, -11, -12]`
(the docstring's example), `to_index(-8) = (3, 1)` -/
example : ((BinaryMappingVariables.init ⟨0⟩ 4 6).toOption.map (BinaryMappingVariables.forbid · 4 3)) =
    some (.ok [10, -11, -12]) := by decide
example : ((BinaryMappingVariables.init ⟨0⟩ 4 6).toOption.map (BinaryMappingVariables.to_index · (-8))) =
    some (.ok (3, 1)) := by decide

end Cnfgen.C11
