/-
C11 — `GraphEdgesVariables` as TRANSLATED from cnfgen/formula/variables.py: the constructor (the auxiliary
`BipartiteGraph` is built by the source's own `has_edge` / `add_edge` loop on the model's graph object — `Vars.graphAux`),
`indices` (with its local generator for one given vertex) and `__call__` are the model's `graphAux`, `graphIndices`,
`Group.graph … |>.baseCall`.
-/
import Props.C11.GeneratedWrap
set_option linter.unusedSimpArgs false
namespace Cnfgen.C11
open Cnfgen Cnfgen.Vars Cnfgen.PyGen Cnfgen.GenVars

theorem min2_nat (a b : Nat) : Py.min2 (a : Int) (b : Int) = ((min a b : Nat) : Int) := by
  simp only [Py.min2]; split <;> omega

theorem max2_nat (a b : Nat) : Py.max2 (a : Int) (b : Int) = ((max a b : Nat) : Int) := by
  simp only [Py.max2]; split <;> omega

theorem min2_int (a b : Int) : Py.min2 a b = min a b := by
  simp only [Py.min2]; split <;> omega

theorem max2_int (a b : Int) : Py.max2 a b = max a b := by
  simp only [Py.max2]; split <;> omega

/-- **the constructor**: the auxiliary graph is the model's `graphAux` (the same loop on the same graph object), then
the inner bipartite group and the range of identifiers -/
theorem gen_graph_init_eq (nv : Nat) (G : SimpleG) (out : Except Err Unit) :
    GraphEdgesVariables.init ⟨nv⟩ (absGraph G) out =
      (graphAux G) >>= fun B =>
      (BipartiteEdgesVariables.init ⟨nv⟩ (absBip B) out) >>= fun bg =>
      Except.ok ⟨bg, ⟨nv⟩, ⟨(nv : Int) + 1, (nv : Int) + ((B.numberOfEdges : Nat) : Int) + 1⟩⟩ := by
  unfold GraphEdgesVariables.init graphAux
  have hn : (absGraph G).number_of_vertices = (G.n : Int) := rfl
  have he : (absGraph G).edges = G.edges.map (fun e => ((e.1 : Int), (e.2 : Int))) := rfl
  have hneg : ¬ ((G.n : Int) < 0 ∨ (G.n : Int) < 0) := by omega
  simp only [hn, he, BipG.initI, hneg, if_false, Py.ok_bind, Int.toNat_natCast, List.foldlM_map]
  congr 1
  · apply Py.foldlM_ext
    intro B e
    simp only [min2_int, max2_int]
    by_cases hh : B.hasEdge (min (e.1 : Int) (e.2 : Int)) (max (e.1 : Int) (e.2 : Int)) = true
    · rw [if_neg (not_not.2 hh), if_pos hh]; rfl
    · rw [if_pos hh, if_neg hh, bind_ok_eq, bind_ok_eq]

/-- on a graph object whose auxiliary graph is `B` (`graphAux_spec`: well formed) -/
theorem gen_graph_init_ok (nv : Nat) {G : SimpleG} {B : BipG} (hB : graphAux G = .ok B) :
    GraphEdgesVariables.init ⟨nv⟩ (absGraph G) (Except.ok ()) = Except.ok (graphSelf nv B) := by
  rw [gen_graph_init_eq, hB, Py.ok_bind, gen_bip_init_eq nv (graphAux_spec hB).1]
  rfl

/-- **`indices(*pattern)`** is the model's `graphIndices`, for every pattern and every auxiliary graph -/
theorem gen_graph_indices_eq_model (nv : Nat) (B : BipG) (pat : List (Option Int)) :
    GraphEdgesVariables.indices (graphSelf nv B) pat = (graphIndices B pat).map intPairs := by
  have hBG : (graphSelf nv B).BG = bipSelf nv B := rfl
  simp only [GraphEdgesVariables.indices, hBG, gen_bip_indices_eq_model]
  match pat with
  | [] => simp [graphIndices, bind_ok_eq]
  | [a] =>
    have h0 : ¬ (Py.len [a]) ∈ [(0 : Int), 2] := by simp
    simp only [h0, not_false_eq_true, if_true]
    cases a <;> rfl
  | [a, b] =>
    have h0 : (Py.len [a, b]) ∈ [(0 : Int), 2] := by simp
    have h1 : ¬ Py.len [a, b] = 0 := by simp
    simp only [h0, not_true_eq_false, if_false, h1, Py.index_zero, Py.index_one, Py.ok_bind]
    cases a with
    | none =>
      cases b with
      | none => simp [graphIndices, bind_ok_eq]
      | some w =>
        simp only [graphIndices]
        cases h1 : bipIndices B [none, some w] with
        | error e => simp [h1, bind, Except.bind, Except.map]
        | ok l1 =>
          cases h2 : bipIndices B [some w, none] with
          | error e => simp [h1, h2, bind, Except.bind, Except.map]
          | ok l2 =>
            simp [h1, h2, bind, Except.bind, Except.map, pure, Except.pure, intPairs, List.map_map, List.filter_map,
              Function.comp_def]
    | some u =>
      cases b with
      | none =>
        simp only [graphIndices]
        cases h1 : bipIndices B [none, some u] with
        | error e => simp [h1, bind, Except.bind, Except.map]
        | ok l1 =>
          cases h2 : bipIndices B [some u, none] with
          | error e => simp [h1, h2, bind, Except.bind, Except.map]
          | ok l2 =>
            simp [h1, h2, bind, Except.bind, Except.map, pure, Except.pure, intPairs, List.map_map, List.filter_map,
              Function.comp_def]
      | some v =>
        have hne : (some u ≠ none) ∧ (some v ≠ none) := ⟨by simp, by simp⟩
        have hn2 : ¬ ((some u = none) ∧ (some v = none)) := by simp
        simp only [graphIndices, if_neg hn2, if_pos hne, Py.unNone, Py.ok_bind, min2_int, max2_int, bind_ok_eq]
  | a :: b :: c :: r =>
    have h0 : ¬ (Py.len (a :: b :: c :: r)) ∈ [(0 : Int), 2] := by simp; omega
    simp only [h0, not_false_eq_true, if_true]
    cases a <;> cases b <;> rfl


/-- every pair `indices` can produce is an edge of the auxiliary graph -/
theorem gen_graph_indices_legal {B : BipG} (h : B.WF) {pat : Pattern} {l : List (Nat × Nat)}
    (hi : graphIndices B pat = .ok l) : ∀ p ∈ l, p ∈ B.edgeset := by
  unfold graphIndices at hi
  split at hi
  · exact gen_bip_indices_legal h hi
  · exact gen_bip_indices_legal h hi
  · exact gen_bip_indices_legal h hi
  all_goals first
    | (cases hi)
    | (rename_i w
       cases h1 : bipIndices B [none, some w] with
       | error e => simp [h1, bind, Except.bind] at hi
       | ok l1 =>
         cases h2 : bipIndices B [some w, none] with
         | error e => simp [h1, h2, bind, Except.bind] at hi
         | ok l2 =>
           simp only [h1, h2, bind, Except.bind, pure, Except.pure, Except.ok.injEq] at hi
           subst hi
           intro p hp
           rcases List.mem_append.1 hp with hp | hp
           · exact gen_bip_indices_legal h h1 p hp
           · exact gen_bip_indices_legal h h2 p (List.mem_filter.1 hp).1)

theorem gen_graph_ids_of_indices (nv : Nat) {B : BipG} (h : B.WF) (hle : ∀ a b, (a, b) ∈ B.edgeset → a ≤ b)
    (l : List (Nat × Nat)) (hl : ∀ p ∈ l, p ∈ B.edgeset) :
    List.mapM (fun (t : Int × Int) => (GraphEdgesVariables.index_to_lit (graphSelf nv B) [t.1, t.2]) >>=
        fun r => Except.ok r) (intPairs l) =
      Except.ok (ints (l.map (fun p => bipId B (nv + 1) (min p.1 p.2) (max p.1 p.2)))) := by
  induction l with
  | nil => rfl
  | cons p ps ih =>
    have hp : (p.1, p.2) ∈ B.edgeset := hl p (by simp)
    have hpl := hle p.1 p.2 hp
    have hp' : (min p.1 p.2, max p.1 p.2) ∈ B.edgeset := by
      rw [Nat.min_eq_left hpl, Nat.max_eq_right hpl]; exact hp
    simp only [intPairs, List.map_cons, List.mapM_cons, gen_graph_index_to_lit_eq_model nv h hp',
      Py.ok_bind] at ih ⊢
    rw [ih (fun q hq => hl q (by simp [hq]))]
    rfl

/-- **`group(*index)`** (`BaseVariableGroup.__call__`, as translated for this class: it goes through the class's own
`indices` and `_unsafe_index_to_lit`) is the model's `baseCall` of the graph group -/
theorem gen_graph_call_eq_model (nv : Nat) {B : BipG} (h : B.WF) (hle : ∀ a b, (a, b) ∈ B.edgeset → a ≤ b)
    (pat : List (Option Int)) :
    GraphEdgesVariables.call (graphSelf nv B) pat =
      ((Group.graph (nv + 1) B "").baseCall pat).map resSum := by
  simp only [GraphEdgesVariables.call, Group.baseCall, Group.indices, gen_graph_indices_eq_model]
  cases hb : graphIndices B pat with
  | error e => rfl
  | ok l =>
    simp only [Py.map_ok, Py.ok_bind]
    rw [gen_graph_ids_of_indices nv h hle l (gen_graph_indices_legal h hb)]
    simp only [Py.ok_bind]
    have hproj : (decide (Py.len pat = 0 ∨ none ∈ pat)) = isProjection pat := by
      cases pat with
      | nil => simp [isProjection]
      | cons a r =>
        have : ¬ ((r.length : Int) + 1 = 0) := by omega
        simp [isProjection, this]
    rw [hproj]
    have hids : (pairList l).map (Group.unsafeId (Group.graph (nv + 1) B "")) =
        l.map (fun p => bipId B (nv + 1) (min p.1 p.2) (max p.1 p.2)) := by
      simp [pairList, Group.unsafeId, List.map_map, Function.comp_def]
    rw [hids]
    cases isProjection pat with
    | true => simp [resSum]
    | false =>
      cases l with
      | nil => simp [Py.next, ints, throw, throwThe, MonadExceptOf.throw]
      | cons p ps => simp [Py.next, ints, resSum]

end Cnfgen.C11
