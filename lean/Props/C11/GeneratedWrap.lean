/-
C11 — the remaining classes of cnfgen/formula/variables.py as TRANSLATED (`Generated/Funcs.lean`) are the hand-written
model:
* `UnaryMappingVariables` (subclass of `BipartiteEdgesVariables`: the translator copies the inherited methods) —
  every method IS the `BipartiteEdgesVariables` method on the same fields (`gen_unary_*_eq_bip`, no hypothesis), hence
  the model's (`gen_unary_*_eq_model`, from `Props/C11/GeneratedBip.lean`); `domain`, `range`;
* `DiGraphEdgesVariables`, `GraphEdgesVariables` (wrappers of an inner `BipartiteEdgesVariables` on the auxiliary
  bipartite graph `B`): `to_index`, `indices`, `_unsafe_index_to_lit` against `Group.toIndex`, `digraphIndices`,
  `Group.unsafeId`;
* `SingletonVariableGroup` against `Group.single`.
-/
import Lemmas.GenWrap
import Props.C11.GeneratedBip
set_option linter.unusedSimpArgs false
namespace Cnfgen.C11
open Cnfgen Cnfgen.Vars Cnfgen.PyGen Cnfgen.GenVars

/-! ## A. `UnaryMappingVariables`

### every translated method is the `BipartiteEdgesVariables` method on the same fields (for all arguments) -/

theorem gen_unary_len_eq_bip (s : UnaryMappingVariables) :
    UnaryMappingVariables.len s = BipartiteEdgesVariables.len (unaryToBip s) := rfl

theorem gen_unary_contains_eq_bip (s : UnaryMappingVariables) (lit : Int) :
    UnaryMappingVariables.contains s lit = BipartiteEdgesVariables.contains (unaryToBip s) lit := rfl

theorem gen_unary_indices_eq_bip (s : UnaryMappingVariables) (pat : List (Option Int)) :
    UnaryMappingVariables.indices s pat = BipartiteEdgesVariables.indices (unaryToBip s) pat := rfl

theorem gen_unary_index_to_lit_eq_bip (s : UnaryMappingVariables) (index : List Int) :
    UnaryMappingVariables.index_to_lit s index = BipartiteEdgesVariables.index_to_lit (unaryToBip s) index := rfl

theorem gen_unary_call_eq_bip (s : UnaryMappingVariables) (index : List (Option Int)) :
    UnaryMappingVariables.call s index = BipartiteEdgesVariables.call (unaryToBip s) index := rfl

theorem gen_unary_to_index_eq_bip (s : UnaryMappingVariables) (lit : Int) :
    UnaryMappingVariables.to_index s lit = BipartiteEdgesVariables.to_index (unaryToBip s) lit := rfl

/-- the constructor (`UnaryMappingVariables.__init__` only calls `BipartiteEdgesVariables.__init__`): the same
outcome — exception or fields — for every formula, every graph interface and every outcome of the label check -/
theorem gen_unary_init_eq_bip (f : AbsFormula) (G : AbsBipGraph) (out : Except Err Unit) :
    (UnaryMappingVariables.init f G out).map unaryToBip = BipartiteEdgesVariables.init f G out := by
  unfold UnaryMappingVariables.init BipartiteEdgesVariables.init
  simp only [map_tryExcept, map_bind, apply_ite (Except.map unaryToBip), Py.map_ok, Py.map_error]
  rfl

/-- … and back: the unary constructor is the bipartite one with the fields relabelled -/
theorem gen_unary_init_eq_bip' (f : AbsFormula) (G : AbsBipGraph) (out : Except Err Unit) :
    UnaryMappingVariables.init f G out = (BipartiteEdgesVariables.init f G out).map bipToUnary := by
  rw [← gen_unary_init_eq_bip, map_map]
  simp only [bipToUnary_unaryToBip, map_id']

/-! ### against the model, on `unarySelf nv G` (the object the constructor builds) -/

/-- the constructor on a well-formed graph -/
theorem gen_unary_init_eq (nv : Nat) {G : BipG} (h : G.WF) (out : Except Err Unit) :
    UnaryMappingVariables.init ⟨nv⟩ (absBip G) out =
      Py.tryExcept out Err.indexError (Except.error Err.valueError) (fun _ => Except.ok (unarySelf nv G)) := by
  rw [gen_unary_init_eq_bip', gen_bip_init_eq nv h, map_tryExcept]
  rfl

/-- whatever the constructor returns is the object the model describes -/
theorem gen_unary_init_ok {nv : Nat} {G : BipG} (h : G.WF) {out : Except Err Unit} {self : UnaryMappingVariables}
    (hs : UnaryMappingVariables.init ⟨nv⟩ (absBip G) out = .ok self) : self = unarySelf nv G := by
  have hb : BipartiteEdgesVariables.init ⟨nv⟩ (absBip G) out = .ok (unaryToBip self) := by
    rw [← gen_unary_init_eq_bip, hs]; rfl
  exact unaryToBip_injective (gen_bip_init_ok h hb)

/-- **the constructor of the source is the constructor of the model** (`new_sparse_mapping`:
`mkGroup … (.sparseMapping G label)`), given the outcome of the label's `format('1', '1')` call -/
theorem gen_unary_init_eq_model (nv : Nat) {G : BipG} (h : G.WF) (label : Option String) :
    (UnaryMappingVariables.init ⟨nv⟩ (absBip G)
        ((pyFormat (label.getD "f({})={}") ["1", "1"]).map (fun _ => ()))).map
      (fun self => Group.bip self.ids.start.toNat G (label.getD "f({})={}") true) =
    mkGroup nv (.sparseMapping G label) := by
  rw [gen_unary_init_eq nv h]
  simp only [mkGroup, checkFormat]
  cases hf : pyFormat (label.getD "f({})={}") ["1", "1"] with
  | error e =>
    cases e <;> simp [Except.map, Py.tryExcept, bind, Except.bind]
  | ok v =>
    have : ((nv : Int) + 1).toNat = nv + 1 := by omega
    simp [Except.map, Py.tryExcept, bind, Except.bind, pure, Except.pure, bipSelf, unarySelf, bipToUnary, this]

theorem gen_unary_contains_eq_model (nv : Nat) (G : BipG) (lit : Int) :
    UnaryMappingVariables.contains (unarySelf nv G) lit = (Group.bip (nv + 1) G "" true).contains lit :=
  gen_bip_contains_eq_model nv G lit

theorem gen_unary_len_eq_model (nv : Nat) (G : BipG) :
    UnaryMappingVariables.len (unarySelf nv G) = ((Group.bip (nv + 1) G "" true).len : Nat) :=
  gen_bip_len_eq_model nv G

/-- `to_index` is the model's `bipIndex` (`Group.toIndex` of the unary group) -/
theorem gen_unary_to_index_eq_model (nv : Nat) {G : BipG} (h : G.WF) (lit : Int) :
    UnaryMappingVariables.to_index (unarySelf nv G) lit =
      (bipIndex G (nv + 1) lit).map (fun p => ((p.1 : Int), (p.2 : Int))) :=
  gen_bip_to_index_eq_model nv h lit

/-- the same, as lists of integers: against `Group.toIndex` -/
theorem gen_unary_to_index_eq_group (nv : Nat) {G : BipG} (h : G.WF) (lit : Int) :
    (UnaryMappingVariables.to_index (unarySelf nv G) lit).map (fun p => [p.1, p.2]) =
      ((Group.bip (nv + 1) G "" true).toIndex lit).map ints := by
  rw [gen_unary_to_index_eq_model nv h]
  simp only [Group.toIndex, map_map]
  rfl

theorem gen_unary_index_to_lit_eq_model (nv : Nat) {G : BipG} (h : G.WF) {u v : Nat} (he : (u, v) ∈ G.edgeset) :
    UnaryMappingVariables.index_to_lit (unarySelf nv G) [(u : Int), (v : Int)] =
      Except.ok ((Group.unsafeId (.bip (nv + 1) G "" true) [u, v] : Nat) : Int) :=
  gen_bip_index_to_lit_eq_model nv h he

theorem gen_unary_indices_eq_model (nv : Nat) (G : BipG) (pat : List (Option Int)) :
    UnaryMappingVariables.indices (unarySelf nv G) pat = (bipIndices G pat).map intPairs :=
  gen_bip_indices_eq_model nv G pat

/-- `group(*index)` is the model's `Group.call` of the unary group -/
theorem gen_unary_call_eq_model (nv : Nat) {G : BipG} (h : G.WF) (pat : List (Option Int)) :
    UnaryMappingVariables.call (unarySelf nv G) pat =
      ((Group.bip (nv + 1) G "" true).call pat).map resSum :=
  gen_bip_call_eq_model nv h pat

/-- `f.domain()`: the left side -/
theorem gen_unary_domain_none (nv : Nat) (G : BipG) :
    UnaryMappingVariables.domain (unarySelf nv G) none = Except.ok (ints (List.range' 1 G.l)) := by
  simp only [UnaryMappingVariables.domain]
  exact congrArg Except.ok (range_toList_nat' G.l)

/-- `f.domain(v)`: `G.left_neighbors(v)` (ValueError outside `1..r`) -/
theorem gen_unary_domain_some (nv : Nat) (G : BipG) (v : Int) :
    UnaryMappingVariables.domain (unarySelf nv G) (some v) = (G.leftNeighbors v).map ints := by
  simp only [UnaryMappingVariables.domain]
  exact bind_ok_eq _

/-- `f.range()`: the right side -/
theorem gen_unary_range_none (nv : Nat) (G : BipG) :
    UnaryMappingVariables.range (unarySelf nv G) none = Except.ok (ints (List.range' 1 G.r)) := by
  simp only [UnaryMappingVariables.range]
  exact congrArg Except.ok (range_toList_nat' G.r)

/-- `f.range(u)`: `G.right_neighbors(u)` (ValueError outside `1..l`) -/
theorem gen_unary_range_some (nv : Nat) (G : BipG) (u : Int) :
    UnaryMappingVariables.range (unarySelf nv G) (some u) = (G.rightNeighbors u).map ints := by
  simp only [UnaryMappingVariables.range]
  exact bind_ok_eq _

/-- on a left vertex, `f.range(u)` is the row the identifiers of `f(u, None)` are taken from -/
theorem gen_unary_range_row (nv : Nat) (G : BipG) {u : Nat} (hu : 1 ≤ u ∧ u ≤ G.l) :
    UnaryMappingVariables.range (unarySelf nv G) (some (u : Int)) = Except.ok (ints (G.rnbrs u)) := by
  simp only [UnaryMappingVariables.range]
  rw [bind_ok_eq]
  exact abs_right_neighbors G hu

/-- **C11 on the translated source, for `UnaryMappingVariables`** (the statement of `gen_bip_bijection` on the
translated methods of this class): for every object the translated constructor returns on a well-formed graph,
`indices()` enumerates pairs with consecutive identifiers from `number_of_variables() + 1`, `len` is their number,
and `to_index` / `_unsafe_index_to_lit` are inverse to each other on them -/
theorem gen_unary_bijection {nv : Nat} {G : BipG} (h : G.WF) {out : Except Err Unit} {self : UnaryMappingVariables}
    (hs : UnaryMappingVariables.init ⟨nv⟩ (absBip G) out = .ok self) :
    ∃ idxs : List (Int × Int), UnaryMappingVariables.indices self [] = .ok idxs ∧
      idxs.mapM (fun t => UnaryMappingVariables.index_to_lit self [t.1, t.2]) =
        .ok ((List.range' (nv + 1) idxs.length).map Int.ofNat) ∧
      UnaryMappingVariables.len self = idxs.length ∧
      (∀ t ∈ idxs, ∃ id, UnaryMappingVariables.index_to_lit self [t.1, t.2] = .ok id ∧
        UnaryMappingVariables.to_index self id = .ok t ∧ UnaryMappingVariables.to_index self (-id) = .ok t) ∧
      (∀ lit t, UnaryMappingVariables.to_index self lit = .ok t →
        t ∈ idxs ∧ UnaryMappingVariables.index_to_lit self [t.1, t.2] = .ok (Py.abs lit)) := by
  have hb : BipartiteEdgesVariables.init ⟨nv⟩ (absBip G) out = .ok (unaryToBip self) := by
    rw [← gen_unary_init_eq_bip, hs]; rfl
  exact gen_bip_bijection h hb

example : (UnaryMappingVariables.init ⟨4⟩ (absBip gen_bip_example_graph) (.ok ())).toOption.map
    (UnaryMappingVariables.call · [some 2, none]) = some (.ok (.inr [6, 7])) := by decide
example : UnaryMappingVariables.domain (unarySelf 4 gen_bip_example_graph) (some 2) = .ok [2] := by decide
example : UnaryMappingVariables.range (unarySelf 4 gen_bip_example_graph) (some 2) = .ok [1, 2] := by decide
example : UnaryMappingVariables.range (unarySelf 4 gen_bip_example_graph) (some 3) = .error .valueError := by decide
example : UnaryMappingVariables.domain (unarySelf 4 gen_bip_example_graph) none = .ok [1, 2] := by decide

/-! ## C. `DiGraphEdgesVariables`: `self.VG` is the bipartite group on the auxiliary graph `B` (`digraphAux`: the edge
`(u, v)` of `D` is the edge `(u, v)` of `B` for `sortby='pred'`, `(v, u)` for `sortby='succ'`) -/

/-- `to_index`: the pair of the inner group, swapped for `sortby='succ'` — the same exceptions -/
theorem gen_digraph_to_index_eq_model (nv : Nat) {B : BipG} (h : B.WF) (succ : Bool) (lit : Int) :
    DiGraphEdgesVariables.to_index (digraphSelf nv B succ) lit =
      (bipIndex B (nv + 1) lit).map
        (fun p => if succ then ((p.2 : Int), (p.1 : Int)) else ((p.1 : Int), (p.2 : Int))) := by
  unfold DiGraphEdgesVariables.to_index
  have hVG : (digraphSelf nv B succ).VG = bipSelf nv B := rfl
  rw [hVG, gen_bip_to_index_eq_model nv h]
  cases hb : bipIndex B (nv + 1) lit with
  | error e => rfl
  | ok p =>
    cases succ with
    | false =>
      have hs : (digraphSelf nv B false).sortby = "pred" := rfl
      simp only [Py.map_ok, Py.ok_bind, hs, if_true]
      rfl
    | true =>
      have hs : ¬ ((digraphSelf nv B true).sortby = "pred") := digraphSelf_succ nv B
      simp only [Py.map_ok, Py.ok_bind, hs, if_false]
      rfl

/-- the same as lists of integers: the translated `to_index` is `Group.toIndex` of the model's digraph group -/
theorem gen_digraph_to_index_eq_group (nv : Nat) {B : BipG} (h : B.WF) (succ : Bool) (lit : Int) :
    (DiGraphEdgesVariables.to_index (digraphSelf nv B succ) lit).map (fun p => [p.1, p.2]) =
      ((Group.digraph (nv + 1) B succ "").toIndex lit).map ints := by
  rw [gen_digraph_to_index_eq_model nv h]
  simp only [Group.toIndex, map_map]
  cases succ <;> rfl

/-- `indices(*pattern)` is the model's `digraphIndices` (for `sortby='succ'` the pattern is reversed and the pairs are
swapped), for every pattern and every graph value -/
theorem gen_digraph_indices_eq_model (nv : Nat) (B : BipG) (succ : Bool) (pat : List (Option Int)) :
    DiGraphEdgesVariables.indices (digraphSelf nv B succ) pat = (digraphIndices B succ pat).map intPairs := by
  unfold DiGraphEdgesVariables.indices
  have hVG : (digraphSelf nv B succ).VG = bipSelf nv B := rfl
  rw [hVG]
  cases succ with
  | false =>
    have hs : (digraphSelf nv B false).sortby = "pred" := rfl
    rw [if_pos hs, bind_ok_eq, gen_bip_indices_eq_model, digraphIndices_pred]
  | true =>
    have hs : ¬ ((digraphSelf nv B true).sortby = "pred") := digraphSelf_succ nv B
    rw [if_neg hs, gen_bip_indices_eq_model, digraphIndices_succ]
    cases bipIndices B pat.reverse with
    | error e => rfl
    | ok l =>
      simp only [Py.map_ok, Py.ok_bind]
      exact congrArg Except.ok (intPairs_swap l)

/-- … hence `Group.indices` of the model's digraph group, as lists -/
theorem gen_digraph_indices_eq_group (nv : Nat) (B : BipG) (succ : Bool) (pat : List (Option Int)) :
    (DiGraphEdgesVariables.indices (digraphSelf nv B succ) pat).map (·.map (fun p => [p.1, p.2])) =
      ((Group.digraph (nv + 1) B succ "").indices pat).map (·.map ints) := by
  rw [gen_digraph_indices_eq_model]
  simp only [Group.indices, map_map]
  cases digraphIndices B succ pat with
  | error e => rfl
  | ok l =>
    simp only [Py.map_ok]
    congr 1
    simp [intPairs, pairList, ints, List.map_map, Function.comp_def]

/-- `_unsafe_index_to_lit((a, b))` on an arc of the group (an edge of `B` in the group's orientation) is the model's
`Group.unsafeId` -/
theorem gen_digraph_index_to_lit_eq_model (nv : Nat) {B : BipG} (h : B.WF) (succ : Bool) {a b : Nat}
    (he : (if succ then (b, a) else (a, b)) ∈ B.edgeset) :
    DiGraphEdgesVariables.index_to_lit (digraphSelf nv B succ) [(a : Int), (b : Int)] =
      Except.ok ((Group.unsafeId (.digraph (nv + 1) B succ "") [a, b] : Nat) : Int) := by
  unfold DiGraphEdgesVariables.index_to_lit
  have hVG : (digraphSelf nv B succ).VG = bipSelf nv B := rfl
  rw [hVG]
  cases succ with
  | false =>
    have hs : (digraphSelf nv B false).sortby = "pred" := rfl
    rw [if_pos hs, bind_ok_eq, gen_bip_index_to_lit_eq_model nv h he]
    rfl
  | true =>
    have hs : ¬ ((digraphSelf nv B true).sortby = "pred") := digraphSelf_succ nv B
    rw [if_neg hs, bind_ok_eq]
    have hr : List.reverse [(a : Int), (b : Int)] = [(b : Int), (a : Int)] := rfl
    rw [hr, gen_bip_index_to_lit_eq_model nv h he]
    rfl

/-- the two together: `to_index` inverts `_unsafe_index_to_lit` on the arcs of the group -/
theorem gen_digraph_to_index_index_to_lit (nv : Nat) {B : BipG} (h : B.WF) (succ : Bool) {a b : Nat}
    (he : (if succ then (b, a) else (a, b)) ∈ B.edgeset) :
    ∃ id, DiGraphEdgesVariables.index_to_lit (digraphSelf nv B succ) [(a : Int), (b : Int)] = .ok id ∧
      DiGraphEdgesVariables.to_index (digraphSelf nv B succ) id = .ok ((a : Int), (b : Int)) ∧
      DiGraphEdgesVariables.to_index (digraphSelf nv B succ) (-id) = .ok ((a : Int), (b : Int)) := by
  refine ⟨_, gen_digraph_index_to_lit_eq_model nv h succ he, ?_, ?_⟩
  · rw [gen_digraph_to_index_eq_model nv h]
    cases succ with
    | false =>
      have he' : (a, b) ∈ B.edgeset := he
      have hid : Group.unsafeId (.digraph (nv + 1) B false "") [a, b] = bipId B (nv + 1) a b := rfl
      rw [hid, (bipIndex_bipId h (nv + 1) he').1]; rfl
    | true =>
      have he' : (b, a) ∈ B.edgeset := he
      have hid : Group.unsafeId (.digraph (nv + 1) B true "") [a, b] = bipId B (nv + 1) b a := rfl
      rw [hid, (bipIndex_bipId h (nv + 1) he').1]; rfl
  · rw [gen_digraph_to_index_eq_model nv h]
    cases succ with
    | false =>
      have he' : (a, b) ∈ B.edgeset := he
      have hid : Group.unsafeId (.digraph (nv + 1) B false "") [a, b] = bipId B (nv + 1) a b := rfl
      rw [hid, (bipIndex_bipId h (nv + 1) he').2]; rfl
    | true =>
      have he' : (b, a) ∈ B.edgeset := he
      have hid : Group.unsafeId (.digraph (nv + 1) B true "") [a, b] = bipId B (nv + 1) b a := rfl
      rw [hid, (bipIndex_bipId h (nv + 1) he').2]; rfl

/-- the hypotheses are those of the model's constructor: the auxiliary graph of `new_digraph_edges` is well formed -/
theorem gen_digraph_aux_wf {D : DiG} {succ : Bool} {B : BipG} (hB : digraphAux D succ = .ok B) : B.WF :=
  (digraphAux_spec hB).1

/-! the running example `gen_bip_example_graph` (edges `(1,3), (2,1), (2,2)` of `B`) read as `sortby='succ'`:
the arcs are `(3,1), (1,2), (2,2)` -/
example : DiGraphEdgesVariables.indices (digraphSelf 4 gen_bip_example_graph true) [] =
    .ok [(3, 1), (1, 2), (2, 2)] := by decide
example : DiGraphEdgesVariables.indices (digraphSelf 4 gen_bip_example_graph true) [none, some 2] =
    .ok [(1, 2), (2, 2)] := by decide
example : DiGraphEdgesVariables.index_to_lit (digraphSelf 4 gen_bip_example_graph true) [3, 1] = .ok 5 := by decide
example : DiGraphEdgesVariables.to_index (digraphSelf 4 gen_bip_example_graph true) (-6) = .ok (1, 2) := by decide
example : DiGraphEdgesVariables.to_index (digraphSelf 4 gen_bip_example_graph false) (-6) = .ok (2, 1) := by decide
example : (if true then ((1 : Nat), (3 : Nat)) else (3, 1)) ∈ gen_bip_example_graph.edgeset := by decide

/-! ## D. `GraphEdgesVariables`: `self.BG` is the bipartite group on the auxiliary graph `B` (`graphAux`: one edge
`(min, max)` per edge of `G`) -/

/-- `to_index` is the inner group's -/
theorem gen_graph_to_index_eq_model (nv : Nat) {B : BipG} (h : B.WF) (lit : Int) :
    GraphEdgesVariables.to_index (graphSelf nv B) lit =
      (bipIndex B (nv + 1) lit).map (fun p => ((p.1 : Int), (p.2 : Int))) := by
  unfold GraphEdgesVariables.to_index
  have hBG : (graphSelf nv B).BG = bipSelf nv B := rfl
  rw [hBG, bind_ok_eq, gen_bip_to_index_eq_model nv h]

/-- as lists of integers: `Group.toIndex` of the model's graph group -/
theorem gen_graph_to_index_eq_group (nv : Nat) {B : BipG} (h : B.WF) (lit : Int) :
    (GraphEdgesVariables.to_index (graphSelf nv B) lit).map (fun p => [p.1, p.2]) =
      ((Group.graph (nv + 1) B "").toIndex lit).map ints := by
  rw [gen_graph_to_index_eq_model nv h]
  simp only [Group.toIndex, map_map]
  rfl

/-- `_unsafe_index_to_lit((a, b))` sorts the pair first (`sorted`, here: insertion sort on two entries): on an edge
in either orientation it is the model's `Group.unsafeId` -/
theorem gen_graph_index_to_lit_eq_model (nv : Nat) {B : BipG} (h : B.WF) {a b : Nat}
    (he : (min a b, max a b) ∈ B.edgeset) :
    GraphEdgesVariables.index_to_lit (graphSelf nv B) [(a : Int), (b : Int)] =
      Except.ok ((Group.unsafeId (.graph (nv + 1) B "") [a, b] : Nat) : Int) := by
  unfold GraphEdgesVariables.index_to_lit
  have hBG : (graphSelf nv B).BG = bipSelf nv B := rfl
  rw [hBG, bind_ok_eq, sorted_pair_nat, gen_bip_index_to_lit_eq_model nv h he]
  rfl

/-- the identifier does not depend on the orientation of the pair -/
theorem gen_graph_index_to_lit_symm (nv : Nat) (B : BipG) (a b : Int) :
    GraphEdgesVariables.index_to_lit (graphSelf nv B) [a, b] =
      GraphEdgesVariables.index_to_lit (graphSelf nv B) [b, a] := by
  unfold GraphEdgesVariables.index_to_lit
  rw [sorted_pair, sorted_pair]
  by_cases h1 : b < a
  · have h2 : ¬ a < b := by omega
    rw [if_pos h1, if_neg h2]
  · by_cases h2 : a < b
    · rw [if_neg h1, if_pos h2]
    · have : a = b := by omega
      subst this
      rfl

/-- `to_index` inverts `_unsafe_index_to_lit` up to the orientation: it returns the sorted pair -/
theorem gen_graph_to_index_index_to_lit (nv : Nat) {B : BipG} (h : B.WF) {a b : Nat}
    (he : (min a b, max a b) ∈ B.edgeset) :
    ∃ id, GraphEdgesVariables.index_to_lit (graphSelf nv B) [(a : Int), (b : Int)] = .ok id ∧
      GraphEdgesVariables.to_index (graphSelf nv B) id = .ok (((min a b : Nat) : Int), ((max a b : Nat) : Int)) ∧
      GraphEdgesVariables.to_index (graphSelf nv B) (-id) = .ok (((min a b : Nat) : Int), ((max a b : Nat) : Int)) := by
  refine ⟨_, gen_graph_index_to_lit_eq_model nv h he, ?_, ?_⟩
  · rw [gen_graph_to_index_eq_model nv h]
    simp only [Group.unsafeId, List.getD_cons_zero, List.getD_cons_succ]
    rw [(bipIndex_bipId h (nv + 1) he).1]; rfl
  · rw [gen_graph_to_index_eq_model nv h]
    simp only [Group.unsafeId, List.getD_cons_zero, List.getD_cons_succ]
    rw [(bipIndex_bipId h (nv + 1) he).2]; rfl

/-- the hypothesis is that of the model's constructor: the auxiliary graph of `new_graph_edges` is well formed -/
theorem gen_graph_aux_wf {G : SimpleG} {B : BipG} (hB : graphAux G = .ok B) : B.WF := (graphAux_spec hB).1

/-! on the running example graph (edge `(1,3)` of `B`, identifier 5): both orientations of the pair -/
example : GraphEdgesVariables.index_to_lit (graphSelf 4 gen_bip_example_graph) [3, 1] = .ok 5 := by decide
example : GraphEdgesVariables.index_to_lit (graphSelf 4 gen_bip_example_graph) [1, 3] = .ok 5 := by decide
example : GraphEdgesVariables.to_index (graphSelf 4 gen_bip_example_graph) (-5) = .ok (1, 3) := by decide
example : (min 3 1, max 3 1) ∈ gen_bip_example_graph.edgeset := by decide

/-! ## B. `SingletonVariableGroup` against `Group.single` -/

/-- the constructor: one identifier, `number_of_variables() + 1` -/
theorem gen_single_init_eq (nv : Nat) : SingletonVariableGroup.init ⟨nv⟩ = singleSelf nv := by
  unfold SingletonVariableGroup.init singleSelf
  simp only []
  congr 2

/-- the constructor of the model (`new_variable`: `mkGroup … (.variable label)`) starts at the same identifier -/
theorem gen_single_init_eq_model (nv : Nat) (label : Option String) :
    mkGroup nv (.variable label) = .ok (.single (SingletonVariableGroup.init ⟨nv⟩).ids.start.toNat label) := by
  rw [gen_single_init_eq]
  have : ((nv : Int) + 1).toNat = nv + 1 := by omega
  simp only [mkGroup, singleSelf, this]

theorem gen_single_len_eq_model (nv : Nat) (name : Option String) :
    SingletonVariableGroup.len (singleSelf nv) = ((Group.single (nv + 1) name).len : Nat) := by
  have e : (nv : Int) + 2 = (nv : Int) + 1 + ((1 : Nat) : Int) := by omega
  show Py.Range.len ⟨(nv : Int) + 1, (nv : Int) + 2⟩ = _
  rw [e, Py.range_len_nat]
  rfl

theorem gen_single_contains_eq_model (nv : Nat) (name : Option String) (lit : Int) :
    SingletonVariableGroup.contains (singleSelf nv) lit = (Group.single (nv + 1) name).contains lit := by
  rw [Bool.eq_iff_iff]
  unfold SingletonVariableGroup.contains Py.Range.contains Group.contains
  simp only [Bool.and_eq_true, decide_eq_true_iff]
  simp only [singleSelf, Py.abs_eq, Group.start, Group.len]
  omega

/-- `vg[i]` (`self.ids[i]`): the identifier for `i = 0` and `i = -1`, IndexError otherwise -/
theorem gen_single_getitem_eq (nv : Nat) (i : Int) :
    SingletonVariableGroup.getitem (singleSelf nv) i =
      if i = 0 ∨ i = -1 then Except.ok ((nv : Int) + 1) else Except.error Err.indexError := by
  have hlen : Py.Range.len ⟨(nv : Int) + 1, (nv : Int) + 2⟩ = 1 := by
    simp only [Py.Range.len]
    split <;> omega
  simp only [SingletonVariableGroup.getitem, singleSelf, Py.Range.get, hlen]
  by_cases h0 : 0 ≤ i
  · by_cases h1 : i < 1
    · have : i = 0 := by omega
      subst this
      simp
    · have h2 : ¬ (i = 0 ∨ i = -1) := by omega
      simp [h0, h1, h2]
  · by_cases h1 : -i ≤ 1
    · have : i = -1 := by omega
      subst this
      simp
      omega
    · have h2 : ¬ (i = 0 ∨ i = -1) := by omega
      simp [h0, h1, h2]

/-- `x()`: the identifier -/
theorem gen_single_call_eq (nv : Nat) : SingletonVariableGroup.call (singleSelf nv) = Except.ok ((nv : Int) + 1) := by
  simp only [SingletonVariableGroup.call, single_getitem_zero, Py.ok_bind]

/-- … which is `Group.call` of the model on the empty pattern -/
theorem gen_single_call_eq_model (nv : Nat) (name : Option String) :
    (SingletonVariableGroup.call (singleSelf nv)).map Sum.inl = ((Group.single (nv + 1) name).call []).map resSum := by
  rw [gen_single_call_eq]
  simp only [Group.call, List.isEmpty_nil, if_true, Py.map_ok, resSum]
  congr 2

/-- `to_index(lit)`: the empty index for `± id`, ValueError otherwise -/
theorem gen_single_to_index_eq (nv : Nat) (lit : Int) :
    SingletonVariableGroup.to_index (singleSelf nv) lit =
      if lit.natAbs = nv + 1 then Except.ok () else Except.error Err.valueError := by
  simp only [SingletonVariableGroup.to_index, single_getitem_zero, Py.ok_bind]
  by_cases h : lit.natAbs = nv + 1
  · have h' : ¬ (Py.abs lit ≠ (nv : Int) + 1) := by rw [Py.abs_eq]; omega
    rw [if_neg h', if_pos h]
  · have h' : Py.abs lit ≠ (nv : Int) + 1 := by rw [Py.abs_eq]; omega
    rw [if_pos h', if_neg h]

/-- … which is `Group.toIndex` of the model (the index `()` is the empty list) -/
theorem gen_single_to_index_eq_model (nv : Nat) (name : Option String) (lit : Int) :
    (SingletonVariableGroup.to_index (singleSelf nv) lit).map (fun _ => ([] : List Nat)) =
      (Group.single (nv + 1) name).toIndex lit := by
  rw [gen_single_to_index_eq]
  simp only [Group.toIndex]
  by_cases h : lit.natAbs = nv + 1
  · rw [if_pos h, if_neg (by simpa using h)]; rfl
  · rw [if_neg h, if_pos h]; rfl

/-- `indices(*pattern)`: the one empty index, ValueError when a pattern is given -/
theorem gen_single_indices_eq (nv : Nat) (pat : List (Option Int)) :
    SingletonVariableGroup.indices (singleSelf nv) pat =
      if pat = [] then Except.ok [()] else Except.error Err.valueError := by
  unfold SingletonVariableGroup.indices
  cases pat with
  | nil => simp
  | cons a r =>
    have : (Py.len (a :: r)) > 0 := by simp only [Py.len_eq, List.length_cons]; omega
    rw [if_pos this, if_neg (by simp)]

theorem gen_single_indices_eq_model (nv : Nat) (name : Option String) (pat : List (Option Int)) :
    (SingletonVariableGroup.indices (singleSelf nv) pat).map (·.map (fun _ => ([] : List Nat))) =
      (Group.single (nv + 1) name).indices pat := by
  rw [gen_single_indices_eq]
  simp only [Group.indices]
  cases pat with
  | nil => rfl
  | cons a r => rfl

example : SingletonVariableGroup.call (SingletonVariableGroup.init ⟨4⟩) = .ok 5 := by decide
example : SingletonVariableGroup.to_index (SingletonVariableGroup.init ⟨4⟩) (-5) = .ok () := by decide
example : SingletonVariableGroup.to_index (SingletonVariableGroup.init ⟨4⟩) 4 = .error .valueError := by decide
example : SingletonVariableGroup.getitem (SingletonVariableGroup.init ⟨4⟩) 1 = .error .indexError := by decide

end Cnfgen.C11
