/-
C11 — `BipartiteEdgesVariables` as TRANSLATED from cnfgen/formula/variables.py (`Generated/Funcs.lean`) is the
hand-written model (`bipOffsets`, `bipId`, `bipIndex` of `Vars/Groups.lean`, `bipIndices` of `Vars/Patterns.lean`),
on every well-formed bipartite graph (`BipG.WF`, the representation invariant of `BipartiteGraph`; the graph
observers are the model's own, `Vars/GenGlue.lean: absBip`).
-/
import Lemmas.GenBip
import Props.C11.GeneratedBinary
set_option linter.unusedSimpArgs false
namespace Cnfgen.C11
open Cnfgen Cnfgen.Vars Cnfgen.PyGen Cnfgen.GenVars

/-! ### the running example (non-vacuity of the hypothesis `G.WF`): `BipartiteGraph(2, 3)` with the edges
`(2,1), (1,3), (2,2)`; on a formula with 4 variables `offset = [None, 5, 6]` and the identifiers are
`5 ↦ (1,3)`, `6 ↦ (2,1)`, `7 ↦ (2,2)` -/

/-- the value `BipG.ofEdges 2 3 [(2, 1), (1, 3), (2, 2)]` -/
def gen_bip_example_graph : BipG := ⟨2, 3, [[], [3], [1, 2]], [[], [2], [2], [1]], [(2, 2), (1, 3), (2, 1)]⟩

theorem gen_bip_example_ofEdges : BipG.ofEdges 2 3 [(2, 1), (1, 3), (2, 2)] = .ok gen_bip_example_graph := by decide

theorem gen_bip_example_wf : gen_bip_example_graph.WF := (BipG.wf_ofEdges gen_bip_example_ofEdges).1

/-- the object built by the translated constructor on the example (used by the `example`s below) -/
def gen_bip_example_self : Option BipartiteEdgesVariables :=
  (BipartiteEdgesVariables.init ⟨4⟩ (absBip gen_bip_example_graph) (.ok ())).toOption


/-- the constructor, as translated: the `isinstance` test is `True` (the argument is a bipartite graph); the label
check (the outcome `out` of `labelfmt.format(1, 1)` is an input); the loop computes the prefix sums of the right degrees
(`bipOffsets_eq`); the `assert offset[-1] == G.number_of_edges() + startID` holds (`degSum_total`: the degrees add up
to the number of edges on a well-formed graph); `offset.pop()`; then the object the model describes -/
theorem gen_bip_init_eq (nv : Nat) {G : BipG} (h : G.WF) (out : Except Err Unit) :
    BipartiteEdgesVariables.init ⟨nv⟩ (absBip G) out =
      Py.tryExcept out Err.indexError (Except.error Err.valueError) (fun _ => Except.ok (bipSelf nv G)) := by
  unfold BipartiteEdgesVariables.init
  congr 1
  funext _
  have hU : Py.Range.toList (absBip G).parts.1 = ints (rangeN 1 (G.l + 1)) := range_toList_nat G.l
  simp only [hU]
  rw [Py.foldlM_ext _ (fun (offset : List (Option Int)) (u : Int) =>
        ((absBip G).right_degree u) >>= fun d =>
        (Py.index offset (-1)) >>= fun x =>
        (Py.unNone x) >>= fun v => Except.ok (offset ++ [some (v + d)])) (by intro s a; rfl)]
  rw [offsets_loop nv G G.l (Nat.le_refl _), offsets_snoc]
  simp only [Py.ok_bind, Py.index_neg_one, Py.pop_append]
  have hne : (absBip G).number_of_edges = (G.numberOfEdges : Int) := rfl
  have hcond : (some (((nv + 1 + degSum G G.l : Nat)) : Int)) = some ((absBip G).number_of_edges + ((nv : Int) + 1)) := by
    rw [hne, degSum_total h]; congr 1; push_cast; omega
  rw [if_pos hcond]
  rfl

example : gen_bip_example_self.map (·.offset) = some [none, some 5, some 6] := by decide
example : BipartiteEdgesVariables.init ⟨4⟩ (absBip gen_bip_example_graph) (.ok ()) =
    .ok (bipSelf 4 gen_bip_example_graph) := gen_bip_init_eq 4 gen_bip_example_wf (.ok ())

/-- whatever the constructor returns is the object the model describes -/
theorem gen_bip_init_ok {nv : Nat} {G : BipG} (h : G.WF) {out : Except Err Unit} {self : BipartiteEdgesVariables}
    (hs : BipartiteEdgesVariables.init ⟨nv⟩ (absBip G) out = .ok self) : self = bipSelf nv G := by
  rw [gen_bip_init_eq nv h] at hs
  cases out with
  | error e => simp only [Py.tryExcept] at hs; split at hs <;> cases hs
  | ok u => exact (Except.ok.inj hs).symm

/-- **the constructor of the source is the constructor of the model** (`mkGroup … (.bipartite G label)`): given the
outcome of the label's `format('1', '1')` call it fails / succeeds alike and builds the group on the same graph with
the same first identifier -/
theorem gen_bip_init_eq_model (nv : Nat) {G : BipG} (h : G.WF) (label : Option String) :
    (BipartiteEdgesVariables.init ⟨nv⟩ (absBip G)
        ((pyFormat (label.getD "e({},{})") ["1", "1"]).map (fun _ => ()))).map
      (fun self => Group.bip self.ids.start.toNat G (label.getD "e({},{})") false) =
    mkGroup nv (.bipartite G label) := by
  rw [gen_bip_init_eq nv h]
  simp only [mkGroup, checkFormat]
  cases hf : pyFormat (label.getD "e({},{})") ["1", "1"] with
  | error e =>
    cases e <;> simp [Except.map, Py.tryExcept, bind, Except.bind]
  | ok v =>
    have : ((nv : Int) + 1).toNat = nv + 1 := by omega
    simp [Except.map, Py.tryExcept, bind, Except.bind, pure, Except.pure, bipSelf, this]

example : (mkGroup 4 (.bipartite gen_bip_example_graph none)).toOption.map (·.start) = some 5 := by decide

/-- `lit in group`: the identifiers are `start … start + number_of_edges - 1` -/
theorem gen_bip_contains_eq_model (nv : Nat) (G : BipG) (lit : Int) :
    BipartiteEdgesVariables.contains (bipSelf nv G) lit = (Group.bip (nv + 1) G "" false).contains lit := by
  rw [Bool.eq_iff_iff, bip_contains_iff]
  unfold Group.contains
  simp only [Bool.and_eq_true, decide_eq_true_iff]
  rfl

/-- `len(group)` -/
theorem gen_bip_len_eq_model (nv : Nat) (G : BipG) :
    BipartiteEdgesVariables.len (bipSelf nv G) = ((Group.bip (nv + 1) G "" false).len : Nat) := by
  have h := Py.range_len_nat ((nv : Int) + 1) G.numberOfEdges
  simp only [BipartiteEdgesVariables.len, bipSelf, Group.len]
  rw [← h]; congr 2; omega

/-- `_unsafe_index_to_lit((u, v))` is the model's `bipId`, on every edge (what `indices()` lets through):
`offset[u] + right_neighbors(u).index(v)` -/
theorem gen_bip_index_to_lit_eq_model (nv : Nat) {G : BipG} (h : G.WF) {u v : Nat} (he : (u, v) ∈ G.edgeset) :
    BipartiteEdgesVariables.index_to_lit (bipSelf nv G) [(u : Int), (v : Int)] =
      Except.ok ((bipId G (nv + 1) u v : Nat) : Int) := by
  obtain ⟨hid, _, hu1, hu2⟩ := bipId_edge h (nv + 1) he
  have hm : v ∈ G.rnbrs u := (h.mem_row u v).2 he
  have hG : (bipSelf nv G).G = absBip G := rfl
  simp only [BipartiteEdgesVariables.index_to_lit, Py.index_zero, Py.index_one, Py.ok_bind, hG,
    abs_right_neighbors G ⟨hu1, hu2⟩, indexOf_ints hm, offset_index nv G ⟨hu1, hu2⟩, Py.unNone]
  rw [hid]
  push_cast
  rfl

example : ((2 : Nat), (2 : Nat)) ∈ gen_bip_example_graph.edgeset := by decide
example : gen_bip_example_self.map (BipartiteEdgesVariables.index_to_lit · [2, 2]) = some (.ok 7) := by decide

/-- `indices(*pattern)` is the model's `bipIndices`: the same pairs in the same order (the edge iterator, a row, a
column, one edge), the same ValueError (arity other than 0 / 2, a vertex outside its side, a non-edge) — for every
pattern and every graph value (no invariant needed) -/
theorem gen_bip_indices_eq_model (nv : Nat) (G : BipG) (pat : List (Option Int)) :
    BipartiteEdgesVariables.indices (bipSelf nv G) pat = (bipIndices G pat).map intPairs := by
  have hG : (bipSelf nv G).G = absBip G := rfl
  simp only [BipartiteEdgesVariables.indices, hG]
  match pat with
  | [] =>
    simp [bipIndices, absBip, intPairs]
  | [a] =>
    have h0 : ¬ (Py.len [a]) ∈ [(0 : Int), 2] := by simp
    simp only [h0, not_false_eq_true, if_true]
    cases a <;> rfl
  | [a, b] =>
    have h0 : (Py.len [a, b]) ∈ [(0 : Int), 2] := by simp
    have h1 : ¬ Py.len [a, b] = 0 := by simp
    simp only [h0, not_true_eq_false, if_false, h1, Py.index_zero, Py.index_one, Py.ok_bind]
    cases a with
    | none =>
      cases b with
      | none => simp [bipIndices, absBip, intPairs]
      | some v =>
        by_cases hv : 1 ≤ v ∧ v ≤ (G.r : Int)
        · have hv' : ¬ ((G.r : Int) < v) := by omega
          simp [bipIndices, absBip, intPairs, BipG.leftNeighbors, BipG.lnbrs, hv, hv',
            Int.toNat_of_nonneg (by omega : 0 ≤ v), Function.comp_def]
        · simp [bipIndices, absBip, hv]
    | some u =>
      cases b with
      | none =>
        by_cases hu : 1 ≤ u ∧ u ≤ (G.l : Int)
        · have hu' : ¬ ((G.l : Int) < u) := by omega
          simp [bipIndices, absBip, intPairs, BipG.rightNeighbors, BipG.rnbrs, hu, hu', Py.unNone,
            Int.toNat_of_nonneg (by omega : 0 ≤ u), Function.comp_def]
        · simp [bipIndices, absBip, hu, Py.unNone]
      | some v =>
        by_cases hh : G.hasEdge u v = true
        · have := (BipG.hasEdge_iff_mem G u v).1 hh
          simp [bipIndices, absBip, intPairs, hh, Int.toNat_of_nonneg this.1, Int.toNat_of_nonneg this.2.1]
        · simp [bipIndices, absBip, hh]
  | a :: b :: c :: r =>
    have h0 : ¬ (Py.len (a :: b :: c :: r)) ∈ [(0 : Int), 2] := by simp; omega
    simp only [h0, not_false_eq_true, if_true]
    cases a <;> cases b <;> rfl

example : gen_bip_example_self.map (BipartiteEdgesVariables.indices · []) = some (.ok [(1, 3), (2, 1), (2, 2)]) := by
  decide
example : gen_bip_example_self.map (BipartiteEdgesVariables.indices · [none, some 2]) = some (.ok [(2, 2)]) := by decide

/-- every pair `indices` can produce is an edge -/
theorem gen_bip_indices_legal {G : BipG} (h : G.WF) {pat : Pattern} {l : List (Nat × Nat)}
    (hi : bipIndices G pat = .ok l) : ∀ p ∈ l, p ∈ G.edgeset := by
  rintro ⟨a, b⟩ hp
  unfold bipIndices at hi
  split at hi
  · cases hi; exact (BipG.mem_edges h a b).1 hp
  · cases hi; exact (BipG.mem_edges h a b).1 hp
  · split at hi
    · cases hi
    · cases hi
      obtain ⟨v, hv, hvp⟩ := List.mem_map.1 hp
      cases hvp
      exact (h.mem_row _ _).1 hv
  · split at hi
    · cases hi
    · cases hi
      obtain ⟨u, hu, hup⟩ := List.mem_map.1 hp
      cases hup
      exact (h.mem_col _ _).1 hu
  · split at hi
    · cases hi
    · rename_i u v hh
      cases hi
      have := (BipG.hasEdge_iff_mem G u v).1 (Classical.not_not.1 hh)
      cases List.mem_singleton.1 hp
      exact this.2.2
  · cases hi

theorem gen_bip_ids_of_indices (nv : Nat) {G : BipG} (h : G.WF) (l : List (Nat × Nat)) (hl : ∀ p ∈ l, p ∈ G.edgeset) :
    List.mapM (fun (t : Int × Int) => (BipartiteEdgesVariables.index_to_lit (bipSelf nv G) [t.1, t.2]) >>=
        fun r => Except.ok r) (intPairs l) =
      Except.ok (ints (l.map (fun p => bipId G (nv + 1) p.1 p.2))) := by
  induction l with
  | nil => rfl
  | cons p ps ih =>
    have hp : (p.1, p.2) ∈ G.edgeset := hl p (by simp)
    simp only [intPairs, List.map_cons, List.mapM_cons, gen_bip_index_to_lit_eq_model nv h hp,
      Py.ok_bind] at ih ⊢
    rw [ih (fun q hq => hl q (by simp [hq]))]
    rfl

/-- `group(*index)` (`BaseVariableGroup.__call__`, as translated for this class) is the model's `baseCall`:
the identifier for an edge, the identifiers in order for a projection, the same exceptions -/
theorem gen_bip_call_eq_model (nv : Nat) {G : BipG} (h : G.WF) (pat : List (Option Int)) :
    BipartiteEdgesVariables.call (bipSelf nv G) pat =
      ((Group.bip (nv + 1) G "" false).baseCall pat).map resSum := by
  simp only [BipartiteEdgesVariables.call, Group.baseCall, Group.indices, gen_bip_indices_eq_model]
  cases hb : bipIndices G pat with
  | error e => rfl
  | ok l =>
    simp only [Py.map_ok, Py.ok_bind]
    rw [gen_bip_ids_of_indices nv h l (gen_bip_indices_legal h hb)]
    simp only [Py.ok_bind]
    have hproj : (decide (Py.len pat = 0 ∨ none ∈ pat)) = isProjection pat := by
      cases pat with
      | nil => simp [isProjection]
      | cons a r =>
        have : ¬ ((r.length : Int) + 1 = 0) := by omega
        simp [isProjection, this]
    rw [hproj]
    have hids : (pairList l).map (Group.unsafeId (Group.bip (nv + 1) G "" false)) =
        l.map (fun p => bipId G (nv + 1) p.1 p.2) := by
      simp [pairList, Group.unsafeId, List.map_map, Function.comp_def]
    rw [hids]
    cases isProjection pat with
    | true => simp [resSum]
    | false =>
      cases l with
      | nil => simp [Py.next, ints, throw, throwThe, MonadExceptOf.throw]
      | cons p ps => simp [Py.next, ints, resSum]

example : gen_bip_example_self.map (BipartiteEdgesVariables.call · [some 2, none]) = some (.ok (.inr [6, 7])) := by decide
example : gen_bip_example_self.map (BipartiteEdgesVariables.call · [some 1, some 3]) = some (.ok (.inl 5)) := by decide
example : gen_bip_example_self.map (BipartiteEdgesVariables.call · [some 1, some 1]) = some (.error .valueError) := by
  decide

/-- `group(u, v)`: the identifier of the edge, ValueError for a non-edge -/
theorem gen_bip_call_pair (nv : Nat) {G : BipG} (h : G.WF) (u v : Nat) :
    BipartiteEdgesVariables.call (bipSelf nv G) [some (u : Int), some (v : Int)] =
      if G.hasEdge u v = true then Except.ok (Sum.inl ((bipId G (nv + 1) u v : Nat) : Int))
      else Except.error Err.valueError := by
  rw [gen_bip_call_eq_model nv h]
  simp only [Group.baseCall, Group.indices, bipIndices]
  by_cases hh : G.hasEdge u v = true
  · simp [hh, isProjection, pairList, Group.unsafeId, resSum, bind, Except.bind, pure, Except.pure]
  · simp [hh, bind, Except.bind]

/-- `to_index` is the model's `bipIndex`: the same pair, the same exceptions, for every literal.  The binary search
`bisect_right(self.offset, var)` of CPython on `[None, o₁, …]` is the model's linear scan on `[o₁, …]`
(`py_bisectRight_offsets`: the offsets are sorted and `o₁ = start ≤ var`, so `None` is never compared);
`self.offset[u]`, `right_neighbors(u)[vidx]` (IndexError kept), `self(u, v)` (ValueError kept) and the final
`assert` (AssertionError kept) follow the code line by line -/
theorem gen_bip_to_index_eq_model (nv : Nat) {G : BipG} (h : G.WF) (lit : Int) :
    BipartiteEdgesVariables.to_index (bipSelf nv G) lit =
      (bipIndex G (nv + 1) lit).map (fun p => ((p.1 : Int), (p.2 : Int))) := by
  unfold BipartiteEdgesVariables.to_index bipIndex
  simp only []
  rw [← bipOffs_eq]
  by_cases hc : nv + 1 ≤ lit.natAbs ∧ lit.natAbs < nv + 1 + G.numberOfEdges
  · have hc' := (bip_contains_iff nv G (Py.abs lit)).2 (by simpa using hc)
    rw [if_neg (by simpa using hc'), if_pos hc]
    generalize hx : lit.natAbs = x at hc
    have habs : Py.abs lit = (x : Int) := by rw [Py.abs_eq, hx]
    rw [habs]
    -- the graph has a left vertex
    have hl : 0 < G.l := by
      rcases Nat.eq_zero_or_pos G.l with h0 | h0
      · have := degSum_total h
        rw [h0] at this
        simp [degSum] at this
        omega
      · exact h0
    have h0 : ∃ o, (bipOffs nv G)[0]? = some o ∧ o ≤ x :=
      ⟨nv + 1 + degSum G 0, bipOffs_get nv G hl, by simp [degSum]; omega⟩
    rw [bipSelf_offset, py_bisectRight_offsets _ x (bipOffs_sorted nv G) h0, ← bipSelf_offset]
    -- the row `b`
    have hpre := bisectRight_prefix (bipOffs nv G) x
    have hble := bisectRight_le_length (bipOffs nv G) x
    rw [bipOffs_length] at hble
    generalize hb : bisectRight (bipOffs nv G) x = b at hpre hble
    have hb1 : 1 ≤ b := by
      obtain ⟨o, ho, hox⟩ := h0
      rcases Nat.eq_zero_or_pos b with hb0 | hb0
      · exfalso
        subst hb0
        revert hb
        cases hoffs : bipOffs nv G with
        | nil => rw [hoffs] at ho; simp at ho
        | cons y ys =>
          rw [hoffs] at ho
          have : y = o := by simpa using ho
          subst this
          unfold bisectRight
          rw [if_pos hox]; omega
      · exact hb0
    obtain ⟨o, ho, hox⟩ := hpre (b - 1) (by omega)
    rw [bipOffs_get nv G (by omega)] at ho
    have ho' : nv + 1 + degSum G (b - 1) = o := Option.some.inj ho
    subst ho'
    have hgetD : (bipOffs nv G).getD (b - 1) 0 = nv + 1 + degSum G (b - 1) := by
      rw [List.getD_eq_getElem?_getD, bipOffs_get nv G (by omega)]; rfl
    rw [hgetD]
    have hu : (((1 + b : Nat) : Int) - 1) = (b : Int) := by push_cast; omega
    have hG : (bipSelf nv G).G = absBip G := rfl
    simp only [Py.ok_bind, hu, offset_index nv G ⟨hb1, hble⟩, Py.unNone, hG, abs_right_neighbors G ⟨hb1, hble⟩]
    have hvidx : ((x : Int) - ((nv + 1 + degSum G (b - 1) : Nat) : Int)) =
        ((x - (nv + 1 + degSum G (b - 1)) : Nat) : Int) := by omega
    rw [hvidx]
    generalize x - (nv + 1 + degSum G (b - 1)) = k
    cases hk : (G.rnbrs b)[k]? with
    | none =>
      have hlen : (ints (G.rnbrs b)).length ≤ k := by
        simpa [ints] using hk
      rw [Py.index_nat_none _ k hlen]
      rfl
    | some v =>
      have hlen : k < (G.rnbrs b).length := by
        rcases Nat.lt_or_ge k (G.rnbrs b).length with hlt | hge
        · exact hlt
        · rw [List.getElem?_eq_none hge] at hk; cases hk
      have hv : (G.rnbrs b)[k] = v := by
        rw [List.getElem?_eq_getElem hlen] at hk; exact Option.some.inj hk
      rw [Py.index_nat _ k (by simpa [ints] using hlen)]
      have hget : (ints (G.rnbrs b))[k]'(by simpa [ints] using hlen) = (v : Int) := by
        simp [ints, hv]
      simp only [Py.ok_bind, hget, gen_bip_call_pair nv h]
      by_cases hh : G.hasEdge (b : Int) (v : Int) = true
      · simp only [hh, if_true, Py.ok_bind, not_true_eq_false, if_false]
        by_cases hid : bipId G (nv + 1) b v = x
        · rw [if_pos (by rw [hid]), if_neg (by simpa using hid)]
          rfl
        · have : ¬ ((Sum.inl ((bipId G (nv + 1) b v : Nat) : Int) : Sum Int (List Int)) = Sum.inl (x : Int)) := by
            intro hcon
            have := Sum.inl.inj hcon
            omega
          rw [if_neg this, if_pos (by simpa using hid)]
          rfl
      · simp only [hh, if_false, Py.error_bind, not_false_eq_true, if_true]
        rfl
  · have hc' : ¬ BipartiteEdgesVariables.contains (bipSelf nv G) (Py.abs lit) = true := by
      rw [bip_contains_iff]; simpa using hc
    rw [if_pos hc', if_neg hc]
    rfl

example : gen_bip_example_self.map (BipartiteEdgesVariables.to_index · (-7)) = some (.ok (2, 2)) := by decide
example : gen_bip_example_self.map (BipartiteEdgesVariables.to_index · 5) = some (.ok (1, 3)) := by decide
example : gen_bip_example_self.map (BipartiteEdgesVariables.to_index · 8) = some (.error .valueError) := by decide

/-! ### headline statement, on the generated functions alone -/

/-- **C11 on the translated source**: for every object the (translated) constructor returns on a well-formed
bipartite graph —
(1) `indices()` enumerates pairs whose identifiers (`_unsafe_index_to_lit`) are consecutive from
`number_of_variables() + 1`, and `len` is their number,
(2) `to_index(±_unsafe_index_to_lit(t)) = t` for each of them (no TypeError from the `None` in `offset`, no
IndexError, no AssertionError), and
(3) `to_index(lit) = t` implies that `t` is enumerated and `_unsafe_index_to_lit(t) = |lit|`.
The hand-written model appears only through the graph value `G` and its invariant. -/
theorem gen_bip_bijection {nv : Nat} {G : BipG} (h : G.WF) {out : Except Err Unit} {self : BipartiteEdgesVariables}
    (hs : BipartiteEdgesVariables.init ⟨nv⟩ (absBip G) out = .ok self) :
    ∃ idxs : List (Int × Int), BipartiteEdgesVariables.indices self [] = .ok idxs ∧
      idxs.mapM (fun t => BipartiteEdgesVariables.index_to_lit self [t.1, t.2]) =
        .ok ((List.range' (nv + 1) idxs.length).map Int.ofNat) ∧
      BipartiteEdgesVariables.len self = idxs.length ∧
      (∀ t ∈ idxs, ∃ id, BipartiteEdgesVariables.index_to_lit self [t.1, t.2] = .ok id ∧
        BipartiteEdgesVariables.to_index self id = .ok t ∧ BipartiteEdgesVariables.to_index self (-id) = .ok t) ∧
      (∀ lit t, BipartiteEdgesVariables.to_index self lit = .ok t →
        t ∈ idxs ∧ BipartiteEdgesVariables.index_to_lit self [t.1, t.2] = .ok (Py.abs lit)) := by
  rw [gen_bip_init_ok h hs]
  have hlen : (intPairs G.edges).length = G.numberOfEdges := by
    rw [BipG.numberOfEdges_eq_length_edges h]; simp [intPairs]
  refine ⟨intPairs G.edges, ?_, ?_, ?_, ?_, ?_⟩
  · rw [gen_bip_indices_eq_model]; rfl
  · have key := gen_bip_ids_of_indices nv h G.edges
      (by rintro ⟨a, b⟩ hp; exact (BipG.mem_edges h a b).1 hp)
    have hfun : (fun (t : Int × Int) => (BipartiteEdgesVariables.index_to_lit (bipSelf nv G) [t.1, t.2]) >>=
        fun r => Except.ok r) = fun t => BipartiteEdgesVariables.index_to_lit (bipSelf nv G) [t.1, t.2] := by
      funext t
      cases BipartiteEdgesVariables.index_to_lit (bipSelf nv G) [t.1, t.2] <;> rfl
    rw [hfun] at key
    rw [key, bip_ids h, hlen]
  · rw [gen_bip_len_eq_model, hlen]; rfl
  · intro t ht
    obtain ⟨⟨a, b⟩, hab, rfl⟩ := List.mem_map.1 ht
    have he := (BipG.mem_edges h a b).1 hab
    refine ⟨((bipId G (nv + 1) a b : Nat) : Int), gen_bip_index_to_lit_eq_model nv h he, ?_, ?_⟩
    · rw [gen_bip_to_index_eq_model nv h, (bipIndex_bipId h (nv + 1) he).1]; rfl
    · rw [gen_bip_to_index_eq_model nv h, (bipIndex_bipId h (nv + 1) he).2]; rfl
  · intro lit t ht
    rw [gen_bip_to_index_eq_model nv h] at ht
    cases hb : bipIndex G (nv + 1) lit with
    | error e => rw [hb] at ht; cases ht
    | ok p =>
      obtain ⟨u, v⟩ := p
      rw [hb] at ht
      have ht' : (((u : Int), (v : Int)) : Int × Int) = t := Except.ok.inj ht
      obtain ⟨he, hid⟩ := bipId_bipIndex h hb
      subst ht'
      refine ⟨List.mem_map.2 ⟨(u, v), (BipG.mem_edges h u v).2 he, rfl⟩, ?_⟩
      rw [gen_bip_index_to_lit_eq_model nv h he, hid]
      rfl

end Cnfgen.C11
