/-
C11 — `BaseVariableGroup.__call__` as TRANSLATED for `BlockOfVariables` is the model's `Group.baseCall`.
-/
import Props.C11.Generated
import Props.C11.GeneratedBinary
set_option linter.unusedSimpArgs false
namespace Cnfgen.C11
open Cnfgen Cnfgen.Vars Cnfgen.PyGen Cnfgen.GenVars

/-- every tuple `indices(*pattern)` produces is a legal index -/
theorem gen_block_indices_legal {ranges : List Nat} {pat : Pattern} {l : List (List Nat)}
    (h : blockIndices ranges pat = .ok l) : ∀ idx ∈ l, LegalIdx ranges idx := by
  by_cases hp : pat = []
  · subst hp
    rw [blockIndices_nil] at h
    cases h
    exact fun idx hidx => mem_blockAll.1 hidx
  · by_cases hl : LegalPat ranges pat
    · rw [(blockIndices_pattern hp).1 hl] at h
      cases h
      exact fun idx hidx => mem_blockAll.1 (List.mem_of_mem_filter hidx)
    · rw [(blockIndices_pattern hp).2 hl] at h; cases h

/-- `group(*index)`: the identifier for a full legal index, the identifiers in order for a projection, ValueError
for an illegal pattern — the model's `baseCall` (hence `block_call`, `call_projection` of `Props/C11.lean`) -/
theorem gen_block_call_eq_model (nv : Nat) (ranges : List Nat) (pat : List (Option Int)) :
    BlockOfVariables.call (blockSelf nv ranges) pat =
      ((Group.block (nv + 1) ranges "").baseCall pat).map resSum := by
  simp only [BlockOfVariables.call, Group.baseCall, Group.indices, gen_block_indices_eq_model]
  cases hb : blockIndices ranges pat with
  | error e => rfl
  | ok l =>
    simp only [Py.map_ok, Py.ok_bind, bind, Except.bind]
    have hids : List.map (fun z2 => BlockOfVariables.index_to_lit (blockSelf nv ranges) z2) (List.map ints l) =
        ints (l.map (blockId (nv + 1) ranges)) := by
      simp only [ints, List.map_map]
      apply List.map_congr_left
      intro idx hidx
      exact gen_block_index_to_lit_eq_model nv ranges idx (legal_pos (gen_block_indices_legal hb idx hidx))
    rw [hids]
    have hproj : (decide (Py.len pat = 0 ∨ none ∈ pat)) = isProjection pat := by
      cases pat with
      | nil => simp [isProjection]
      | cons a r =>
        have : ¬ ((r.length : Int) + 1 = 0) := by omega
        simp [isProjection, this]
    rw [hproj]
    cases isProjection pat with
    | true => simp [resSum, pure, Except.pure, Group.unsafeId]
    | false =>
      cases l with
      | nil => simp [Py.next, ints, throw, throwThe, MonadExceptOf.throw]
      | cons p ps => simp [Py.next, ints, resSum, pure, Except.pure, Group.unsafeId]

end Cnfgen.C11
