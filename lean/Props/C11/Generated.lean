/-
C11 — the TRANSLATED variable-group functions (`CnfgenModel/Generated/Funcs.lean`, regenerated from
cnfgen/formula/variables.py by tools/py2lean.py on every run) compute what the hand-written model
(`CnfgenModel/Vars/Groups.lean`) computes — for all arguments.  Every theorem of `Props/C11.lean` about the model
therefore speaks about what the source says now; the headline round trips are restated on the generated functions.
-/
import CnfgenModel.Generated.Funcs
import Lemmas.PyRt
import Lemmas.VarsBlock
import CnfgenModel.Vars.Manager
namespace Cnfgen.C11
open Cnfgen Cnfgen.Vars Cnfgen.PyGen

/-- naturals of the model as Python integers -/
abbrev ints (l : List Nat) : List Int := l.map Int.ofNat

/-! ## BlockOfVariables -/

/-- the object `BlockOfVariables(F, ranges)` on a formula with `nv` variables, as the model describes it -/
def blockSelf (nv : Nat) (ranges : List Nat) : BlockOfVariables :=
  { ranges := ints ranges, N := blockSize ranges, weights := ints (weights ranges), offset := (nv : Int) + 1,
    formula := ⟨nv⟩, ids := ⟨(nv : Int) + 1, (nv : Int) + blockSize ranges + 1⟩ }

theorem relative_eq (idx ws : List Nat) (h : ∀ i ∈ idx, 1 ≤ i) :
    Py.sum (List.map (fun (z : Int × Int) => (z.1 - 1) * z.2) (List.zip (ints idx) (ints ws))) =
      (((idx.zip ws).map (fun p => (p.1 - 1) * p.2)).foldl (· + ·) 0 : Nat) := by
  induction idx generalizing ws with
  | nil => simp
  | cons i is ih =>
    cases ws with
    | nil => simp
    | cons w ws =>
      have hi : 1 ≤ i := h i (by simp)
      have := ih ws (fun j hj => h j (by simp [hj]))
      simp only [ints, List.map_cons, List.zip_cons_cons, Py.sum_cons, List.foldl_cons] at this ⊢
      rw [this, foldl_add_eq (0 + (i - 1) * w)]
      simp only [Int.ofNat_eq_natCast]
      push_cast [hi]
      omega

/-- `_unsafe_index_to_lit` (as translated from the source) is the model's `blockId`, on every index with
positive entries (what `indices()` lets through; `0 - 1` is `-1` in Python and `0` in the model's naturals) -/
theorem gen_block_index_to_lit_eq_model (nv : Nat) (ranges idx : List Nat) (h : ∀ i ∈ idx, 1 ≤ i) :
    BlockOfVariables.index_to_lit (blockSelf nv ranges) (ints idx) = (blockId (nv + 1) ranges idx : Nat) := by
  simp only [BlockOfVariables.index_to_lit, blockSelf, relative_eq idx (weights ranges) h, blockId]
  push_cast
  omega

theorem weights_pos {ranges : List Nat} (h : 0 < blockSize ranges) : ∀ w ∈ weights ranges, 0 < w := by
  induction ranges with
  | nil => simp [weights]
  | cons r rs ih =>
    rw [blockSize_cons] at h
    have hr : 0 < blockSize rs := Nat.pos_of_mul_pos_left h
    intro w hw
    rw [weights_cons] at hw
    rcases List.mem_cons.1 hw with rfl | hw
    · exact hr
    · exact ih hr w hw

theorem to_index_loop (ws : List Nat) (hw : ∀ w ∈ ws, 0 < w) (acc : List Int) (res : Nat) :
    ∃ r : Int, List.foldlM (fun (st : List Int × Int) (w : Int) =>
      (Py.floordiv st.2 w) >>= fun q =>
      (Py.mod st.2 w) >>= fun r => Except.ok (st.1 ++ [q + 1], r)) (acc, (res : Int)) (ints ws) =
      Except.ok (acc ++ ints (blockIndexAux ws res), r) := by
  induction ws generalizing acc res with
  | nil => exact ⟨res, by simp [blockIndexAux, pure, Except.pure]⟩
  | cons w ws ih =>
    have hw0 : 0 < w := hw w (by simp)
    obtain ⟨r, hr⟩ := ih (fun v hv => hw v (by simp [hv])) (acc ++ [((res / w : Nat) : Int) + 1]) (res % w)
    refine ⟨r, ?_⟩
    simp only [ints, List.map_cons, List.foldlM_cons, Int.ofNat_eq_natCast, Py.floordiv_nat res w hw0,
      Py.mod_nat res w hw0, bind, Except.bind] at hr ⊢
    simp only [blockIndexAux]
    simpa [List.append_assoc] using hr

theorem block_contains_iff (nv : Nat) (ranges : List Nat) (v : Int) :
    BlockOfVariables.contains (blockSelf nv ranges) v = true ↔
      nv + 1 ≤ v.natAbs ∧ v.natAbs < nv + 1 + blockSize ranges := by
  unfold BlockOfVariables.contains Py.Range.contains
  simp only [Bool.and_eq_true, decide_eq_true_iff]
  simp only [blockSelf, Py.abs_eq]
  omega

/-- `lit in group`: the identifiers are `start … start + size - 1` -/
theorem gen_block_contains_eq_model (nv : Nat) (ranges : List Nat) (lit : Int) :
    BlockOfVariables.contains (blockSelf nv ranges) lit = (Group.block (nv + 1) ranges "").contains lit := by
  rw [Bool.eq_iff_iff, block_contains_iff]
  unfold Group.contains
  simp only [Bool.and_eq_true, decide_eq_true_iff]
  rfl

/-- `len(group)` -/
theorem gen_block_len_eq_model (nv : Nat) (ranges : List Nat) :
    BlockOfVariables.len (blockSelf nv ranges) = ((Group.block (nv + 1) ranges "").len : Nat) := by
  have h := Py.range_len_nat ((nv : Int) + 1) (blockSize ranges)
  simp only [BlockOfVariables.len, blockSelf, Group.len]
  rw [← h]; congr 2; omega

/-- `to_index` (as translated) is the model's `blockIndex`: same index, same ValueError — for every literal,
every arity, zero ranges included (the `//` by a zero weight is never reached) -/
theorem gen_block_to_index_eq_model (nv : Nat) (ranges : List Nat) (lit : Int) :
    BlockOfVariables.to_index (blockSelf nv ranges) lit = (blockIndex (nv + 1) ranges lit).map ints := by
  simp only [BlockOfVariables.to_index, blockIndex]
  by_cases hc : nv + 1 ≤ lit.natAbs ∧ lit.natAbs < nv + 1 + blockSize ranges
  · have hc' := (block_contains_iff nv ranges (Py.abs lit)).2 (by simpa using hc)
    have hpos : 0 < blockSize ranges := by omega
    obtain ⟨r, hr⟩ := to_index_loop (weights ranges) (weights_pos hpos) [] (lit.natAbs - (nv + 1))
    have hres : (Py.abs lit - (blockSelf nv ranges).offset) = ((lit.natAbs - (nv + 1) : Nat) : Int) := by
      simp only [blockSelf, Py.abs_eq]; omega
    rw [if_neg (by simpa using hc'), if_pos hc, hres]
    have hw : (blockSelf nv ranges).weights = ints (weights ranges) := rfl
    rw [hw, hr]
    rfl
  · have hc' : ¬ BlockOfVariables.contains (blockSelf nv ranges) (Py.abs lit) = true := by
      rw [block_contains_iff]; simpa using hc
    rw [if_pos hc', if_neg hc]
    rfl

/-! ### the constructor -/

theorem count_loop (ranges : List Int) (a : Int) :
    List.foldl (fun (v : Int) (x : Int) => if (True ∧ (x ≥ 0)) then v + 1 else v) a ranges =
      a + (ranges.countP (fun x => decide (0 ≤ x)) : Nat) := by
  induction ranges generalizing a with
  | nil => simp
  | cons x xs ih =>
    simp only [List.foldl_cons, ih, List.countP_cons]
    by_cases hx : 0 ≤ x <;> simp [hx]; omega

theorem count_ne_length_iff (ranges : List Int) :
    ((0 : Int) + (ranges.countP (fun x => decide (0 ≤ x)) : Nat) ≠ (ranges.length : Int)) ↔
      ranges.any (· < 0) = true := by
  rw [Int.zero_add, Ne, Int.natCast_inj, List.countP_eq_length]
  simp only [List.any_eq_true, decide_eq_true_iff, not_forall]
  constructor
  · rintro ⟨x, hx, h⟩; exact ⟨x, hx, by omega⟩
  · rintro ⟨x, hx, h⟩; exact ⟨x, hx, by omega⟩

theorem weights_loop (rs : List Nat) :
    List.foldlM (fun (w : List Int) (r : Int) =>
      (Py.index w (-1)) >>= fun x => Except.ok (w ++ [x * r])) [1] (ints rs).reverse =
      Except.ok (ints (blockSize rs :: weights rs)).reverse := by
  induction rs with
  | nil => rfl
  | cons r rs ih =>
    simp only [ints, List.map_cons, List.reverse_cons, List.foldlM_append, List.foldlM_cons, List.foldlM_nil] at ih ⊢
    rw [ih]
    simp only [bind, Except.bind, Py.index_neg_one, pure, Except.pure, weights_cons, blockSize_cons, List.map_cons,
      List.reverse_cons]
    simp [Int.mul_comm]

theorem ints_toNat {ranges : List Int} (h : ranges.any (· < 0) = false) : ints (ranges.map Int.toNat) = ranges := by
  induction ranges with
  | nil => rfl
  | cons x xs ih =>
    simp only [List.any_cons, Bool.or_eq_false_iff, decide_eq_false_iff_not] at h
    simp only [ints, List.map_cons, Int.ofNat_eq_natCast] at ih ⊢
    rw [ih h.2, Int.toNat_of_nonneg (by omega)]

/-- the constructor, as translated: the label check (outcome of `labelfmt.format(*ranges)` as an input), the two
argument checks in the order of the code, then the object the model describes -/
theorem gen_block_init_eq (nv : Nat) (ranges : List Int) (out : Except Err Unit) :
    BlockOfVariables.init ⟨nv⟩ ranges out =
      Py.tryExcept out Err.indexError (Except.error Err.valueError) (fun _ =>
        if ranges = [] then Except.error Err.valueError
        else if ranges.any (· < 0) = true then Except.error Err.valueError
        else Except.ok (blockSelf nv (ranges.map Int.toNat))) := by
  unfold BlockOfVariables.init
  congr 1
  funext _
  by_cases h0 : ranges = []
  · subst h0; simp
  · have hl : ¬ ((ranges.length : Int) = 0) := by
      simpa using h0
    simp only [Py.len_eq, if_neg hl, if_neg h0, count_loop]
    by_cases hneg : ranges.any (· < 0) = true
    · rw [if_pos ((count_ne_length_iff ranges).2 hneg), if_pos hneg]
    · rw [if_neg (fun h => hneg ((count_ne_length_iff ranges).1 h)), if_neg hneg]
      have hr := ints_toNat (ranges := ranges) (by simpa using hneg)
      have hw := weights_loop (ranges.map Int.toNat)
      rw [hr] at hw
      rw [hw]
      simp only [bind, Except.bind, ints, List.map_cons, List.reverse_cons, Py.pop_append, List.reverse_reverse,
        blockSelf, hr]
      rfl

/-- what the model keeps of a `BlockOfVariables` object -/
def blockGroup (self : BlockOfVariables) (fmt : String) : Group :=
  .block self.offset.toNat (self.ranges.map Int.toNat) fmt

theorem blockGroup_blockSelf (nv : Nat) (ranges : List Nat) (fmt : String) :
    blockGroup (blockSelf nv ranges) fmt = .block (nv + 1) ranges fmt := by
  simp only [blockGroup, blockSelf, ints, List.map_map]
  have h1 : ((nv : Int) + 1).toNat = nv + 1 := by omega
  have h2 : List.map (Int.toNat ∘ Int.ofNat) ranges = ranges :=
    (List.map_congr_left (fun a _ => by simp)).trans (List.map_id _)
  rw [h1, h2]

/-- **the constructor of the source is the constructor of the model**: `BlockOfVariables(F, ranges, label)` as
translated, given the outcome of the label's `format` call, fails / succeeds exactly like `mkGroup … (.block …)`
— on which `reachable_groups_wf`, `labels_aligned` … are stated — and builds the same group -/
theorem gen_block_init_eq_model (nv : Nat) (ranges : List Int) (label : Option String) :
    (BlockOfVariables.init ⟨nv⟩ ranges
        ((pyFormat (label.getD (blockDefaultFmt ranges.length)) (ranges.map toString)).map (fun _ => ()))).map
      (fun self => blockGroup self (label.getD (blockDefaultFmt ranges.length))) =
    mkGroup nv (.block ranges label) := by
  rw [gen_block_init_eq]
  simp only [mkGroup, checkFormat]
  cases hf : pyFormat (label.getD (blockDefaultFmt ranges.length)) (ranges.map toString) with
  | error e =>
    cases e <;> simp [Except.map, Py.tryExcept, bind, Except.bind]
  | ok v =>
    by_cases h0 : ranges = []
    · subst h0
      simp [Except.map, Py.tryExcept, bind, Except.bind, throw, throwThe, MonadExceptOf.throw]
    · by_cases hneg : ranges.any (· < 0) = true
      · have h0' : ranges.isEmpty = false := by simpa using h0
        simp only [Except.map, Py.tryExcept, if_neg h0, bind, Except.bind, h0', hneg]
        rfl
      · have h0' : ranges.isEmpty = false := by simpa using h0
        have hneg' : ranges.any (· < 0) = false := by simpa using hneg
        simp [Except.map, Py.tryExcept, if_neg h0, bind, Except.bind, h0', hneg',
          blockGroup_blockSelf, pure, Except.pure]

/-! ### `indices(*pattern)` -/

/-- a loop that appends one (possibly failing) computed entry per element is `mapM` -/
theorem foldlM_append_eq_mapM {α β : Type} (f : α → Except Err β) (l : List α) (acc : List β) :
    List.foldlM (fun (acc : List β) (a : α) => (f a) >>= fun b => Except.ok (acc ++ [b])) acc l =
      (l.mapM f).map (acc ++ ·) := by
  induction l generalizing acc with
  | nil => simp
  | cons a l ih =>
    simp only [List.foldlM_cons, List.mapM_cons]
    cases f a with
    | error e => simp
    | ok b =>
      simp only [Py.ok_bind, ih]
      cases List.mapM f l with
      | error e => simp
      | ok bs => simp

theorem product_map {α β : Type} (g : α → β) (ls : List (List α)) :
    product (ls.map (List.map g)) = (product ls).map (List.map g) := by
  induction ls with
  | nil => simp [product]
  | cons l ls ih =>
    simp only [List.map_cons, product, ih, List.flatMap_map, List.map_flatMap, List.map_map]
    congr 1

theorem range_toList_nat (R : Nat) : Py.Range.toList ⟨1, (R : Int) + 1⟩ = ints (rangeN 1 (R + 1)) := by
  simp only [Py.Range.toList, rangeI, rangeN, ints, List.map_map]
  have : ((R : Int) + 1 - 1).toNat = R + 1 - 1 := by omega
  rw [this]
  apply List.map_congr_left
  intro a _
  simp; omega

/-- one column of the pattern, as the translated loop body computes it -/
def genCol (p : Option Int × Int) : Except Err (List Int) :=
  match p.1 with
  | none => Except.ok (Py.Range.toList (Py.Range.mk 1 (p.2 + 1)))
  | some i => if 1 ≤ i ∧ i ≤ p.2 then Except.ok [i] else Except.error Err.valueError

theorem genCol_eq (p : Option Int) (r : Nat) :
    genCol (p, (r : Int)) = (blockCol (p, r)).map ints := by
  cases p with
  | none => simp [genCol, blockCol, range_toList_nat, Except.map]
  | some i =>
    simp only [genCol, blockCol]
    by_cases h : 1 ≤ i ∧ i ≤ (r : Int)
    · rw [if_pos h, if_pos h]
      simp only [Except.map, ints, List.map_cons, List.map_nil, Int.ofNat_eq_natCast]
      rw [Int.toNat_of_nonneg (by omega)]
    · rw [if_neg h, if_neg h]; rfl

theorem mapM_genCol (pat : List (Option Int)) (ranges : List Nat) :
    (pat.zip (ints ranges)).mapM genCol = ((pat.zip ranges).mapM blockCol).map (List.map ints) := by
  induction pat generalizing ranges with
  | nil => simp [pure, Except.pure, Except.map]
  | cons p ps ih =>
    cases ranges with
    | nil => simp [ints, pure, Except.pure, Except.map]
    | cons r rs =>
      simp only [ints, List.map_cons, List.zip_cons_cons, List.mapM_cons, Int.ofNat_eq_natCast] at ih ⊢
      rw [genCol_eq, ih rs]
      cases blockCol (p, r) with
      | error e => simp [Except.map, bind, Except.bind]
      | ok c =>
        cases List.mapM blockCol (ps.zip rs) with
        | error e => simp [Except.map, bind, Except.bind]
        | ok cs => simp [Except.map, bind, Except.bind, pure, Except.pure, ints]

/-- `indices(*pattern)` as translated is the model's `blockIndices`: the same tuples in the same order, the same
ValueError (wrong arity, a fixed entry outside its range) — for every pattern and every block -/
theorem gen_block_indices_eq_model (nv : Nat) (ranges : List Nat) (pat : List (Option Int)) :
    BlockOfVariables.indices (blockSelf nv ranges) pat = (blockIndices ranges pat).map (List.map ints) := by
  rw [blockIndices_eq]
  simp only [BlockOfVariables.indices]
  have hr : (blockSelf nv ranges).ranges = ints ranges := rfl
  rw [Py.foldlM_ext _ (fun (acc : List (List Int)) (a : Option Int × Int) => (genCol a) >>= fun b => Except.ok (acc ++ [b]))
    (by
      intro x p
      obtain ⟨p1, p2⟩ := p
      cases p1 with
      | none => simp [genCol]
      | some i => by_cases h : 1 ≤ i ∧ i ≤ p2 <;> simp [genCol, h])]
  rw [foldlM_append_eq_mapM, hr]
  have hlen : Py.len (ints ranges) = (ranges.length : Int) := by simp [ints]
  have hpat : (if Py.len pat = 0 then List.map (fun _ => (none : Option Int))
        (List.replicate (Py.len (ints ranges)).toNat ()) else pat) =
      (if pat.isEmpty = true then List.map (fun _ => none) ranges else pat) := by
    cases pat with
    | nil =>
      simp only [Py.len_eq, List.length_nil, Int.natCast_zero, if_true, List.isEmpty_nil, Int.toNat_natCast]
      apply List.ext_getElem <;> simp
    | cons p ps =>
      have : ¬ (Py.len (p :: ps) = 0) := by simp; omega
      rw [if_neg this]; rfl
  have hcond : (Py.len pat > 0 ∧ Py.len pat ≠ Py.len (ints ranges)) ↔
      (¬ pat.isEmpty = true ∧ pat.length ≠ ranges.length) := by
    rw [hlen]
    cases pat with
    | nil => simp
    | cons p ps => simp; omega
  rw [hpat, mapM_genCol]
  by_cases hc : ¬ pat.isEmpty = true ∧ pat.length ≠ ranges.length
  · rw [if_pos (hcond.2 hc), if_pos hc]; rfl
  · rw [if_neg (fun h => hc (hcond.1 h)), if_neg hc]
    cases List.mapM blockCol ((if pat.isEmpty = true then List.map (fun _ => none) ranges else pat).zip ranges) with
    | error e => rfl
    | ok cs => simp [product_map]

/-! ### headline statements, on the generated functions alone -/

theorem init_ok {nv : Nat} {ranges : List Int} {out : Except Err Unit} {self : BlockOfVariables}
    (hs : BlockOfVariables.init ⟨nv⟩ ranges out = .ok self) : self = blockSelf nv (ranges.map Int.toNat) := by
  rw [gen_block_init_eq] at hs
  cases out with
  | error e => simp only [Py.tryExcept] at hs; split at hs <;> cases hs
  | ok u =>
    simp only [Py.tryExcept] at hs
    split at hs
    · cases hs
    · split at hs
      · cases hs
      · exact (Except.ok.inj hs).symm

theorem legal_pos {ranges idx : List Nat} (h : LegalIdx ranges idx) : ∀ i ∈ idx, 1 ≤ i := by
  induction h with
  | nil => simp
  | cons hab _ ih =>
    intro i hi
    rcases List.mem_cons.1 hi with rfl | hi
    · exact hab.1
    · exact ih i hi

theorem ints_injective {a b : List Nat} (h : ints a = ints b) : a = b :=
  List.map_injective_iff.2 (fun _ _ h => Int.ofNat.inj h) h

/-- **C11 on the translated source**: for every object the (translated) constructor returns —
(1) `indices()` enumerates index tuples whose identifiers are consecutive from `number_of_variables() + 1`,
(2) `to_index(±_unsafe_index_to_lit(t)) = t` for each of them, and
(3) `to_index(lit) = t` implies that `t` is enumerated and `_unsafe_index_to_lit(t) = |lit|`;
`len` is the number of enumerated tuples.  No reference to the hand-written model in the statement. -/
theorem gen_block_bijection {nv : Nat} {ranges : List Int} {out : Except Err Unit} {self : BlockOfVariables}
    (hs : BlockOfVariables.init ⟨nv⟩ ranges out = .ok self) :
    ∃ idxs : List (List Int), BlockOfVariables.indices self [] = .ok idxs ∧
      idxs.map (BlockOfVariables.index_to_lit self) =
        (List.range' (nv + 1) idxs.length).map Int.ofNat ∧
      BlockOfVariables.len self = idxs.length ∧
      (∀ t ∈ idxs, BlockOfVariables.to_index self (BlockOfVariables.index_to_lit self t) = .ok t ∧
        BlockOfVariables.to_index self (-(BlockOfVariables.index_to_lit self t)) = .ok t) ∧
      (∀ lit t, BlockOfVariables.to_index self lit = .ok t →
        t ∈ idxs ∧ BlockOfVariables.index_to_lit self t = Py.abs lit) := by
  rw [init_ok hs]
  generalize ranges.map Int.toNat = rs
  refine ⟨(blockAll rs).map ints, ?_, ?_, ?_, ?_, ?_⟩
  · rw [gen_block_indices_eq_model, blockIndices_nil]; rfl
  · rw [List.map_map, List.length_map, length_blockAll, ← blockAll_ids (nv + 1) rs, List.map_map]
    apply List.map_congr_left
    intro idx hidx
    exact gen_block_index_to_lit_eq_model nv rs idx (legal_pos (mem_blockAll.1 hidx))
  · rw [gen_block_len_eq_model, List.length_map, length_blockAll]; rfl
  · intro t ht
    obtain ⟨idx, hidx, rfl⟩ := List.mem_map.1 ht
    have hl := mem_blockAll.1 hidx
    rw [gen_block_index_to_lit_eq_model nv rs idx (legal_pos hl), gen_block_to_index_eq_model,
      gen_block_to_index_eq_model]
    have := blockIndex_blockId (nv + 1) hl
    rw [this.1, this.2]
    exact ⟨rfl, rfl⟩
  · intro lit t ht
    rw [gen_block_to_index_eq_model] at ht
    cases hb : blockIndex (nv + 1) rs lit with
    | error e => rw [hb] at ht; cases ht
    | ok idx =>
      rw [hb] at ht
      have ht' : ints idx = t := Except.ok.inj ht
      have := blockId_blockIndex hb
      subst ht'
      refine ⟨List.mem_map.2 ⟨idx, mem_blockAll.2 this.1, rfl⟩, ?_⟩
      rw [gen_block_index_to_lit_eq_model nv rs idx (legal_pos this.1), this.2]
      rfl

/-- non-vacuity: `BlockOfVariables(F, [2, 3])` on a formula with 4 variables; `to_index(-9) = [2, 2]` -/
example : (BlockOfVariables.init ⟨4⟩ [2, 3] (.ok ())).toOption.map (·.weights) = some [3, 1] := by decide
example : ((BlockOfVariables.init ⟨4⟩ [2, 3] (.ok ())).toOption.map (BlockOfVariables.to_index · (-9))) =
    some (.ok [2, 2]) := by decide
example : ((BlockOfVariables.init ⟨4⟩ [2, 3] (.ok ())).toOption.map (BlockOfVariables.index_to_lit · [2, 2])) =
    some 9 := by decide

end Cnfgen.C11
