/-
C11 — the TRANSLATED variable-group functions (`CnfgenModel/Generated/Funcs.lean`, regenerated from
cnfgen/formula/variables.py by tools/py2lean.py on every run) compute what the hand-written model
(`CnfgenModel/Vars/Groups.lean`) computes — for all arguments.  Every theorem of `Props/C11.lean` about the model
therefore speaks about what the source says now; the headline round trips are restated on the generated functions.
-/
import Lemmas.GenBlock
namespace Cnfgen.C11
open Cnfgen Cnfgen.Vars Cnfgen.PyGen Cnfgen.GenVars

/-! ## BlockOfVariables -/

/-- `_unsafe_index_to_lit` (as translated from the source) is the model's `blockId`, on every index with
positive entries (what `indices()` lets through; `0 - 1` is `-1` in Python and `0` in the model's naturals) -/
theorem gen_block_index_to_lit_eq_model (nv : Nat) (ranges idx : List Nat) (h : ∀ i ∈ idx, 1 ≤ i) :
    BlockOfVariables.index_to_lit (blockSelf nv ranges) (ints idx) = (blockId (nv + 1) ranges idx : Nat) := by
  simp only [BlockOfVariables.index_to_lit, blockSelf, relative_eq idx (weights ranges) h, blockId]
  push_cast
  omega

/-- `lit in group`: the identifiers are `start … start + size - 1` -/
theorem gen_block_contains_eq_model (nv : Nat) (ranges : List Nat) (lit : Int) :
    BlockOfVariables.contains (blockSelf nv ranges) lit = (Group.block (nv + 1) ranges "").contains lit := by
  rw [Bool.eq_iff_iff, block_contains_iff]
  unfold Group.contains
  simp only [Bool.and_eq_true, decide_eq_true_iff]
  rfl

/-- `len(group)` -/
theorem gen_block_len_eq_model (nv : Nat) (ranges : List Nat) :
    BlockOfVariables.len (blockSelf nv ranges) = ((Group.block (nv + 1) ranges "").len : Nat) := by
  have h := Py.range_len_nat ((nv : Int) + 1) (blockSize ranges)
  simp only [BlockOfVariables.len, blockSelf, Group.len]
  rw [← h]; congr 2; omega

/-- `to_index` (as translated) is the model's `blockIndex`: same index, same ValueError — for every literal,
every arity, zero ranges included (the `//` by a zero weight is never reached) -/
theorem gen_block_to_index_eq_model (nv : Nat) (ranges : List Nat) (lit : Int) :
    BlockOfVariables.to_index (blockSelf nv ranges) lit = (blockIndex (nv + 1) ranges lit).map ints := by
  simp only [BlockOfVariables.to_index, blockIndex]
  by_cases hc : nv + 1 ≤ lit.natAbs ∧ lit.natAbs < nv + 1 + blockSize ranges
  · have hc' := (block_contains_iff nv ranges (Py.abs lit)).2 (by simpa using hc)
    have hpos : 0 < blockSize ranges := by omega
    obtain ⟨r, hr⟩ := to_index_loop (weights ranges) (weights_pos hpos) [] (lit.natAbs - (nv + 1))
    have hres : (Py.abs lit - (blockSelf nv ranges).offset) = ((lit.natAbs - (nv + 1) : Nat) : Int) := by
      simp only [blockSelf, Py.abs_eq]; omega
    rw [if_neg (by simpa using hc'), if_pos hc, hres]
    have hw : (blockSelf nv ranges).weights = ints (weights ranges) := rfl
    rw [hw, hr]
    rfl
  · have hc' : ¬ BlockOfVariables.contains (blockSelf nv ranges) (Py.abs lit) = true := by
      rw [block_contains_iff]; simpa using hc
    rw [if_pos hc', if_neg hc]
    rfl

/-! ### the constructor -/

/-- the constructor, as translated: the label check (outcome of `labelfmt.format(*ranges)` as an input), the two
argument checks in the order of the code, then the object the model describes -/
theorem gen_block_init_eq (nv : Nat) (ranges : List Int) (out : Except Err Unit) :
    BlockOfVariables.init ⟨nv⟩ ranges out =
      Py.tryExcept out Err.indexError (Except.error Err.valueError) (fun _ =>
        if ranges = [] then Except.error Err.valueError
        else if ranges.any (· < 0) = true then Except.error Err.valueError
        else Except.ok (blockSelf nv (ranges.map Int.toNat))) := by
  unfold BlockOfVariables.init
  congr 1
  funext _
  by_cases h0 : ranges = []
  · subst h0; simp
  · have hl : ¬ ((ranges.length : Int) = 0) := by
      simpa using h0
    simp only [Py.len_eq, if_neg hl, if_neg h0, count_loop]
    by_cases hneg : ranges.any (· < 0) = true
    · rw [if_pos ((count_ne_length_iff ranges).2 hneg), if_pos hneg]
    · rw [if_neg (fun h => hneg ((count_ne_length_iff ranges).1 h)), if_neg hneg]
      have hr := ints_toNat (ranges := ranges) (by simpa using hneg)
      have hw := weights_loop (ranges.map Int.toNat)
      rw [hr] at hw
      rw [hw]
      simp only [bind, Except.bind, ints, List.map_cons, List.reverse_cons, Py.pop_append, List.reverse_reverse,
        blockSelf, hr]
      rfl

/-- **the constructor of the source is the constructor of the model**: `BlockOfVariables(F, ranges, label)` as
translated, given the outcome of the label's `format` call, fails / succeeds exactly like `mkGroup … (.block …)`
— on which `reachable_groups_wf`, `labels_aligned` … are stated — and builds the same group -/
theorem gen_block_init_eq_model (nv : Nat) (ranges : List Int) (label : Option String) :
    (BlockOfVariables.init ⟨nv⟩ ranges
        ((pyFormat (label.getD (blockDefaultFmt ranges.length)) (ranges.map toString)).map (fun _ => ()))).map
      (fun self => blockGroup self (label.getD (blockDefaultFmt ranges.length))) =
    mkGroup nv (.block ranges label) := by
  rw [gen_block_init_eq]
  simp only [mkGroup, checkFormat]
  cases hf : pyFormat (label.getD (blockDefaultFmt ranges.length)) (ranges.map toString) with
  | error e =>
    cases e <;> simp [Except.map, Py.tryExcept, bind, Except.bind]
  | ok v =>
    by_cases h0 : ranges = []
    · subst h0
      simp [Except.map, Py.tryExcept, bind, Except.bind, throw, throwThe, MonadExceptOf.throw]
    · by_cases hneg : ranges.any (· < 0) = true
      · have h0' : ranges.isEmpty = false := by simpa using h0
        simp only [Except.map, Py.tryExcept, if_neg h0, bind, Except.bind, h0', hneg]
        rfl
      · have h0' : ranges.isEmpty = false := by simpa using h0
        have hneg' : ranges.any (· < 0) = false := by simpa using hneg
        simp [Except.map, Py.tryExcept, if_neg h0, bind, Except.bind, h0', hneg',
          blockGroup_blockSelf, pure, Except.pure]

/-- whatever the constructor returns is the object the model describes -/
theorem gen_block_init_ok {nv : Nat} {ranges : List Int} {out : Except Err Unit} {self : BlockOfVariables}
    (hs : BlockOfVariables.init ⟨nv⟩ ranges out = .ok self) : self = blockSelf nv (ranges.map Int.toNat) := by
  rw [gen_block_init_eq] at hs
  cases out with
  | error e => simp only [Py.tryExcept] at hs; split at hs <;> cases hs
  | ok u =>
    simp only [Py.tryExcept] at hs
    split at hs
    · cases hs
    · split at hs
      · cases hs
      · exact (Except.ok.inj hs).symm

/-! ### `indices(*pattern)` -/

/-- `indices(*pattern)` as translated is the model's `blockIndices`: the same tuples in the same order, the same
ValueError (wrong arity, a fixed entry outside its range) — for every pattern and every block -/
theorem gen_block_indices_eq_model (nv : Nat) (ranges : List Nat) (pat : List (Option Int)) :
    BlockOfVariables.indices (blockSelf nv ranges) pat = (blockIndices ranges pat).map (List.map ints) := by
  rw [blockIndices_eq]
  simp only [BlockOfVariables.indices]
  have hr : (blockSelf nv ranges).ranges = ints ranges := rfl
  rw [Py.foldlM_ext _ (fun (acc : List (List Int)) (a : Option Int × Int) => (genCol a) >>= fun b => Except.ok (acc ++ [b]))
    (by
      intro x p
      obtain ⟨p1, p2⟩ := p
      cases p1 with
      | none => simp [genCol]
      | some i => by_cases h : 1 ≤ i ∧ i ≤ p2 <;> simp [genCol, h])]
  rw [foldlM_append_eq_mapM, hr]
  have hlen : Py.len (ints ranges) = (ranges.length : Int) := by simp [ints]
  have hpat : (if Py.len pat = 0 then List.map (fun _ => (none : Option Int))
        (List.replicate (Py.len (ints ranges)).toNat ()) else pat) =
      (if pat.isEmpty = true then List.map (fun _ => none) ranges else pat) := by
    cases pat with
    | nil =>
      simp only [Py.len_eq, List.length_nil, Int.natCast_zero, if_true, List.isEmpty_nil, Int.toNat_natCast]
      apply List.ext_getElem <;> simp
    | cons p ps =>
      have : ¬ (Py.len (p :: ps) = 0) := by simp; omega
      rw [if_neg this]; rfl
  have hcond : (Py.len pat > 0 ∧ Py.len pat ≠ Py.len (ints ranges)) ↔
      (¬ pat.isEmpty = true ∧ pat.length ≠ ranges.length) := by
    rw [hlen]
    cases pat with
    | nil => simp
    | cons p ps => simp; omega
  rw [hpat, mapM_genCol]
  by_cases hc : ¬ pat.isEmpty = true ∧ pat.length ≠ ranges.length
  · rw [if_pos (hcond.2 hc), if_pos hc]; rfl
  · rw [if_neg (fun h => hc (hcond.1 h)), if_neg hc]
    cases List.mapM blockCol ((if pat.isEmpty = true then List.map (fun _ => none) ranges else pat).zip ranges) with
    | error e => rfl
    | ok cs => simp [product_map]

/-! ### headline statements, on the generated functions alone -/

/-- **C11 on the translated source**: for every object the (translated) constructor returns —
(1) `indices()` enumerates index tuples whose identifiers are consecutive from `number_of_variables() + 1`,
(2) `to_index(±_unsafe_index_to_lit(t)) = t` for each of them, and
(3) `to_index(lit) = t` implies that `t` is enumerated and `_unsafe_index_to_lit(t) = |lit|`;
`len` is the number of enumerated tuples.  No reference to the hand-written model in the statement. -/
theorem gen_block_bijection {nv : Nat} {ranges : List Int} {out : Except Err Unit} {self : BlockOfVariables}
    (hs : BlockOfVariables.init ⟨nv⟩ ranges out = .ok self) :
    ∃ idxs : List (List Int), BlockOfVariables.indices self [] = .ok idxs ∧
      idxs.map (BlockOfVariables.index_to_lit self) =
        (List.range' (nv + 1) idxs.length).map Int.ofNat ∧
      BlockOfVariables.len self = idxs.length ∧
      (∀ t ∈ idxs, BlockOfVariables.to_index self (BlockOfVariables.index_to_lit self t) = .ok t ∧
        BlockOfVariables.to_index self (-(BlockOfVariables.index_to_lit self t)) = .ok t) ∧
      (∀ lit t, BlockOfVariables.to_index self lit = .ok t →
        t ∈ idxs ∧ BlockOfVariables.index_to_lit self t = Py.abs lit) := by
  rw [gen_block_init_ok hs]
  generalize ranges.map Int.toNat = rs
  refine ⟨(blockAll rs).map ints, ?_, ?_, ?_, ?_, ?_⟩
  · rw [gen_block_indices_eq_model, blockIndices_nil]; rfl
  · rw [List.map_map, List.length_map, length_blockAll, ← blockAll_ids (nv + 1) rs, List.map_map]
    apply List.map_congr_left
    intro idx hidx
    exact gen_block_index_to_lit_eq_model nv rs idx (legal_pos (mem_blockAll.1 hidx))
  · rw [gen_block_len_eq_model, List.length_map, length_blockAll]; rfl
  · intro t ht
    obtain ⟨idx, hidx, rfl⟩ := List.mem_map.1 ht
    have hl := mem_blockAll.1 hidx
    rw [gen_block_index_to_lit_eq_model nv rs idx (legal_pos hl), gen_block_to_index_eq_model,
      gen_block_to_index_eq_model]
    have := blockIndex_blockId (nv + 1) hl
    rw [this.1, this.2]
    exact ⟨rfl, rfl⟩
  · intro lit t ht
    rw [gen_block_to_index_eq_model] at ht
    cases hb : blockIndex (nv + 1) rs lit with
    | error e => rw [hb] at ht; cases ht
    | ok idx =>
      rw [hb] at ht
      have ht' : ints idx = t := Except.ok.inj ht
      have := blockId_blockIndex hb
      subst ht'
      refine ⟨List.mem_map.2 ⟨idx, mem_blockAll.2 this.1, rfl⟩, ?_⟩
      rw [gen_block_index_to_lit_eq_model nv rs idx (legal_pos this.1), this.2]
      rfl

/-- non-vacuity: `BlockOfVariables(F, [2, 3])` on a formula with 4 variables; `to_index(-9) = [2, 2]` -/
example : (BlockOfVariables.init ⟨4⟩ [2, 3] (.ok ())).toOption.map (·.weights) = some [3, 1] := by decide
example : ((BlockOfVariables.init ⟨4⟩ [2, 3] (.ok ())).toOption.map (BlockOfVariables.to_index · (-9))) =
    some (.ok [2, 2]) := by decide
example : ((BlockOfVariables.init ⟨4⟩ [2, 3] (.ok ())).toOption.map (BlockOfVariables.index_to_lit · [2, 2])) =
    some 9 := by decide



end Cnfgen.C11
