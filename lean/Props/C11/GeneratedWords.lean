/-
C11 — `WordOfIndicesVariables` (combinations / combinations with replacement / permutations / words) as TRANSLATED
from cnfgen/formula/variables.py is the hand-written model (`Group.word`, `seq2vid`, `wordIndex`).
-/
import Lemmas.GenWords
import Props.C11.GeneratedBinary
set_option linter.unusedSimpArgs false
namespace Cnfgen.C11
open Cnfgen Cnfgen.Vars Cnfgen.PyGen Cnfgen.GenVars

/-- the constructor: label check (outcome of `labelfmt.format(2)` as an input), `n, k ≥ 0`, then the enumeration
selected by `wordtype` through itertools — an unknown `wordtype` leaves `gen` unbound (UnboundLocalError, as in
CPython) —, and the loop filling `vid2seq` / `seq2vid` -/
theorem gen_word_init_eq (nv : Nat) (n k : Int) (wt : String) (out : Except Err Unit) :
    WordOfIndicesVariables.init ⟨nv⟩ n k wt out =
      Py.tryExcept out Err.indexError (Except.error Err.valueError) (fun _ =>
        if n < 0 ∨ k < 0 then Except.error Err.valueError
        else match wordEnum wt n.toNat k.toNat with
          | none => Except.error Err.unbound
          | some seqs => Except.ok (wordSelf nv n k wt seqs)) := by
  unfold WordOfIndicesVariables.init
  congr 1
  funext _
  by_cases hneg : n < 0 ∨ k < 0
  · have : (¬ True) ∨ (¬ True) ∨ n < 0 ∨ k < 0 := Or.inr (Or.inr hneg)
    rw [if_pos this, if_pos hneg]
  · have h' : ¬ ((¬ True) ∨ (¬ True) ∨ n < 0 ∨ k < 0) := by
      rintro (h | h | h)
      · exact h trivial
      · exact h trivial
      · exact hneg h
    rw [if_neg h', if_neg hneg]
    have hn : 0 ≤ n := by omega
    have hk : 0 ≤ k := by omega
    simp only [Py.itertoolsR_nonneg k hk, Py.ok_bind, range_ints n hn, combos_map, combosRepl_map, permsK_map,
      productRep_map]
    have hloop : ∀ seqs : List (List Nat),
        List.foldl (fun (st11 : Int × List (List Int) × List (List Int × Int)) (c : List Int) =>
            (st11.1 + 1, st11.2.1 ++ [c], Py.dictSet st11.2.2 c (st11.1 + 1)))
          ((nv : Int), [], []) (seqs.map ints) = ((nv : Int) + (seqs.length : Nat), seqs.map ints, wordDict nv seqs) := by
      intro seqs
      have := word_loop (seqs.map ints) nv
      rw [List.length_map] at this
      exact Prod.ext this.1 (Prod.ext this.2.1 rfl)
    unfold wordEnum
    by_cases h1 : wt = "combinations"
    · simp only [h1, if_true, Py.bound, Py.ok_bind, combosSeqs]
      rw [hloop]
      simp [wordSelf, combosSeqs]
    by_cases h2 : wt = "combinations_with_replacement"
    · simp (config := { decide := true }) only [h2, if_true, if_false, Py.bound, Py.ok_bind, combosReplSeqs]
      rw [hloop]
      simp [wordSelf, combosReplSeqs]
    by_cases h3 : wt = "permutations"
    · simp (config := { decide := true }) only [h3, if_true, if_false, Py.bound, Py.ok_bind, permsSeqs]
      rw [hloop]
      simp [wordSelf, permsSeqs]
    by_cases h4 : wt = "words"
    · simp (config := { decide := true }) only [h4, if_true, if_false, Py.bound, Py.ok_bind, wordsSeqs]
      rw [hloop]
      simp [wordSelf, wordsSeqs]
    · simp only [h1, h2, h3, h4, if_false, Py.bound, Py.error_bind, Py.ok_bind]

/-- what the model keeps of a `WordOfIndicesVariables` object -/
def wordGroup (self : WordOfIndicesVariables) (fmt : String) : Group :=
  .word (self.offset + 1).toNat (self.vid2seq.map (fun w => w.map Int.toNat)) fmt

theorem wordGroup_wordSelf (nv : Nat) (n k : Int) (wt : String) (seqs : List (List Nat)) (fmt : String) :
    wordGroup (wordSelf nv n k wt seqs) fmt = .word (nv + 1) seqs fmt := by
  simp only [wordGroup, wordSelf, ints, List.map_map]
  have h1 : ((nv : Int) + 1).toNat = nv + 1 := by omega
  have h2 : List.map ((fun (w : List Int) => w.map Int.toNat) ∘ fun (w : List Nat) => w.map Int.ofNat) seqs = seqs := by
    refine (List.map_congr_left (fun w _ => ?_)).trans (List.map_id _)
    simp only [Function.comp, List.map_map]
    exact (List.map_congr_left (fun a _ => by simp)).trans (List.map_id _)
  rw [h1, h2]

/-- the constructor of the source against the checks and the group of the model, for a known `wordtype` -/
theorem gen_word_init_eq_checks (nv : Nat) (n k : Int) (wt : String) (fmt : String) (seqs : List (List Nat))
    (he : wordEnum wt n.toNat k.toNat = some seqs) :
    (WordOfIndicesVariables.init ⟨nv⟩ n k wt ((pyFormat fmt ["2"]).map (fun _ => ()))).map (fun self => wordGroup self fmt) =
      (wordChecks n k fmt) >>= fun _ => Except.ok (Group.word (nv + 1) seqs fmt) := by
  rw [gen_word_init_eq, he]
  simp only [wordChecks, checkFormat]
  cases hf : pyFormat fmt ["2"] with
  | error e => cases e <;> simp [Except.map, Py.tryExcept, bind, Except.bind]
  | ok v =>
    by_cases hneg : n < 0 ∨ k < 0
    · simp [Except.map, Py.tryExcept, bind, Except.bind, hneg, throw, throwThe, MonadExceptOf.throw]
    · simp [Except.map, Py.tryExcept, bind, Except.bind, hneg, wordGroup_wordSelf, pure, Except.pure]

/-- **the constructor of the source is the constructor of the model** for the four `new_*` word groups -/
theorem gen_word_init_eq_model (nv : Nat) (n k : Int) (label : Option String) :
    ((WordOfIndicesVariables.init ⟨nv⟩ n k "combinations" ((pyFormat (label.getD "p_{{{}}}") ["2"]).map (fun _ => ()))).map
        (fun self => wordGroup self (label.getD "p_{{{}}}")) = mkGroup nv (.combinations n k label)) ∧
    ((WordOfIndicesVariables.init ⟨nv⟩ n k "combinations_with_replacement"
        ((pyFormat (label.getD "p_{{{}}}") ["2"]).map (fun _ => ()))).map
        (fun self => wordGroup self (label.getD "p_{{{}}}")) = mkGroup nv (.combinationsRepl n k label)) ∧
    ((WordOfIndicesVariables.init ⟨nv⟩ n k "permutations" ((pyFormat (label.getD "p_{{{}}}") ["2"]).map (fun _ => ()))).map
        (fun self => wordGroup self (label.getD "p_{{{}}}")) = mkGroup nv (.permutations n (some k) label)) ∧
    ((WordOfIndicesVariables.init ⟨nv⟩ n k "words" ((pyFormat (label.getD "p_{{{}}}") ["2"]).map (fun _ => ()))).map
        (fun self => wordGroup self (label.getD "p_{{{}}}")) = mkGroup nv (.words n k label)) := by
  refine ⟨?_, ?_, ?_, ?_⟩
  · rw [gen_word_init_eq_checks nv n k _ _ (combosSeqs n.toNat k.toNat) (by simp [wordEnum])]
    simp only [mkGroup]; rfl
  · rw [gen_word_init_eq_checks nv n k _ _ (combosReplSeqs n.toNat k.toNat) (by simp [wordEnum])]
    simp only [mkGroup]; rfl
  · rw [gen_word_init_eq_checks nv n k _ _ (permsSeqs n.toNat k.toNat) (by simp [wordEnum])]
    simp only [mkGroup, Option.getD_some]; rfl
  · rw [gen_word_init_eq_checks nv n k _ _ (wordsSeqs n.toNat k.toNat) (by simp [wordEnum])]
    simp only [mkGroup]; rfl

theorem gen_word_contains_iff (nv : Nat) (n k : Int) (wt : String) (seqs : List (List Nat)) (v : Int) :
    WordOfIndicesVariables.contains (wordSelf nv n k wt seqs) v = true ↔
      nv + 1 ≤ v.natAbs ∧ v.natAbs < nv + 1 + seqs.length := by
  unfold WordOfIndicesVariables.contains Py.Range.contains
  simp only [Bool.and_eq_true, decide_eq_true_iff]
  simp only [wordSelf, Py.abs_eq]
  omega

/-- `lit in group` -/
theorem gen_word_contains_eq_model (nv : Nat) (n k : Int) (wt : String) (seqs : List (List Nat)) (lit : Int) :
    WordOfIndicesVariables.contains (wordSelf nv n k wt seqs) lit = (Group.word (nv + 1) seqs "").contains lit := by
  rw [Bool.eq_iff_iff, gen_word_contains_iff]
  unfold Group.contains
  simp only [Bool.and_eq_true, decide_eq_true_iff]
  rfl

/-- `len(group)` -/
theorem gen_word_len_eq_model (nv : Nat) (n k : Int) (wt : String) (seqs : List (List Nat)) :
    WordOfIndicesVariables.len (wordSelf nv n k wt seqs) = ((Group.word (nv + 1) seqs "").len : Nat) := by
  have h := Py.range_len_nat ((nv : Int) + 1) seqs.length
  simp only [WordOfIndicesVariables.len, wordSelf, Group.len]
  rw [← h]; congr 2; omega

/-- `to_index` is the model's `wordIndex` (`vid2seq[var - offset - 1]`; the IndexError is unreachable) -/
theorem gen_word_to_index_eq_model (nv : Nat) (n k : Int) (wt : String) (seqs : List (List Nat)) (lit : Int) :
    WordOfIndicesVariables.to_index (wordSelf nv n k wt seqs) lit = (wordIndex (nv + 1) seqs lit).map ints := by
  simp only [WordOfIndicesVariables.to_index, wordIndex]
  by_cases hc : nv + 1 ≤ lit.natAbs ∧ lit.natAbs < nv + 1 + seqs.length
  · have hc' := (gen_word_contains_iff nv n k wt seqs (Py.abs lit)).2 (by simpa using hc)
    rw [if_neg (by simpa using hc'), if_pos hc]
    have hidx : (Py.abs lit - (wordSelf nv n k wt seqs).offset - 1) = ((lit.natAbs - (nv + 1) : Nat) : Int) := by
      simp only [wordSelf, Py.abs_eq]; omega
    have hlt : lit.natAbs - (nv + 1) < seqs.length := by omega
    have hv : (wordSelf nv n k wt seqs).vid2seq = seqs.map ints := rfl
    rw [hidx, hv, Py.index_nat _ _ (by simpa using hlt)]
    simp only [Py.ok_bind, List.getElem_map, List.getElem?_eq_getElem hlt, Py.map_ok]
  · have hc' : ¬ WordOfIndicesVariables.contains (wordSelf nv n k wt seqs) (Py.abs lit) = true := by
      rw [gen_word_contains_iff]; simpa using hc
    rw [if_pos hc', if_neg hc]
    rfl

/-- `_unsafe_index_to_lit(index)` = `seq2vid[index]`: the model's dictionary (`seq2vid`, last position wins) looked up
through `patternNats`; KeyError when the tuple is not a key (contains `None`, a negative number, or is not enumerated) -/
theorem gen_word_index_to_lit_eq_model (nv : Nat) (n k : Int) (wt : String) (seqs : List (List Nat))
    (pat : List (Option Int)) :
    WordOfIndicesVariables.index_to_lit (wordSelf nv n k wt seqs) pat =
      match (patternNats pat).bind (seq2vid (nv + 1) seqs) with
      | some v => Except.ok (v : Int)
      | none => Except.error Err.keyError := by
  have hd : (wordSelf nv n k wt seqs).seq2vid = wordDict nv seqs := rfl
  simp only [WordOfIndicesVariables.index_to_lit, Py.dictGet, hd, wordDict_lookup_pat]
  cases (patternNats pat).bind (seq2vid (nv + 1) seqs) <;> rfl

/-- `indices(*pattern)`: all words for the empty pattern, the pattern itself when it is a key, ValueError otherwise —
the model's `Group.indices` (patterns with `None` are never keys) -/
theorem gen_word_indices_eq_model (nv : Nat) (n k : Int) (wt : String) (seqs : List (List Nat))
    (pat : List (Option Int)) :
    WordOfIndicesVariables.indices (wordSelf nv n k wt seqs) pat =
      ((Group.word (nv + 1) seqs "").indices pat).map (List.map upPat) := by
  have hd : (wordSelf nv n k wt seqs).seq2vid = wordDict nv seqs := rfl
  have hv : (wordSelf nv n k wt seqs).vid2seq = seqs.map ints := rfl
  simp only [WordOfIndicesVariables.indices, Group.indices, Py.dictHas, hd, hv, wordDict_lookup_pat]
  cases pat with
  | nil => simp [upPat, ints, List.map_map]
  | cons p ps =>
    have h0 : ¬ (Py.len (p :: ps) = 0) := by simp; omega
    rw [if_neg h0]
    simp only [List.isEmpty_cons, Bool.false_eq_true, if_false]
    cases hp : patternNats (p :: ps) with
    | none => simp
    | some w =>
      simp only [Option.bind_some, Option.isSome_map]
      cases hs : (seq2vid (nv + 1) seqs w).isSome
      · simp
      · simp [patternNats_eq_upPat hp]

/-- the identifiers of the enumerated words, through the translated `_unsafe_index_to_lit` -/
theorem gen_word_ids_of_indices (nv : Nat) (n k : Int) (wt : String) (seqs l : List (List Nat)) (hl : ∀ w ∈ l, w ∈ seqs) :
    List.mapM (fun (t : List (Option Int)) => (WordOfIndicesVariables.index_to_lit (wordSelf nv n k wt seqs) t) >>=
        fun r => Except.ok r) (l.map upPat) =
      Except.ok (ints (l.map (fun w => (seq2vid (nv + 1) seqs w).getD 0))) := by
  induction l with
  | nil => rfl
  | cons w ws ih =>
    have hw : (seq2vid (nv + 1) seqs w).isSome = true := (seq2vid_isSome_iff _ _ _).2 (hl w (by simp))
    obtain ⟨v, hv⟩ := Option.isSome_iff_exists.1 hw
    rw [List.map_cons, List.mapM_cons, gen_word_index_to_lit_eq_model, patternNats_upPat, Option.bind_some, hv,
      ih (fun x hx => hl x (by simp [hx]))]
    simp [ints, hv]

/-- `group(*pattern)` (the class's own `__call__`: dictionary first, then "all" for the empty pattern) is the model's
`Group.call` -/
theorem gen_word_call_eq_model (nv : Nat) (n k : Int) (wt : String) (seqs : List (List Nat)) (pat : List (Option Int)) :
    WordOfIndicesVariables.call (wordSelf nv n k wt seqs) pat =
      ((Group.word (nv + 1) seqs "").call pat).map resSum := by
  have hd : (wordSelf nv n k wt seqs).seq2vid = wordDict nv seqs := rfl
  simp only [WordOfIndicesVariables.call, Group.call, Py.dictGet, hd, wordDict_lookup_pat]
  cases hb : (patternNats pat).bind (seq2vid (nv + 1) seqs) with
  | some v => simp [Py.tryExcept, resSum]
  | none =>
    simp only [Option.map_none, Py.tryExcept, if_true]
    cases pat with
    | nil =>
      have h0 : Py.len ([] : List (Option Int)) = 0 := rfl
      rw [if_pos h0, gen_word_indices_eq_model]
      simp only [Group.indices, List.isEmpty_nil, if_true, Py.map_ok, Py.ok_bind]
      rw [gen_word_ids_of_indices nv n k wt seqs seqs (fun w hw => hw)]
      simp [resSum]
    | cons p ps =>
      have h0 : ¬ (Py.len (p :: ps) = 0) := by simp; omega
      rw [if_neg h0]
      simp

/-- whatever the constructor returns is `wordSelf` on the (duplicate-free) enumeration the word type selects -/
theorem gen_word_init_ok {nv : Nat} {n k : Int} {wt : String} {out : Except Err Unit} {self : WordOfIndicesVariables}
    (hs : WordOfIndicesVariables.init ⟨nv⟩ n k wt out = .ok self) :
    ∃ seqs, wordEnum wt n.toNat k.toNat = some seqs ∧ seqs.Nodup ∧ self = wordSelf nv n k wt seqs := by
  rw [gen_word_init_eq] at hs
  cases out with
  | error e => simp only [Py.tryExcept] at hs; split at hs <;> cases hs
  | ok u =>
    simp only [Py.tryExcept] at hs
    split at hs
    · cases hs
    · cases he : wordEnum wt n.toNat k.toNat with
      | none => rw [he] at hs; cases hs
      | some seqs =>
        rw [he] at hs
        refine ⟨seqs, rfl, ?_, (Except.ok.inj hs).symm⟩
        unfold wordEnum at he
        split at he
        · cases he; exact combosSeqs_nodup _ _
        · split at he
          · cases he; exact combosReplSeqs_nodup _ _
          · split at he
            · cases he; exact permsSeqs_nodup _ _
            · split at he
              · cases he; exact wordsSeqs_nodup _ _
              · cases he

/-- **C11 for word groups on the translated source**, no model function in the statement: for every object the
(translated) constructor returns there is a duplicate-free list of words such that `indices()` enumerates them,
`len` counts them, the `i`-th word has identifier `nv + 1 + i` (`seq2vid`), `to_index(±(nv+1+i))` is the `i`-th word, and
`to_index` accepts nothing else -/
theorem gen_word_bijection {nv : Nat} {n k : Int} {wt : String} {out : Except Err Unit} {self : WordOfIndicesVariables}
    (hs : WordOfIndicesVariables.init ⟨nv⟩ n k wt out = .ok self) :
    ∃ seqs : List (List Nat), seqs.Nodup ∧
      WordOfIndicesVariables.indices self [] = .ok (seqs.map upPat) ∧
      WordOfIndicesVariables.len self = (seqs.length : Nat) ∧
      (∀ i (hi : i < seqs.length),
        WordOfIndicesVariables.index_to_lit self (upPat seqs[i]) = .ok ((nv + 1 + i : Nat) : Int) ∧
        WordOfIndicesVariables.to_index self ((nv + 1 + i : Nat) : Int) = .ok (ints seqs[i]) ∧
        WordOfIndicesVariables.to_index self (-((nv + 1 + i : Nat) : Int)) = .ok (ints seqs[i])) ∧
      (∀ lit t, WordOfIndicesVariables.to_index self lit = .ok t →
        ∃ i, ∃ hi : i < seqs.length, t = ints seqs[i] ∧ lit.natAbs = nv + 1 + i) := by
  obtain ⟨seqs, _, hnd, rfl⟩ := gen_word_init_ok hs
  refine ⟨seqs, hnd, ?_, ?_, ?_, ?_⟩
  · rw [gen_word_indices_eq_model]; rfl
  · rw [gen_word_len_eq_model]; rfl
  · intro i hi
    have hv := seq2vid_getElem hnd (nv + 1) i hi
    have hw := wordIndex_seq2vid hnd (nv + 1) hv
    refine ⟨?_, ?_, ?_⟩
    · rw [gen_word_index_to_lit_eq_model, patternNats_upPat, Option.bind_some, hv]
    · rw [gen_word_to_index_eq_model, hw.2.2.1]; rfl
    · rw [gen_word_to_index_eq_model, hw.2.2.2]; rfl
  · intro lit t ht
    rw [gen_word_to_index_eq_model] at ht
    cases hw : wordIndex (nv + 1) seqs lit with
    | error e => rw [hw] at ht; cases ht
    | ok w =>
      rw [hw] at ht
      have ht' : ints w = t := Except.ok.inj ht
      have := seq2vid_wordIndex hnd hw
      have hlt : seqs.idxOf w < seqs.length := List.idxOf_lt_length_iff.mpr this.1
      refine ⟨seqs.idxOf w, hlt, ?_, ?_⟩
      · rw [← ht', List.getElem_idxOf hlt]
      · have h2 := seq2vid_getElem hnd (nv + 1) (seqs.idxOf w) hlt
        rw [List.getElem_idxOf hlt, this.2] at h2
        exact Option.some.inj h2

/-- non-vacuity: `new_combinations(4, 2)` on a formula with 3 variables -/
example : ((WordOfIndicesVariables.init ⟨3⟩ 4 2 "combinations" (.ok ())).toOption.map
    (WordOfIndicesVariables.to_index · (-6))) = some (.ok [1, 4]) := by decide
example : ((WordOfIndicesVariables.init ⟨3⟩ 4 2 "combinations" (.ok ())).toOption.map
    (WordOfIndicesVariables.call · [some 2, some 3])) = some (.ok (.inl 7)) := by decide
example : (WordOfIndicesVariables.init ⟨3⟩ 4 2 "combination" (.ok ())).toOption.isNone = true := by decide

end Cnfgen.C11
