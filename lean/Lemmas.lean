import Lemmas.Linear
import Lemmas.OPB
