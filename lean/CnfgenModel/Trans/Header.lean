/-
L5 — header provenance of the transformations in substitutions.py:
`newF.header = copy(F.header)` followed by `add_description(newF, text)`.

The header is an `OrderedDict` str → str; here an association list in insertion order.
Keys are classified once, by the harness encoding: the key `'transformation {}'.format(i)`
(canonical decimal, as `str.format` prints an int) is `Key.trans i`, any other key is
`Key.other <code points>`.  Values are strings.  Import-free.
-/
import CnfgenModel.Core.Sem
namespace Cnfgen
namespace Header

inductive Key where
  | trans (i : Nat)
  | other (s : List Nat)
  deriving DecidableEq, Repr, Inhabited

abbrev Hdr := List (Key × String)

/-- `key in header` -/
def hasKey (h : Hdr) (k : Key) : Bool := h.any (fun e => e.1 == k)

/-- `header[key]` -/
def get? (h : Hdr) (k : Key) : Option String := (h.find? (fun e => e.1 == k)).map (·.2)

/-- `header[key] = value` on an ordered dictionary: an existing key keeps its position -/
def setKey (h : Hdr) (k : Key) (v : String) : Hdr :=
  if hasKey h k then h.map (fun e => if e.1 == k then (k, v) else e) else h ++ [(k, v)]

/-- largest `i` such that `transformation i` is a key (0 if none) -/
def maxTrans : Hdr → Nat
  | [] => 0
  | (Key.trans i, _) :: h => max i (maxTrans h)
  | (Key.other _, _) :: h => maxTrans h

/-- `while 'transformation {}'.format(i) in F.header: i += 1` — the loop ends at the latest
at `maxTrans h + 1`, which is the fuel -/
def freeFrom (h : Hdr) : Nat → Nat → Nat
  | 0, i => i
  | fuel + 1, i => if hasKey h (.trans i) then freeFrom h fuel (i + 1) else i

def freeIndex (h : Hdr) : Nat := freeFrom h (maxTrans h + 1) 1

/-- `add_description(F, text)` -/
def addDescription (h : Hdr) (text : String) : Hdr := setKey h (.trans (freeIndex h)) text

/-- which transformation, with the parameters that appear in its description -/
inductive T where
  | xor (k : Int) | or (k : Int) | maj (k : Int) | allEqual (k : Int) | notAllEqual (k : Int)
  | exactlyOne (k : Int) | linear (k : Int) (o : Op) (C : Int) | ite | lift (k : Int) | flip
  | compress (fn : Int) (L R : Nat)
  deriving Repr, Inhabited

/-- the text passed to `add_description` (as the code has it today: `AllEqualSubstitution`
says "not-all-equals" in both branches, `ExactlyOneSubstitution` says "exaclty") -/
def descr : T → String
  | .xor k => "Substitution with XOR of arity " ++ toString k
  | .or k => "Substitution with OR of arity " ++ toString k
  | .maj k => "Substitution with majority of arity " ++ toString k
  | .allEqual k => "Substitution with not-all-equals of arity " ++ toString k
  | .notAllEqual k => "Substitution with not-all-equals of arity " ++ toString k
  | .exactlyOne k => "Substitution with exaclty-one, of arity " ++ toString k
  | .linear k o C => "Substitution x --> x1 + x2 + ... x" ++ toString k ++ " " ++ o.str ++ " " ++ toString C
  | .ite => "If-Then-Else substitution formula"
  | .lift k => "Lifting with selectors over " ++ toString k ++ " values"
  | .flip => "All polarities have been flipped"
  | .compress fn L R =>
      "Variable " ++ (if fn = 0 then "xor" else "maj") ++ "-compression from " ++ toString L ++ " to " ++
        toString R ++ " variables"

/-- header of the result of a transformation applied to a formula with header `h`
(`copy` is the identity on values) -/
def transform (h : Hdr) (t : T) : Hdr := addDescription h (descr t)

/-- a chain of transformations, as `-T … -T …` applies them -/
def transformAll (h : Hdr) (ts : List T) : Hdr := ts.foldl transform h

end Header
end Cnfgen
