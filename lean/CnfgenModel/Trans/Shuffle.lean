/-
L5 — model of `cnfgen/transformations/shuffle.py: Shuffle` (and therefore of the
`cnfshuffle` tool and of `-T shuffle`, which only translate their three switches
into `'fixed'` / `'shuffle'` and call `Shuffle`).

Import-free apart from the core semantics: this file is compiled into the driver.

Reading guide (Python → model)

    polarity_flips / variables_permutation / clauses_permutation
        'fixed' | 'shuffle' | a sequence of ints          →  `Arg`
    random.choice([-1,1]) , random.shuffle(list)           →  `Draw` (the value the generator returned)
    the three validation blocks                            →  `checkFlips`, `checkPerm 1 N`, `checkPerm 0 M`
    substitution = [None]*(2N+1) …                         →  `substTable`  (Python indexing: `pyIndex`)
    sorted(enumerate(perm), key=lambda x: x[1])            →  `sortedMapping`
    for (old,new) in clauses_mapping: assert …; add_clause →  `loadStep` folded by `foldE`
    header handling                                        →  `shuffleHeader`
-/
import CnfgenModel.Core.Sem
namespace Cnfgen.Shuffle
open Cnfgen

/-! ### small Python idioms -/

/-- `l[i]` for a Python list and an `int` index: negative indices count from the end,
anything outside `-len … len-1` raises `IndexError`. -/
def pyIndex {α : Type} (l : List α) (i : Int) : Except Err α :=
  let j : Int := if i < 0 then i + l.length else i
  if j < 0 then .error .indexError
  else match l[j.toNat]? with
    | some x => .ok x
    | none => .error .indexError

/-- `[f(x) for x in l]` where `f` may raise: first exception wins -/
def mapE {α β : Type} (f : α → Except Err β) : List α → Except Err (List β)
  | [] => .ok []
  | x :: xs =>
    match f x with
    | .error e => .error e
    | .ok y =>
      match mapE f xs with
      | .error e => .error e
      | .ok ys => .ok (y :: ys)

/-- a `for` loop threading a state, where the body may raise -/
def foldE {α β : Type} (f : β → α → Except Err β) : β → List α → Except Err β
  | b, [] => .ok b
  | b, x :: xs =>
    match f b x with
    | .error e => .error e
    | .ok b' => foldE f b' xs

/-- `sorted(l)` on ints -/
def sortInt (l : List Int) : List Int := l.mergeSort (fun a b => decide (a ≤ b))

/-- `enumerate(l)` -/
def enumerate (l : List Int) : List (Nat × Int) := l.zipIdx.map (fun p => (p.2, p.1))

/-- `sorted(enumerate(perm), key=lambda x: x[1])` — Python's sort is stable, and so is `mergeSort` -/
def sortedMapping (perm : List Int) : List (Nat × Int) :=
  (enumerate perm).mergeSort (fun a b => decide (a.2 ≤ b.2))

/-! ### arguments and random draws -/

/-- one of the three arguments of `Shuffle` -/
inductive Arg where
  | fixed
  | shuffle
  | explicit (l : List Int)
  deriving Repr, DecidableEq, Inhabited

/-- the value returned by one call into the `random` module -/
inductive Draw where
  /-- return value of one `random.choice([-1, 1])` -/
  | choice (v : Int)
  /-- content of the list after one in-place `random.shuffle(list)` -/
  | shuffled (l : List Int)
  deriving Repr, DecidableEq, Inhabited

/-- `[random.choice([-1,1]) for x in range(n)]` : the next `n` draws must be `choice`s -/
def takeChoices : Nat → List Draw → Option (List Int × List Draw)
  | 0, ds => some ([], ds)
  | n + 1, .choice v :: ds =>
    match takeChoices n ds with
    | some (vs, r) => some (v :: vs, r)
    | none => none
  | _ + 1, _ => none

/-- one `random.shuffle(list)` -/
def takeShuffled : List Draw → Option (List Int × List Draw)
  | .shuffled l :: ds => some (l, ds)
  | _ => none

/-! ### validation of explicit arguments (all three raise `ValueError`) -/

/-- ```
    if len(polarity_flips) != N: raise ValueError(perr)
    for i in range(N):
        if abs(polarity_flips[i]) != 1: raise ValueError(perr)
``` -/
def checkFlips (N : Nat) (fl : List Int) : Except Err Unit :=
  if fl.length ≠ N then .error .valueError
  else if (List.range N).any (fun i => (fl.getD i 0).natAbs != 1) then .error .valueError
  else .ok ()

/-- ```
    if len(perm) != n: raise ValueError(err)
    tmp = sorted(perm)
    for i in range(n):
        if i + base != tmp[i]: raise ValueError(err)
```
`base = 1` for the permutation of the variables `[1..N]`, `base = 0` for the permutation of the
clause positions `[0..M-1]`. -/
def checkPerm (base : Int) (n : Nat) (perm : List Int) : Except Err Unit :=
  if perm.length ≠ n then .error .valueError
  else
    let tmp := sortInt perm
    if (List.range n).any (fun i => (i : Int) + base != tmp.getD i 0) then .error .valueError
    else .ok ()

/-! ### the substitution table and the clause loop -/

/-- ```
    substitution = [None] * (2 * N + 1)
    for i in range(1, N+1):
        substitution[i] = polarity_flips[i-1] * variables_permutation[i-1]
        substitution[-i] = -substitution[i]
```
Closed form of the finished table: index `0` stays `None`, indices `1..N` hold the products,
indices `N+1..2N` (= `-N..-1`) hold their negations in reverse order.  The loop reads
`polarity_flips[i-1]` and `variables_permutation[i-1]` for `i = 1..N`, so a sequence shorter
than `N` raises `IndexError` (unreachable after validation / legal draws). -/
def substTable (N : Nat) (fl vp : List Int) : Except Err (List (Option Int)) :=
  if fl.length < N ∨ vp.length < N then .error .indexError
  else
    let vals := (List.zipWith (· * ·) fl vp).take N
    .ok (none :: (vals.map some ++ vals.reverse.map (fun x => some (-x))))

/-- `out.add_clause(substitution[lit] for lit in clause)`, first half: the generator is
consumed by `list(clause)` (an `IndexError` of the table lookup escapes here); a `None` entry
then makes `_check_and_update` raise `ValueError` ("literals must be non-zero integers"). -/
def substClause (tbl : List (Option Int)) (c : Clause) : Except Err Clause :=
  match mapE (pyIndex tbl) c with
  | .error e => .error e
  | .ok lits =>
    if lits.any Option.isNone then .error .valueError
    else .ok (lits.filterMap id)

/-- body of
```
    for (old, new) in clauses_mapping:
        assert new == out.number_of_clauses()
        out.add_clause(substitution[lit] for lit in F[old])
``` -/
def loadStep (F : CNF) (tbl : List (Option Int)) (out : CNF) (m : Nat × Int) : Except Err CNF :=
  if m.2 ≠ (out.clauses.length : Int) then .error .assertion
  else
    match pyIndex F.clauses (m.1 : Int) with
    | .error e => .error e
    | .ok c =>
      match substClause tbl c with
      | .error e => .error e
      | .ok c' => out.addClause c'

/-- everything after the three argument blocks: `out` starts empty with `N` variables -/
def core (F : CNF) (fl vp : List Int) (mapping : List (Nat × Int)) : Except Err CNF :=
  match substTable F.nvars fl vp with
  | .error e => .error e
  | .ok tbl => foldE (loadStep F tbl) ⟨F.nvars, []⟩ mapping

/-- `Shuffle(F, fl, vp, cp)` with three explicit sequences -/
def shuffle (F : CNF) (fl vp cp : List Int) : Except Err CNF :=
  match checkFlips F.nvars fl with
  | .error e => .error e
  | .ok _ =>
    match checkPerm 1 F.nvars vp with
    | .error e => .error e
    | .ok _ =>
      match checkPerm 0 F.clauses.length cp with
      | .error e => .error e
      | .ok _ => core F fl vp (sortedMapping cp)

/-! ### the general call: each argument `'fixed'`, `'shuffle'` or explicit -/

/-- first block of `Shuffle`. Result: `none` if the draws do not have the shape of the calls made;
otherwise the flips (or the exception) and the draws not yet consumed. -/
def resolveFlips (N : Nat) : Arg → List Draw → Option (Except Err (List Int) × List Draw)
  | .fixed, ds => some (.ok (List.replicate N 1), ds)
  | .shuffle, ds =>
    match takeChoices N ds with
    | some (vs, r) => some (.ok vs, r)
    | none => none
  | .explicit l, ds =>
    match checkFlips N l with
    | .error e => some (.error e, ds)
    | .ok _ => some (.ok l, ds)

/-- `range(1, N+1)` -/
def iota1 (N : Nat) : List Int := (List.range N).map (fun (i : Nat) => (i : Int) + 1)
/-- `range(M)` -/
def iota0 (M : Nat) : List Int := (List.range M).map (fun (i : Nat) => (i : Int))

/-- second block. For `'shuffle'` the drawn list *is* `variables_permutation` (not validated). -/
def resolveVperm (N : Nat) : Arg → List Draw → Option (Except Err (List Int) × List Draw)
  | .fixed, ds => some (.ok (iota1 N), ds)
  | .shuffle, ds =>
    match takeShuffled ds with
    | some (l, r) => some (.ok l, r)
    | none => none
  | .explicit l, ds =>
    match checkPerm 1 N l with
    | .error e => some (.error e, ds)
    | .ok _ => some (.ok l, ds)

/-- third block, producing `clauses_mapping` -/
def resolveCperm (M : Nat) : Arg → List Draw → Option (Except Err (List (Nat × Int)) × List Draw)
  | .fixed, ds => some (.ok ((List.range M).map (fun (i : Nat) => (i, (i : Int)))), ds)
  | .shuffle, ds =>
    match takeShuffled ds with
    | some (l, r) => some (.ok (sortedMapping l), r)
    | none => none
  | .explicit l, ds =>
    match checkPerm 0 M l with
    | .error e => some (.error e, ds)
    | .ok _ => some (.ok (sortedMapping l), ds)

/-- `Shuffle(F, pa, va, ca)` as a function of the values the `random` module returns.
`none`: the draw stream does not fit the calls the code makes (never the case for recorded draws);
`some (r, rest)`: result (formula or exception) and the draws left over. -/
def run (F : CNF) (pa va ca : Arg) (ds : List Draw) : Option (Except Err CNF × List Draw) :=
  match resolveFlips F.nvars pa ds with
  | none => none
  | some (.error e, r) => some (.error e, r)
  | some (.ok fl, r1) =>
    match resolveVperm F.nvars va r1 with
    | none => none
    | some (.error e, r) => some (.error e, r)
    | some (.ok vp, r2) =>
      match resolveCperm F.clauses.length ca r2 with
      | none => none
      | some (.error e, r) => some (.error e, r)
      | some (.ok mapping, r3) => some (core F fl vp mapping, r3)

/-! ### header -/

abbrev Header := List (String × String)

def hasKey (h : Header) (k : String) : Bool := h.any (fun p => p.1 == k)

/-- `'transformation {}'.format(i)` -/
def tkey (i : Nat) : String := "transformation " ++ Nat.repr i

/-- ```
    i = 1
    while 'transformation {}'.format(i) in out.header: i += 1
```
with explicit fuel (a header with `n` keys has a free index among `1..n+1`). -/
def firstFreeFrom (h : Header) : Nat → Nat → Nat
  | 0, i => i
  | fuel + 1, i => if hasKey h (tkey i) then firstFreeFrom h fuel (i + 1) else i

def firstFree (h : Header) : Nat := firstFreeFrom h (h.length + 1) 1

/-- ```
    out.header = copy(F.header)
    if 'description' in out.header: out.header['description'] += " (reshuffled)"
    … out.header['transformation {}'.format(i)] = "Formula reshuffling"
```
The dictionary is an association list in insertion order (keys distinct). -/
def shuffleHeader (h : Header) : Header :=
  let h1 := h.map (fun p => if p.1 == "description" then (p.1, p.2 ++ " (reshuffled)") else p)
  h1 ++ [(tkey (firstFree h1), "Formula reshuffling")]

end Cnfgen.Shuffle
