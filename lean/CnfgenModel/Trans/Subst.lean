/-
L5 — cnfgen/transformations/substitutions.py: the substitution engine
(`apply_substitution`), every gadget encoder, lifting, if-then-else, polarity
flip and variable compression.  Import-free (compiled into the native driver).

Conventions
* the input formula is a `CNF` value (`nvars`, clause list); variable labels are
  not part of this model (they are the business of the variable manager);
* every transformation returns `Except Err CNF`: the exceptions of the real
  code (argument checks, the `substitutions[lit]` list indexing on a malformed
  input formula) are part of the model;
* the `*Pure` functions are the closed forms that the faithful functions are
  proved equal to on well-formed input (Lemmas/Subst.lean).
-/
import CnfgenModel.Core.Sem
import CnfgenModel.Core.Iter
import CnfgenModel.Build.Linear
import CnfgenModel.Graph.Basic
namespace Cnfgen
namespace Subst

/-! ### the engine: `apply_substitution` -/

/-- Python list indexing `l[i]` with an `int` index (negative indices count from the end) -/
def pyIndex {α : Type} (l : List α) (i : Int) : Except Err α :=
  let j : Int := if i < 0 then i + (l.length : Int) else i
  if j < 0 then .error .indexError
  else match l[j.toNat]? with
    | some x => .ok x
    | none => .error .indexError

/-- `substitutions = [None, F1, …, FN, -FN, …, -F1]` -/
def table (N : Nat) (enc : Int → List Clause) : List (Option (List Clause)) :=
  (List.range (2 * N + 1)).map (fun idx =>
    if idx = 0 then none
    else if idx ≤ N then some (enc (idx : Int))
    else some (enc (-(((2 * N + 1 - idx : Nat)) : Int))))

/-- `[substitutions[lit] for lit in clause]` (stops at the first `IndexError`) -/
def lookupAll (tbl : List (Option (List Clause))) : Clause → Except Err (List (Option (List Clause)))
  | [] => .ok []
  | l :: ls =>
    match pyIndex tbl l with
    | .error e => .error e
    | .ok d =>
      match lookupAll tbl ls with
      | .error e => .error e
      | .ok ds => .ok (d :: ds)

/-- `product(*domains)` raises `TypeError` when one of the domains is `None` -/
def allSome {α : Type} : List (Option α) → Option (List α)
  | [] => some []
  | none :: _ => none
  | some x :: xs => match allSome xs with
    | none => none
    | some ys => some (x :: ys)

/-- OR of CNFs by distribution: one clause per element of `product(*domains)`,
the chosen clauses concatenated in order -/
def distribute (doms : List (List Clause)) : List Clause := (product doms).map List.flatten

/-- the block of new clauses for one clause of the input formula -/
def substClausePy (tbl : List (Option (List Clause))) (c : Clause) : Except Err (List Clause) :=
  match lookupAll tbl c with
  | .error e => .error e
  | .ok ds =>
    match allSome ds with
    | none => .error .typeError
    | some doms => .ok (distribute doms)

/-- `add_clauses_from(block)` with `check=True` -/
def addAll (G : CNF) : List Clause → Except Err CNF
  | [] => .ok G
  | c :: cs => match G.addClause c true with
    | .error e => .error e
    | .ok G' => addAll G' cs

/-- `newF.add_clauses_from(apply_substitution(F, subst))` on a result formula that already is
`init`; the generator is consumed lazily, clause by clause of `F` -/
def run (init : CNF) (N : Nat) (enc : Int → List Clause) : List Clause → Except Err CNF
  | [] => .ok init
  | c :: cs =>
    match substClausePy (table N enc) c with
    | .error e => .error e
    | .ok block =>
      match addAll init block with
      | .error e => .error e
      | .ok g => run g N enc cs

/-- closed form of the clause list produced by `apply_substitution` on a well-formed formula -/
def substClauses (enc : Int → List Clause) (cs : List Clause) : List Clause :=
  cs.flatMap (fun c => distribute (c.map enc))

/-- largest variable mentioned (what `_check_and_update` accumulates into `_numvar`) -/
def clauseMax (c : Clause) : Nat := c.foldl (fun m l => max m l.natAbs) 0
def maxVar (cs : List Clause) : Nat := cs.foldl (fun m c => max m (clauseMax c)) 0

/-! ### gadget encoders (the inner functions of substitutions.py) -/

/-- `[(abs(lit)-1)*k + i for i in range(1, k+1)]` -/
def blockLits (k v : Nat) : List Int :=
  (List.range k).map (fun i => (((v - 1) * k + (i + 1) : Nat) : Int))

def xorify (k : Nat) (lit : Int) : List Clause :=
  Linear.parity (blockLits k lit.natAbs) (if lit > 0 then 1 else 0)

/-- `for i in range(len(nvars)): nvars[i] *= -1; add_clause(nvars); nvars[i] *= -1` -/
def flipEach : List Int → List Clause
  | [] => []
  | x :: xs => ((-x) :: xs) :: (flipEach xs).map (x :: ·)

def oneify (k : Nat) (lit : Int) : List Clause :=
  if lit > 0 then Linear.add (blockLits k lit.natAbs) .eq 1
  else flipEach (blockLits k lit.natAbs)

/-- `opchoices` of `LinearSubstitution` -/
def opchoices : List Op := [.eq, .lt, .gt, .le, .ge, .ne]

/-- `negop = opchoices[-i-1]` with `i = opchoices.index(op)` -/
def negop (o : Op) : Op := (opchoices.reverse)[opchoices.idxOf o]?.getD o

def linear (o : Op) (C : Int) (k : Nat) (lit : Int) : List Clause :=
  Linear.add (blockLits k lit.natAbs) (if lit > 0 then o else negop o) C

def majorify (k : Nat) (lit : Int) : List Clause :=
  if lit > 0 then Linear.looseMajority (blockLits k lit.natAbs)
  else Linear.strictMinority (blockLits k lit.natAbs)

/-- `aesubst`; `nvars[0]`, `nvars[-1]` exist because `k ≥ 1` is checked before -/
def aesubst (invert : Bool) (k : Nat) (lit : Int) : List Clause :=
  let nv := blockLits k lit.natAbs
  let lit' : Int := if invert then -lit else lit
  if lit' > 0 then
    [nv.getD 0 0, -(nv.getD (k - 1) 0)] ::
      (List.range (k - 1)).map (fun j => [-(nv.getD j 0), nv.getD (j + 1) 0])
  else [nv, nv.map (fun v => -v)]

def orify (k : Nat) (lit : Int) : List Clause :=
  if lit > 0 then [blockLits k lit.natAbs]
  else (blockLits k lit.natAbs).map (fun x => [-x])

/-- `ite(lit)`; `sign = lit // var` -/
def ite (N : Nat) (lit : Int) : List Clause :=
  let var : Int := lit.natAbs
  let sign : Int := if lit > 0 then 1 else -1
  [[-var, sign * ((N : Int) + var)], [var, sign * (2 * (N : Int) + var)]]

/-- new variables of `FormulaLifting` for the original variable `v`: the copies `X_{v,i}` and the
selectors `Y_{v,i}` (`Xoff + i`, `Yoff + i` of the code, `i` 0-based here) -/
def xVar (k v i : Nat) : Nat := (v - 1) * 2 * k + (i + 1)
def yVar (k v i : Nat) : Nat := (v - 1) * 2 * k + k + (i + 1)

def lift (k : Nat) (lit : Int) : List Clause :=
  let sign : Int := if lit > 0 then 1 else -1
  (List.range k).map (fun i => [-((yVar k lit.natAbs i : Nat) : Int), sign * ((xVar k lit.natAbs i : Nat) : Int)])

def flipLit (lit : Int) : List Clause := [[-lit]]

/-- `B.right_neighbors(abs(lit))` as literals -/
def nbLits (B : BipG) (v : Nat) : List Int := (B.rnbrs v).map (fun (x : Nat) => (x : Int))

def applyxor (B : BipG) (lit : Int) : List Clause :=
  Linear.parity (nbLits B lit.natAbs) (if lit > 0 then 1 else 0)

def applymaj (B : BipG) (lit : Int) : List Clause :=
  if lit > 0 then Linear.looseMajority (nbLits B lit.natAbs)
  else Linear.strictMinority (nbLits B lit.natAbs)

/-! ### the transformations -/

/-- common shape of the arity-`k` substitutions: `positive_int(k)`, `N` calls of `new_block(k)`
on an empty formula (`k·N` variables), then the substituted clauses -/
def kSubst (F : CNF) (k : Int) (enc : Nat → Int → List Clause) : Except Err CNF :=
  if k < 1 then .error .valueError
  else run ⟨k.toNat * F.nvars, []⟩ F.nvars (enc k.toNat) F.clauses

def xorSubst (F : CNF) (k : Int) : Except Err CNF := kSubst F k xorify
def orSubst (F : CNF) (k : Int) : Except Err CNF := kSubst F k orify
def majSubst (F : CNF) (k : Int) : Except Err CNF := kSubst F k majorify
def allEqual (F : CNF) (k : Int) (invert : Bool := false) : Except Err CNF := kSubst F k (aesubst invert)
def notAllEqual (F : CNF) (k : Int) : Except Err CNF :=
  if k < 1 then .error .valueError else allEqual F k true
def exactlyOne (F : CNF) (k : Int) : Except Err CNF := kSubst F k oneify
/-- `LinearSubstitution(F, k, op, C)` (the operator is one of the six by typing) -/
def linearSubst (F : CNF) (k : Int) (o : Op) (C : Int) : Except Err CNF := kSubst F k (linear o C)
def atLeast (F : CNF) (N : Int) (k : Int) : Except Err CNF := linearSubst F N .ge k
def atMost (F : CNF) (N : Int) (k : Int) : Except Err CNF := linearSubst F N .le k
def exactly (F : CNF) (N : Int) (k : Int) : Except Err CNF := linearSubst F N .eq k
def anythingBut (F : CNF) (N : Int) (k : Int) : Except Err CNF := linearSubst F N .ne k

/-- three rounds of `new_variable` (`3·N` variables), layout `v, N+v, 2N+v` -/
def ifThenElse (F : CNF) : Except Err CNF :=
  run ⟨3 * F.nvars, []⟩ F.nvars (ite F.nvars) F.clauses

/-- Python `range(a, b, s)` for `s > 0` -/
def rangeStep (a b s : Nat) : List Nat :=
  (List.range ((b - a + s - 1) / s)).map (fun j => a + s * j)

/-- the selector constraints of `FormulaLifting`:
`for y in range(k+1, N+1, 2*k): add_linear([y+i for i in range(k)], '==', 1)` with `N = 2·k·nvars` -/
def selectors (k nv : Nat) : List Clause :=
  (rangeStep (k + 1) (2 * k * nv + 1) (2 * k)).flatMap (fun y =>
    Linear.add ((List.range k).map (fun i => ((y + i : Nat) : Int))) .eq 1)

def lifting (F : CNF) (k : Int) : Except Err CNF :=
  if k < 1 then .error .valueError
  else run ⟨2 * k.toNat * F.nvars, selectors k.toNat F.nvars⟩ F.nvars (lift k.toNat) F.clauses

/-- `FlipPolarity`: an empty `CNF()` on which `update_variable_number(F.number_of_variables())`
declares the variables of the input (repair of D5), then the flipped clauses -/
def flip (F : CNF) : Except Err CNF := run ⟨F.nvars, []⟩ F.nvars flipLit F.clauses

/-- `VariableCompression(F, B, function)`; `fn = 0` is 'xor', `1` is 'maj', anything else is
rejected by `one_of_values` -/
def compress (F : CNF) (B : BipG) (fn : Int) : Except Err CNF :=
  if fn ≠ 0 ∧ fn ≠ 1 then .error .valueError
  else if B.l ≠ F.nvars then .error .valueError
  else run ⟨B.r, []⟩ F.nvars (if fn = 0 then applyxor B else applymaj B) F.clauses

end Subst
end Cnfgen
