/-
L2 — variable groups of cnfgen/formula/variables.py: index ↔ identifier arithmetic.
`start` is always the first identifier of the group (`number_of_variables() + 1` at
creation time).  Import-free.
-/
import CnfgenModel.Core.Sem
import CnfgenModel.Core.Iter
import CnfgenModel.Graph.Basic
namespace Cnfgen
namespace Vars

/-! ### BlockOfVariables -/

/-- `weights` of `BlockOfVariables`: `weights[i] = ∏_{j>i} ranges[j]` -/
def weights : List Nat → List Nat
  | [] => []
  | _ :: rs => rs.foldl (· * ·) 1 :: weights rs

def blockSize (ranges : List Nat) : Nat := ranges.foldl (· * ·) 1

/-- `_unsafe_index_to_lit` -/
def blockId (start : Nat) (ranges : List Nat) (idx : List Nat) : Nat :=
  start + ((idx.zip (weights ranges)).map (fun p => (p.1 - 1) * p.2)).foldl (· + ·) 0

/-- the loop of `to_index` on `residue = var - offset` -/
def blockIndexAux : List Nat → Nat → List Nat
  | [], _ => []
  | w :: ws, residue => (residue / w + 1) :: blockIndexAux ws (residue % w)

/-- `to_index(lit)`: ValueError unless the variable is in the group.
(Python's `//` by a zero weight cannot occur: a zero range makes the group empty.) -/
def blockIndex (start : Nat) (ranges : List Nat) (lit : Int) : Except Err (List Nat) :=
  let var := lit.natAbs
  if start ≤ var ∧ var < start + blockSize ranges then
    .ok (blockIndexAux (weights ranges) (var - start))
  else .error .valueError

/-- `indices(*pattern)`; `none` is the wildcard; the empty pattern means all wildcards -/
def blockIndices (ranges : List Nat) (pattern : List (Option Int)) : Except Err (List (List Nat)) :=
  if ¬ pattern.isEmpty ∧ pattern.length ≠ ranges.length then .error .valueError
  else
    let pat := if pattern.isEmpty then ranges.map (fun _ => none) else pattern
    let cols : Except Err (List (List Nat)) := (pat.zip ranges).mapM (fun (p : Option Int × Nat) =>
      match p.1 with
      | none => .ok (rangeN 1 (p.2 + 1))
      | some i => if 1 ≤ i ∧ i ≤ p.2 then .ok [i.toNat] else .error .valueError)
    cols.map product

/-! ### edges of a bipartite graph (also unary / sparse mappings) -/

/-- `offset[u]` for `u = 1 … l` (entry 0 is a placeholder, like Python's `None`) -/
def bipOffsets (G : BipG) (start : Nat) : List Nat :=
  0 :: ((List.range G.l).foldl (fun (acc : List Nat × Nat) i =>
      (acc.1 ++ [acc.2], acc.2 + (G.rnbrs (i + 1)).length)) ([], start)).1

/-- `_unsafe_index_to_lit((u, v))` for an edge `(u,v)` -/
def bipId (G : BipG) (start : Nat) (u v : Nat) : Nat :=
  (bipOffsets G start).getD u 0 + (G.rnbrs u).idxOf v

/-- identifiers `f(u, None)` -/
def bipRow (G : BipG) (start : Nat) (u : Nat) : List Nat := (G.rnbrs u).map (bipId G start u)
/-- identifiers `f(None, v)` -/
def bipCol (G : BipG) (start : Nat) (v : Nat) : List Nat := (G.lnbrs v).map (fun u => bipId G start u v)

/-- `to_index(lit)` of `BipartiteEdgesVariables`.
`bisect_right(self.offset, var) - 1` is computed on `offset[1:]` (entry 0 of the Python list is
`None`; the binary search never looks at it when `var ≥ offset[1]`, which `var in self` ensures).
The `IndexError` of `right_neighbors(u)[vidx]` and the `assert self(u, v) == var` of the code are
kept: the theorems show that neither can fire on a well-formed graph. -/
def bipIndex (G : BipG) (start : Nat) (lit : Int) : Except Err (Nat × Nat) :=
  let var := lit.natAbs
  if start ≤ var ∧ var < start + G.numberOfEdges then
    let offs := (bipOffsets G start).drop 1
    let u := bisectRight offs var
    let vidx := var - offs.getD (u - 1) 0
    match (G.rnbrs u)[vidx]? with
    | none => .error .indexError
    | some v =>
      if ¬ G.hasEdge u v then .error .valueError          -- `self(u, v)` → `indices(u, v)`
      else if bipId G start u v ≠ var then .error .assertion
      else .ok (u, v)
  else .error .valueError

/-- complete mapping `new_mapping(n, m)`: identifier of `f(u)=v` -/
def mapId (start : Nat) (m : Nat) (u v : Nat) : Nat := start + (u - 1) * m + (v - 1)

/-! ### binary mapping -/

/-- `int(ceil(log(m, 2)))` computed exactly: the smallest `b` with `m ≤ 2^b`
(`Lemmas/VarsBinary.lean`: `clog2_spec`).  The float computation of the code agrees with it for
every `m < 2^29` (checked exhaustively up to `2^20` by the harness author; `m = 2^29` gives 30). -/
def clog2 (m : Nat) : Nat := if m ≤ 1 then 0 else Nat.log2 (m - 1) + 1

/-- `_unsafe_index_to_lit((i, b))` with `id_offset = start - 1` -/
def binId (start bits : Nat) (i b : Nat) : Nat := i * bits - b + (start - 1)

/-- `flips[j]`: `product([1,-1], repeat=bits)[j]` — sign `-1` where the bit of `j` is 1, MSB first -/
def flipPattern (bits j : Nat) : List Int :=
  (List.range bits).map (fun t => if (j / 2 ^ (bits - 1 - t)) % 2 = 1 then (-1 : Int) else 1)

/-- `forbid(i, j)` -/
def forbid (start bits : Nat) (i j : Nat) : Except Err Clause :=
  if j ≥ 2 ^ bits then .error .valueError
  else .ok ((flipPattern bits j).zipWith (fun s t => s * (binId start bits i (bits - 1 - t) : Int)) (List.range bits))

/-! ### words -/
def combosSeqs (n k : Nat) : List (List Nat) := combos (rangeN 1 (n + 1)) k
def permsSeqs (n k : Nat) : List (List Nat) := permsK k (rangeN 1 (n + 1))
def wordsSeqs (n k : Nat) : List (List Nat) := productRep (rangeN 1 (n + 1)) k
def combosReplSeqs (n k : Nat) : List (List Nat) := combosRepl (rangeN 1 (n + 1)) k
/-- identifier of the word `w` in the enumeration `seqs` -/
def wordId (start : Nat) (seqs : List (List Nat)) (w : List Nat) : Option Nat :=
  let i := seqs.idxOf w
  if i < seqs.length then some (start + i) else none

/-- `seq2vid[w]` of `WordOfIndicesVariables`: the dictionary is filled in enumeration order, a
repeated key would be overwritten, i.e. the *last* position wins (never happens: the enumerations
are duplicate-free, `Lemmas/VarsWords.lean`; then this is `wordId`). -/
def lastIdxOf : List (List Nat) → List Nat → Option Nat
  | [], _ => none
  | x :: xs, w =>
    match lastIdxOf xs w with
    | some i => some (i + 1)
    | none => if x = w then some 0 else none

def seq2vid (start : Nat) (seqs : List (List Nat)) (w : List Nat) : Option Nat :=
  (lastIdxOf seqs w).map (start + ·)

/-- `to_index(lit)` of `WordOfIndicesVariables`: `vid2seq[var - offset - 1]` -/
def wordIndex (start : Nat) (seqs : List (List Nat)) (lit : Int) : Except Err (List Nat) :=
  let var := lit.natAbs
  if start ≤ var ∧ var < start + seqs.length then
    match seqs[var - start]? with
    | some w => .ok w
    | none => .error .indexError
  else .error .valueError

/-! ### binary mapping: the remaining methods -/

/-- `to_index(lit)` of `BinaryMappingVariables` (`id_offset = start - 1`) -/
def binIndex (start n bits : Nat) (lit : Int) : Except Err (Nat × Nat) :=
  let var := lit.natAbs
  if start ≤ var ∧ var < start + n * bits then
    let rel := var - (start - 1)
    .ok ((rel - 1) / bits + 1, bits - 1 - (rel - 1) % bits)
  else .error .valueError

/-- `flips[j]` for a Python index `j` (negative indices count from the end — `forbid` has no
lower-bound check) -/
def flipsGet (bits : Nat) (j : Int) : Except Err (List Int) :=
  if 0 ≤ j then
    if j.toNat < 2 ^ bits then .ok (flipPattern bits j.toNat) else .error .indexError
  else if (-j).toNat ≤ 2 ^ bits then .ok (flipPattern bits (2 ^ bits - (-j).toNat))
  else .error .indexError

/-- `forbid(i, j)` with every check of the code: `j >= 2**bits` → ValueError, `flips[j]`
(IndexError for `j < -2**bits`), then `self(i, None)` (ValueError unless `1 ≤ i ≤ n`) -/
def forbidFull (start n bits : Nat) (i j : Int) : Except Err Clause :=
  if j ≥ 2 ^ bits then .error .valueError
  else do
    let signs ← flipsGet bits j
    if ¬ (1 ≤ i ∧ i ≤ n) then .error .valueError
    else .ok (signs.zipWith (fun s t => s * (binId start bits i.toNat (bits - 1 - t) : Int)) (List.range bits))

/-! ### edges of simple and directed graphs: the auxiliary bipartite graph -/

/-- `GraphEdgesVariables.__init__`: `B = BipartiteGraph(V, V)`, one edge `(min, max)` per edge -/
def graphAux (G : SimpleG) : Except Err BipG :=
  G.edges.foldlM (fun (B : BipG) e =>
    let u := min e.1 e.2; let v := max e.1 e.2
    if B.hasEdge u v then pure B else B.addEdge u v) (BipG.init G.n G.n)

/-- `DiGraphEdgesVariables.__init__`: `B.add_edge(u, v)` for `sortby='pred'`, `B.add_edge(v, u)`
for `sortby='succ'`, over `D.edges()` -/
def digraphAux (D : DiG) (succ : Bool) : Except Err BipG :=
  D.edges.foldlM (fun (B : BipG) e =>
    if succ then B.addEdge e.2 e.1 else B.addEdge e.1 e.2) (BipG.init D.n D.n)

/-! ### the group objects -/

/-- a created variable group; `start` is its first identifier (`ids = range(start, start+len)`).
`bip … unary` is a `UnaryMappingVariables` when `unary`, else a `BipartiteEdgesVariables`;
`graph`/`digraph` hold the auxiliary bipartite graph `B`. -/
inductive Group where
  | single (start : Nat) (name : Option String)
  | block (start : Nat) (ranges : List Nat) (fmt : String)
  | word (start : Nat) (seqs : List (List Nat)) (fmt : String)
  | bip (start : Nat) (G : BipG) (fmt : String) (unary : Bool)
  | graph (start : Nat) (B : BipG) (fmt : String)
  | digraph (start : Nat) (B : BipG) (succ : Bool) (fmt : String)
  | binary (start : Nat) (n m : Nat) (fmt : String)
  deriving Repr, DecidableEq, Inhabited

namespace Group

def start : Group → Nat
  | single s _ | block s _ _ | word s _ _ | bip s _ _ _ | graph s _ _ | digraph s _ _ _
  | binary s _ _ _ => s

/-- `len(vg)` -/
def len : Group → Nat
  | single _ _ => 1
  | block _ ranges _ => blockSize ranges
  | word _ seqs _ => seqs.length
  | bip _ G _ _ => G.numberOfEdges
  | graph _ B _ => B.numberOfEdges
  | digraph _ B _ _ => B.numberOfEdges
  | binary _ n m _ => n * clog2 m

/-- `vg.ids` -/
def ids (g : Group) : List Nat := List.range' g.start g.len

def isSingle : Group → Bool
  | single _ _ => true
  | _ => false

/-- `lit in vg` -/
def contains (g : Group) (lit : Int) : Bool := g.start ≤ lit.natAbs && lit.natAbs < g.start + g.len

/-- `vg.to_index(lit)`; the index is returned as a list of integers -/
def toIndex : Group → Int → Except Err (List Nat)
  | single s _, lit => if lit.natAbs ≠ s then .error .valueError else .ok []
  | block s ranges _, lit => blockIndex s ranges lit
  | word s seqs _, lit => wordIndex s seqs lit
  | bip s G _ _, lit => (bipIndex G s lit).map (fun p => [p.1, p.2])
  | graph s B _, lit => (bipIndex B s lit).map (fun p => [p.1, p.2])
  | digraph s B succ _, lit =>
    (bipIndex B s lit).map (fun p => if succ then [p.2, p.1] else [p.1, p.2])
  | binary s n m _, lit => (binIndex s n (clog2 m) lit).map (fun p => [p.1, p.2])

end Group

end Vars
end Cnfgen
