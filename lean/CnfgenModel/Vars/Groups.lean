/-
L2 — variable groups of cnfgen/formula/variables.py: index ↔ identifier arithmetic.
`start` is always the first identifier of the group (`number_of_variables() + 1` at
creation time).  Import-free.
-/
import CnfgenModel.Core.Sem
import CnfgenModel.Core.Iter
import CnfgenModel.Graph.Basic
namespace Cnfgen
namespace Vars

/-! ### BlockOfVariables -/

/-- `weights` of `BlockOfVariables`: `weights[i] = ∏_{j>i} ranges[j]` -/
def weights : List Nat → List Nat
  | [] => []
  | _ :: rs => rs.foldl (· * ·) 1 :: weights rs

def blockSize (ranges : List Nat) : Nat := ranges.foldl (· * ·) 1

/-- `_unsafe_index_to_lit` -/
def blockId (start : Nat) (ranges : List Nat) (idx : List Nat) : Nat :=
  start + ((idx.zip (weights ranges)).map (fun p => (p.1 - 1) * p.2)).foldl (· + ·) 0

/-- the loop of `to_index` on `residue = var - offset` -/
def blockIndexAux : List Nat → Nat → List Nat
  | [], _ => []
  | w :: ws, residue => (residue / w + 1) :: blockIndexAux ws (residue % w)

/-- `to_index(lit)`: ValueError unless the variable is in the group.
(Python's `//` by a zero weight cannot occur: a zero range makes the group empty.) -/
def blockIndex (start : Nat) (ranges : List Nat) (lit : Int) : Except Err (List Nat) :=
  let var := lit.natAbs
  if start ≤ var ∧ var < start + blockSize ranges then
    .ok (blockIndexAux (weights ranges) (var - start))
  else .error .valueError

/-- `indices(*pattern)`; `none` is the wildcard; the empty pattern means all wildcards -/
def blockIndices (ranges : List Nat) (pattern : List (Option Int)) : Except Err (List (List Nat)) :=
  if ¬ pattern.isEmpty ∧ pattern.length ≠ ranges.length then .error .valueError
  else
    let pat := if pattern.isEmpty then ranges.map (fun _ => none) else pattern
    let cols : Except Err (List (List Nat)) := (pat.zip ranges).mapM (fun (p : Option Int × Nat) =>
      match p.1 with
      | none => .ok (rangeN 1 (p.2 + 1))
      | some i => if 1 ≤ i ∧ i ≤ p.2 then .ok [i.toNat] else .error .valueError)
    cols.map product

/-! ### edges of a bipartite graph (also unary / sparse mappings) -/

/-- `offset[u]` for `u = 1 … l` (entry 0 is a placeholder, like Python's `None`) -/
def bipOffsets (G : BipG) (start : Nat) : List Nat :=
  0 :: ((List.range G.l).foldl (fun (acc : List Nat × Nat) i =>
      (acc.1 ++ [acc.2], acc.2 + (G.rnbrs (i + 1)).length)) ([], start)).1

/-- `_unsafe_index_to_lit((u, v))` for an edge `(u,v)` -/
def bipId (G : BipG) (start : Nat) (u v : Nat) : Nat :=
  (bipOffsets G start).getD u 0 + (G.rnbrs u).idxOf v

/-- identifiers `f(u, None)` -/
def bipRow (G : BipG) (start : Nat) (u : Nat) : List Nat := (G.rnbrs u).map (bipId G start u)
/-- identifiers `f(None, v)` -/
def bipCol (G : BipG) (start : Nat) (v : Nat) : List Nat := (G.lnbrs v).map (fun u => bipId G start u v)

/-- `to_index(lit)` of `BipartiteEdgesVariables` -/
def bipIndex (G : BipG) (start : Nat) (lit : Int) : Except Err (Nat × Nat) :=
  let var := lit.natAbs
  if start ≤ var ∧ var < start + G.numberOfEdges then
    -- bisect_right(offset, var) - 1 over offset[1..]
    let offs := (bipOffsets G start).drop 1
    let u := (offs.takeWhile (· ≤ var)).length
    let vidx := var - offs.getD (u - 1) 0
    .ok (u, (G.rnbrs u).getD vidx 0)
  else .error .valueError

/-- complete mapping `new_mapping(n, m)`: identifier of `f(u)=v` -/
def mapId (start : Nat) (m : Nat) (u v : Nat) : Nat := start + (u - 1) * m + (v - 1)

/-! ### binary mapping -/

/-- `int(ceil(log(m, 2)))` computed exactly (smallest `b` with `m ≤ 2^b`) -/
def clog2 (m : Nat) : Nat := (List.range (m + 1)).find? (fun b => m ≤ 2 ^ b) |>.getD m

/-- `_unsafe_index_to_lit((i, b))` with `id_offset = start - 1` -/
def binId (start bits : Nat) (i b : Nat) : Nat := i * bits - b + (start - 1)

/-- `flips[j]`: `product([1,-1], repeat=bits)[j]` — sign `-1` where the bit of `j` is 1, MSB first -/
def flipPattern (bits j : Nat) : List Int :=
  (List.range bits).map (fun t => if (j / 2 ^ (bits - 1 - t)) % 2 = 1 then (-1 : Int) else 1)

/-- `forbid(i, j)` -/
def forbid (start bits : Nat) (i j : Nat) : Except Err Clause :=
  if j ≥ 2 ^ bits then .error .valueError
  else .ok ((flipPattern bits j).zipWith (fun s t => s * (binId start bits i (bits - 1 - t) : Int)) (List.range bits))

/-! ### words -/
def combosSeqs (n k : Nat) : List (List Nat) := combos (rangeN 1 (n + 1)) k
def permsSeqs (n k : Nat) : List (List Nat) := permsK k (rangeN 1 (n + 1))
def wordsSeqs (n k : Nat) : List (List Nat) := productRep (rangeN 1 (n + 1)) k
def combosReplSeqs (n k : Nat) : List (List Nat) := combosRepl (rangeN 1 (n + 1)) k
/-- identifier of the word `w` in the enumeration `seqs` -/
def wordId (start : Nat) (seqs : List (List Nat)) (w : List Nat) : Option Nat :=
  let i := seqs.idxOf w
  if i < seqs.length then some (start + i) else none

end Vars
end Cnfgen
