/-
L2 — `VariablesManager.force_{complete,functional,surjective,injective,nondecreasing}_mapping`
for unary / sparse mappings (`UnaryMappingVariables`, a bipartite-edge group) and binary mappings
(`BinaryMappingVariables`).  Each function returns the constraints in the order in which the
code adds them (`Con`, see Build/Constr.lean: the same list is rendered as clauses by the CNF
class and as pseudo-Boolean constraints by the OPB class).  Import-free.
-/
import CnfgenModel.Vars.Groups
import CnfgenModel.Build.Constr
namespace Cnfgen
namespace Vars

/-- a mapping group: `unary start G` (`new_mapping` → `G = BipG.complete n m`,
`new_sparse_mapping` → `G`), `binary start n m` (`new_binary_mapping`) -/
inductive MapG where
  | unary (start : Nat) (G : BipG)
  | binary (start : Nat) (n m : Nat)
  deriving Repr, Inhabited

def Group.toMapG? : Group → Option MapG
  | .bip s G _ true => some (.unary s G)
  | .binary s n m _ => some (.binary s n m)
  | _ => none

/-- `f.domain()` -/
def MapG.domain : MapG → List Nat
  | .unary _ G => rangeN 1 (G.l + 1)
  | .binary _ n _ => rangeN 1 (n + 1)

def negLit (v : Nat) : Int := -(v : Int)

/-- `itertools.combinations(l, 2)` as pairs (`Lemmas/VarsMapping.lean`: `= (combos l 2).map …`) -/
def pairs2 : List Nat → List (Nat × Nat)
  | [] => []
  | x :: xs => xs.map (fun y => (x, y)) ++ pairs2 xs

/-- `f.forbid(i, j)` for an index the loops of `force_*` produce (`1 ≤ i ≤ n`, `0 ≤ j`) -/
def forbidC (start m : Nat) (i j : Nat) : Except Err Clause := forbid start (clog2 m) i j

/-- `force_complete_mapping(f)` -/
def forceComplete : MapG → Except Err (List Con)
  | .unary s G => .ok ((rangeN 1 (G.l + 1)).map (fun x => Con.clause ((bipRow G s x).map Int.ofNat)))
  | .binary s n m =>
    ((rangeN 1 (n + 1)).mapM (fun i =>
      (rangeN m (2 ^ clog2 m)).mapM (fun j => (forbidC s m i j).map Con.clause))).map List.flatten

/-- `force_functional_mapping(f)`: nothing to add for a binary mapping -/
def forceFunctional : MapG → Except Err (List Con)
  | .unary s G => .ok ((rangeN 1 (G.l + 1)).map (fun x => Con.lin ((bipRow G s x).map Int.ofNat) .le 1))
  | .binary _ _ _ => .ok []

/-- `force_surjective_mapping(f)`: "works only for mappings represented in unary"; on a binary
mapping `f(None, y)` raises ValueError as soon as `y ≥ bits` (always, since `m > ⌈log₂ m⌉`) -/
def forceSurjective : MapG → Except Err (List Con)
  | .unary s G => .ok ((rangeN 1 (G.r + 1)).map (fun y => Con.clause ((bipCol G s y).map Int.ofNat)))
  | .binary _ _ _ => .error .valueError

/-- `force_injective_mapping(f)` -/
def forceInjective : MapG → Except Err (List Con)
  | .unary s G => .ok ((rangeN 1 (G.r + 1)).map (fun y => Con.lin ((bipCol G s y).map Int.ofNat) .le 1))
  | .binary s n m =>
    ((rangeN 0 m).mapM (fun y =>
      (pairs2 (rangeN 1 (n + 1))).mapM (fun (p : Nat × Nat) => do
        let a ← forbidC s m p.1 y
        let b ← forbidC s m p.2 y
        pure (Con.clause (a ++ b))))).map List.flatten

/-- `force_nondecreasing_mapping(f)` -/
def forceNondecreasing : MapG → Except Err (List Con)
  | .unary s G =>
    .ok ((pairs2 (rangeN 1 (G.l + 1))).flatMap (fun (p : Nat × Nat) =>
      (G.rnbrs p.1).flatMap (fun v1 => (G.rnbrs p.2).filterMap (fun v2 =>
        if v1 > v2 then some (Con.clause [negLit (bipId G s p.1 v1), negLit (bipId G s p.2 v2)])
        else none))))
  | .binary s n m =>
    ((pairs2 (rangeN 1 (n + 1))).mapM (fun (p : Nat × Nat) =>
      (pairs2 (rangeN 0 m)).mapM (fun (q : Nat × Nat) => do
        let a ← forbidC s m p.1 q.2
        let b ← forbidC s m p.2 q.1
        pure (Con.clause (a ++ b))))).map List.flatten

end Vars
end Cnfgen
