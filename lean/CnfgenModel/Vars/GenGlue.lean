/-
The abstract interfaces of the TRANSLATED functions (`Generated/Funcs.lean`: `AbsFormula`, `AbsBipGraph` — records
of the observers the translated code calls) instantiated with the model's objects.  The graph observers are the
model's own (`Graph/Basic.lean`, verified against graphs.py by property C16); naturals become Python integers.
Used by the generated driver requests and by the theorems of `Props/C11/Generated.lean`.  Import-free of Mathlib.
-/
import CnfgenModel.Generated.FuncsAbs
import CnfgenModel.Graph.Basic
import CnfgenModel.Graph.Build
namespace Cnfgen
namespace Vars
open Cnfgen.PyGen

/-- a formula with `nv` variables, as seen by the variable groups -/
def absFormula (nv : Nat) : AbsFormula := ⟨nv⟩

/-- a `BipartiteGraph` object, as seen by the variable groups -/
def absBip (G : BipG) : AbsBipGraph where
  parts := (⟨1, (G.l : Int) + 1⟩, ⟨1, (G.r : Int) + 1⟩)
  left_order := G.l
  right_order := G.r
  number_of_edges := G.numberOfEdges
  right_degree := fun u => (G.rightDegree u).map (fun (n : Nat) => (n : Int))
  right_neighbors := fun u => (G.rightNeighbors u).map (·.map Int.ofNat)
  left_neighbors := fun v => (G.leftNeighbors v).map (·.map Int.ofNat)
  has_edge := fun u v => G.hasEdge u v
  edges := G.edges.map (fun e => ((e.1 : Int), (e.2 : Int)))
  is_bipartite := true

/-- `B.number_of_edges()` of a `BipartiteGraph` object under construction -/
def bipNumberOfEdges (G : BipG) : Int := (G.numberOfEdges : Nat)

/-- a `DirectedGraph` object, as seen by the family generators -/
def absDi (D : DiG) : AbsDiGraph where
  is_dag := D.isDag
  number_of_vertices := D.n
  vertices := ⟨1, (D.n : Int) + 1⟩
  predecessors := fun u => (D.predecessors u).map (·.map Int.ofNat)
  successors := fun u => (D.successors u).map (·.map Int.ofNat)
  in_degree := fun u => (D.inDegree u).map (fun (n : Nat) => (n : Int))
  out_degree := fun u => (D.outDegree u).map (fun (n : Nat) => (n : Int))

/-- a `Graph` object (simple undirected graph), as seen by the family generators -/
def absGraph (G : SimpleG) : AbsGraph where
  number_of_vertices := G.n
  order := G.n
  number_of_edges := G.m
  vertices := ⟨1, (G.n : Int) + 1⟩
  neighbors := fun u => (G.neighbors u).map (·.map Int.ofNat)
  degree := fun u => (G.degree u).map (fun (n : Nat) => (n : Int))
  has_edge := fun u v => G.hasEdge u v
  edges := G.edges.map (fun e => ((e.1 : Int), (e.2 : Int)))

/-- `Graph.complete_graph(n)`, as seen by the family generators: the model of the constructor in `Graph/Build.lean`
(`Graph(n)` validates `n ≥ 0`, then `add_edge(u, v)` for `u < v` in the order of the two nested loops; property C15) -/
def absCompleteGraph (n : Int) : Except Err AbsGraph :=
  (GBuild.completeGraph n).map absGraph

/-- `CompleteBipartiteGraph(L, R)` (`non_negative_int` on both sides), as seen by the variable groups -/
def absCompleteBip (l r : Int) : Except Err AbsBipGraph :=
  if l < 0 ∨ r < 0 then .error .valueError else .ok (absBip (BipG.complete l.toNat r.toNat))

end Vars
end Cnfgen
