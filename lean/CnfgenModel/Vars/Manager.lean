/-
L2 — `VariablesManager` + the variable counter of `BaseCNF` as a state machine.

State: the declared number of variables, the groups in creation order, the stored clauses.
Operations: `add_clause(c, check)`, `update_variable_number(n)`, `new_*(…)` (one `GroupSpec` per
`new_*` method), and the observation `all_variable_labels(default_label_format)`.
A Python exception leaves the object in the state reached so far; `step` therefore returns the
state *and* the outcome.  Import-free.
-/
import CnfgenModel.Vars.Patterns
namespace Cnfgen
namespace Vars

/-- `sortby` argument of `new_digraph_edges` -/
inductive SortBy where
  | pred | succ | other
  deriving Repr, DecidableEq, Inhabited

/-- the arguments of the `new_*` methods (`label = none` means "not given") -/
inductive GroupSpec where
  | variable (label : Option String)
  | block (ranges : List Int) (label : Option String)
  | combinations (n k : Int) (label : Option String)
  | combinationsRepl (n k : Int) (label : Option String)
  | permutations (n : Int) (k : Option Int) (label : Option String)
  | words (n k : Int) (label : Option String)
  | bipartite (G : BipG) (label : Option String)
  | graph (G : SimpleG) (label : Option String)
  | digraph (D : DiG) (label : Option String) (sortby : SortBy)
  | mapping (n m : Int) (label : Option String)
  | sparseMapping (G : BipG) (label : Option String)
  | binaryMapping (n m : Int) (label : Option String)
  deriving Repr, Inhabited

/-- default label of `BlockOfVariables`: `'X(' + ','.join(['{}'] * len(ranges)) + ')'` -/
def blockDefaultFmt (k : Nat) : String := "X(" ++ ",".intercalate (List.replicate k "{}") ++ ")"

/-- checks of `WordOfIndicesVariables.__init__` before the enumeration -/
def wordChecks (n k : Int) (fmt : String) : Except Err Unit := do
  checkFormat fmt ["2"]
  if n < 0 ∨ k < 0 then throw Err.valueError
  pure ()

/-- the constructor called by `new_*`, on a formula with `numvar` variables.  The order of the
checks is the order of the code. -/
def mkGroup (numvar : Nat) : GroupSpec → Except Err Group
  | .variable label => .ok (.single (numvar + 1) label)
  | .block ranges label => do
    let fmt := label.getD (blockDefaultFmt ranges.length)
    checkFormat fmt (ranges.map toString)
    if ranges.isEmpty then throw Err.valueError
    if ranges.any (· < 0) then throw Err.valueError
    pure (.block (numvar + 1) (ranges.map Int.toNat) fmt)
  | .combinations n k label => do
    let fmt := label.getD "p_{{{}}}"
    wordChecks n k fmt
    pure (.word (numvar + 1) (combosSeqs n.toNat k.toNat) fmt)
  | .combinationsRepl n k label => do
    let fmt := label.getD "p_{{{}}}"
    wordChecks n k fmt
    pure (.word (numvar + 1) (combosReplSeqs n.toNat k.toNat) fmt)
  | .permutations n k label => do
    let fmt := label.getD "p_{{{}}}"
    let k := k.getD n
    wordChecks n k fmt
    pure (.word (numvar + 1) (permsSeqs n.toNat k.toNat) fmt)
  | .words n k label => do
    let fmt := label.getD "p_{{{}}}"
    wordChecks n k fmt
    pure (.word (numvar + 1) (wordsSeqs n.toNat k.toNat) fmt)
  | .bipartite G label => do
    let fmt := label.getD "e({},{})"
    checkFormat fmt ["1", "1"]
    pure (.bip (numvar + 1) G fmt false)
  | .graph G label => do
    let fmt := label.getD "e({},{})"
    let B ← graphAux G
    checkFormat fmt ["1", "1"]
    pure (.graph (numvar + 1) B fmt)
  | .digraph D label sortby => do
    let fmt := label.getD "e({},{})"
    if sortby = .other then throw Err.valueError
    checkFormat fmt ["1", "1"]
    let B ← digraphAux D (sortby = .succ)
    pure (.digraph (numvar + 1) B (sortby = .succ) fmt)
  | .mapping n m label => do
    let fmt := label.getD "f({})={}"
    if n < 0 ∨ m < 0 then throw Err.valueError
    checkFormat fmt ["1", "1"]
    pure (.bip (numvar + 1) (BipG.complete n.toNat m.toNat) fmt true)
  | .sparseMapping G label => do
    let fmt := label.getD "f({})={}"
    checkFormat fmt ["1", "1"]
    pure (.bip (numvar + 1) G fmt true)
  | .binaryMapping n m label => do
    let fmt := label.getD "v({},{})"
    if n < 0 ∨ m < 0 then throw Err.valueError
    pure (.binary (numvar + 1) n.toNat m.toNat fmt)     -- the label is not checked here

/-! ### the state machine -/

structure MState where
  numvar : Nat
  groups : List Group
  clauses : List Clause
  deriving Repr, Inhabited

def MState.init : MState := ⟨0, [], []⟩

inductive MOp where
  | addClause (c : Clause) (check : Bool)
  | updateVarNum (n : Int)
  | newGroup (spec : GroupSpec)
  deriving Repr, Inhabited

/-- largest variable of a clause -/
def maxAbs : Clause → Nat
  | [] => 0
  | l :: ls => max l.natAbs (maxAbs ls)

/-- largest variable mentioned by the stored clauses -/
def maxMentionedOf : List Clause → Nat
  | [] => 0
  | c :: cs => max (maxAbs c) (maxMentionedOf cs)

def MState.maxMentioned (s : MState) : Nat := maxMentionedOf s.clauses

/-- outcome of an operation: nothing, or the new group -/
abbrev Outcome := Except Err (Option Group)

/-- `BaseCNF.add_clause(clause, check)`: an empty clause is stored as it is; otherwise the
clause is validated first (`check`), then stored — a rejected clause leaves the formula unchanged -/
def addClause (s : MState) (c : Clause) (check : Bool) : MState × Outcome :=
  if c.isEmpty then ({ s with clauses := s.clauses ++ [c] }, .ok none)
  else if check then
    if c.contains 0 then (s, .error .valueError)
    else ({ s with clauses := s.clauses ++ [c], numvar := max s.numvar (maxAbs c) }, .ok none)
  else ({ s with clauses := s.clauses ++ [c] }, .ok none)

/-- `BaseCNF.update_variable_number(new_value)` -/
def updateVarNum (s : MState) (n : Int) : MState × Outcome :=
  if n < 0 then (s, .error .valueError)
  else ({ s with numvar := max s.numvar n.toNat }, .ok none)

/-- `VariablesManager._add_variable_group(vg)` -/
def addGroup (s : MState) (g : Group) : MState × Outcome :=
  if g.len = 0 then ({ s with groups := s.groups ++ [g] }, .ok (some g))
  else if g.start ≤ s.numvar then (s, .error .valueError)
  else ({ s with groups := s.groups ++ [g], numvar := max s.numvar (g.start + g.len - 1) }, .ok (some g))

/-- `new_*` -/
def newGroup (s : MState) (spec : GroupSpec) : MState × Outcome :=
  match mkGroup s.numvar spec with
  | .error e => (s, .error e)
  | .ok g => addGroup s g

def step (s : MState) : MOp → MState × Outcome
  | .addClause c check => addClause s c check
  | .updateVarNum n => updateVarNum s n
  | .newGroup spec => newGroup s spec

/-- a history; exceptions are caught by the caller and the history goes on -/
def run (s : MState) (ops : List MOp) : MState := ops.foldl (fun s op => (step s op).1) s

/-- the states after each operation, with the outcomes -/
def trace : MState → List MOp → List (MState × Outcome)
  | _, [] => []
  | s, op :: ops => let r := step s op; r :: trace r.1 ops

/-! ### `all_variable_labels` -/

/-- default names for `varid … stop-1` -/
def defaultNames (dfmt : String) (varid stop : Nat) : Except Err (List (Option String)) :=
  (rangeN varid stop).mapM (fun v => (defaultName dfmt v).map some)

/-- what the loop yields for a non-empty group once the gap before it is filled; `varid` is
the current counter.  A single variable without a name gets the default name of `varid`. -/
def groupNames (dfmt : String) (g : Group) (varid : Nat) : Except Err (List (Option String)) :=
  match g with
  | .single _ none => do let d ← defaultName dfmt varid; pure [some d]
  | .single _ (some name) => pure [some name]
  | g => g.allLabels

/-- the `for vg in self._groups` loop; returns the yielded labels and the final `varid` -/
def allLabelsLoop (dfmt : String) : List Group → Nat → Except Err (List (Option String) × Nat)
  | [], varid => .ok ([], varid)
  | g :: gs, varid =>
    if g.len = 0 then allLabelsLoop dfmt gs varid
    else do
      -- `while varid < begin: yield default_label_format.format(varid); varid += 1`
      let gap ← defaultNames dfmt varid g.start
      let ls ← groupNames dfmt g (max varid g.start)
      let (rest, v) ← allLabelsLoop dfmt gs (max varid g.start + g.len)
      pure (gap ++ ls ++ rest, v)

/-- `list(F.all_variable_labels(default_label_format))` -/
def allLabels (s : MState) (dfmt : String := "x{}") : Except Err (List (Option String)) := do
  let (ls, varid) ← allLabelsLoop dfmt s.groups 1
  let tail ← defaultNames dfmt varid (s.numvar + 1)
  if max varid (s.numvar + 1) ≠ s.numvar + 1 then throw Err.assertion     -- `assert varid == end+1`
  pure (ls ++ tail)

end Vars
end Cnfgen
