/-
L2 — index patterns of the variable groups: `vg.indices(*pattern)`, `vg(*pattern)`,
`vg.label(*pattern)` for every group class of cnfgen/formula/variables.py.

A pattern is a list of `Option Int` (`none` = Python's `None`, the wildcard).  Generators are
modelled by the list they produce when consumed (`list(vg(...))`); an exception raised while the
generator is consumed is the error of the model.  A call whose pattern is not a projection
returns a single value (`Res.one`), a projection returns the sequence (`Res.many`).  Import-free.
-/
import CnfgenModel.Vars.Groups
import CnfgenModel.Vars.Labels
namespace Cnfgen
namespace Vars

abbrev Pattern := List (Option Int)

/-- result of `vg(...)` / `vg.label(...)`: one value or the content of an iterable -/
inductive Res (α : Type) where
  | one (a : α)
  | many (l : List α)
  deriving Repr, DecidableEq, Inhabited

/-- `len(pattern) == 0 or None in pattern` -/
def isProjection (pat : Pattern) : Bool := pat.isEmpty || pat.contains none

/-- the pattern as a tuple of non-negative integers, if it is one (used for dictionary lookups
of word groups: a tuple containing `None` or a negative number is never a key) -/
def patternNats : Pattern → Option (List Nat)
  | [] => some []
  | none :: _ => none
  | some i :: ps => if i < 0 then none else (patternNats ps).map (i.toNat :: ·)

/-! ### `indices(*pattern)` per class -/

/-- `BipartiteEdgesVariables.indices` -/
def bipIndices (G : BipG) (pat : Pattern) : Except Err (List (Nat × Nat)) :=
  match pat with
  | [] => .ok G.edges
  | [none, none] => .ok G.edges
  | [some u, none] =>
    if ¬ (1 ≤ u ∧ u ≤ G.l) then .error .valueError
    else .ok ((G.rnbrs u.toNat).map (fun v => (u.toNat, v)))
  | [none, some v] =>
    if ¬ (1 ≤ v ∧ v ≤ G.r) then .error .valueError
    else .ok ((G.lnbrs v.toNat).map (fun u => (u, v.toNat)))
  | [some u, some v] =>
    if ¬ G.hasEdge u v then .error .valueError else .ok [(u.toNat, v.toNat)]
  | _ => .error .valueError            -- "Requires either none or two arguments."

/-- `GraphEdgesVariables.indices` (on the auxiliary bipartite graph `B`) -/
def graphIndices (B : BipG) (pat : Pattern) : Except Err (List (Nat × Nat)) :=
  match pat with
  | [] => bipIndices B []
  | [none, none] => bipIndices B []
  | [some u, some v] => bipIndices B [some (min u v), some (max u v)]
  | [some w, none] | [none, some w] => do
    let a ← bipIndices B [none, some w]
    let b ← bipIndices B [some w, none]
    pure (a ++ b.filter (fun e => (e.2 : Int) ≠ w))
  | _ => .error .valueError

/-- `DiGraphEdgesVariables.indices` -/
def digraphIndices (B : BipG) (succ : Bool) (pat : Pattern) : Except Err (List (Nat × Nat)) :=
  if succ then (bipIndices B pat.reverse).map (·.map (fun e => (e.2, e.1)))
  else bipIndices B pat

/-- `BinaryMappingVariables.indices` -/
def binIndices (n bits : Nat) (pat : Pattern) : Except Err (List (Nat × Nat)) :=
  if pat.length ≠ 0 ∧ pat.length ≠ 2 then .error .valueError
  else do
    let i := pat.getD 0 none
    let b := pat.getD 1 none
    let I ← match i with
      | none => pure (rangeN 1 (n + 1))
      | some i => if ¬ (1 ≤ i ∧ i ≤ n) then throw Err.valueError else pure [i.toNat]
    let Bs ← match b with
      | none => pure ((List.range bits).reverse)
      | some b => if ¬ (0 ≤ b ∧ b < bits) then throw Err.valueError else pure [b.toNat]
    pure (I.flatMap (fun i => Bs.map (fun b => (i, b))))

def pairList (l : List (Nat × Nat)) : List (List Nat) := l.map (fun p => [p.1, p.2])

namespace Group

/-- `vg.indices(*pattern)`, consumed -/
def indices : Group → Pattern → Except Err (List (List Nat))
  | single _ _, pat => if pat.isEmpty then .ok [[]] else .error .valueError
  | block _ ranges _, pat => blockIndices ranges pat
  | word s seqs _, pat =>
    if pat.isEmpty then .ok seqs
    else match patternNats pat with
      | some w => if (seq2vid s seqs w).isSome then .ok [w] else .error .valueError
      | none => .error .valueError
  | bip _ G _ _, pat => (bipIndices G pat).map pairList
  | graph _ B _, pat => (graphIndices B pat).map pairList
  | digraph _ B succ _, pat => (digraphIndices B succ pat).map pairList
  | binary _ n m _, pat => (binIndices n (clog2 m) pat).map pairList

/-- `vg._unsafe_index_to_lit(index)` (only ever applied to members of `indices`) -/
def unsafeId : Group → List Nat → Nat
  | single s _, _ => s
  | block s ranges _, idx => blockId s ranges idx
  | word s seqs _, w => (seq2vid s seqs w).getD 0
  | bip s G _ _, idx => bipId G s (idx.getD 0 0) (idx.getD 1 0)
  | graph s B _, idx => bipId B s (min (idx.getD 0 0) (idx.getD 1 0)) (max (idx.getD 0 0) (idx.getD 1 0))
  | digraph s B succ _, idx =>
    if succ then bipId B s (idx.getD 1 0) (idx.getD 0 0) else bipId B s (idx.getD 0 0) (idx.getD 1 0)
  | binary s _ m _, idx => binId s (clog2 m) (idx.getD 0 0) (idx.getD 1 0)

/-- `BaseVariableGroup.__call__`: `next(IDs)` for a full index, the generator for a projection -/
def baseCall (g : Group) (pat : Pattern) : Except Err (Res Nat) := do
  let idxs ← g.indices pat
  let ids := idxs.map g.unsafeId
  if isProjection pat then pure (.many ids)
  else match ids with
    | [] => throw Err.stopIteration
    | v :: _ => pure (.one v)

/-- `vg(*pattern)` -/
def call : Group → Pattern → Except Err (Res Nat)
  | single s _, pat => if pat.isEmpty then .ok (.one s) else .error .typeError
  | word s seqs _, pat =>
    -- `try: return self.seq2vid[pattern]` first — also for the empty pattern (k = 0)
    match (patternNats pat).bind (seq2vid s seqs) with
    | some v => .ok (.one v)
    | none =>
      if pat.isEmpty then .ok (.many (seqs.map (fun w => (seq2vid s seqs w).getD 0)))
      else .error .valueError
  | g, pat => baseCall g pat

/-- `labelfmt.format(*t)` of the classes that use `BaseVariableGroup.label` -/
def fmtOf : Group → String
  | single _ name => name.getD ""
  | block _ _ f | word _ _ f | bip _ _ f _ | graph _ _ f | digraph _ _ _ f | binary _ _ _ f => f

/-- the label of one index -/
def labelOf (g : Group) (idx : List Nat) : Except Err String :=
  match g with
  | word _ _ f => pyFormat f [commaJoin idx]
  | _ => formatNats g.fmtOf idx

/-- `BaseVariableGroup.label` -/
def baseLabel (g : Group) (pat : Pattern) : Except Err (Res (Option String)) := do
  let idxs ← g.indices pat
  if isProjection pat then
    let ls ← idxs.mapM g.labelOf
    pure (.many (ls.map some))
  else match idxs with
    | [] => throw Err.stopIteration
    | t :: _ => do let s ← g.labelOf t; pure (.one (some s))

/-- `vg.label(*pattern)`; a label is `none` only for an unnamed single variable -/
def label : Group → Pattern → Except Err (Res (Option String))
  | single _ name, pat => if pat.isEmpty then .ok (.one name) else .error .typeError
  | word s seqs f, pat =>
    if pat.isEmpty then do
      let ls ← seqs.mapM (fun w => pyFormat f [commaJoin w])
      pure (.many (ls.map some))
    else match (patternNats pat) with
      | some w =>
        if (seq2vid s seqs w).isSome then do let t ← pyFormat f [commaJoin w]; pure (.one (some t))
        else .error .valueError
      | none => .error .valueError
  | g, pat => baseLabel g pat

/-- `list(vg.label())` — what `all_variable_labels` consumes (`vg.name` for a single variable) -/
def allLabels (g : Group) : Except Err (List (Option String)) :=
  match g with
  | single _ name => .ok [name]
  | _ => do
    match (← g.label []) with
    | .many l => pure l
    | .one a => pure [a]

end Group

end Vars
end Cnfgen
