/-
L2 — label strings of the variable groups (`labelfmt.format(*index)`).

`pyFormat fmt args` is Python's `fmt.format(*args)` for the fragment of format strings the
variable groups are used with: literal text, the escapes `{{` and `}}`, automatic fields `{}`
and numbered fields `{N}` (decimal digits).  `args` are the arguments already converted with
`str()`.  Errors are raised left to right exactly like CPython does:

* a single `}` in literal text, a `{` without its `}`            → ValueError
* switching between automatic and manual numbering               → ValueError
* a field number (or the automatic counter) beyond the arguments → IndexError
* a field whose name is not a number (`{a}`, `{ }`, `{-1}`)      → KeyError

Conversions (`!r`), format specs (`:d`), attribute / item access (`.a`, `[0]`) and nested
fields are outside the modelled fragment (the harness never generates them).  Import-free.
-/
import CnfgenModel.Core.Sem
namespace Cnfgen
namespace Vars

inductive FmtMode where
  | unset | auto | manual
  deriving DecidableEq, Repr, Inhabited

def isDigit (c : Char) : Bool := '0' ≤ c && c ≤ '9'

/-- value of a non-empty string of decimal digits -/
def digitsVal (cs : List Char) : Nat := cs.foldl (fun a c => 10 * a + (c.toNat - '0'.toNat)) 0

/-- the loop of `str.format`.  `fuel` bounds the number of steps (one per literal character or
field); `next` is the automatic field counter. -/
def pyFormatAux (args : List String) : Nat → List Char → FmtMode → Nat → String → Except Err String
  | 0, _, _, _, _ => .error .runtimeError          -- unreachable: fuel = length + 1
  | _ + 1, [], _, _, acc => .ok acc
  | fuel + 1, '{' :: '{' :: cs, mode, next, acc => pyFormatAux args fuel cs mode next (acc.push '{')
  | fuel + 1, '}' :: '}' :: cs, mode, next, acc => pyFormatAux args fuel cs mode next (acc.push '}')
  | _ + 1, '}' :: _, _, _, _ => .error .valueError                    -- Single '}' encountered
  | fuel + 1, '{' :: cs, mode, next, acc =>
    let field := cs.takeWhile (· ≠ '}')
    let rest := cs.dropWhile (· ≠ '}')
    match rest with
    | [] => .error .valueError                                      -- Single '{' / expected '}'
    | _ :: rest' =>
      if field.isEmpty then
        if mode == .manual then .error .valueError
        else match args[next]? with
          | none => .error .indexError
          | some a => pyFormatAux args fuel rest' .auto (next + 1) (acc ++ a)
      else if field.all isDigit then
        if mode == .auto then .error .valueError
        else match args[digitsVal field]? with
          | none => .error .indexError
          | some a => pyFormatAux args fuel rest' .manual next (acc ++ a)
      else .error .keyError
  | fuel + 1, c :: cs, mode, next, acc => pyFormatAux args fuel cs mode next (acc.push c)

/-- `fmt.format(*args)` -/
def pyFormat (fmt : String) (args : List String) : Except Err String :=
  pyFormatAux args (fmt.length + 1) fmt.toList .unset 0 ""

/-- `fmt.format(*index)` for an index of integers -/
def formatNats (fmt : String) (idx : List Nat) : Except Err String :=
  pyFormat fmt (idx.map toString)

/-- `",".join(str(x) for x in idx)` -/
def commaJoin (idx : List Nat) : String := ",".intercalate (idx.map toString)

/-- the check done by the group constructors: `try: labelfmt.format(…) except IndexError: raise
ValueError`; every other exception of `format` propagates unchanged -/
def checkFormat (fmt : String) (args : List String) : Except Err Unit :=
  match pyFormat fmt args with
  | .ok _ => .ok ()
  | .error .indexError => .error .valueError
  | .error e => .error e

/-- default names `default_label_format.format(varid)` -/
def defaultName (fmt : String) (v : Nat) : Except Err String := pyFormat fmt [toString v]

end Vars
end Cnfgen
