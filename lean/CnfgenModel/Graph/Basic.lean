/-
L3 — graph objects of cnfgen/graphs.py (`Graph`, `DirectedGraph`, `BipartiteGraph`):
state, update operations and views, transcribed from the code.  Import-free.
Vertices are 1-based; adjacency lists are indexed by vertex (index 0 unused).
-/
import CnfgenModel.Core.Sem
namespace Cnfgen

/-- `l.insert(bisect_right(l, v), v)` -/
def insertSorted : List Nat → Nat → List Nat
  | [], v => [v]
  | x :: xs, v => if x ≤ v then x :: insertSorted xs v else v :: x :: xs

/-- `bisect_right(l, v)` -/
def bisectRight : List Nat → Nat → Nat
  | [], _ => 0
  | x :: xs, v => if x ≤ v then bisectRight xs v + 1 else 0

/-- `l.remove(v)`: first occurrence (the code only calls it when `v ∈ l`) -/
def removeFirst : List Nat → Nat → List Nat
  | [], _ => []
  | x :: xs, v => if x == v then xs else x :: removeFirst xs v

/-! ### simple graphs -/
structure SimpleG where
  n : Nat
  m : Nat
  adj : List (List Nat)          -- length n+1
  edgeset : List (Nat × Nat)     -- a set; both orientations of every edge
  deriving Repr, DecidableEq, Inhabited

namespace SimpleG
def init (n : Nat) : SimpleG := ⟨n, 0, List.replicate (n + 1) [], []⟩

def hasEdge (G : SimpleG) (u v : Int) : Bool :=
  0 ≤ u && 0 ≤ v && G.edgeset.contains (u.toNat, v.toNat)

def addEdge (G : SimpleG) (u v : Int) : Except Err SimpleG :=
  if ¬ (1 ≤ u ∧ u ≤ G.n ∧ 1 ≤ v ∧ v ≤ G.n ∧ u ≠ v) then .error .valueError
  else
    let a := u.toNat; let b := v.toNat
    if G.edgeset.contains (a, b) then .ok G
    else
      let x := min a b; let y := max a b
      .ok { n := G.n, m := G.m + 1,
            adj := (G.adj.modify x (insertSorted · y)).modify y (insertSorted · x),
            edgeset := (y, x) :: (x, y) :: G.edgeset }

def removeEdge (G : SimpleG) (u v : Int) : SimpleG :=
  if ¬ G.hasEdge u v then G
  else
    let a := u.toNat; let b := v.toNat
    { n := G.n, m := G.m - 1,
      adj := (G.adj.modify a (removeFirst · b)).modify b (removeFirst · a),
      edgeset := G.edgeset.filter (fun e => e != (a, b) && e != (b, a)) }

def updateVertexNumber (G : SimpleG) (k : Int) : Except Err SimpleG :=
  if k < 0 then .error .valueError
  else .ok { G with n := max G.n k.toNat, adj := G.adj ++ List.replicate (k.toNat - G.n) [] }

def neighbors (G : SimpleG) (u : Int) : Except Err (List Nat) :=
  if ¬ (1 ≤ u ∧ u ≤ G.n) then .error .valueError else .ok (G.adj.getD u.toNat [])

def nbrs (G : SimpleG) (u : Nat) : List Nat := G.adj.getD u []

def degree (G : SimpleG) (u : Int) : Except Err Nat := do
  let l ← G.neighbors u; pure l.length

/-- `GraphEdgeList.__iter__`: for u in 1..n-1, the neighbours above u -/
def edges (G : SimpleG) : List (Nat × Nat) :=
  (List.range (G.n - 1)).flatMap (fun i =>
    let u := i + 1
    ((G.adj.getD u []).drop (bisectRight (G.adj.getD u []) u)).map (fun v => (u, v)))

def addEdgesFrom (G : SimpleG) (es : List (Int × Int)) : Except Err SimpleG :=
  es.foldlM (fun g e => g.addEdge e.1 e.2) G

def ofEdges (n : Nat) (es : List (Nat × Nat)) : Except Err SimpleG :=
  (init n).addEdgesFrom (es.map (fun e => ((e.1 : Int), (e.2 : Int))))

/-- `Graph(n)`: `non_negative_int(n)` -/
def initI (n : Int) : Except Err SimpleG :=
  if n < 0 then .error .valueError else .ok (init n.toNat)

/-- `add_edges_from` as the in-place loop it is: the edges before the first rejected one
stay inserted; returns the final state and the exception (if any) -/
def addEdgesFromP (G : SimpleG) : List (Int × Int) → SimpleG × Option Err
  | [] => (G, none)
  | e :: es =>
    match G.addEdge e.1 e.2 with
    | .ok G' => G'.addEdgesFromP es
    | .error x => (G, some x)

def numberOfVertices (G : SimpleG) : Nat := G.n
def numberOfEdges (G : SimpleG) : Nat := G.m
/-- `Graph.is_dag` is constantly `False` -/
def isDag (_ : SimpleG) : Bool := false

/-- `to_networkx`: the networkx object is modelled by what is put into it,
the vertex count (nodes `1..n`) and the edge list -/
def toNx (G : SimpleG) : Nat × List (Nat × Nat) := (G.n, G.edges)
/-- `from_networkx` for a networkx graph with nodes `1..n` (so that
`normalize_networkx_labels` is the identity) and the edges in the order/orientation
networkx reports them -/
def fromNx (N : Nat × List (Nat × Nat)) : Except Err SimpleG := ofEdges N.1 N.2
end SimpleG

/-! ### directed graphs -/
structure DiG where
  n : Nat
  m : Nat
  pred : List (List Nat)
  succ : List (List Nat)
  edgeset : List (Nat × Nat)
  stillDag : Bool
  deriving Repr, DecidableEq, Inhabited

namespace DiG
def init (n : Nat) : DiG := ⟨n, 0, List.replicate (n + 1) [], List.replicate (n + 1) [], [], true⟩

def hasEdge (G : DiG) (u v : Int) : Bool :=
  0 ≤ u && 0 ≤ v && G.edgeset.contains (u.toNat, v.toNat)

def addEdge (G : DiG) (src dest : Int) : Except Err DiG :=
  if ¬ (1 ≤ src ∧ src ≤ G.n ∧ 1 ≤ dest ∧ dest ≤ G.n) then .error .valueError
  else if G.hasEdge src dest then .ok G
  else
    let s := src.toNat; let d := dest.toNat
    .ok { n := G.n, m := G.m + 1,
          pred := G.pred.modify d (insertSorted · s),
          succ := G.succ.modify s (insertSorted · d),
          edgeset := (s, d) :: G.edgeset,
          stillDag := G.stillDag && decide (s < d) }

def predecessors (G : DiG) (u : Int) : Except Err (List Nat) :=
  if ¬ (1 ≤ u ∧ u ≤ G.n) then .error .valueError else .ok (G.pred.getD u.toNat [])
def successors (G : DiG) (u : Int) : Except Err (List Nat) :=
  if ¬ (1 ≤ u ∧ u ≤ G.n) then .error .valueError else .ok (G.succ.getD u.toNat [])
def preds (G : DiG) (u : Nat) : List Nat := G.pred.getD u []
def succs (G : DiG) (u : Nat) : List Nat := G.succ.getD u []

/-- `DirectedEdgeList` sorted by predecessor (source) -/
def edges (G : DiG) : List (Nat × Nat) :=
  (List.range G.n).flatMap (fun i => (G.succ.getD (i + 1) []).map (fun d => (i + 1, d)))
/-- `edges_ordered_by_successors` -/
def edgesBySucc (G : DiG) : List (Nat × Nat) :=
  (List.range G.n).flatMap (fun i => (G.pred.getD (i + 1) []).map (fun s => (s, i + 1)))

def addEdgesFrom (G : DiG) (es : List (Int × Int)) : Except Err DiG :=
  es.foldlM (fun g e => g.addEdge e.1 e.2) G
def ofEdges (n : Nat) (es : List (Nat × Nat)) : Except Err DiG :=
  (init n).addEdgesFrom (es.map (fun e => ((e.1 : Int), (e.2 : Int))))

def initI (n : Int) : Except Err DiG :=
  if n < 0 then .error .valueError else .ok (init n.toNat)

def addEdgesFromP (G : DiG) : List (Int × Int) → DiG × Option Err
  | [] => (G, none)
  | e :: es =>
    match G.addEdge e.1 e.2 with
    | .ok G' => G'.addEdgesFromP es
    | .error x => (G, some x)

def numberOfVertices (G : DiG) : Nat := G.n
def numberOfEdges (G : DiG) : Nat := G.m
def isDag (G : DiG) : Bool := G.stillDag
def inDegree (G : DiG) (u : Int) : Except Err Nat := do let l ← G.predecessors u; pure l.length
def outDegree (G : DiG) (u : Int) : Except Err Nat := do let l ← G.successors u; pure l.length

def toNx (G : DiG) : Nat × List (Nat × Nat) := (G.n, G.edges)
def fromNx (N : Nat × List (Nat × Nat)) : Except Err DiG := ofEdges N.1 N.2
end DiG

/-! ### bipartite graphs -/
structure BipG where
  l : Nat
  r : Nat
  ladj : List (List Nat)   -- right neighbours of left vertex u (index u), length l+1
  radj : List (List Nat)   -- left neighbours of right vertex v, length r+1
  edgeset : List (Nat × Nat)
  deriving Repr, DecidableEq, Inhabited

namespace BipG
def init (l r : Nat) : BipG := ⟨l, r, List.replicate (l + 1) [], List.replicate (r + 1) [], []⟩

def hasEdge (G : BipG) (u v : Int) : Bool :=
  0 ≤ u && 0 ≤ v && G.edgeset.contains (u.toNat, v.toNat)

def addEdge (G : BipG) (u v : Int) : Except Err BipG :=
  if ¬ (1 ≤ u ∧ u ≤ G.l ∧ 1 ≤ v ∧ v ≤ G.r) then .error .valueError
  else if G.hasEdge u v then .ok G
  else
    let a := u.toNat; let b := v.toNat
    .ok { G with ladj := G.ladj.modify a (insertSorted · b),
                 radj := G.radj.modify b (insertSorted · a),
                 edgeset := (a, b) :: G.edgeset }

def numberOfEdges (G : BipG) : Nat := G.edgeset.length

def rightNeighbors (G : BipG) (u : Int) : Except Err (List Nat) :=
  if ¬ (1 ≤ u ∧ u ≤ G.l) then .error .valueError else .ok (G.ladj.getD u.toNat [])
def leftNeighbors (G : BipG) (v : Int) : Except Err (List Nat) :=
  if ¬ (1 ≤ v ∧ v ≤ G.r) then .error .valueError else .ok (G.radj.getD v.toNat [])
def rnbrs (G : BipG) (u : Nat) : List Nat := G.ladj.getD u []
def lnbrs (G : BipG) (v : Nat) : List Nat := G.radj.getD v []

/-- `BipartiteEdgeList.__iter__` -/
def edges (G : BipG) : List (Nat × Nat) :=
  (List.range G.l).flatMap (fun i => (G.rnbrs (i + 1)).map (fun v => (i + 1, v)))

def addEdgesFrom (G : BipG) (es : List (Int × Int)) : Except Err BipG :=
  es.foldlM (fun g e => g.addEdge e.1 e.2) G
def ofEdges (l r : Nat) (es : List (Nat × Nat)) : Except Err BipG :=
  (init l r).addEdgesFrom (es.map (fun e => ((e.1 : Int), (e.2 : Int))))

def initI (l r : Int) : Except Err BipG :=
  if l < 0 ∨ r < 0 then .error .valueError else .ok (init l.toNat r.toNat)

def addEdgesFromP (G : BipG) : List (Int × Int) → BipG × Option Err
  | [] => (G, none)
  | e :: es =>
    match G.addEdge e.1 e.2 with
    | .ok G' => G'.addEdgesFromP es
    | .error x => (G, some x)

def numberOfVertices (G : BipG) : Nat := G.l + G.r
def rightDegree (G : BipG) (u : Int) : Except Err Nat := do let l ← G.rightNeighbors u; pure l.length
def leftDegree (G : BipG) (v : Int) : Except Err Nat := do let l ← G.leftNeighbors v; pure l.length

/-- `BaseBipartiteGraph.to_networkx`: nodes `1..l` (bipartite=0), `l+1..l+r` (bipartite=1),
edges `(u, v+l)` -/
def toNx (G : BipG) : Nat × Nat × List (Nat × Nat) :=
  (G.l, G.r, G.edges.map (fun e => (e.1, e.2 + G.l)))
/-- `BipartiteGraph.from_networkx` on such an object: an edge may be reported in either
orientation; both ends on the same side is a `ValueError` -/
def fromNxEdge (l : Nat) (e : Nat × Nat) : Except Err (Int × Int) :=
  let ul := decide (e.1 ≤ l); let vr := decide (l < e.2)
  if ul != vr then .error .valueError
  else if ul then .ok ((e.1 : Int), ((e.2 - l : Nat) : Int)) else .ok ((e.2 : Int), ((e.1 - l : Nat) : Int))
def fromNx (N : Nat × Nat × List (Nat × Nat)) : Except Err BipG :=
  N.2.2.foldlM (fun g e => do let p ← fromNxEdge N.1 e; g.addEdge p.1 p.2) (init N.1 N.2.1)

/-- `CompleteBipartiteGraph(L, R)` as a value -/
def complete (l r : Nat) : BipG :=
  ⟨l, r, [] :: List.replicate l ((List.range r).map (· + 1)),
         [] :: List.replicate r ((List.range l).map (· + 1)),
   (List.range l).flatMap (fun i => (List.range r).map (fun j => (i + 1, j + 1)))⟩
end BipG

end Cnfgen
