/-
L3 — update histories of the graph objects of cnfgen/graphs.py.

One operation type for the three classes; the arguments are integers so that invalid calls
(0, negative, n+1, self-loops) are expressible.  `step` returns the new state and what the
caller observes: normal return, a Python exception (state unchanged, except that
`add_edges_from` keeps the edges inserted before the first rejected one — it is an in-place
loop), or "no such method": `DirectedGraph` and `BipartiteGraph` have neither `remove_edge`
nor `update_vertex_number` (the call is an `AttributeError` and cannot touch the object).
Import-free.
-/
import CnfgenModel.Graph.Basic
namespace Cnfgen

inductive GOp where
  | addEdge (u v : Int)
  | removeEdge (u v : Int)
  | updateVertexNumber (k : Int)
  | addEdgesFrom (es : List (Int × Int))
  deriving Repr, DecidableEq, Inhabited

inductive Outcome where
  | ok
  | raised (e : Err)
  | noSuchMethod
  deriving Repr, DecidableEq, Inhabited

def Outcome.name : Outcome → String
  | .ok => "ok" | .raised e => e.name | .noSuchMethod => "AttributeError"

def Outcome.ofOpt : Option Err → Outcome
  | none => .ok | some e => .raised e

namespace SimpleG
def step (G : SimpleG) : GOp → SimpleG × Outcome
  | .addEdge u v =>
    match G.addEdge u v with
    | .ok G' => (G', .ok)
    | .error e => (G, .raised e)
  | .removeEdge u v => (G.removeEdge u v, .ok)
  | .updateVertexNumber k =>
    match G.updateVertexNumber k with
    | .ok G' => (G', .ok)
    | .error e => (G, .raised e)
  | .addEdgesFrom es => ((G.addEdgesFromP es).1, .ofOpt (G.addEdgesFromP es).2)

def run (G : SimpleG) (ops : List GOp) : SimpleG := ops.foldl (fun g o => (g.step o).1) G
end SimpleG

namespace DiG
def step (G : DiG) : GOp → DiG × Outcome
  | .addEdge u v =>
    match G.addEdge u v with
    | .ok G' => (G', .ok)
    | .error e => (G, .raised e)
  | .removeEdge _ _ => (G, .noSuchMethod)
  | .updateVertexNumber _ => (G, .noSuchMethod)
  | .addEdgesFrom es => ((G.addEdgesFromP es).1, .ofOpt (G.addEdgesFromP es).2)

def run (G : DiG) (ops : List GOp) : DiG := ops.foldl (fun g o => (g.step o).1) G
end DiG

namespace BipG
def step (G : BipG) : GOp → BipG × Outcome
  | .addEdge u v =>
    match G.addEdge u v with
    | .ok G' => (G', .ok)
    | .error e => (G, .raised e)
  | .removeEdge _ _ => (G, .noSuchMethod)
  | .updateVertexNumber _ => (G, .noSuchMethod)
  | .addEdgesFrom es => ((G.addEdgesFromP es).1, .ofOpt (G.addEdgesFromP es).2)

def run (G : BipG) (ops : List GOp) : BipG := ops.foldl (fun g o => (g.step o).1) G
end BipG

/-! ### `CompleteBipartiteGraph(L, R)`: no update changes it, the views are closed forms.
`add_edge` checks its arguments like `BipartiteGraph.add_edge` (`ValueError` outside
`1..L × 1..R`) and otherwise does nothing; the neighbour views do not check their argument. -/
structure CBipG where
  l : Nat
  r : Nat
  deriving Repr, DecidableEq, Inhabited

namespace CBipG
/-- the argument check of `CompleteBipartiteGraph.add_edge` -/
def legal (G : CBipG) (u v : Int) : Bool := decide (1 ≤ u ∧ u ≤ G.l ∧ 1 ≤ v ∧ v ≤ G.r)

def step (G : CBipG) : GOp → CBipG × Outcome
  | .addEdge u v => (G, if G.legal u v then .ok else .raised .valueError)
  | .removeEdge _ _ => (G, .noSuchMethod)
  | .updateVertexNumber _ => (G, .noSuchMethod)
  | .addEdgesFrom es => (G, if es.all (fun e => G.legal e.1 e.2) then .ok else .raised .valueError)
def run (G : CBipG) (ops : List GOp) : CBipG := ops.foldl (fun g o => (g.step o).1) G

def hasEdge (G : CBipG) (u v : Int) : Bool := decide (1 ≤ u ∧ u ≤ G.l ∧ 1 ≤ v ∧ v ≤ G.r)
def numberOfEdges (G : CBipG) : Nat := G.l * G.r
def rightNeighbors (G : CBipG) (_ : Int) : List Nat := (List.range G.r).map (· + 1)
def leftNeighbors (G : CBipG) (_ : Int) : List Nat := (List.range G.l).map (· + 1)
def edges (G : CBipG) : List (Nat × Nat) :=
  (List.range G.l).flatMap (fun i => (G.rightNeighbors ((i + 1 : Nat) : Int)).map (fun v => (i + 1, v)))
/-- the same graph as a `BipG` value (what the formula families consume) -/
def toBipG (G : CBipG) : BipG := BipG.complete G.l G.r
end CBipG

end Cnfgen
