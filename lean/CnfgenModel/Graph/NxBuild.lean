/-
L3 — the networkx-backed graph constructions of cnfgen/clitools/graph_build.py (`grid`, `torus`,
`complete N B`; the random ones are in Rand/NxDraws.lean), modelled operationally.  Import-free.

WHAT IS MODELLED (networkx 3.6.1, the version installed in /venv; tied by correspondence, suites
`nx_*` of harness/props/C15_nx.py, to the installed version):

* `networkx.Graph` as far as these constructions use it: an insertion-ordered dict of
  insertion-ordered adjacency dicts.  All the graphs that occur insert their nodes FIRST and in
  the order in which `sorted()` lists them (integers `0..n-1`; tuples `(x_k,…,x_1)` produced by
  `itertools.product` in lexicographic order), so a node is represented by its POSITION `0..n-1`
  in that order.  `NxG.tedges` is the list of `add_edge(u, v)` calls in time order;
  `NxG.adj w` = the keys of `_adj[w]` in dict order; `NxG.edges` = `G.edges()` (`EdgeView.__iter__`:
  nodes in order, neighbours in dict order, a neighbour already visited is skipped — a self-loop is
  reported once).
* `relabel_nodes(G, mapping)` with `copy=True` for a mapping that keeps the order of the nodes
  (`flatten` inside `grid_graph`; `convert_node_labels_to_integers(G, first_label=1,
  ordering='sorted')` inside cnfgen's `normalize_networkx_labels`): a new graph with the same nodes in
  the same order and `add_edges_from(G.edges())` — `NxG.relabelCopy`.
* `path_graph`, `cycle_graph` (`pairwise(nodes, cyclic=True)`: the cycle on two nodes is ONE edge,
  on one node a self-loop), `cartesian_product` (`_node_product`, `_edges_cross_nodes`,
  `_nodes_cross_edges`), `grid_graph(dim, periodic)` (first dimension = the LAST tuple component =
  the least significant digit of the position), `complete_graph`, `empty_graph`,
  `complete_multipartite_graph(*sizes)`.
* `Graph.from_networkx` of cnfgen: `normalize_networkx_labels`, `Graph(order)`,
  `add_edges_from(G.edges())` — the calls `add_edge(u+1, v+1)` in exactly that order, through the
  model's own `SimpleG.addEdge` (a self-loop is refused with `ValueError`, as in the code).
-/
import CnfgenModel.Graph.Basic
namespace Cnfgen.Nx
open Cnfgen

/-- keys of an insertion-ordered dict after inserting the members of `l` in order
(first occurrences, in order) -/
def dedup : List Nat → List Nat
  | [] => []
  | x :: xs => x :: (dedup xs).filter (fun y => y != x)

/-- a `networkx.Graph` whose nodes were inserted first, as positions `0..n-1` -/
structure NxG where
  n : Nat
  /-- the `add_edge(u, v)` calls, in time order (repetitions and both orientations allowed) -/
  tedges : List (Nat × Nat)
  deriving Repr, DecidableEq, Inhabited

namespace NxG

/-- the other end of `e` seen from `w` (`none`: `w` is not an end of `e`) -/
def otherEnd (w : Nat) (e : Nat × Nat) : Option Nat :=
  if e.1 = w then some e.2 else if e.2 = w then some e.1 else none

/-- keys of `_adj[w]`, in dict order -/
def adj (G : NxG) (w : Nat) : List Nat := dedup (G.tedges.filterMap (otherEnd w))

/-- `G.edges()`: `for n, nbrs in adjacency: for nbr in nbrs: if nbr not in seen: yield (n, nbr)` —
with the nodes visited in the order `0..n-1`, "not seen" is `n ≤ nbr` -/
def edges (G : NxG) : List (Nat × Nat) :=
  (List.range G.n).flatMap (fun w => ((G.adj w).filter (fun x => decide (w ≤ x))).map (fun x => (w, x)))

/-- `relabel_nodes(G, order-preserving mapping, copy=True)` -/
def relabelCopy (G : NxG) : NxG := ⟨G.n, G.edges⟩

end NxG

/-- `empty_graph(n)` -/
def emptyGraph (n : Nat) : NxG := ⟨n, []⟩

/-- `itertools.pairwise(range(d))` -/
def pathPairs (d : Nat) : List (Nat × Nat) := (List.range (d - 1)).map (fun i => (i, i + 1))

/-- `path_graph(d)` -/
def pathGraph (d : Nat) : NxG := ⟨d, pathPairs d⟩

/-- `cycle_graph(d)`: `pairwise(range(d), cyclic=True)` = the path pairs and `(d-1, 0)` -/
def cycleGraph (d : Nat) : NxG := ⟨d, pathPairs d ++ (if d = 0 then [] else [(d - 1, 0)])⟩

/-- `itertools.combinations(range(n), 2)` -/
def allPairs (n : Nat) : List (Nat × Nat) :=
  (List.range n).flatMap (fun u => (List.range' (u + 1) (n - (u + 1))).map (fun v => (u, v)))

/-- `complete_graph(n)` -/
def completeGraph (n : Nat) : NxG := ⟨n, allPairs n⟩

/-- `cartesian_product(A, B)`: node `(a, b)` at position `a * |B| + b`;
edges `((u,x),(v,x))` for `(u,v)` in `A.edges()`, `x` in `B`; then `((x,u),(x,v))` for `x` in `A`,
`(u,v)` in `B.edges()` -/
def cartesianProduct (A B : NxG) : NxG :=
  ⟨A.n * B.n,
   A.edges.flatMap (fun e => (List.range B.n).map (fun x => (e.1 * B.n + x, e.2 * B.n + x))) ++
   (List.range A.n).flatMap (fun x => B.edges.map (fun e => (x * B.n + e.1, x * B.n + e.2)))⟩

/-- `cycle_graph if periodic else path_graph` -/
def lineGraph (periodic : Bool) (d : Nat) : NxG := if periodic then cycleGraph d else pathGraph d

/-- the loop of `grid_graph`: `G = func(dim[0]); for cur in dim[1:]: G = cartesian_product(func(cur), G)` -/
def gridProduct (periodic : Bool) : List Nat → NxG
  | [] => emptyGraph 0
  | d :: rest => rest.foldl (fun G cur => cartesianProduct (lineGraph periodic cur) G) (lineGraph periodic d)

/-- `networkx.grid_graph(dim, periodic)`: the product, then `relabel_nodes(G, flatten)`
(`if not dim: return empty_graph(0)` — the relabelling copy of the null graph is the null graph) -/
def gridGraph (dims : List Nat) (periodic : Bool) : NxG := (gridProduct periodic dims).relabelCopy

/-- the node ranges of `complete_multipartite_graph`: `range(start, start + size)` per block -/
def blocks (start : Nat) : List Nat → List (List Nat)
  | [] => []
  | s :: ss => List.range' start s :: blocks (start + s) ss

/-- `for s1, s2 in combinations(subsets, 2): add_edges_from(product(s1, s2))` -/
def blockPairs : List (List Nat) → List (Nat × Nat)
  | [] => []
  | s :: rest => rest.flatMap (fun t => s.flatMap (fun u => t.map (fun v => (u, v)))) ++ blockPairs rest

/-- `complete_multipartite_graph(*sizes)` -/
def completeMultipartite (sizes : List Nat) : NxG := ⟨sizes.sum, blockPairs (blocks 0 sizes)⟩

/-- the `add_edge` calls of `Graph.from_networkx(G)`: `normalize_networkx_labels` (a relabelling
copy: position `i` ↦ label `i + 1`), then `add_edges_from(G.edges())` -/
def fromNxCalls (G : NxG) : List (Nat × Nat) := G.relabelCopy.edges.map (fun e => (e.1 + 1, e.2 + 1))

/-- `Graph.from_networkx(G)` (also what `Graph.normalize(G)` does with a networkx graph) -/
def fromNetworkx (G : NxG) : Except Err SimpleG := SimpleG.ofEdges G.n (fromNxCalls G)

/-! ### the three deterministic constructions, as cnfgen obtains them -/

/-- `Graph.from_networkx(networkx.grid_graph(dims, periodic))` -/
def gridSimple (dims : List Nat) (periodic : Bool) : Except Err SimpleG := fromNetworkx (gridGraph dims periodic)

/-- `Graph.from_networkx(networkx.complete_multipartite_graph(*sizes))` -/
def multipartiteSimple (sizes : List Nat) : Except Err SimpleG := fromNetworkx (completeMultipartite sizes)

/-- `complete N B`: `blocksizes = [n] * b` -/
def completeBlocksSimple (n b : Nat) : Except Err SimpleG := multipartiteSimple (List.replicate b n)

end Cnfgen.Nx
