/-
L3 — closed-form graph constructions of cnfgen/graphs.py, transcribed from the code:
`dag_pyramid`, `dag_complete_binary_tree`, `dag_path`, `Graph.complete_graph`,
`Graph.empty_graph`, `Graph.star_graph`, `CompleteBipartiteGraph`, `bipartite_shift`.

Every construction is "create the object, then call `add_edge` in a loop"; the model keeps that
shape: a list of `add_edge` calls in the order the code makes them (`…Calls`), handed to the
graph object's own `ofEdges` (a fold of `addEdge`).  Import-free.
-/
import CnfgenModel.Graph.Basic
import CnfgenModel.Core.Iter
namespace Cnfgen.GBuild
open Cnfgen

/-! ### dag_pyramid -/

/-- inner loop of `dag_pyramid`: `cnt` iterations, each
`add_edge(leftsrc, dest); add_edge(leftsrc+1, dest); leftsrc += 1; dest += 1` -/
def pyramidRow (leftsrc dest : Nat) : Nat → List (Nat × Nat)
  | 0 => []
  | c + 1 => (leftsrc, dest) :: (leftsrc + 1, dest) :: pyramidRow (leftsrc + 1) (dest + 1) c

/-- outer loop of `dag_pyramid`; `rem` = number of layers still to do, which is also the length
`height - layer + 1` of the current inner loop; after a row `leftsrc` is bumped once more -/
def pyramidLayers (leftsrc dest : Nat) : Nat → List (Nat × Nat)
  | 0 => []
  | rem + 1 => pyramidRow leftsrc dest (rem + 1) ++ pyramidLayers (leftsrc + rem + 2) (dest + rem + 1) rem

/-- the `add_edge` calls of `dag_pyramid(h)`, in order -/
def pyramidCalls (h : Nat) : List (Nat × Nat) := pyramidLayers 1 (h + 2) h

def pyramidOrder (h : Nat) : Nat := (h + 1) * (h + 2) / 2

/-- `dag_pyramid(height)` -/
def pyramid (height : Int) : Except Err DiG :=
  if height < 0 then .error .valueError
  else DiG.ofEdges (pyramidOrder height.toNat) (pyramidCalls height.toNat)

/-! ### dag_complete_binary_tree -/

/-- loop of `dag_complete_binary_tree`: for each `dest`,
`add_edge(leftsrc, dest); add_edge(leftsrc+1, dest); leftsrc += 2` -/
def treeLoop (leftsrc dest : Nat) : Nat → List (Nat × Nat)
  | 0 => []
  | c + 1 => (leftsrc, dest) :: (leftsrc + 1, dest) :: treeLoop (leftsrc + 2) (dest + 1) c

/-- `N = 2 * 2**height`; `dest` ranges over `range(N//2 + 1, N)` -/
def treeCalls (h : Nat) : List (Nat × Nat) :=
  let N := 2 * 2 ^ h
  treeLoop 1 (N / 2 + 1) (N - (N / 2 + 1))

def treeOrder (h : Nat) : Nat := 2 * 2 ^ h - 1

def tree (height : Int) : Except Err DiG :=
  if height < 0 then .error .valueError
  else DiG.ofEdges (treeOrder height.toNat) (treeCalls height.toNat)

/-! ### dag_path -/
def pathCalls (len : Nat) : List (Nat × Nat) := (rangeN 1 (len + 1)).map (fun i => (i, i + 1))

def path (length : Int) : Except Err DiG :=
  if length < 0 then .error .valueError
  else DiG.ofEdges (length.toNat + 1) (pathCalls length.toNat)

/-! ### simple graphs -/

/-- `Graph(n)` refuses negative `n` (`non_negative_int`) -/
def emptyGraph (n : Int) : Except Err SimpleG :=
  if n < 0 then .error .valueError else .ok (SimpleG.init n.toNat)

/-- `for u in range(1, n): for v in range(u+1, n+1): add_edge(u, v)` -/
def completeCalls (n : Nat) : List (Nat × Nat) :=
  (rangeN 1 n).flatMap (fun u => (rangeN (u + 1) (n + 1)).map (fun v => (u, v)))

def completeGraph (n : Int) : Except Err SimpleG :=
  if n < 0 then .error .valueError else SimpleG.ofEdges n.toNat (completeCalls n.toNat)

/-- `Graph(n+1)`, then `add_edge(u, n+1)` for `u in range(1, n+1)` -/
def starCalls (n : Nat) : List (Nat × Nat) := (rangeN 1 (n + 1)).map (fun u => (u, n + 1))

def starGraph (n : Int) : Except Err SimpleG :=
  if n + 1 < 0 then .error .valueError else SimpleG.ofEdges (n + 1).toNat (starCalls n.toNat)

/-! ### bipartite -/

/-- `CompleteBipartiteGraph(L, R)`: the constructor checks `non_negative_int` on both sides; the
object answers every query in closed form (`BipG.complete` is the value of its views) -/
def completeBipartite (l r : Int) : Except Err BipG :=
  if l < 0 ∨ r < 0 then .error .valueError else .ok (BipG.complete l.toNat r.toNat)

/-- `list.sort()` on integers (insertion sort; stability is irrelevant for integers) -/
def insertInt : List Int → Int → List Int
  | [], v => [v]
  | x :: xs, v => if x ≤ v then x :: insertInt xs v else v :: x :: xs

def sortInt (l : List Int) : List Int := l.foldl insertInt []

/-- the `add_edge` calls of `bipartite_shift(N, M, pattern)` for an already sorted pattern:
`for u in L: for offset in pattern: add_edge(u, 1 + (u - 1 + offset) % M)` (Python `%`: floor) -/
def shiftCalls (N M : Nat) (sorted : List Int) : List (Int × Int) :=
  (rangeN 1 (N + 1)).flatMap (fun (u : Nat) => sorted.map (fun (o : Int) => ((u : Int), 1 + ((u : Int) - 1 + o) % (M : Int))))

/-- `bipartite_shift(N, M, pattern)`.  The first component of the result is the caller's list
after the call: the code works on `sorted(pattern)`, a copy, so it is the list that was passed
(before the fix of D9 the code called `pattern.sort()` and this component was the sorted list). -/
def shift (N M : Int) (pattern : List Int) : Except Err (List Int × BipG) :=
  if N < 1 ∨ M < 1 then .error .valueError
  else do
    let p := sortInt pattern
    let G ← (BipG.init N.toNat M.toNat).addEdgesFrom (shiftCalls N.toNat M.toNat p)
    pure (pattern, G)

end Cnfgen.GBuild
