/-
L9 — solver bridge, RESOURCE AND CONTROL-FLOW side (cnfgen/utils/solver.py):
temporary files, the solver process, what is removed and which exception comes out, at every
point where the outside world can fail.

* The three interface functions are *programs* (`Gen.RProg`, generated type): a sequence of resource
  calls (`Gen.ROp`) with the try / `except OSError: pass` / finally nesting of the source.
  `docStdinStdout`, `docFileInStdout`, `docFileInFileOut` are the reviewed snapshot of the CURRENT
  source; the translator regenerates the same terms from solver.py on every run and
  `C20.current_source_is_documented` compares them (`decide`).
  `fixFileInStdout`, `fixFileInFileOut` are the programs of the PROPOSED PATCH (notes/C20.md).
* `exec` is the interpreter with Python's semantics of try/except/finally.  Every resource call that
  is actually made consumes one entry of the **fault schedule** (`List Fault`; exhausted = no more
  faults): `ok`, `os` (the call raises OSError or a subclass) or `other` (it raises an exception that
  is not an OSError — MemoryError, …).  `os.unlink` only ever raises OSError, so any fault at an
  `unlink` is an OSError.
* The solver process is a `Beh`: arbitrary stdout bytes, arbitrary result file (or none), arbitrary
  exit status (never read by the code), and whether it deletes its input / result file.
* The world is the set of temporary paths that exist (`files`), plus the paths whose removal was
  attempted and refused by the OS (`refused`).
* `execAll` is the collecting semantics: ALL (fault path, final state, pending exception) triples of a
  program, a finite list.  `Lemmas/SolverRun.lean` proves that every run under every schedule is one
  of them, which turns "for every fault schedule" into a finite check.

No Mathlib import: compiled into the native driver.
-/
import CnfgenModel.Generated.Tables
import CnfgenModel.Solver.Select
namespace Cnfgen.Solver
open Cnfgen.Gen (RSlot ROp RProg)

/-- what the k-th resource call does -/
inductive Fault where
  /-- the call succeeds -/
  | ok
  /-- the call raises OSError or one of its subclasses (what `except OSError` catches) -/
  | os
  /-- the call raises an exception that is not an OSError -/
  | other
  deriving DecidableEq, Repr, Inhabited

/-- exception kinds that can come out of an interface function -/
inductive Exn where
  /-- OSError or a subclass (FileNotFoundError, PermissionError, …) — not documented -/
  | osError
  /-- an exception injected by the environment that is not an OSError -/
  | other
  /-- raised by solver.py itself (`RuntimeError`; `UnboundLocalError` if a local were read unbound) -/
  | py (e : Err)
  deriving DecidableEq, Repr, Inhabited

def Exn.name : Exn → String
  | .osError => "OSError" | .other => "Other" | .py e => e.name

def Fault.exn : Fault → Option Exn
  | .ok => none | .os => some .osError | .other => some .other

/-- behaviour of the solver process -/
structure Beh where
  /-- bytes on standard output -/
  stdout : List Nat
  /-- bytes written to the result file (second file argument), if the solver writes one -/
  file : Option (List Nat)
  /-- exit status (solver.py never looks at it) -/
  exit : Nat
  /-- the solver deletes its input file -/
  rmIn : Bool
  /-- the solver deletes the result file -/
  rmOut : Bool
  deriving Repr, DecidableEq, Inhabited

/-- state of the world and of the locals of the interface function -/
structure RState where
  /-- next fresh temporary path -/
  fresh : Nat
  /-- temporary paths that exist -/
  files : List Nat
  /-- every path this call created, oldest first -/
  created : List Nat
  /-- paths whose `os.unlink` was attempted and refused by the OS -/
  refused : List Nat
  /-- the local `cnf` (path of its file), `none` = not bound / `None` -/
  cnf : Option Nat
  /-- the local `sat` -/
  sat : Option Nat
  /-- paths whose `write` of the formula succeeded -/
  wrote : List Nat
  /-- paths written AND then closed successfully: the file holds the complete formula -/
  flushed : List Nat
  /-- file arguments of the started process -/
  proc : Option (List Nat)
  /-- when the process was started, its input file (first file argument) held the complete formula -/
  inputReady : Bool
  /-- the process ran to completion (`communicate` was entered) -/
  ran : Bool
  /-- the solver wrote its result file -/
  fileWritten : Bool
  /-- `output` holds the solver's standard output (else `b''`) -/
  gotOutput : Bool
  /-- `foutput` holds the words of the result file (else `[]`) -/
  gotFile : Bool
  /-- every resource call attempted, in order -/
  trace : List ROp
  deriving Repr, DecidableEq, Inhabited

def RState.init : RState :=
  { fresh := 0, files := [], created := [], refused := [], cnf := none, sat := none, wrote := [],
    flushed := [], proc := none, inputReady := false,
    ran := false, fileWritten := false, gotOutput := false, gotFile := false, trace := [] }

def RState.slot (st : RState) : RSlot → Option Nat
  | .cnf => st.cnf
  | .sat => st.sat

def RState.bind (st : RState) (s : RSlot) (p : Nat) : RState :=
  match s with
  | .cnf => { st with cnf := some p }
  | .sat => { st with sat := some p }

/-- `if X is not None:` with `X` unbound: the guarded call is not made (no resource call at all) -/
def skips (o : ROp) (st : RState) : Bool :=
  match o with
  | .unlinkIf s => (st.slot s).isNone
  | _ => false

/-- the effects of the solver process on the temporary files (when it runs to completion) -/
def procEffects (rmIn rmOut hasFile : Bool) (st : RState) : RState :=
  match st.proc with
  | none => st
  | some [] => { st with ran := true }
  | some [i] => { st with ran := true, files := if rmIn then st.files.erase i else st.files }
  | some (i :: o :: _) =>
    let fs := if rmIn then st.files.erase i else st.files
    { st with ran := true, fileWritten := hasFile,
              files := if rmOut then fs.erase o else fs }

/-- a local that must be bound to be used: reading it unbound is `UnboundLocalError` -/
def withSlot (st : RState) (s : RSlot) (k : Nat → RState × Option Exn) : RState × Option Exn :=
  match st.slot s with
  | none => (st, some (.py .unbound))
  | some p => k p

/-- `os.unlink(p)`: a fault is always an OSError and leaves the file where it is; a file that does
not exist is `FileNotFoundError` -/
def unlinkPath (f : Fault) (st : RState) (p : Nat) : RState × Option Exn :=
  match f with
  | .ok => if st.files.contains p then ({ st with files := st.files.erase p }, none)
           else (st, some .osError)
  | _ => ({ st with refused := st.refused ++ [p] }, some .osError)

/-- one resource call under fault `f`; `rmIn rmOut hasFile` are the control-relevant part of the
solver's behaviour -/
def step (rmIn rmOut hasFile : Bool) (o : ROp) (f : Fault) (st0 : RState) : RState × Option Exn :=
  let st := { st0 with trace := st0.trace ++ [o] }
  match o with
  | .mktemp s =>
    match f.exn with
    | some e => (st, some e)
    | none =>
      let st' := st.bind s st.fresh
      ({ st' with fresh := st.fresh + 1, files := st.files ++ [st.fresh],
                  created := st.created ++ [st.fresh] }, none)
  | .render => (st, f.exn)
  | .write s => withSlot st s fun p =>
    match f.exn with
    | some e => (st, some e)
    | none => ({ st with wrote := st.wrote ++ [p] }, none)
  | .close s => withSlot st s fun p =>
    match f.exn with
    | some e => (st, some e)
    | none => ({ st with flushed := if st.wrote.contains p then st.flushed ++ [p] else st.flushed }, none)
  | .spawn fs =>
    match fs.mapM st.slot with
    | none => (st, some (.py .unbound))
    | some ps =>
      match f.exn with
      | some e => (st, some e)
      | none => ({ st with proc := some ps,
                            inputReady := match ps with
                              | [] => true
                              | i :: _ => st.flushed.contains i }, none)
  | .communicate _ =>
    -- the process runs to completion, then the call returns or raises
    let st1 := procEffects rmIn rmOut hasFile st
    match f.exn with
    | some e => (st1, some e)
    | none => ({ st1 with gotOutput := true }, none)
  | .openRead s => withSlot st s fun p =>
    match f.exn with
    | some e => (st, some e)
    | none => if st.files.contains p then (st, none) else (st, some .osError)
  | .read s => withSlot st s fun _ =>
    match f.exn with
    | some e => (st, some e)
    | none => ({ st with gotFile := true }, none)
  | .unlink s => withSlot st s fun p => unlinkPath f st p
  | .unlinkIf s => withSlot st s fun p => unlinkPath f st p
  | .unknown _ => (st, some (.py .assertion))

/-- after `try: … except OSError: pass`: an OSError is swallowed -/
def afterHandlers (catchOS : Bool) (e : Option Exn) : Option Exn :=
  if catchOS && e == some .osError then none else e

/-- the interpreter: (remaining schedule, state) ↦ (remaining schedule, state, pending exception) -/
def exec (rmIn rmOut hasFile : Bool) : RProg → List Fault → RState → List Fault × RState × Option Exn
  | .done, sched, st => (sched, st, none)
  | .op o rest, sched, st =>
    if skips o st then exec rmIn rmOut hasFile rest sched st
    else
      match step rmIn rmOut hasFile o (sched.headD .ok) st with
      | (st', some e) => (sched.tail, st', some e)
      | (st', none) => exec rmIn rmOut hasFile rest sched.tail st'
  | .tryStmt body catchOS fin rest, sched, st =>
    match exec rmIn rmOut hasFile body sched st with
    | (s1, st1, e1) =>
      match exec rmIn rmOut hasFile fin s1 st1 with
      | (s2, st2, some e2) => (s2, st2, some e2)       -- an exception in `finally` replaces the pending one
      | (s2, st2, none) =>
        match afterHandlers catchOS e1 with
        | some e => (s2, st2, some e)                   -- re-raised after `finally`
        | none => exec rmIn rmOut hasFile rest s2 st2

/-- one possible end of a program: the faults met on the way, the final state, the pending exception -/
abbrev Path := List Fault × RState × Option Exn

def allFaults : List Fault := [.ok, .os, .other]

/-- collecting semantics: every end of the program over all schedules -/
def execAll (rmIn rmOut hasFile : Bool) : RProg → RState → List Path
  | .done, st => [([], st, none)]
  | .op o rest, st =>
    if skips o st then execAll rmIn rmOut hasFile rest st
    else
      allFaults.flatMap fun f =>
        match step rmIn rmOut hasFile o f st with
        | (st', some e) => [([f], st', some e)]
        | (st', none) => (execAll rmIn rmOut hasFile rest st').map fun p => (f :: p.1, p.2)
  | .tryStmt body catchOS fin rest, st =>
    (execAll rmIn rmOut hasFile body st).flatMap fun p1 =>
      (execAll rmIn rmOut hasFile fin p1.2.1).flatMap fun p2 =>
        match p2.2.2 with
        | some e2 => [(p1.1 ++ p2.1, p2.2.1, some e2)]
        | none =>
          match afterHandlers catchOS p1.2.2 with
          | some e => [(p1.1 ++ p2.1, p2.2.1, some e)]
          | none => (execAll rmIn rmOut hasFile rest p2.2.1).map fun p3 => (p1.1 ++ p2.1 ++ p3.1, p3.2)

/-! ### the programs -/

/-- `_satsolve_stdin_stdout` as of the current source -/
def docStdinStdout : RProg :=
  .tryStmt (.op (.spawn []) <| .op .render <| .op (.communicate true) .done) true .done .done

/-- `_satsolve_filein_stdout` as of the current source: the file is created, written and closed
BEFORE the `try` -/
def docFileInStdout : RProg :=
  .op (.mktemp .cnf) <| .op .render <| .op (.write .cnf) <| .op (.close .cnf) <|
  .tryStmt (.op (.spawn [.cnf]) <| .op (.communicate false) .done) true
    (.op (.unlink .cnf) .done) .done

/-- `_satsolve_filein_fileout` as of the current source -/
def docFileInFileOut : RProg :=
  .op (.mktemp .cnf) <| .op (.mktemp .sat) <| .op .render <| .op (.write .cnf) <|
  .op (.close .cnf) <| .op (.close .sat) <|
  .tryStmt (.op (.spawn [.cnf, .sat]) <| .op (.communicate false) <| .op (.openRead .sat) <|
            .op (.read .sat) <| .op (.close .sat) .done) true
    (.op (.unlink .cnf) <| .op (.unlink .sat) .done) .done

/-- proposed patch: everything inside the `try`, each removal guarded and shielded -/
def fixFileInStdout : RProg :=
  .tryStmt (.op (.mktemp .cnf) <| .op .render <| .op (.write .cnf) <| .op (.close .cnf) <|
            .op (.spawn [.cnf]) <| .op (.communicate false) .done) true
    (.tryStmt (.op (.unlinkIf .cnf) .done) true .done .done) .done

def fixFileInFileOut : RProg :=
  .tryStmt (.op (.mktemp .cnf) <| .op (.mktemp .sat) <| .op .render <| .op (.write .cnf) <|
            .op (.close .cnf) <| .op (.close .sat) <|
            .op (.spawn [.cnf, .sat]) <| .op (.communicate false) <| .op (.openRead .sat) <|
            .op (.read .sat) <| .op (.close .sat) .done) true
    (.tryStmt (.op (.unlinkIf .cnf) .done) true .done <|
     .tryStmt (.op (.unlinkIf .sat) .done) true .done .done) .done

/-- which source is modelled -/
inductive Variant where
  /-- solver.py as it is -/
  | current
  /-- solver.py with the proposed patch -/
  | patched
  deriving DecidableEq, Repr, Inhabited

def progOf : Variant → Iface → RProg
  | _, .stdinStdout => docStdinStdout
  | .current, .fileInStdout => docFileInStdout
  | .current, .fileInFileOut => docFileInFileOut
  | .patched, .fileInStdout => fixFileInStdout
  | .patched, .fileInFileOut => fixFileInFileOut

/-- which of the two reviewed snapshots the CURRENT source is, according to the skeletons that the
translator regenerates from cnfgen/utils/solver.py on every run (`none`: neither — the theorem
`C20.source_is_a_reviewed_snapshot` fails) -/
def sourceVariant : Option Variant :=
  if Gen.solverProg_satsolve_stdin_stdout = docStdinStdout ∧
     Gen.solverProg_satsolve_filein_stdout = docFileInStdout ∧
     Gen.solverProg_satsolve_filein_fileout = docFileInFileOut then some .current
  else if Gen.solverProg_satsolve_stdin_stdout = docStdinStdout ∧
     Gen.solverProg_satsolve_filein_stdout = fixFileInStdout ∧
     Gen.solverProg_satsolve_filein_fileout = fixFileInFileOut then some .patched
  else none

/-! ### a call of an interface function -/

/-- what the caller and the file system see after the call -/
structure Obs where
  /-- the returned pair, or the exception that came out -/
  outcome : Except Exn (Bool × Option (List Int))
  /-- temporary files created by the call that still exist -/
  left : List Nat
  /-- of those, the ones whose removal was attempted and refused by the OS -/
  refused : List Nat
  /-- resource calls made, in order -/
  trace : List ROp
  /-- a solver process was started -/
  started : Bool
  /-- … and at that moment its input file held the complete formula, closed -/
  inputReady : Bool
  /-- the process ran to completion (`communicate` was entered) -/
  ran : Bool
  /-- every temporary path the call created, oldest first (path 0 = first file = input file) -/
  created : List Nat
  deriving Repr

def liftErr {α} : Except Err α → Except Exn α
  | .ok a => .ok a
  | .error e => .error (.py e)

/-- the pure tail of the interface function applied to the bytes it received: the `s`/`v` loop on
the decoded standard output, or the reading of the decoded result file -/
def parseBytes (f : Iface) (bytes : List Nat) : Except Err (Bool × Option (List Int)) :=
  match f with
  | .fileInFileOut => parseMinisatFile (decodeAscii bytes)
  | _ => parseOutput (decodeAscii bytes)

/-- the solver's complete answer in the convention `f` -/
def answerBytes (f : Iface) (b : Beh) : List Nat :=
  match f with
  | .fileInFileOut => b.file.getD []
  | _ => b.stdout

/-- what the function holds in `output` / `foutput` when the resource phase is over: the complete
answer, or nothing (`b''`, `[]`) -/
def received (f : Iface) (b : Beh) (st : RState) : List Nat :=
  match f with
  | .fileInFileOut => if st.gotFile && st.fileWritten then b.file.getD [] else []
  | _ => if st.gotOutput then b.stdout else []

def parsePhase (f : Iface) (b : Beh) (st : RState) : Except Err (Bool × Option (List Int)) :=
  parseBytes f (received f b st)

/-- what the interface function returns when nothing goes wrong: the parse of the complete answer -/
def parseAnswer (f : Iface) (b : Beh) : Except Err (Bool × Option (List Int)) :=
  parseBytes f (answerBytes f b)

def observe (f : Iface) (b : Beh) (r : RState × Option Exn) : Obs :=
  { outcome := match r.2 with
      | some e => .error e
      | none => liftErr (parsePhase f b r.1),
    left := r.1.created.filter r.1.files.contains,
    refused := r.1.refused,
    trace := r.1.trace,
    started := r.1.proc.isSome,
    inputReady := r.1.inputReady,
    ran := r.1.ran,
    created := r.1.created }

/-- `_satsolve_…(F, cmd)` of variant `v` with solver behaviour `b` under fault schedule `sched` -/
def runProg (v : Variant) (f : Iface) (b : Beh) (sched : List Fault) : Obs :=
  observe f b (exec b.rmIn b.rmOut b.file.isSome (progOf v f) sched RState.init).2

/-- the current source -/
def run (f : Iface) (b : Beh) (sched : List Fault) : Obs := runProg .current f b sched

/-! ### `sat_solve` / `CNF.solve` / `CNF.is_satisfiable` over a world with faults -/

/-- `sat_solve(F, cmd, sameas)`: selection (no temporary file, no solver process: only the `--help`
probes, summarised by `installed`), then the interface function.  `beh` says how the program behind
a command line behaves. -/
def solveW (v : Variant) (installed : List String) (beh : Iface → String → Beh) (sched : List Fault)
    (cmd sameas : Option String) : Obs :=
  match selectInterface cmd sameas installed with
  | .error e => { outcome := .error (.py e), left := [], refused := [], trace := [], started := false,
                  inputReady := false, ran := false, created := [] }
  | .ok (f, c) => runProg v f (beh f c) sched

/-- `CNF.is_satisfiable` = `sat_solve(...)[0]` -/
def isSatisfiableW (v : Variant) (installed : List String) (beh : Iface → String → Beh)
    (sched : List Fault) (cmd sameas : Option String) : Except Exn Bool :=
  match (solveW v installed beh sched cmd sameas).outcome with
  | .error e => .error e
  | .ok r => .ok r.1

/-- the fault-free world of `Solver/Select.lean` induced by a behaviour -/
def worldOf (beh : Iface → String → Beh) : Iface → String → Option ProcOut :=
  fun f c => some ⟨decodeAscii (beh f c).stdout, decodeAscii ((beh f c).file.getD [])⟩

end Cnfgen.Solver
