/-
L9 — solver bridge, selection side: `sat_solve` of cnfgen/utils/solver.py up to the call of
the interface function, and the composition with the parsers (`CNF.solve`,
`CNF.is_satisfiable` of cnfgen/formula/cnfio.py).

`installed` is the set of program names for which
`subprocess.Popen([name, '--help'])` does not raise `OSError`
(`some_solver_installed`; the exit status of the probe is never looked at).
-/
import CnfgenModel.Solver.Table
import CnfgenModel.Solver.Parse
namespace Cnfgen.Solver

/-- `supported_satsolvers()` -/
def names : List String := table.map (·.1)

/-- `_SATSOLVER_INTERFACE[key]` -/
def lookup (key : String) : Option Iface := table.lookup key

/-- `(sameas is not None) and (sameas not in supported_satsolvers())` -/
def sameasUnknown : Option String → Bool
  | some s => !names.contains s
  | none => false

/-- `sameas or solver` (an empty string is falsy) -/
def keyOf (sameas : Option String) (solver : String) : String :=
  match sameas with
  | some s => if s.isEmpty then solver else s
  | none => solver

/-- `cmd` is None or blank: all supported solvers are tried in table order, `sameas` is dropped;
none installed: "No usable solver found." -/
def autoChoice (installed : List String) : Except Err (Iface × String) :=
  match table.find? (fun p => installed.contains p.1) with
  | some (n, f) => .ok (f, n)
  | none => .error .runtimeError

/-- a command line `c` whose first word is `solver` -/
def namedChoice (c solver : String) (sameas : Option String) (installed : List String) :
    Except Err (Iface × String) :=
  -- if cmd.split()[0] not in supported_satsolvers() and (sameas is None): raise RuntimeError
  if !names.contains solver && sameas.isNone then .error .runtimeError
  else
    -- s_func = _SATSOLVER_INTERFACE[sameas or solver]
    match lookup (keyOf sameas solver) with
    | none => .error .keyError
    | some f =>
      -- the loop runs once over [cmd]; "Solver '{}' is not installed or is unusable."
      if installed.contains solver then .ok (f, c) else .error .runtimeError

/-- `sat_solve(F, cmd, sameas)` up to `return s_func(F, solver_cmd)`: which interface function
is called and with which command line.  (`F` not being a formula object raises `TypeError`
before anything else; formulas are not part of this model.) -/
def selectInterface (cmd : Option String) (sameas : Option String) (installed : List String) :
    Except Err (Iface × String) :=
  -- if (sameas is not None) and (sameas not in supported_satsolvers()): raise ValueError
  if sameasUnknown sameas then .error .valueError
  else
    match cmd with
    | none => autoChoice installed
    | some c =>
      match pySplit c.toList with
      | [] => autoChoice installed                   -- len(cmd.split()) == 0
      | t :: _ => namedChoice c (String.ofList t) sameas installed

/-- what the solver process left behind: decoded stdout and the text of the result file -/
structure ProcOut where
  stdout : Str
  file : Str
  deriving Repr

/-- the interface function applied to the outcome of the process; `none` = `Popen` raised
`OSError` (swallowed by `except OSError: pass`) -/
def runIface (f : Iface) (out : Option ProcOut) : Except Err (Bool × Option (List Int)) :=
  match f, out with
  | .fileInFileOut, none => parseMinisatTokens []    -- `foutput = []` stays
  | .fileInFileOut, some o => parseMinisatFile o.file
  | _, none => parseOutput []                         -- `output = b''`
  | _, some o => parseOutput o.stdout

/-- `CNF.solve(cmd, sameas)`: the world decides what each command line produces -/
def solve (installed : List String) (world : Iface → String → Option ProcOut)
    (cmd sameas : Option String) : Except Err (Bool × Option (List Int)) :=
  match selectInterface cmd sameas installed with
  | .error e => .error e
  | .ok (f, c) => runIface f (world f c)

/-- `CNF.is_satisfiable(cmd, sameas)` = `sat_solve(...)[0]` -/
def isSatisfiable (installed : List String) (world : Iface → String → Option ProcOut)
    (cmd sameas : Option String) : Except Err Bool :=
  match solve installed world cmd sameas with
  | .error e => .error e
  | .ok r => .ok r.1

end Cnfgen.Solver
