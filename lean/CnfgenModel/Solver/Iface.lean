/-
L9 — the three calling conventions of `cnfgen/utils/solver.py`
(`_satsolve_stdin_stdout`, `_satsolve_filein_stdout`, `_satsolve_filein_fileout`).
-/
namespace Cnfgen.Solver

inductive Iface where
  /-- DIMACS on stdin, `s`/`v` lines on stdout (`_satsolve_stdin_stdout`) -/
  | stdinStdout
  /-- DIMACS in a temporary file given as last argument, `s`/`v` lines on stdout (`_satsolve_filein_stdout`) -/
  | fileInStdout
  /-- minisat: input file and output file as last two arguments (`_satsolve_filein_fileout`) -/
  | fileInFileOut
  deriving DecidableEq, Repr, Inhabited

def Iface.code : Iface → Nat
  | .stdinStdout => 0 | .fileInStdout => 1 | .fileInFileOut => 2

end Cnfgen.Solver
