/-
L9 — solver bridge, parsing side (cnfgen/utils/solver.py).

`parseStdout`      : the loop over `output.splitlines()` shared verbatim by
                     `_satsolve_stdin_stdout` and `_satsolve_filein_stdout`
`parseMinisatFile` : what `_satsolve_filein_fileout` does with the result file

Texts are lists of characters (`Str`).  The code decodes the solver's bytes with
`.decode('ascii', errors='replace')` (`decodeAscii`: every byte ≥ 0x80 becomes U+FFFD, which is
neither blank, digit, `s` nor `v`).  The model follows the code as of /repo 1de50c9: a status line
without second word gives no verdict, a non-integer word on a `v` line (or in the minisat file) is
caught (`except ValueError`) and re-raised as the documented `RuntimeError`, the witness is
`witness if result else None`.

No Mathlib import: compiled into the native driver.
-/
import CnfgenModel.Core.Sem
namespace Cnfgen.Solver

abbrev Str := List Char

/-! ### Python string primitives -/

/-- `str.isspace()` of a single character (what `str.split()` without argument splits at) -/
def isSpace (c : Char) : Bool :=
  let n := c.toNat
  (9 ≤ n && n ≤ 13) || (28 ≤ n && n ≤ 32) || n == 0x85 || n == 0xa0 || n == 0x1680 ||
  (0x2000 ≤ n && n ≤ 0x200a) || n == 0x2028 || n == 0x2029 || n == 0x202f || n == 0x205f ||
  n == 0x3000

/-- `str.split()`: maximal runs of non-whitespace characters; `cur` is the token being read -/
def pySplitAux : List Char → Str → List Str
  | [], cur => if cur.isEmpty then [] else [cur]
  | c :: cs, cur =>
    if isSpace c then
      if cur.isEmpty then pySplitAux cs [] else cur :: pySplitAux cs []
    else pySplitAux cs (cur ++ [c])

def pySplit (s : Str) : List Str := pySplitAux s []

/-- line boundaries of `str.splitlines()` -/
def isBreak (c : Char) : Bool :=
  let n := c.toNat
  (10 ≤ n && n ≤ 13) || (28 ≤ n && n ≤ 30) || n == 0x85 || n == 0x2028 || n == 0x2029

/-- `str.splitlines()` (`\r\n` is one boundary; no empty last line); `afterCR`: the previous
character was a `\r` boundary -/
def splitLinesAux : List Char → Str → Bool → List Str
  | [], cur, _ => if cur.isEmpty then [] else [cur]
  | c :: cs, cur, afterCR =>
    if afterCR && c.toNat == 10 then splitLinesAux cs cur false
    else if isBreak c then cur :: splitLinesAux cs [] (c.toNat == 13)
    else splitLinesAux cs (cur ++ [c]) false

def splitLines (s : Str) : List Str := splitLinesAux s [] false

/-- `output.decode('ascii', errors='replace')` / `open(…, encoding='ascii', errors='replace').read()`:
every byte outside ASCII becomes U+FFFD -/
def decodeAscii (bytes : List Nat) : Str :=
  bytes.map (fun b => if b < 128 then Char.ofNat b else Char.ofNat 0xFFFD)

def digitVal (c : Char) : Option Nat :=
  if 48 ≤ c.toNat && c.toNat ≤ 57 then some (c.toNat - 48) else none

/-- digits with single underscores strictly between digits; returns (value, number of digits) -/
def pyNatAux : List Char → Nat → Nat → Bool → Option (Nat × Nat)
  | [], acc, nd, prevDigit => if prevDigit then some (acc, nd) else none
  | c :: cs, acc, nd, prevDigit =>
    if c.toNat == 95 then (if prevDigit then pyNatAux cs acc nd false else none)
    else match digitVal c with
      | some d => pyNatAux cs (acc * 10 + d) (nd + 1) true
      | none => none

/-- `sys.get_int_max_str_digits()`: longer decimal strings make `int()` raise ValueError -/
def maxStrDigits : Nat := 4300

/-- `int(tok)` for a whitespace-free ASCII token: optional sign, decimal digits, `_` between
digits, at most 4300 digits; `none` = ValueError -/
def pyInt (s : Str) : Option Int :=
  let go (neg : Bool) (body : Str) : Option Int :=
    match pyNatAux body 0 0 false with
    | some (n, nd) => if nd > maxStrDigits then none else some (if neg then -(n : Int) else (n : Int))
    | none => none
  match s with
  | c :: r => if c.toNat == 45 then go true r else if c.toNat == 43 then go false r else go false s
  | [] => none

def pyIntE (s : Str) : Except Err Int :=
  match pyInt s with
  | some i => .ok i
  | none => .error .valueError

/-- `[f(x) for x in l]` where `f` may raise: the first failure wins -/
def mapE {α β} (f : α → Except Err β) : List α → Except Err (List β)
  | [] => .ok []
  | x :: xs =>
    match f x with
    | .error e => .error e
    | .ok y => match mapE f xs with
      | .error e => .error e
      | .ok ys => .ok (y :: ys)

/-- `try: … except ValueError: raise RuntimeError(…)` -/
def catchValueError {α} : Except Err α → Except Err α
  | .error .valueError => .error .runtimeError
  | x => x

/-! ### `sorted(witness, key=abs)` — stable -/

def insertByVar (x : Int) : List Int → List Int
  | [] => [x]
  | y :: ys => if x.natAbs ≤ y.natAbs then x :: y :: ys else y :: insertByVar x ys

def sortByVar (l : List Int) : List Int := l.foldr insertByVar []

/-- `witness if result else None` -/
def witnessIf (result : Bool) (witness : List Int) : Option (List Int) :=
  if result then some witness else none

/-! ### the `s` / `v` line loop -/

def tokV : Str := ['v']
def tok0 : Str := ['0']
def tokSAT : Str := ['S', 'A', 'T', 'I', 'S', 'F', 'I', 'A', 'B', 'L', 'E']
def tokUNSAT : Str := ['U', 'N', 'S', 'A', 'T', 'I', 'S', 'F', 'I', 'A', 'B', 'L', 'E']

/-- `result` after an `s` line with these words: `verdict = line.split()[1:2]` compared with
`['SATISFIABLE']` and `['UNSATISFIABLE']` (a status line without second word gives `None`) -/
def verdictOfWords (words : List Str) : Option Bool :=
  match (words.drop 1).take 1 with
  | [t] => if t = tokSAT then some true else if t = tokUNSAT then some false else none
  | _ => none

/-- `[int(el) for el in line.split() if el != "v" and el != "0"]` -/
def vInts (line : Str) : Except Err (List Int) :=
  mapE pyIntE ((pySplit line).filter (fun el => el != tokV && el != tok0))

structure PState where
  /-- `result`: None / True / False -/
  result : Option Bool
  witness : List Int
  deriving Repr, DecidableEq

/-- one iteration of `for line in output.splitlines()` -/
def stepLine (st : PState) (line : Str) : Except Err PState :=
  match line with
  | [] => .ok st                                     -- `if len(line) == 0: continue`
  | c :: _ =>
    let st1 : PState :=
      if c = 's' then { st with result := verdictOfWords (pySplit line) } else st
    if c = 'v' then
      match catchValueError (vInts line) with
      | .error e => .error e
      | .ok ws => .ok { st1 with witness := st1.witness ++ ws }
    else .ok st1

def runLines : PState → List Str → Except Err PState
  | st, [] => .ok st
  | st, l :: ls =>
    match stepLine st l with
    | .error e => .error e
    | .ok st' => runLines st' ls

/-- after the loop: `if result is None: raise RuntimeError`; sort; `(result, witness if result else None)` -/
def finish (st : PState) : Except Err (Bool × Option (List Int)) :=
  match st.result with
  | none => .error .runtimeError
  | some r => .ok (r, witnessIf r (sortByVar st.witness))

def parseStdout (lines : List Str) : Except Err (Bool × Option (List Int)) :=
  match runLines ⟨none, []⟩ lines with
  | .error e => .error e
  | .ok st => finish st

/-- from the decoded text of the solver's standard output -/
def parseOutput (text : Str) : Except Err (Bool × Option (List Int)) := parseStdout (splitLines text)

/-! ### minisat result file -/

def tokSat : Str := ['S', 'A', 'T']
def tokUnsat : Str := ['U', 'N', 'S', 'A', 'T']

/-- `foutput = sat.read().split()` and the `if / elif` chain after it -/
def parseMinisatTokens (foutput : List Str) : Except Err (Bool × Option (List Int)) :=
  match foutput with
  | [] => .error .runtimeError
  | t :: rest =>
    if t = tokSat then
      match catchValueError (mapE pyIntE (rest.filter (fun v => v != tok0))) with
      | .error e => .error e
      | .ok ws => .ok (true, witnessIf true (sortByVar ws))
    else if t = tokUnsat then .ok (false, none)
    else .error .runtimeError

def parseMinisatFile (text : Str) : Except Err (Bool × Option (List Int)) :=
  parseMinisatTokens (pySplit text)

/-! ### decimal rendering (used by the theorems about well-formed answers and by the driver's echo) -/

def digitChar (d : Nat) : Char := Char.ofNat (48 + d)

/-- decimal digits of `n`, most significant first (`fuel > number of digits`) -/
def showNatF : Nat → Nat → Str
  | 0, _ => []
  | fuel + 1, n => if n < 10 then [digitChar n] else showNatF fuel (n / 10) ++ [digitChar (n % 10)]

def showNat (n : Nat) : Str := showNatF (n + 1) n

/-- `str(i)` -/
def showInt (i : Int) : Str := if i < 0 then '-' :: showNat i.natAbs else showNat i.natAbs

end Cnfgen.Solver
