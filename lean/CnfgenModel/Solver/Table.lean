/-
`_SATSOLVER_INTERFACE` of cnfgen/utils/solver.py, in source order.
Plain literal: this file is meant to be regenerated from the source by the translator.
-/
import CnfgenModel.Solver.Iface
namespace Cnfgen.Solver

def table : List (String × Iface) := [
  ("cadical", .stdinStdout),
  ("kissat", .stdinStdout),
  ("lingeling", .stdinStdout),
  ("plingeling", .stdinStdout),
  ("precosat", .stdinStdout),
  ("picosat", .stdinStdout),
  ("march", .fileInStdout),
  ("cryptominisat", .stdinStdout),
  ("minisat", .fileInFileOut),
  ("glucose", .stdinStdout),
  ("sat4j", .fileInStdout)
]

end Cnfgen.Solver
