/-
L0 — run-time library of the Python-lite → Lean translator (`tools/py2lean.py`).

Every function here is the meaning the translator gives to one Python construct; the generated file
`CnfgenModel/Generated/Funcs.lean` contains nothing but applications of these, of `Core/Iter.lean`
and of core `List`/`Int` functions.  This file (with the translator's syntax-directed rules) is the
trusted part of the generated definitions; it is exercised against CPython by
`tools/py2lean_selftest.py`.  Semantics decisions are listed in `notes/translator.md`.  Import-free.
-/
import CnfgenModel.Core.Sem
import CnfgenModel.Core.Iter
namespace Cnfgen
namespace Py

/-! ### integers -/

/-- `a // b` (floor division, ZeroDivisionError) -/
def floordiv (a b : Int) : Except Err Int :=
  if b = 0 then .error .zeroDivision else .ok (Int.fdiv a b)

/-- `a % b` (sign of the divisor, ZeroDivisionError) -/
def mod (a b : Int) : Except Err Int :=
  if b = 0 then .error .zeroDivision else .ok (Int.fmod a b)

/-- `abs(x)` -/
def abs (x : Int) : Int := (x.natAbs : Int)

/-- `a ** b` for `b ≥ 0` (a negative exponent gives a float in Python: outside the subset, the
translator's documented precondition) -/
def pow (a b : Int) : Int := a ^ b.toNat

/-- the least `b` with `m ≤ 2^b` (`m ≥ 1`) -/
def clog2 (m : Nat) : Nat := if m ≤ 1 then 0 else Nat.log2 (m - 1) + 1

/-- `int(ceil(log(m, 2)))`: computed exactly (`log` of a non-positive number is a ValueError).  The float
computation of CPython agrees for every `1 ≤ m < 2^29` (notes/translator.md). -/
def ceilLog2 (m : Int) : Except Err Int :=
  if m ≤ 0 then .error .valueError else .ok (clog2 m.toNat : Nat)

/-- the exact integer square root, as an instance of the ABSTRACT call `int(sqrt(a))` of the translated code
(`math.sqrt` of a negative number is a ValueError).  CPython's float computation agrees as long as `a < 2^52`. -/
def isqrt (a : Int) : Except Err Int :=
  if a < 0 then .error .valueError else .ok (Nat.sqrt a.toNat : Nat)

/-- the length argument `r` of `itertools.combinations / permutations / …`: a negative one is a ValueError -/
def itertoolsR (r : Int) : Except Err Nat := if r < 0 then .error .valueError else .ok r.toNat

/-- `min(a, b)`, `max(a, b)` on integers -/
def min2 (a b : Int) : Int := if b < a then b else a
def max2 (a b : Int) : Int := if b > a then b else a

/-! ### `range` objects (step 1) -/

/-- `range(start, stop)`: kept symbolic, so that `in` and `len` are O(1) as in Python -/
structure Range where
  start : Int
  stop : Int
  deriving Repr, DecidableEq, Inhabited

namespace Range
/-- iteration / `list(r)` -/
def toList (r : Range) : List Int := rangeI r.start r.stop
/-- `len(r)` -/
def len (r : Range) : Int := if r.stop ≤ r.start then 0 else r.stop - r.start
/-- `x in r` -/
def contains (r : Range) (x : Int) : Bool := decide (r.start ≤ x) && decide (x < r.stop)
/-- `r[i]` (negative indices from the end; IndexError outside) -/
def get (r : Range) (i : Int) : Except Err Int :=
  if 0 ≤ i then (if i < r.len then .ok (r.start + i) else .error .indexError)
  else if -i ≤ r.len then .ok (r.start + r.len + i)
  else .error .indexError
end Range

/-- `list(range(a, b, c))` for `c ≠ 0` (`[]` for `c = 0`, which Python refuses: see `range3`) -/
def rangeStep (a b c : Int) : List Int :=
  if c > 0 then
    (List.range ((b - a + c - 1) / c).toNat).map (fun (i : Nat) => a + (i : Int) * c)
  else if c < 0 then
    (List.range ((a - b + (-c) - 1) / (-c)).toNat).map (fun (i : Nat) => a + (i : Int) * c)
  else []

/-- `range(a, b, c)` as a list; `c = 0` is a ValueError -/
def range3 (a b c : Int) : Except Err (List Int) :=
  if c = 0 then .error .valueError else .ok (rangeStep a b c)

/-! ### sequences -/

/-- `len(l)` -/
def len {α : Type} (l : List α) : Int := (l.length : Int)

/-- `l[i]` with Python's negative indices; IndexError outside -/
def index {α : Type} (l : List α) (i : Int) : Except Err α :=
  if 0 ≤ i then
    match l[i.toNat]? with
    | some a => .ok a
    | none => .error .indexError
  else if -i ≤ (l.length : Int) then
    match l[l.length - (-i).toNat]? with
    | some a => .ok a
    | none => .error .indexError
  else .error .indexError

/-- `l[i] = v` (Python's negative indices; IndexError outside) -/
def listSet {α : Type} (l : List α) (i : Int) (v : α) : Except Err (List α) :=
  if 0 ≤ i then
    (if i.toNat < l.length then .ok (l.set i.toNat v) else .error .indexError)
  else if -i ≤ (l.length : Int) then .ok (l.set (l.length - (-i).toNat) v)
  else .error .indexError

/-- `a, b, c = l`: exactly three entries, else ValueError -/
def unpack3 {α : Type} (l : List α) : Except Err (α × α × α) :=
  match l with
  | [a, b, c] => .ok (a, b, c)
  | _ => .error .valueError

/-- `v = l.pop()`: the last element and the list without it; IndexError when empty -/
def pop {α : Type} (l : List α) : Except Err (α × List α) :=
  match l.getLast? with
  | some a => .ok (a, l.dropLast)
  | none => .error .indexError

/-- `a, b = l`: exactly two entries, else ValueError -/
def unpack2 {α : Type} (l : List α) : Except Err (α × α) :=
  match l with
  | [a, b] => .ok (a, b)
  | _ => .error .valueError

/-- clamp a slice bound like CPython's `PySlice_AdjustIndices` (step 1) -/
def clampIdx (n : Nat) (i : Int) : Nat :=
  if i < 0 then (if (n : Int) + i < 0 then 0 else ((n : Int) + i).toNat)
  else if i > (n : Int) then n else i.toNat

/-- `l[lo:hi]` (`none` = omitted bound) -/
def slice {α : Type} (l : List α) (lo hi : Option Int) : List α :=
  let a := match lo with | none => 0 | some i => clampIdx l.length i
  let b := match hi with | none => l.length | some i => clampIdx l.length i
  (l.drop a).take (b - a)

/-- `sum(l)`: left to right from 0 -/
def sum (l : List Int) : Int := l.foldl (· + ·) 0

/-- `next(it)` of a fresh iterator over `l` -/
def next {α : Type} (l : List α) : Except Err α :=
  match l with
  | a :: _ => .ok a
  | [] => .error .stopIteration

/-- `l.index(x)`: first position; ValueError when absent -/
def indexOf {α : Type} [BEq α] (l : List α) (x : α) : Except Err Int :=
  if l.idxOf x < l.length then .ok (l.idxOf x : Int) else .error .valueError

/-- insertion into a sorted list, after the entries that are `≤ x` (stable) -/
def insertSorted (x : Int) : List Int → List Int
  | [] => [x]
  | y :: ys => if x < y then x :: y :: ys else y :: insertSorted x ys

/-- `sorted(l)` on integers -/
def sorted (l : List Int) : List Int := l.foldl (fun acc x => insertSorted x acc) []

/-- `itertools.combinations(l, 2)` as pairs, in Python's order -/
def combos2 {α : Type} : List α → List (α × α)
  | [] => []
  | x :: xs => xs.map (fun y => (x, y)) ++ combos2 xs

/-- `itertools.product(a, b)`: pairs, the first coordinate varies slowest -/
def product2 {α β : Type} (a : List α) (b : List β) : List (α × β) :=
  a.flatMap (fun x => b.map (fun y => (x, y)))

/-! ### `None` -/

/-- using a possibly-`None` value where a number / sequence is needed: TypeError on `None` -/
def unNone {α : Type} (x : Option α) : Except Err α :=
  match x with
  | some a => .ok a
  | none => .error .typeError

/-- reading a local variable that was assigned on some paths only: UnboundLocalError when it was not -/
def bound {α : Type} (x : Option α) : Except Err α :=
  match x with
  | some a => .ok a
  | none => .error .unbound

/-! ### `bisect.bisect_right` — the binary search CPython runs, on a list whose entries may be `None`
(an ordering comparison with `None` is a TypeError).  `fuel` bounds the iterations (`len + 1` suffices). -/

def bisectLoop (l : List (Option Int)) (x : Int) : Nat → Nat → Nat → Except Err Nat
  | 0, lo, _ => .ok lo
  | fuel + 1, lo, hi =>
    if lo < hi then
      let mid := (lo + hi) / 2
      match l[mid]? with
      | none => .error .indexError          -- unreachable: mid < hi ≤ len
      | some none => .error .typeError
      | some (some y) => if x < y then bisectLoop l x fuel lo mid else bisectLoop l x fuel (mid + 1) hi
    else .ok lo

def bisectRight (l : List (Option Int)) (x : Int) : Except Err Int :=
  (bisectLoop l x (l.length + 1) 0 l.length).map (fun (n : Nat) => (n : Int))

/-! ### dictionaries (insertion-ordered association lists, keys unique) -/

/-- `d[k] = v` -/
def dictSet {κ ν : Type} [BEq κ] : List (κ × ν) → κ → ν → List (κ × ν)
  | [], k, v => [(k, v)]
  | (k', v') :: d, k, v => if k' == k then (k', v) :: d else (k', v') :: dictSet d k v

/-- `d[k]` (KeyError) -/
def dictGet {κ ν : Type} [BEq κ] (d : List (κ × ν)) (k : κ) : Except Err ν :=
  match d.lookup k with
  | some v => .ok v
  | none => .error .keyError

/-- `k in d` -/
def dictHas {κ ν : Type} [BEq κ] (d : List (κ × ν)) (k : κ) : Bool := (d.lookup k).isSome

/-- `{k: v for …}`: the entries in order; a repeated key keeps its first position and takes the last value -/
def dictOfPairs {κ ν : Type} [BEq κ] (l : List (κ × ν)) : List (κ × ν) :=
  l.foldl (fun d kv => dictSet d kv.1 kv.2) []

/-! ### exceptions -/

/-- `try: <outcome> except <kind>: <handler>` followed by `rest`: only the named kind is caught -/
def tryExcept {α β : Type} (outcome : Except Err α) (kind : Err) (handler : Except Err β)
    (rest : α → Except Err β) : Except Err β :=
  match outcome with
  | .ok a => rest a
  | .error e => if e = kind then handler else .error e

end Py
end Cnfgen
