/-
L0 — Python-order iterators (`itertools.combinations`, `product`, `permutations`,
`combinations_with_replacement`, `range`).  Import-free.
-/
namespace Cnfgen

/-- `itertools.combinations(l, k)` in Python's (lexicographic by position) order -/
def combos {α : Type} : List α → Nat → List (List α)
  | _, 0 => [[]]
  | [], _ + 1 => []
  | x :: xs, k + 1 => (combos xs k).map (x :: ·) ++ combos xs (k + 1)

/-- `itertools.product(*ls)`; first coordinate varies slowest -/
def product {α : Type} : List (List α) → List (List α)
  | [] => [[]]
  | l :: ls => l.flatMap (fun x => (product ls).map (x :: ·))

/-- `itertools.product(l, repeat=k)` -/
def productRep {α : Type} (l : List α) : Nat → List (List α)
  | 0 => [[]]
  | k + 1 => l.flatMap (fun x => (productRep l k).map (x :: ·))

/-- all ways of removing one element: `(x, rest)` in position order -/
def picks {α : Type} : List α → List (α × List α)
  | [] => []
  | x :: xs => (x, xs) :: (picks xs).map (fun p => (p.1, x :: p.2))

/-- `itertools.permutations(l, k)` in Python's order -/
def permsK {α : Type} : Nat → List α → List (List α)
  | 0, _ => [[]]
  | k + 1, l => (picks l).attach.flatMap (fun ⟨p, _⟩ => (permsK k p.2).map (p.1 :: ·))
termination_by k _ => k

/-- `itertools.combinations_with_replacement(l, k)` -/
def combosRepl {α : Type} : List α → Nat → List (List α)
  | _, 0 => [[]]
  | [], _ + 1 => []
  | x :: xs, k + 1 => (combosRepl (x :: xs) k).map (x :: ·) ++ combosRepl xs (k + 1)

/-- `range(a, b)` as a list of integers -/
def rangeI (a b : Int) : List Int := (List.range (b - a).toNat).map (fun (i : Nat) => a + (i : Int))

/-- `range(a, b)` on naturals -/
def rangeN (a b : Nat) : List Nat := (List.range (b - a)).map (· + a)

end Cnfgen
