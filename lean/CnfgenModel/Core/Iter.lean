/-
L0 — Python-order iterators (`itertools.combinations`, `product`, `permutations`,
`combinations_with_replacement`, `range`).  Import-free.
-/
namespace Cnfgen

/-- `itertools.combinations(l, k)` in Python's (lexicographic by position) order -/
def combos {α : Type} : List α → Nat → List (List α)
  | _, 0 => [[]]
  | [], _ + 1 => []
  | x :: xs, k + 1 => (combos xs k).map (x :: ·) ++ combos xs (k + 1)

/-! ### compiled version of `combos`
`combos l k` explores `2^|l|` branches before answering `[]` when `k > |l|` (e.g. the clauses of
`cardinality_geq(lits, 1)` ask for the `|lits|`-subsets).  `combosFast` prunes those branches; the
`csimp` equation makes the compiler use it, the logical definition is unchanged. -/

theorem combos_eq_nil_of_length_lt {α : Type} : ∀ (l : List α) (k : Nat), l.length < k → combos l k = []
  | [], 0, h => by simp at h
  | [], _ + 1, _ => by simp [combos]
  | _ :: _, 0, h => by simp at h
  | x :: xs, k + 1, h => by
    have h1 : xs.length < k := by simp at h; omega
    have h2 : xs.length < k + 1 := by omega
    simp [combos, combos_eq_nil_of_length_lt xs k h1, combos_eq_nil_of_length_lt xs (k + 1) h2]

def combosFast {α : Type} : List α → Nat → List (List α)
  | _, 0 => [[]]
  | [], _ + 1 => []
  | x :: xs, k + 1 =>
      if xs.length < k then []
      else (combosFast xs k).map (x :: ·) ++ (if xs.length < k + 1 then [] else combosFast xs (k + 1))

theorem combos_eq_combosFast_aux {α : Type} : ∀ (l : List α) (k : Nat), combos l k = combosFast l k
  | _, 0 => by cases ‹List α› <;> simp [combos, combosFast]
  | [], _ + 1 => by simp [combos, combosFast]
  | x :: xs, k + 1 => by
    simp only [combos, combosFast]
    by_cases h1 : xs.length < k
    · have h2 : xs.length < k + 1 := by omega
      simp [h1, combos_eq_nil_of_length_lt xs k h1, combos_eq_nil_of_length_lt xs (k + 1) h2]
    · by_cases h2 : xs.length < k + 1
      · simp [h1, h2, combos_eq_nil_of_length_lt xs (k + 1) h2, combos_eq_combosFast_aux xs k]
      · simp [h1, h2, combos_eq_combosFast_aux xs k, combos_eq_combosFast_aux xs (k + 1)]

@[csimp] theorem combos_eq_combosFast : @combos = @combosFast := by
  funext α l k; exact combos_eq_combosFast_aux l k

/-- `itertools.product(*ls)`; first coordinate varies slowest -/
def product {α : Type} : List (List α) → List (List α)
  | [] => [[]]
  | l :: ls => l.flatMap (fun x => (product ls).map (x :: ·))

/-- `itertools.product(l, repeat=k)` -/
def productRep {α : Type} (l : List α) : Nat → List (List α)
  | 0 => [[]]
  | k + 1 => l.flatMap (fun x => (productRep l k).map (x :: ·))

/-- all ways of removing one element: `(x, rest)` in position order -/
def picks {α : Type} : List α → List (α × List α)
  | [] => []
  | x :: xs => (x, xs) :: (picks xs).map (fun p => (p.1, x :: p.2))

/-- `itertools.permutations(l, k)` in Python's order -/
def permsK {α : Type} : Nat → List α → List (List α)
  | 0, _ => [[]]
  | k + 1, l => (picks l).attach.flatMap (fun ⟨p, _⟩ => (permsK k p.2).map (p.1 :: ·))
termination_by k _ => k

/-- `itertools.combinations_with_replacement(l, k)` -/
def combosRepl {α : Type} : List α → Nat → List (List α)
  | _, 0 => [[]]
  | [], _ + 1 => []
  | x :: xs, k + 1 => (combosRepl (x :: xs) k).map (x :: ·) ++ combosRepl xs (k + 1)

/-- `range(a, b)` as a list of integers -/
def rangeI (a b : Int) : List Int := (List.range (b - a).toNat).map (fun (i : Nat) => a + (i : Int))

/-- `range(a, b)` on naturals -/
def rangeN (a b : Nat) : List Nat := (List.range (b - a)).map (· + a)

end Cnfgen
