/-
L1 — the formula object as the TRANSLATED family generators see it (`tools/py2lean.py`: an effect object whose state
is threaded through the statements): the declared number of variables and the abstract constraints added so far, in
order.  Each method is what the corresponding method of `BaseCNF` / `CNFLinear` (and of the OPB class) does at the level
of abstract constraints (`Con`, Build/Constr.lean; the rendering into clauses / pseudo-Boolean constraints is
`Con.toCNF` / `Con.toOPB`, and for `add_linear` the clause rendering is itself tied to the source:
`Props/C04/GeneratedLinear.lean`).  `check=True` is `_check_and_update`: ValueError on a literal `0`, the variable
count raised to the largest variable mentioned; an empty list is accepted as it is.  Import-free.
-/
import CnfgenModel.Build.Constr
namespace Cnfgen
namespace PyF

structure FState where
  numvar : Int
  cons : List Con
  deriving Repr, Inhabited

/-- `formula_class(description=…)`: a fresh formula -/
def empty : FState := ⟨0, []⟩

/-- `F.number_of_variables()` -/
def number_of_variables (s : FState) : Int := s.numvar

/-- `F.update_variable_number(n)` (`non_negative_int(n)`) -/
def update_variable_number (s : FState) (n : Int) : Except Err FState :=
  if n < 0 then .error .valueError else .ok { s with numvar := if n > s.numvar then n else s.numvar }

/-- `F._check_and_update(lits)` -/
def check_and_update (s : FState) (lits : List Int) : Except Err FState :=
  if lits.isEmpty then .ok s
  else if lits.contains 0 then .error .valueError
  else .ok { s with numvar := lits.foldl (fun m l => if (l.natAbs : Int) > m then (l.natAbs : Int) else m) s.numvar }

def checked (s : FState) (lits : List Int) (check : Bool) : Except Err FState :=
  if check then check_and_update s lits else .ok s

def push (s : FState) (c : Con) : FState := { s with cons := s.cons ++ [c] }

/-- `F.add_clause(c, check)` -/
def add_clause (s : FState) (c : List Int) (check : Bool) : Except Err FState :=
  (checked s c check).map (fun s => push s (.clause c))

/-- `F.add_linear(lits, op, k, check)`: the operator is validated before the literals -/
def add_linear (s : FState) (lits : List Int) (op : String) (k : Int) (check : Bool) : Except Err FState :=
  match Op.ofString? op with
  | none => .error .valueError
  | some o => (checked s lits check).map (fun s => push s (.lin lits o k))

def cardinality_eq (s : FState) (lits : List Int) (v : Int) (check : Bool) : Except Err FState := add_linear s lits "==" v check
def cardinality_leq (s : FState) (lits : List Int) (v : Int) (check : Bool) : Except Err FState := add_linear s lits "<=" v check
def cardinality_geq (s : FState) (lits : List Int) (v : Int) (check : Bool) : Except Err FState := add_linear s lits ">=" v check
def cardinality_neq (s : FState) (lits : List Int) (v : Int) (check : Bool) : Except Err FState := add_linear s lits "!=" v check

/-- `F.add_parity(lits, constant, check)` -/
def add_parity (s : FState) (lits : List Int) (constant : Int) (check : Bool) : Except Err FState :=
  (checked s lits check).map (fun s => push s (.parity lits constant))

/-- a list of literals some of whose entries were computed by `group(pattern)` (a scalar or a list): the checked
builder methods refuse a list among the literals ("literals must be non-zero integers": ValueError) -/
def lits (l : List (Sum Int (List Int))) : Except Err (List Int) :=
  l.mapM (fun x => match x with | .inl v => .ok v | .inr _ => .error .valueError)

def add_maj (kind : MajKind) (s : FState) (lits : List Int) (check : Bool) : Except Err FState :=
  (checked s lits check).map (fun s => push s (.maj kind lits))

def add_loose_majority := add_maj .looseMaj
def add_loose_minority := add_maj .looseMin
def add_strict_majority := add_maj .strictMaj
def add_strict_minority := add_maj .strictMin

end PyF
end Cnfgen
