/-
L0 — semantics of CNF and pseudo-Boolean formulas (model of cnfgen's in-memory
representation: `BaseCNF._clauses`, `BaseCNF._numvar`, `BaseOPB._constraints`).

Import-free on purpose: this file is compiled into the native driver.
-/
namespace Cnfgen

/-- Python exception kinds that the modelled code can raise.  The failure modes
of the real code are part of the model; nothing is totalised away. -/
inductive Err where
  | valueError | typeError | indexError | zeroDivision | stopIteration
  | unbound | runtimeError | recursion | keyError | assertion
  | overflowError
  deriving DecidableEq, Repr, Inhabited

def Err.name : Err → String
  | .valueError => "ValueError" | .typeError => "TypeError"
  | .indexError => "IndexError" | .zeroDivision => "ZeroDivisionError"
  | .stopIteration => "StopIteration" | .unbound => "UnboundLocalError"
  | .runtimeError => "RuntimeError" | .recursion => "RecursionError"
  | .keyError => "KeyError" | .assertion => "AssertionError"
  | .overflowError => "OverflowError"

abbrev Clause := List Int
abbrev Assign := Nat → Bool

/-- truth value of the DIMACS literal `l` (non-zero) under `α`. -/
def litHolds (α : Assign) (l : Int) : Bool :=
  if 0 < l then α l.natAbs else !(α l.natAbs)

def clauseHolds (α : Assign) (c : Clause) : Bool := c.any (litHolds α)

/-- number of literals of the list that are true (positions, not variables:
    a repeated literal counts twice, exactly like the arithmetic reading of
    `add_linear`). -/
def count (α : Assign) (ls : List Int) : Nat := ls.countP (litHolds α)

structure CNF where
  nvars : Nat
  clauses : List Clause
  deriving Repr, DecidableEq, Inhabited

def CNF.holds (α : Assign) (F : CNF) : Bool := F.clauses.all (clauseHolds α)

/-- every literal is a non-zero integer whose variable is within `nvars` -/
def CNF.WF (F : CNF) : Prop :=
  ∀ c ∈ F.clauses, ∀ l ∈ c, l ≠ 0 ∧ l.natAbs ≤ F.nvars

def CNF.wfb (F : CNF) : Bool :=
  F.clauses.all (fun c => c.all (fun l => l != 0 && l.natAbs ≤ F.nvars))

def CNF.empty : CNF := ⟨0, []⟩

/-- `BaseCNF._check_and_update` for a list of integer literals. -/
def checkLits (numvar : Nat) (ls : List Int) : Except Err Nat :=
  if ls.contains 0 then .error .valueError
  else .ok (ls.foldl (fun m l => max m l.natAbs) numvar)

/-- `BaseCNF.add_clause(clause, check)` -/
def CNF.addClause (F : CNF) (c : Clause) (check : Bool := true) : Except Err CNF :=
  if c.isEmpty then .ok { F with clauses := F.clauses ++ [[]] }
  else if check then
    -- the clause is appended *before* the check in the code; a failing check
    -- raises, and the caller's object is left with the extra clause.  The model
    -- returns the error (the state after an exception is not observed).
    match checkLits F.nvars c with
    | .ok n => .ok { nvars := n, clauses := F.clauses ++ [c] }
    | .error e => .error e
  else .ok { F with clauses := F.clauses ++ [c] }

def CNF.addClausesUnchecked (F : CNF) (cs : List Clause) : CNF :=
  { F with clauses := F.clauses ++ cs }

def CNF.updateVarNum (F : CNF) (n : Nat) : CNF := { F with nvars := max F.nvars n }

/-! ### pseudo-Boolean constraints -/

inductive Op where
  | le | ge | lt | gt | eq | ne
  deriving DecidableEq, Repr, Inhabited

def Op.denote : Op → Int → Int → Bool
  | .le, a, b => decide (a ≤ b)
  | .ge, a, b => decide (a ≥ b)
  | .lt, a, b => decide (a < b)
  | .gt, a, b => decide (a > b)
  | .eq, a, b => decide (a = b)
  | .ne, a, b => decide (a ≠ b)

def Op.str : Op → String
  | .le => "<=" | .ge => ">=" | .lt => "<" | .gt => ">" | .eq => "==" | .ne => "!="

def Op.ofString? : String → Option Op
  | "<=" => some .le | ">=" => some .ge | "<" => some .lt | ">" => some .gt
  | "==" => some .eq | "!=" => some .ne | _ => none

/-- a constraint `Σ cᵢ·lᵢ  op  rhs`; terms are (coefficient, literal) -/
structure PBC where
  terms : List (Int × Int)
  op : Op
  rhs : Int
  deriving DecidableEq, Repr, Inhabited

def pbSum (α : Assign) (ts : List (Int × Int)) : Int :=
  ts.foldr (fun t acc => (if litHolds α t.2 then t.1 else 0) + acc) 0

def PBC.holds (α : Assign) (c : PBC) : Bool := c.op.denote (pbSum α c.terms) c.rhs

structure OPB where
  nvars : Nat
  constraints : List PBC
  deriving Repr, DecidableEq, Inhabited

def OPB.holds (α : Assign) (F : OPB) : Bool := F.constraints.all (PBC.holds α)

def OPB.empty : OPB := ⟨0, []⟩

/-- a clause seen as the constraint `Σ lᵢ ≥ 1` (`BaseOPB.add_clause`) -/
def PBC.ofClause (c : Clause) : PBC := ⟨c.map (fun l => (1, l)), .ge, 1⟩

end Cnfgen
