/-
Parsers / printers used by the GENERATED driver module `Driver/GenFuncs.lean` (requests `gen <index> args…`
that evaluate the translated functions of `Generated/Funcs.lean`; see tools/py2lean_driver.py).  Import-free
of Mathlib; not a handler module itself.
-/
import CnfgenModel.Driver.Util
namespace Cnfgen.Driver.GenUtil
open Cnfgen Cnfgen.Driver

/-- outcome of an abstract call: 0 ok, 1 IndexError, 2 ValueError, 3 KeyError, 4 TypeError -/
def outcome : P (Except Err Unit) := do
  let c ← int
  match c with
  | 0 => pure (.ok ())
  | 1 => pure (.error .indexError)
  | 2 => pure (.error .valueError)
  | 3 => pure (.error .keyError)
  | 4 => pure (.error .typeError)
  | _ => failure

def opt {α} (p : P α) : P (Option α) := do
  let f ← int
  if f == 0 then pure none else do let x ← p; pure (some x)

def pair {α β} (p : P α) (q : P β) : P (α × β) := do
  let a ← p; let b ← q; pure (a, b)

def showList {α} (f : α → String) (l : List α) : String := "[" ++ ",".intercalate (l.map f) ++ "]"

def showStr (s : String) : String := "'" ++ ".".intercalate (s.toList.map (fun c => toString c.toNat)) ++ "'"

end Cnfgen.Driver.GenUtil
