/-
L8 — `dispatch` over the DOCUMENTED table (Cli/Documented.lean) instead of the regenerated one: the library
call a sub-command line is documented to stand for.
-/
import CnfgenModel.Cli.Dispatch
import CnfgenModel.Cli.Documented
namespace Cnfgen.Cli
open Cnfgen.Gen

def documentedSpec (kind name : String) : Option CliSpec :=
  documentedSpecs.find? (fun s => s.kind == kind && s.name == name)

def dispatchDoc (kind name : String) (argv : List String) : Except CliErr Call :=
  match documentedSpec kind name with
  | some s => dispatchSpec s argv
  | none => .error (.unsupported "not documented")

/-- the tables regenerated from the current source, restricted to the handled sub-commands -/
def currentSupportedSpecs : List CliSpec := cliSpecs.filter (·.supported)

end Cnfgen.Cli
