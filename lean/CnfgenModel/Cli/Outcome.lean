/-
L8 — a command line, end to end:  tokens ──dispatch──▶ library call ──family model──▶ formula or exception
──shield (the try/except of `cli()`)──▶ outcome class.

`evalCall` maps the generators that take only numbers / booleans to the family entry points of the model
(CnfgenModel/Fam/*): the result is whether the build step succeeds or which exception it raises.  Calls with
graph arguments, random generators and transformations are not mapped (`none`).
-/
import CnfgenModel.Cli.Dispatch
import CnfgenModel.Cli.DispatchChecks
import CnfgenModel.Fam.Php
import CnfgenModel.Fam.Counting
import CnfgenModel.Fam.CliqueColoring
import CnfgenModel.Fam.Ordering
import CnfgenModel.Fam.Ramsey
import CnfgenModel.Fam.Cpls
import CnfgenModel.Fam.Pitfall
namespace Cnfgen.Cli
open Cnfgen Cnfgen.Gen

def kwBool (c : Call) (k : String) : Option Bool :=
  match c.kw.lookup k with
  | some (.bool b) => some b
  | _ => none

def forget {α : Type} (r : Except Err α) : Except Err Unit := r.map (fun _ => ())

/-- all the values are integers -/
def allInts : List Val → Option (List Int)
  | [] => some []
  | .int i :: rest => (allInts rest).map (i :: ·)
  | _ :: _ => none

/-- the build step of a library call whose arguments are numbers and booleans.
`PitfallFormula`: the parameter checks of the generator (`Pitfall.check`); accepted parameters satisfy the
precondition of the third-party graph generator (Props/C03/Ramsey.lean `pitfall_accepted_is_drawable`). -/
def evalCall (c : Call) : Option (Except Err Unit) :=
  if c.fn == "PigeonholePrinciple" then
    (match c.pos, kwBool c "functional", kwBool c "onto" with
     | [.int m, .int n], some f, some o => some (forget (Fam.php m n f o))
     | _, _, _ => none)
  else if c.fn == "BinaryPigeonholePrinciple" then
    (match c.pos with | [.int m, .int n] => some (forget (Fam.bphp m n)) | _ => none)
  else if c.fn == "RelativizedPigeonholePrinciple" then
    (match c.pos with | [.int m, .int r, .int n] => some (forget (Fam.rphp m r n)) | _ => none)
  else if c.fn == "CountingPrinciple" then
    (match c.pos with | [.int m, .int p] => some (forget (Fam.counting m p)) | _ => none)
  else if c.fn == "CliqueColoring" then
    (match c.pos with | [.int n, .int k, .int cc] => some (forget (Fam.cliqueColoring n k cc)) | _ => none)
  else if c.fn == "OrderingPrinciple" then
    (match c.pos with
     | [.int n, .bool t, .bool s, .bool p, .none] => some (forget (Fam.Ordering.op n t s p 0))
     | [.int n, .bool t, .bool s, .bool p, .int k] => some (forget (Fam.Ordering.op n t s p k))
     | _ => none)
  else if c.fn == "PythagoreanTriples" then
    (match c.pos with | [.int n] => some (forget (Fam.Ramsey.ptn n)) | _ => none)
  else if c.fn == "RamseyNumber" then
    (match c.pos with | [.int s, .int k, .int n] => some (forget (Fam.Ramsey.ramseyNumber s k n)) | _ => none)
  else if c.fn == "VanDerWaerden" then
    (match allInts c.pos with
     | some (n :: k1 :: k2 :: ks) => some (forget (Fam.Ramsey.vdw n k1 k2 ks))
     | _ => none)
  else if c.fn == "CPLSFormula" then
    (match c.pos with | [.int a, .int b, .int cc] => some (forget (Fam.Cpls.cpls a b cc)) | _ => none)
  else if c.fn == "PitfallFormula" then
    (match c.pos with
     | [.int v, .int d, .int ny, .int nz, .int k] => some (Fam.Pitfall.check v d ny nz k)
     | _ => none)
  else none

def errOfName (n : String) : Err :=
  if n == "TypeError" then .typeError else if n == "IndexError" then .indexError
  else if n == "ZeroDivisionError" then .zeroDivision else if n == "KeyError" then .keyError
  else if n == "RuntimeError" then .runtimeError else if n == "AssertionError" then .assertion
  else if n == "ValueError" then .valueError else .unbound

/-- outcome class of `cnfgen <sub-command> <argv>`; `none`: outside the model (a token outside the argparse
fragment, a sub-command `dispatch` does not handle, a call `evalCall` does not map) -/
def cliOutcome (h : HelperSpec) (argv : List String) : Option Outcome :=
  match dispatch h argv with
  | .error .cliError => some .cliError
  | .error (.crash e) => some (.escaped (errOfName e))
  | .error (.unsupported _) => none
  | .ok c => (evalCall c).map shield

def cliOutcomeNamed (kind name : String) (argv : List String) : Option Outcome :=
  match helpers.find? (fun h => h.kind == kind && h.name == name) with
  | some h => cliOutcome h argv
  | none => none

/-- the generators `evalCall` maps -/
def evalFns : List String :=
  ["PigeonholePrinciple", "BinaryPigeonholePrinciple", "RelativizedPigeonholePrinciple", "CountingPrinciple",
   "CliqueColoring", "OrderingPrinciple", "PythagoreanTriples", "RamseyNumber", "VanDerWaerden", "CPLSFormula",
   "PitfallFormula"]

/-- numeric sub-commands WITHOUT options whose single, unguarded path is one library call that `evalCall` maps:
the class of the end-to-end theorem (Props/C18/EndToEnd.lean) -/
def outcomeCovered (s : CliSpec) : Bool :=
  s.supported && numericOnly s && specWF s && s.opts.all (·.positional) &&
  (match s.templates with
   | [t] => t.guard == .bool true && t.raises == "" && evalFns.contains t.fn
   | _ => false)

/-- the namespace `args` in which the i-th positional has the i-th value -/
def nsOfVals (s : CliSpec) (vals : List Int) : Ns :=
  ((positionals s).zip vals).map (fun p => (p.1.dest, Val.int p.2)) ++ defaults s

/-- the library call made with those values -/
def callOfVals (s : CliSpec) (vals : List Int) : Option Call :=
  match s.templates with
  | [t] => (match instantiate (nsOfVals s vals) t with | .ok c => some c | .error _ => none)
  | _ => none

end Cnfgen.Cli
