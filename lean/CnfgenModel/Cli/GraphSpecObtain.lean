/-
L8 — `make_graph_from_spec(graphtype, args)` of graph_args.py from TOKENS: `parse_graph_argument`
(Cli/GraphSpec.lean) followed by `obtain_graph` (Cli/GraphArgs.lean).

What the model does not compute is an input (`World`): the values `int(tok)` / `float(tok)` of the
numerals, the object a networkx generator returns, whether `open(filename)` succeeds and what
`readGraph` makes of the file, the recursion budget, whether pydot can be imported.
-/
import CnfgenModel.Cli.GraphSpec
import CnfgenModel.Cli.GraphArgs
namespace Cnfgen.GSpec
open Cnfgen Cnfgen.GRand Cnfgen.GCli

structure World where
  /-- `int(tok)` and `float(tok)` of a token that passed `float(tok)` -/
  interp : String → Arg
  /-- the converted result of the third-party generator, if the construction calls one -/
  ext : Option CG
  /-- `open(filename)` (or stdin for `-`) in `read_graph_from_input` -/
  openFile : Except Err Unit
  /-- `readGraph(file, graphtype, format)` on the opened file -/
  readGraph : RM CG
  /-- Python's recursion budget (restarts of `bipartite_random_regular`) -/
  fuel : Nat
  /-- `has_dot_library()` -/
  dot : Bool

/-- the classes of graph types: `dag` and `digraph` build `DirectedGraph` objects -/
def gtypeOf : String → Option GType
  | "simple" => some .simple
  | "dag" => some .dag
  | "digraph" => some .dag
  | "bipartite" => some .bipartite
  | _ => none

/-- `constructions[graphtype][name]`: the `obtain_*` function -/
def consOf : GType → String → Option Cons
  | .simple, "gnp" => some .gnp | .simple, "gnm" => some .gnm | .simple, "gnd" => some .gnd
  | .simple, "grid" => some .grid | .simple, "torus" => some .torus
  | .simple, "complete" => some .completeS | .simple, "empty" => some .emptyS
  | .dag, "path" => some .path | .dag, "tree" => some .tree | .dag, "pyramid" => some .pyramid
  | .bipartite, "glrp" => some .glrp | .bipartite, "glrm" => some .glrm | .bipartite, "glrd" => some .glrd
  | .bipartite, "regular" => some .regular | .bipartite, "shift" => some .shift
  | .bipartite, "complete" => some .completeB | .bipartite, "empty" => some .emptyB
  | _, _ => none

/-- the dictionary as `obtain_graph` reads it (`'plantclique' in parsed`, …; `save`: does
`writeGraph` settle on a format of the graph type?) -/
def request (w : World) (c : Cons) (as : List String) (p : GSpec.Parsed) : GCli.Parsed :=
  { cons := c
    args := as.map w.interp
    plantclique := (List.lookup "plantclique" p.opts).map (·.map w.interp)
    plantbiclique := (List.lookup "plantbiclique" p.opts).map (·.map w.interp)
    addedges := (List.lookup "addedges" p.opts).map (·.map w.interp)
    splitedges := (List.lookup "splitedges" p.opts).map (·.map w.interp)
    save := p.save.map (fun l => match l with
      | [f, fn] => (resolveFormat w.dot p.graphtype f fn).isSome
      | _ => false) }

/-- `obtain_graph` after the source has produced `G0`: planted (bi)clique, addedges, splitedges, save
(the same steps as `GCli.obtainGraph`, see `obtainGraph_eq_finish`) -/
def finish (gt : GType) (p : GCli.Parsed) (G0 : CG) : RM (CG × Option CG) := do
  let G1 ← (match gt with
    | .simple => applyOpt p.plantclique modifyPlantclique G0
    | .bipartite => applyOpt p.plantbiclique modifyPlantbiclique G0
    | .dag => pure G0)
  let G2 ← applyOpt p.addedges modifyAddedges G1
  let G3 ← applyOpt p.splitedges modifySplitedges G2
  match p.save with
  | none => pure (G3, none)
  | some true => pure (G3, some G3)
  | some false => valueError

/-- `read_graph_from_input(graphtype, filename, fileformat)`: open, settle the format, read -/
def readSource (w : World) (ty fn ff : String) : RM CG :=
  match w.openFile with
  | .error e => RM.raise e
  | .ok _ =>
    match formatsOf w.dot ty with
    | .error e => RM.raise e
    | .ok allowed =>
      if ff = "autodetect" ∧ (extension fn = "" ∨ extension fn ∉ allowed) then valueError
      else w.readGraph

/-- `make_graph_from_spec(graphtype, tokens)` -/
def makeGraphFromSpec (w : World) (ty : String) (toks : List String) : RM (CG × Option CG) :=
  match parseGraphArgument ty toks w.dot with
  | .error e => RM.raise e
  | .ok p =>
    match gtypeOf ty with
    | none => RM.raise .assertion
    | some gt =>
      match p.construction, p.args with
      | some c, some (some as) =>
        match consOf gt c with
        | some k => obtainGraph gt (request w k as p) w.ext w.fuel
        | none => RM.raise .assertion
      | _, _ =>
        match p.filename, p.fileformat with
        | some fn, some ff => readSource w ty fn ff >>= finish gt (request w default [] p)
        | _, _ => RM.raise .assertion

end Cnfgen.GSpec
