/-
L8 — `parse_graph_argument(graphtype, spec)` of cnfgen/clitools/graph_args.py, at TOKEN level:
the function that turns the words of a graph argument

    gnm 10 15 addedges 4 save kthlist out.txt      file.gml      dot file      glrd 5 6 2 plantbiclique 2 2

into the dictionary `parsed` (or raises).  Imports only the generated tables (`constructions`,
`options`, `formats`, regenerated from the CURRENT source on every run) and `Err`.

The model follows the code branch by branch, exceptions included:

* `constructions[graphtype]`, `formats[graphtype]`, `options[graphtype]` are dictionary look-ups made
  where the code makes them (`KeyError` for a graph type that is not a key);
* `consumenumbers` keeps the tokens on which `float(tok)` succeeds — `isFloat` below is CPython's
  `float(str)` acceptance test (`PyFloat_FromString`): Unicode decimal digits and spaces are mapped
  to ASCII, blanks stripped, single underscores between digits removed, then
  `[sign] (digits [. digits*] | . digits) [(e|E) [sign] digits]` or `[sign] (inf | infinity | nan)`
  in any letter case;
* for a word that is not an option the loop looks at `optionname[:1]` (a slice: the empty word is
  simply "not a valid option", ValueError; before the fix 4e949d4 it was `optionname[0]`, IndexError
  on `x ''` — finding C15-S1);
* `optionname in constructions` tests the KEYS of `constructions`, i.e. the graph type names
  (`simple`, `dag`, …), not the construction names — kept as it is;
* `optionname in result` tests all keys of the dictionary built so far.

The while loop over `position` becomes a recursion on the remaining suffix `spec[position:]`, with
the length of the suffix as fuel (every round consumes the option name); `optionLoop_fuel` in
Props/C15/GraphSpec.lean shows that the fuel never runs out.
-/
import CnfgenModel.Core.Sem
import CnfgenModel.Generated.Tables
namespace Cnfgen.GSpec
open Cnfgen

/-! ## `float(tok)`: does it raise ValueError? -/

/-- first code points of the runs `0 … 9` of the characters with a decimal value
(`Py_UNICODE_TODECIMAL`, Unicode 15.0 = CPython 3.12; the harness compares this table with the
`unicodedata` of the interpreter that runs the code under test) -/
def decimalRuns : List Nat :=
  [0x30, 0x660, 0x6f0, 0x7c0, 0x966, 0x9e6, 0xa66, 0xae6, 0xb66, 0xbe6, 0xc66, 0xce6, 0xd66, 0xde6,
   0xe50, 0xed0, 0xf20, 0x1040, 0x1090, 0x17e0, 0x1810, 0x1946, 0x19d0, 0x1a80, 0x1a90, 0x1b50, 0x1bb0,
   0x1c40, 0x1c50, 0xa620, 0xa8d0, 0xa900, 0xa9d0, 0xa9f0, 0xaa50, 0xabf0, 0xff10, 0x104a0, 0x10d30,
   0x11066, 0x110f0, 0x11136, 0x111d0, 0x112f0, 0x11450, 0x114d0, 0x11650, 0x116c0, 0x11730, 0x118e0,
   0x11950, 0x11c50, 0x11d50, 0x11da0, 0x11f50, 0x16a60, 0x16ac0, 0x16b50, 0x1d7ce, 0x1d7d8, 0x1d7e2,
   0x1d7ec, 0x1d7f6, 0x1e140, 0x1e2f0, 0x1e4f0, 0x1e950, 0x1fbf0]

/-- `Py_UNICODE_TODECIMAL(ch)` (`none` = -1) -/
def decimalValue? (c : Nat) : Option Nat :=
  match decimalRuns.find? (fun s => s ≤ c && c < s + 10) with
  | some s => some (c - s)
  | none => none

/-- `Py_UNICODE_ISSPACE(ch)` for `ch ≥ 128` -/
def unicodeSpaces : List Nat :=
  [0x85, 0xa0, 0x1680, 0x2000, 0x2001, 0x2002, 0x2003, 0x2004, 0x2005, 0x2006, 0x2007, 0x2008, 0x2009,
   0x200a, 0x2028, 0x2029, 0x202f, 0x205f, 0x3000]

/-- `Py_ISSPACE(c)`: `\t \n \v \f \r` and the blank -/
def isCSpace (c : Char) : Bool := (9 ≤ c.toNat && c.toNat ≤ 13) || c.toNat == 32

/-- `_PyUnicode_TransformDecimalAndSpaceToASCII`: ASCII characters below 127 are kept, Unicode
spaces become a blank, decimal digits their ASCII digit; at the first other character the result
ends with `?` -/
def toAscii : List Char → List Char
  | [] => []
  | c :: cs =>
    if c.toNat < 127 then c :: toAscii cs
    else if unicodeSpaces.contains c.toNat then ' ' :: toAscii cs
    else match decimalValue? c.toNat with
      | some d => Char.ofNat (48 + d) :: toAscii cs
      | none => ['?']

def stripC (cs : List Char) : List Char :=
  ((cs.dropWhile isCSpace).reverse.dropWhile isCSpace).reverse

def isDig (c : Char) : Bool := 48 ≤ c.toNat && c.toNat ≤ 57

/-- `_Py_string_to_number_with_underscores`: an underscore must have a digit on both sides;
`none` = ValueError -/
def removeUnderscores : Char → List Char → Option (List Char)
  | prev, [] => if prev = '_' then none else some []
  | prev, c :: cs =>
    if c = '_' then (if isDig prev then removeUnderscores c cs else none)
    else if prev = '_' && !isDig c then none
    else (removeUnderscores c cs).map (c :: ·)

def dropSign : List Char → List Char
  | c :: cs => if c = '+' || c = '-' then cs else c :: cs
  | [] => []

/-- number of leading digits, and what follows them -/
def spanDigits : List Char → Nat × List Char
  | [] => (0, [])
  | c :: cs => if isDig c then let r := spanDigits cs; (r.1 + 1, r.2) else (0, c :: cs)

/-- the whole text is `[sign] (digits [. digits*] | . digits) [(e|E) [sign] digits]`
(what `_Py_dg_strtod` consumes; `float_from_string_inner` then demands that nothing is left) -/
def isDecimalFloat (cs : List Char) : Bool :=
  let r1 := spanDigits (dropSign cs)
  let r2 : Nat × List Char := match r1.2 with
    | '.' :: r => spanDigits r
    | _ => (0, r1.2)
  if r1.1 + r2.1 = 0 then false
  else match r2.2 with
    | [] => true
    | e :: r3 =>
      if e = 'e' || e = 'E' then
        let r4 := spanDigits (dropSign r3)
        decide (0 < r4.1) && r4.2.isEmpty
      else false

/-- `_Py_parse_inf_or_nan` on the whole text -/
def isInfNan (cs : List Char) : Bool :=
  let w := (dropSign cs).map Char.toLower
  w = "inf".toList || w = "infinity".toList || w = "nan".toList

/-- `float(tok)` returns (does not raise ValueError) -/
def isFloat (tok : String) : Bool :=
  let cs := stripC (toAscii tok.toList)
  match removeUnderscores '\x00' cs with
  | none => false
  | some ds => isDecimalFloat ds || isInfNan ds

/-! ## `str.split()` (the `isinstance(spec, str)` branch) -/

/-- `str.isspace()` of one character -/
def isPySpace (c : Char) : Bool :=
  (9 ≤ c.toNat && c.toNat ≤ 13) || (28 ≤ c.toNat && c.toNat ≤ 32) || unicodeSpaces.contains c.toNat

def splitGo : List Char → List Char → List (List Char)
  | acc, [] => if acc.isEmpty then [] else [acc.reverse]
  | acc, c :: cs =>
    if isPySpace c then (if acc.isEmpty then splitGo [] cs else acc.reverse :: splitGo [] cs)
    else splitGo (c :: acc) cs

def pySplit (s : String) : List String := (splitGo [] s.toList).map String.ofList

/-! ## `os.path.splitext(name)[-1][1:]` (posix) -/

/-- `p.rfind(c)` -/
def rfind (c : Char) (p : List Char) : Int :=
  match (p.reverse.idxOf? c) with
  | some i => (p.length : Int) - 1 - i
  | none => -1

/-- `genericpath._splitext(p, '/', None, '.')`, second component -/
def splitextExt (p : List Char) : List Char :=
  let sep := rfind '/' p
  let dot := rfind '.' p
  if dot > sep then
    -- a dot that is not among the leading dots of the last path component
    if ((p.drop (sep + 1).toNat).take (dot - (sep + 1)).toNat).any (· ≠ '.') then p.drop dot.toNat else []
  else []

/-- the file-name extension without its dot: `os.path.splitext(name)[-1][1:]` -/
def extension (name : String) : String := String.ofList ((splitextExt name.toList).drop 1)

/-! ## the tables -/

/-- a dictionary literal look-up (`d[k]`; a repeated key keeps its last value) -/
def getTab {α} (tab : List (String × α)) (k : String) : Except Err α :=
  match tab.reverse.lookup k with
  | some v => pure v
  | none => throw .keyError

/-- `constructions[graphtype]` (as the list of its keys) -/
def constructionsOf (ty : String) : Except Err (List String) := getTab Gen.graphConstructions ty
/-- `options[graphtype]` -/
def optionsOf (ty : String) : Except Err (List String) := getTab Gen.graphOptions ty
/-- `formats[graphtype]`; `dot` = `has_dot_library()` -/
def formatsOf (dot : Bool) (ty : String) : Except Err (List String) :=
  (getTab Gen.graphFormats ty).map (fun p => if dot then p.1 else p.2)

/-- the keys of `constructions`: the graph type names -/
def typeNames : List String := Gen.graphConstructions.map (·.1)

/-- `construction_for_another_type(cname, graphtype)` -/
def constructionForAnotherType (cname ty : String) : Bool :=
  Gen.graphConstructions.any (fun p => p.1 != ty && p.2.contains cname)

/-- `format_for_another_type(fname, graphtype)` -/
def formatForAnotherType (dot : Bool) (fname ty : String) : Bool :=
  Gen.graphFormats.any (fun p => p.1 != ty && (if dot then p.2.1 else p.2.2).contains fname)

/-! ## the dictionary `parsed` -/

/-- the dictionary returned by `parse_graph_argument`, field by field.
`args`: `none` = the key is absent (file name without format), `some none` = `None`
(format + file name), `some (some l)` = the numeric tokens of the construction.
`opts`: the numeric options (`plantclique`, `plantbiclique`, `addedges`, `splitedges`) in the order
in which they were inserted.  `save`: `[format, file name]`. -/
structure Parsed where
  graphtype : String
  construction : Option String
  filename : Option String
  fileformat : Option String
  args : Option (Option (List String))
  opts : List (String × List String) := []
  save : Option (List String) := none
  deriving Repr, DecidableEq, Inhabited

/-- equality of outcomes is decidable (for `decide`d witnesses) -/
instance decEqOutcome {ε α} [DecidableEq ε] [DecidableEq α] : DecidableEq (Except ε α) := fun a b =>
  match a, b with
  | .ok x, .ok y => if h : x = y then isTrue (by rw [h]) else isFalse (fun h' => h (by cases h'; rfl))
  | .error x, .error y => if h : x = y then isTrue (by rw [h]) else isFalse (fun h' => h (by cases h'; rfl))
  | .ok _, .error _ => isFalse (fun h => by cases h)
  | .error _, .ok _ => isFalse (fun h => by cases h)

/-- the keys of the dictionary -/
def Parsed.keys (p : Parsed) : List String :=
  ["graphtype", "construction", "filename", "fileformat"] ++ (if p.args.isSome then ["args"] else []) ++
    p.opts.map (·.1) ++ (if p.save.isSome then ["save"] else [])

/-- `consumenumbers()`: the longest prefix of tokens on which `float` succeeds, and the rest -/
def consumeNumbers (spec : List String) : List String × List String :=
  (spec.takeWhile isFloat, spec.dropWhile isFloat)

/-- `consumesaveinfo()` on the remaining tokens: the slice it returns, and the rest -/
def consumeSaveInfo (dot : Bool) (ty : String) : List String → Except Err (List String × List String)
  | [] => throw .valueError                     -- "Missing information about where to save the graph"
  | t :: rest =>
    match formatsOf dot ty with
    | .error e => throw e
    | .ok fmts =>
      if t ∈ fmts then
        match rest with
        | [] => throw .valueError               -- "Missing file name where to save the graph"
        | f :: rest' => pure ([t, f], rest')
      else pure ([t], rest)

/-- the word is not an option of the graph type: which exception -/
def badOption (dot : Bool) (ty : String) (name : String) : Err :=
  if name.toList.take 1 = ['-'] then .valueError   -- `optionname[:1] == '-'`: "Optional arguments as … should be before …"
  else
    -- the message lists `formats[graphtype] + list(constructions[graphtype].keys())`
    match formatsOf dot ty with
    | .error e => e
    | .ok _ =>
      match constructionsOf ty with
      | .error e => e
      | .ok _ => .valueError                    -- "… is not a valid option for …"

/-- `while position < len(spec):` — one round per option -/
def optionLoop (dot : Bool) (ty : String) : Nat → Parsed → List String → Except Err Parsed
  | _, res, [] => pure res
  | 0, _, _ :: _ => throw .runtimeError          -- never reached (fuel = number of tokens left)
  | fuel + 1, res, name :: rest =>
    if name ∈ typeNames then throw .valueError    -- "No need for another construction specification"
    else match optionsOf ty with
      | .error e => throw e
      | .ok opts =>
        if name ∉ opts then throw (badOption dot ty name)
        else if name ∈ res.keys then throw .valueError  -- "Multiple occurrences of … option."
        else if name = "save" then
          match consumeSaveInfo dot ty rest with
          | .error e => throw e
          | .ok (info, rest') =>
            optionLoop dot ty fuel
              { res with save := some (if info.length = 1 then "autodetect" :: info else info) } rest'
        else
          optionLoop dot ty fuel
            { res with opts := res.opts ++ [(name, (consumeNumbers rest).1)] } (consumeNumbers rest).2

/-- `parse_graph_argument(graphtype, spec)` for a list `spec`; `dot` = `has_dot_library()`
(pydot importable: `dot` is a file format) -/
def parseGraphArgument (ty : String) (spec : List String) (dot : Bool := true) : Except Err Parsed :=
  match spec with
  | [] => throw .valueError                       -- "Empty graph specification"
  | s0 :: rest =>
    match constructionsOf ty with
    | .error e => throw e
    | .ok cons =>
      if s0 ∈ cons then
        optionLoop dot ty (consumeNumbers rest).2.length
          { graphtype := ty, construction := some s0, filename := none, fileformat := none,
            args := some (some (consumeNumbers rest).1) } (consumeNumbers rest).2
      else match formatsOf dot ty with
        | .error e => throw e
        | .ok fmts =>
          if s0 ∈ fmts then
            match rest with
            | [] => throw .valueError             -- "Filename expected after graph format"
            | fn :: rest' =>
              optionLoop dot ty rest'.length
                { graphtype := ty, construction := none, filename := some fn, fileformat := some s0,
                  args := some none } rest'
          else if formatForAnotherType dot s0 ty then throw .valueError
          else if constructionForAnotherType s0 ty then throw .valueError
          else
            optionLoop dot ty rest.length
              { graphtype := ty, construction := none, filename := some s0, fileformat := some "autodetect",
                args := none } rest

/-- the `isinstance(spec, str)` branch -/
def parseGraphArgumentStr (ty : String) (spec : String) (dot : Bool := true) : Except Err Parsed :=
  parseGraphArgument ty (pySplit spec) dot

/-! ## the canonical printer -/

/-- the words of `save`: the format is printed when it is one of the graph type -/
def renderSave (dot : Bool) (ty : String) : Option (List String) → List String
  | some [f, fn] =>
    match formatsOf dot ty with
    | .ok fmts => if f ∈ fmts then ["save", f, fn] else ["save", fn]
    | .error _ => ["save", fn]
  | _ => []

/-- a token list that parses to the request: source, numeric options in their order, `save` -/
def renderSpec (p : Parsed) (dot : Bool := true) : List String :=
  (match p.construction, p.args with
    | some c, some (some as) => c :: as
    | _, _ =>
      match p.fileformat, p.filename with
      | some f, some fn => if f = "autodetect" then [fn] else [f, fn]
      | _, _ => []) ++
  p.opts.flatMap (fun o => o.1 :: o.2) ++ renderSave dot p.graphtype p.save

/-! ## what `writeGraph` / `read_graph_from_input` make of `autodetect` -/

/-- `_process_graph_io_arguments`: the format that is used (`none` = ValueError) -/
def resolveFormat (dot : Bool) (ty : String) (fmt fname : String) : Option String :=
  match formatsOf dot ty with
  | .ok fmts =>
    let f := if fmt = "autodetect" then extension fname else fmt
    if f ∈ fmts then some f else none
  | .error _ => none

end Cnfgen.GSpec
