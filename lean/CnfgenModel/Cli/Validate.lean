/-
L8 — the argument validators of clitools/cmdline.py on command-line tokens, and the
exception shielding of `cli()` / `main()`.  The integer guards come from the generated tables.
-/
import CnfgenModel.Core.Sem
import CnfgenModel.Generated.Tables
namespace Cnfgen.Cli
open Cnfgen.Gen

def isWs (c : Char) : Bool := c == ' ' || c == '\t' || c == '\n' || c == '\r' || c == '\x0b' || c == '\x0c'

/-- digits with single underscores between digits (Python's integer literal rule) -/
def digitsVal : List Char → Option Nat
  | [] => none
  | cs =>
    let rec go : List Char → Nat → Bool → Option Nat   -- acc, "previous was a digit"
      | [], acc, prevDigit => if prevDigit then some acc else none
      | c :: rest, acc, prevDigit =>
        if c.isDigit then go rest (acc * 10 + (c.toNat - '0'.toNat)) true
        else if c == '_' && prevDigit && (match rest with | d :: _ => d.isDigit | [] => false) then go rest acc false
        else none
    go cs 0 false

/-- the ASCII fragment of Python's `int(str)`: surrounding whitespace, optional sign, digits with
single underscores -/
def pyInt? (s : String) : Option Int :=
  let cs := (s.toList.dropWhile isWs).reverse.dropWhile isWs |>.reverse
  match cs with
  | '+' :: rest => (digitsVal rest).map (fun n => (n : Int))
  | '-' :: rest => (digitsVal rest).map (fun n => -(n : Int))
  | rest => (digitsVal rest).map (fun n => (n : Int))

def cliRejects : String → Int → Bool
  | "positive_int", v => cli_positive_int_rejects v
  | "nonnegative_int", v => cli_nonnegative_int_rejects v
  | "positive_even_int", v => cli_positive_even_int_rejects v
  | _, _ => false

def libRejects : String → Int → Bool
  | "positive_int", v => lib_positive_int_rejects v
  | "non_negative_int", v => lib_non_negative_int_rejects v
  | "any_int", v => lib_any_int_rejects v
  | _, _ => true

/-- `type=<validator>` applied to a token: the converted value, or the argparse error -/
def validate (name : String) (tok : String) : Option Int :=
  match pyInt? tok with
  | none => none
  | some v => if cliRejects name v then none else some v

/-! ### exception shielding -/

inductive Outcome where
  | ok | cliError | internalBug | escaped (e : Err)
  deriving DecidableEq, Repr

/-- the `try … except (CLIError, ValueError) … except RuntimeError` around `build_formula` and
around every `transform_cnf` in `cli()` -/
def shield {α : Type} : Except Err α → Outcome
  | .ok _ => .ok
  | .error .valueError => .cliError
  | .error .runtimeError => .internalBug
  | .error e => .escaped e

/-- exit status of `main()` for an outcome of `cli()`: CLIError and InternalBug are reported and
exit with -1 (255); anything that escapes ends in a traceback (status 1) -/
def exitStatus : Outcome → Nat
  | .ok => 0 | .cliError => 255 | .internalBug => 255 | .escaped _ => 1

end Cnfgen.Cli
