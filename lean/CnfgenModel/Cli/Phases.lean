/-
L8 — flow of the random-generator state through a run of `cli()` (cnfgen / pbgen).
The generator is abstract: a state space `S`, `seedTo : Int → S` (what `random.seed(s)` installs)
and `next : S → S × Nat` (one draw).  Hidden inputs of a process are the initial state `rng₀`
(time-seeded) and `env` (addresses, hash seed, working directory).  Import-free.
-/
namespace Cnfgen.Cli

structure Gen (S : Type) where
  seedTo : Int → S
  next : S → S × Nat

/-- `k` consecutive draws -/
def draws {S : Type} (g : Gen S) : Nat → S → List Nat × S
  | 0, s => ([], s)
  | k + 1, s =>
    let (s1, v) := g.next s
    let (vs, s2) := draws g k s1
    (v :: vs, s2)

/-- which code is modelled: the current one, or the two historical defects kept as regression
witnesses (seed applied only after parsing; seed tested for truthiness) -/
structure Variant where
  seedAtParse : Bool      -- `--seed` seeds the generator as soon as it is parsed (D2 repaired)
  zeroIsSeed : Bool       -- `args.seed is not None` rather than `if args.seed:` (D1 repaired)
  reseedBeforeBuild : Bool := true   -- `random.seed(args.seed)` again just before `build_formula`
  deriving DecidableEq, Repr

def current : Variant := ⟨true, true, true⟩

/-- a command line, abstracted to what matters for the generator: the optional seed, how many draws
the graph arguments make while the command line is parsed, how many the formula generator and the
transformations make, and whether the header prints an object without `__str__` -/
structure Cmd where
  seed : Option Int
  parseDraws : Nat
  buildDraws : Nat
  printsObject : Bool := false

/-- hidden inputs of the process -/
structure Env (S : Type) where
  rng0 : S
  addr : Nat          -- object addresses / hash seed
  cwdVersion : Nat    -- what `git describe` answers in the current directory

/-- everything the output is computed from: the values drawn while parsing and while building,
the seed recorded in the header, and the header's dependence on the environment -/
structure Observed where
  parseVals : List Nat
  buildVals : List Nat
  headerSeed : Option Int
  headerAddr : Option Nat
  deriving DecidableEq, Repr

def effective (v : Variant) (seed : Option Int) : Option Int :=
  match seed with
  | some s => if v.zeroIsSeed || s != 0 then some s else none
  | none => none

def run {S : Type} (g : Gen S) (v : Variant) (c : Cmd) (env : Env S) : Observed :=
  -- option parsing: the seed action
  let s1 := match c.seed with
    | some s => if v.seedAtParse then g.seedTo s else env.rng0
    | none => env.rng0
  -- graph arguments are materialised while parsing
  let (pv, s2) := draws g c.parseDraws s1
  -- `if args.seed is not None: random.seed(args.seed)`
  let eff := effective v c.seed
  let s3 := if v.reseedBeforeBuild then (match eff with | some s => g.seedTo s | none => s2) else s2
  let (bv, _) := draws g c.buildDraws s3
  { parseVals := pv, buildVals := bv, headerSeed := eff,
    headerAddr := if c.printsObject then some env.addr else none }

/-- number of `random.seed` calls an observer of the generator sees during a run -/
def seedEvents (v : Variant) (c : Cmd) : Nat :=
  (if c.seed.isSome && v.seedAtParse then 1 else 0) +
  (if v.reseedBeforeBuild && (effective v c.seed).isSome then 1 else 0)

/-- what an observer of the generator sees first: is the first event `seed s`, and how many draws
precede the first seeding (the graph arguments' draws, if the seed is applied only after parsing) -/
def firstEvents (v : Variant) (c : Cmd) : Bool × Nat :=
  match c.seed with
  | some _ => if v.seedAtParse then (true, 0) else (c.parseDraws == 0 && (effective v c.seed).isSome, c.parseDraws)
  | none => (false, c.parseDraws + c.buildDraws)

end Cnfgen.Cli
