/-
L8 — the third-party results of `obtain_*` (Cli/GraphArgs.lean takes them as the input `ext`),
computed by the model of networkx (Graph/NxBuild.lean, Rand/NxDraws.lean).  Import-free.

`nxExt c args nx` is what `networkx.<generator>(…)` followed by cnfgen's `Graph.from_networkx` /
`Graph.normalize` returns for the construction `c` with the numeric tokens `args`, when networkx draws
`nx` from `random._inst`; `none` when the model has no answer (a construction without third-party part,
a token without integer value, a draw list that is not a legal record, or a networkx graph
that `from_networkx` refuses: a torus with a dimension 1).

`obtainGraphNx` is `obtain_graph` with that result in place of the input.  The draws of networkx
(`nx`) and cnfgen's own (`ds`: `random.sample / randint / random` of the modifiers) are two lists: the
generator runs to completion before the first modifier draws.
-/
import CnfgenModel.Cli.GraphArgs
import CnfgenModel.Rand.NxDraws
namespace Cnfgen.GCli
open Cnfgen Cnfgen.GRand Cnfgen.Nx

def simpleOf : Except Err SimpleG → Option CG
  | .ok S => some (.simple S)
  | .error _ => none

def outOf : NxOut (Except Err SimpleG) → Option CG
  | .ok r _ => simpleOf r
  | .stuck => none

/-- `[int(x) for x in dimensions]` -/
def intsOf : List Arg → Option (List Int)
  | [] => some []
  | a :: as => match a.int?, intsOf as with
    | some i, some is => some (i :: is)
    | _, _ => none

def gridExt (args : List Arg) (periodic : Bool) : Option CG :=
  match intsOf args with
  | some dims => simpleOf (gridSimple (dims.map Int.toNat) periodic)
  | none => none

def nxExt (c : Cons) (args : List Arg) (nx : List NxDraw) : Option CG :=
  match c, args with
  | .grid, _ => gridExt args false
  | .torus, _ => gridExt args true
  | .completeS, [a, b] =>
    match a.int?, b.int? with
    | some n, some k => simpleOf (completeBlocksSimple n.toNat k.toNat)
    | _, _ => none
  | .gnp, a :: p :: _ =>
    match a.int?, p.flt? with
    | some n, some (pn, pd) => outOf (gnpSimple n.toNat pn pd nx)
    | _, _ => none
  | .gnm, [a, b] =>
    match a.int?, b.int? with
    | some n, some m => outOf (gnmSimple n.toNat m.toNat nx)
    | _, _ => none
  | .gnd, [a, b] =>
    match a.int?, b.int? with
    | some n, some d =>
      match gndSimple n.toNat d.toNat nx with
      | .ok (some r) _ => simpleOf r
      | _ => none
    | _, _ => none
  | _, _ => none

/-- the input `ext` of `construct`: the model's answer for the networkx-backed constructions -/
def extFor (c : Cons) (args : List Arg) (nx : List NxDraw) (e : Option CG) : Option CG :=
  match c with
  | .grid | .torus | .completeS | .gnp | .gnm | .gnd => nxExt c args nx
  | _ => e

/-- `obtain_*` with the networkx part computed -/
def constructNx (c : Cons) (args : List Arg) (nx : List NxDraw) (e : Option CG) (fuel : Nat) : RM CG :=
  construct c args (extFor c args nx e) fuel

/-- `obtain_graph(parsed)` with the networkx part computed -/
def obtainGraphNx (gt : GType) (p : Parsed) (nx : List NxDraw) (e : Option CG) (fuel : Nat) : RM (CG × Option CG) :=
  obtainGraph gt p (extFor p.cons p.args nx e) fuel

end Cnfgen.GCli
