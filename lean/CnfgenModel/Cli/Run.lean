/-
L8 — a whole run of `cnfgen` or `pbgen`: argv ↦ the text written to stdout, with the module-level generator as an explicit
input.  The model COMPOSES what exists — it adds no new sampler or family:

  * the ORDER of the steps is the phase table regenerated from the source (`Generated/Phases.lean`): `cliRun`
    walks the event list of the tool (`parse`, `random.seed`, `build`, transformations, header entries, output);
  * sub-command tokens ↦ library call: `Cli/Dispatch.lean` (argparse fragment + call templates from the source);
  * graph arguments are materialised WHILE PARSING (as the argparse actions do): `GSpec.makeGraphFromSpec`
    (`parse_graph_argument` + `obtain_graph`, all in-house samplers as functions of draws);
    `networkx.gnp_random_graph` is modelled here (`nxGnp`: one `random()` per pair, in `combinations` order);
  * `randkcnf [-p]`, `randkxor [-p]`: `Rand.cliRandKCNF`, `Rand.cliRandKXORSys`; `kcolor k G`: `Fam.coloring`;
  * header + text: `IO.renderDimacsText` (cnfgen), `IO.renderOpbText` of the OPB rendering (pbgen, `formula_class=OPB`).

The generator.  A state of Python's generator is represented by what it WILL answer (`Rng`): the record of the
answers to the calls of the graph samplers (`GRand.Draw`) and to the calls of the formula samplers (`Rand.Draw`) —
the two draw vocabularies of the existing sampler models; no modelled sub-command draws in both phases.
`σ : Int → Rng` is `random.seed`: the state it installs is a function of the seed alone (the ONLY assumption
on CPython's generator besides the legality of answers, which the samplers check).  Hidden input of the process:
the initial state `rng₀`.  Nothing else in the model can depend on the process: there is no set, no dict, no
address, no clock in it — the tie of THAT to the source is the reviewed hazard list (`Props/C07/Hazards.lean`).

Fragment (anything else is `unsupported`, never guessed): options `--seed <int>` / `-S <int>` (canonical decimal
integers), `-q`, `--quiet`, `-v`, `--verbose`; no `-T`; sub-commands `randkcnf`, `randkxor`, `kcolor`; graph
specifications `gnp N p [t]`, `empty N`, `complete N` with `plantclique`, `addedges`, `splitedges` (no `save`, no
files).  Import-free.
-/
import CnfgenModel.Cli.PhaseTable
import CnfgenModel.Cli.Dispatch
import CnfgenModel.Cli.Validate
import CnfgenModel.Cli.GraphSpecObtain
import CnfgenModel.Rand.KXOR
import CnfgenModel.Fam.Coloring
import CnfgenModel.IO.Dimacs
import CnfgenModel.IO.Opb
namespace Cnfgen.CliRun
open Cnfgen Cnfgen.Cli Cnfgen.GenPh

/-- the module-level generator, as the program sees it: the answers it will give -/
structure Rng where
  graph : List GRand.Draw
  formula : List Rand.Draw
  deriving Repr, DecidableEq, Inhabited

/-- inputs that are functions of the command line and of the installation, not of the process -/
structure World where
  gw : GSpec.World                       -- `int(tok)` / `float(tok)` of numerals, file system, recursion budget
  floatStr : String → String             -- `str(float(tok))`
  baseHeader : List (String × String)    -- generator / copyright / url entries every formula starts with

inductive Outcome where
  | text (out : String)         -- written to stdout, exit status 0
  | cliError                    -- error report (Cli/Msg.lean), exit status ≠ 0
  | crash (e : Err)             -- an exception escapes
  | unsupported (why : String)  -- outside the modelled fragment
  | stuck                       -- the draw record is not a record of this run
  deriving Repr, DecidableEq, Inhabited

/-! ### options of the main parser -/

structure Top where
  seed : Option Int := none
  verbose : Bool := true
  sub : List String := []       -- the sub-command and its words
  deriving Repr, DecidableEq, Inhabited

def isDigitStr (cs : List Char) : Bool := !cs.isEmpty && cs.all (fun c => '0' ≤ c && c ≤ '9')

/-- canonical decimal integer: `-?[0-9]+` (what argparse hands to `int` without further ado) -/
def decimal? (s : String) : Option Int :=
  match s.toList with
  | '-' :: rest => if isDigitStr rest then pyInt? s else none
  | cs => if isDigitStr cs then pyInt? s else none

def knownSubs : List String := ["randkcnf", "randkxor", "kcolor"]

/-- the words before the sub-command; `fuel` = number of words -/
def parseTop : Nat → List String → Top → Except Outcome Top
  | 0, _, _ => .error (.unsupported "fuel")
  | _ + 1, [], _ => .error .cliError            -- "You did not tell which formula you wanted to generate"
  | fuel + 1, w :: rest, t =>
    if w == "--seed" || w == "-S" then
      match rest with
      | v :: rest' =>
        match decimal? v with
        | some s => parseTop fuel rest' { t with seed := some s }
        | none => .error (.unsupported "seed token")
      | [] => .error .cliError
    else if w == "-q" || w == "--quiet" then parseTop fuel rest { t with verbose := false }
    else if w == "-v" || w == "--verbose" then parseTop fuel rest { t with verbose := true }
    else if knownSubs.contains w then .ok { t with sub := w :: rest }
    else .error (.unsupported "option or sub-command")

/-! ### graph arguments -/

/-- `networkx.gnp_random_graph(n, p)` followed by `Graph.normalize`: `p ≥ 1` complete, `p ≤ 0` empty, else one
`random() < p` per pair of `itertools.combinations(range(n), 2)` -/
def nxGnp (n : Nat) (pn : Int) (pd : Nat) : GRand.RM SimpleG :=
  if pn ≥ (pd : Int) then GRand.RM.lift (GBuild.completeGraph n)
  else if pn ≤ 0 then pure (SimpleG.init n)
  else GRand.coinLoopS (fun x => GRand.unitLt x pn pd) (GBuild.completeCalls n) (SimpleG.init n)

/-- the third-party generator a specification calls, run on the draws — exactly when `obtain_gnp` reaches it
(two or three numerals, `N > 0`, `0 ≤ p ≤ 1`, `t = 1`); `none` otherwise -/
def specExt (w : World) (p : GSpec.Parsed) : GRand.RM (Option GCli.CG) :=
  match p.construction, p.args with
  | some "gnp", some (some as) =>
    let go (a pt : String) (t : Int) : GRand.RM (Option GCli.CG) :=
      match (w.gw.interp a).int?, (w.gw.interp pt).flt? with
      | some n, some (pn, pd) =>
        if GCli.gnpGuard n pn pd t && t == 1 then do
          let G ← nxGnp n.toNat pn pd
          pure (some (.simple G))
        else pure none
      | _, _ => pure none
    match as with
    | [a, pt] => go a pt 1
    | [a, pt, tt] =>
      match (w.gw.interp tt).int? with
      | some t => go a pt t
      | none => pure none
    | _ => pure none
  | _, _ => pure none

def intStr? (w : World) (tok : String) : Option String := ((w.gw.interp tok).int?).map toString

/-- `G.name` after `obtain_graph`, for the constructions of the fragment -/
def baseName (w : World) (p : GSpec.Parsed) : Option String :=
  match p.construction, p.args with
  | some "gnp", some (some [a, pt]) =>
    (intStr? w a).map (fun n => "Random " ++ w.floatStr pt ++ "-biased graph of " ++ n ++ " vertices")
  | some "gnp", some (some [a, pt, tt]) =>
    match intStr? w a, (w.gw.interp tt).int? with
    | some n, some t =>
      if t == 1 then some ("Random " ++ w.floatStr pt ++ "-biased graph of " ++ n ++ " vertices")
      else some ("Random " ++ w.floatStr pt ++ "-biased " ++ toString t ++ "-partite graph with " ++ n ++
                 " vertices per part")
    | _, _ => none
  | some "empty", some (some [a]) => (intStr? w a).map (fun n => "the empty graph of order " ++ n)
  | some "complete", some (some [a]) => (intStr? w a).map (fun n => "the complete graph of order " ++ n)
  | _, _ => none

def optSuffix (w : World) (p : GSpec.Parsed) (key pre post : String) : Option String :=
  match List.lookup key p.opts with
  | none => some ""
  | some [a] => (intStr? w a).map (fun k => pre ++ k ++ post)
  | some _ => none

/-- the name with the suffixes of the modifiers, in the order `obtain_graph` applies them -/
def graphName (w : World) (p : GSpec.Parsed) : Option String := do
  let b ← baseName w p
  let s1 ← optSuffix w p "plantclique" " + planted " "-clique"
  let s2 ← optSuffix w p "addedges" " + " " random edges"
  let s3 ← optSuffix w p "splitedges" " + " " splitted edges"
  pure (b ++ s1 ++ s2 ++ s3)

/-- `make_graph_from_spec('simple', toks)` inside `ObtainSimpleGraph.__call__`, on the graph draws -/
def makeSimple (w : World) (toks : List String) (ds : List GRand.Draw) :
    Except Outcome ((SimpleG × String) × List GRand.Draw) :=
  match GSpec.parseGraphArgument "simple" toks w.gw.dot with
  | .error .valueError => .error .cliError            -- `except ValueError: parser.error(...)`
  | .error e => .error (.crash e)
  | .ok p =>
    if p.save.isSome then .error (.unsupported "save")
    else if p.construction.isNone then .error (.unsupported "graph file")
    else
      match (do let e ← specExt w p
                GSpec.makeGraphFromSpec { w.gw with ext := e } "simple" toks : GRand.RM _) ds with
      | .ok (.simple G, _) rest =>
        match graphName w p with
        | some nm => .ok ((G, nm), rest)
        | none => .error (.unsupported "graph name")
      | .ok _ _ => .error (.unsupported "graph class")
      | .exc .valueError => .error .cliError
      | .exc e => .error (.crash e)
      | .foreign => .error (.unsupported "third-party exception")
      | .stuck => .error .stuck

/-! ### the run -/

structure RState where
  rng : Rng
  top : Top := {}
  call : Option Call := none
  graph : Option (SimpleG × String) := none
  formula : Option (Formula × List (String × String)) := none  -- constraints (as added) and header, in order
  usedGraph : Nat := 0          -- answers consumed by the graph samplers
  usedFormula : Nat := 0        -- answers consumed by the formula samplers
  deriving Inhabited

def ofCliErr : CliErr → Outcome
  | .cliError => .cliError
  | .crash _ => .unsupported "helper crash"
  | .unsupported why => .unsupported why

/-- the first graph value among the positional arguments of the call -/
def graphToks (c : Call) : Option (List String) :=
  c.pos.findSome? (fun v => match v with | .graph "simple" toks => some toks | _ => none)

def intArgs (c : Call) : List Int := c.pos.filterMap (fun v => match v with | .int i => some i | _ => none)

def setHeader (h : List (String × String)) (k v : String) : List (String × String) :=
  if h.any (fun e => e.1 == k) then h.map (fun e => if e.1 == k then (k, v) else e) else h ++ [(k, v)]

/-- `parse_command_line`: options of the main parser (the `--seed` action seeds at once when the table says
so), then the sub-command: its words are converted, its graph argument is materialised -/
def stepParse (σ : Int → Rng) (w : World) (t : ToolPhases) (argv : List String) (st : RState) :
    Except Outcome RState :=
  if argv.contains "-T" then .error (.unsupported "-T") else
  match parseTop (argv.length + 1) argv.tail {} with
  | .error o => .error o
  | .ok top =>
    let rng1 : Rng := match t.seedOpt, top.seed with
      | some o, some s => if o.seeds then σ s else st.rng
      | _, _ => st.rng
    match top.sub with
    | [] => .error .cliError
    | sub :: words =>
      match dispatchNamed "formula" sub words with
      | .error e => .error (ofCliErr e)
      | .ok call =>
        match graphToks call with
        | none => .ok { st with rng := rng1, top := top, call := some call }
        | some toks =>
          match makeSimple w toks rng1.graph with
          | .error o => .error o
          | .ok (g, rest) =>
            .ok { st with rng := { rng1 with graph := rest }, top := top, call := some call, graph := some g,
                          usedGraph := st.usedGraph + (rng1.graph.length - rest.length) }

def liftRand {α} (r : Except Rand.RErr (α × List Rand.Draw)) : Except Outcome (α × List Rand.Draw) :=
  match r with
  | .ok x => .ok x
  | .error (.py .valueError) => .error .cliError       -- `except (CLIError, ValueError): subparser.error(e)`
  | .error (.py e) => .error (.crash e)
  | .error _ => .error .stuck

/-- `args.generator.build_formula(args, formula_class=CNF)` -/
def stepBuild (w : World) (st : RState) : Except Outcome RState :=
  match st.call with
  | none => .error (.unsupported "build before parse")
  | some c =>
    let plant := c.kw.any (fun p => p.1 == "planted_assignments")
    if c.fn == "RandomKCNF" then
      match intArgs c with
      | [k, n, m] =>
        match liftRand (Rand.cliRandKCNF plant k.toNat n.toNat m.toNat st.rng.formula) with
        | .error o => .error o
        | .ok (F, rest) =>
          let d := "Random " ++ toString k ++ "-CNF over " ++ toString n ++ " variables and " ++ toString m ++ " clauses"
          .ok { st with rng := { st.rng with formula := rest },
                        usedFormula := st.usedFormula + (st.rng.formula.length - rest.length),
                        formula := some (F, ("description", d) :: w.baseHeader) }
      | _ => .error (.unsupported "call shape")
    else if c.fn == "RandomKXOR" then
      match intArgs c with
      | [k, n, m] =>
        match liftRand (Rand.cliRandKXORSys plant k.toNat n.toNat m.toNat st.rng.formula) with
        | .error o => .error o
        | .ok (sys, rest) =>
          let d := "Random " ++ toString k ++ "-xor over " ++ toString n ++ " variables and " ++ toString m ++ " clauses"
          .ok { st with rng := { st.rng with formula := rest },
                        usedFormula := st.usedFormula + (st.rng.formula.length - rest.length),
                        formula := some (Rand.kxorFormula n.toNat sys, ("description", d) :: w.baseHeader) }
      | _ => .error (.unsupported "call shape")
    else if c.fn == "GraphColoringFormula" then
      match st.graph, intArgs c with
      | some (G, nm), [k] =>
        match Fam.coloring G k true with
        | .error .valueError => .error .cliError
        | .error e => .error (.crash e)
        | .ok F =>
          let d := "Graph " ++ toString k ++ "-Colorability of " ++ nm
          .ok { st with formula := some (F, ("description", d) :: w.baseHeader) }
      | _, _ => .error (.unsupported "call shape")
    else .error (.unsupported "generator")

/-- `to_file(args.output, fileformat, export_header=args.verbose)`: DIMACS for cnfgen, OPB for pbgen (their
default formats; `formula_class` is CNF resp. OPB) -/
def render (t : ToolPhases) (st : RState) : Outcome :=
  match st.formula with
  | none => .unsupported "output before build"
  | some (F, hdr) =>
    let h : IO.Header := hdr.map (fun e => (e.1.toList, e.2.toList))
    let hdr? := if st.top.verbose then some h else none
    if t.tool == "cnfgen" then .text (String.ofList (IO.renderDimacsText F.toCNF hdr? none))
    else if t.tool == "pbgen" then .text (String.ofList (IO.renderOpbText F.toOPB hdr? none))
    else .unsupported "tool"

def stepEv (σ : Int → Rng) (w : World) (t : ToolPhases) (argv : List String) (st : RState) :
    Ev → Except Outcome RState
  | .parse _ => stepParse σ w t argv st
  | .seed gd a =>
    if guardFires (seedTy t) gd (argsSeed t st.top.seed) then
      match a, argsSeed t st.top.seed with
      | .argsSeed, some s => .ok { st with rng := σ s }
      | _, _ => .error (.unsupported "seeding from something else than the seed")
    else .ok st
  | .build _ => stepBuild w st
  | .transforms _ => .ok st                       -- no `-T` in the fragment: the loop body never runs
  | .headerSeed gd _ =>
    if guardFires (seedTy t) gd (argsSeed t st.top.seed) then
      match argsSeed t st.top.seed, st.formula with
      | some s, some (F, h) => .ok { st with formula := some (F, setHeader h "random seed" (toString s)) }
      | _, _ => .error (.unsupported "header")
    else .ok st
  | .headerCmdline pre =>
    match st.formula with
    | some (F, h) =>
      .ok { st with formula := some (F, setHeader h "command line" (pre ++ " ".intercalate (argv.drop 1))) }
    | none => .error (.unsupported "header")
  | .output _ => .ok st
  | .draw _ => .error (.unsupported "draw in cli()")
  | .readInput _ => .error (.unsupported "input")
  | .shuffle => .error (.unsupported "shuffle")

/-- the events up to the first output; result: what is written, and how many answers the graph samplers and the
formula samplers consumed -/
def runFrom (σ : Int → Rng) (w : World) (t : ToolPhases) (argv : List String) :
    List Ev → RState → Outcome × Nat × Nat
  | [], st => (.unsupported "no output event", st.usedGraph, st.usedFormula)
  | e :: es, st =>
    if isOutput e then (render t st, st.usedGraph, st.usedFormula)
    else match stepEv σ w t argv st e with
      | .error o => (o, st.usedGraph, st.usedFormula)
      | .ok st' => runFrom σ w t argv es st'

/-- a run of the tool described by the table `t` -/
def runTable (σ : Int → Rng) (w : World) (t : ToolPhases) (argv : List String) (rng₀ : Rng) : Outcome × Nat × Nat :=
  runFrom σ w t argv t.events { rng := rng₀ }

/-- a run of `tool` (cnfgen / pbgen) as the CURRENT source orders it -/
def toolRun (tool : String) (σ : Int → Rng) (w : World) (argv : List String) (rng₀ : Rng) : Outcome × Nat × Nat :=
  match phasesOf tool with
  | some t => runTable σ w t argv rng₀
  | none => (.unsupported "no phase table", 0, 0)

/-- a run of cnfgen as the CURRENT source orders it -/
def cliRun (σ : Int → Rng) (w : World) (argv : List String) (rng₀ : Rng) : Outcome × Nat × Nat :=
  toolRun "cnfgen" σ w argv rng₀

/-- the seed option of a command line of the fragment -/
def seedOf (argv : List String) : Option Int :=
  match parseTop (argv.length + 1) argv.tail {} with
  | .ok top => top.seed
  | .error _ => none

end Cnfgen.CliRun
