/-
L8 — a whole run of `cnfgen` or `pbgen`: argv (and the contents of the files it names) ↦ the text written to stdout and the
files written by `save`, with the module-level generator as an explicit input.  The model COMPOSES what exists — it adds no
new sampler or family:

  * the ORDER of the steps is the phase table regenerated from the source (`Generated/Phases.lean`): `toolRun`
    walks the event list of the tool (`parse`, `random.seed`, `build`, transformations, header entries, output);
  * the command line is split around `-T` (`Cli/Chain.lean`); sub-command and transformation tokens ↦ library call:
    `Cli/Dispatch.lean` (argparse fragment + call templates from the source);
  * graph arguments are materialised WHILE PARSING (as the argparse actions do): `GSpec.makeGraphFromSpec`
    (`parse_graph_argument` + `obtain_graph`, all in-house samplers as functions of draws); the networkx generators are
    `nxGnp` (one `random()` per pair), `Nx.gnmSimple`, `Nx.gndSimple` (Rand/NxDraws.lean); a graph FILE is read from
    `World.files` (content by path token, `GraphFmt.readText`), `save` writes through `GraphFmt.writeText`;
  * families: `Rand.cliRandKCNF`, `Rand.cliRandKXORSys`, `Fam.coloring`, `Fam.tseitin` (charges from `random.randint`),
    `Fam.gphp`, `Fam.domset`, `Fam.G2.cliqueFormula`; transformations: `Shuffle.run`, `Subst.compress` after
    `GRand.leftRegular`, `Subst.xorSubst/orSubst/majSubst/flip`;
  * header + text: `IO.renderDimacsText` (cnfgen), `IO.renderOpbText` of the OPB rendering (pbgen, `formula_class=OPB`).

The generator.  A state of Python's generator is represented by what it WILL answer (`Rng`): an ordered stream for the calls
made while parsing and an ordered stream for the calls made afterwards (build and the whole `-T` chain share ONE stream);
every answer is tagged with the vocabulary of the sampler model that asks for it (`RDraw`).
`σ : Int → Rng` is `random.seed`: the state it installs is a function of the seed alone (the ONLY assumption
on CPython's generator besides the legality of answers, which the samplers check).  Hidden input of the process:
the initial state `rng₀`.  Nothing else in the model can depend on the process: there is no set, no dict, no
address, no clock, no working directory in it — the tie of THAT to the source is the reviewed hazard list
(`Props/C07/Hazards.lean`).

Fragment (anything else is `unsupported`, never guessed): options `--seed <int>` / `-S <int>` (canonical decimal
integers), `-q`, `--quiet`, `-v`, `--verbose`; sub-commands `randkcnf`, `randkxor`, `kcolor`, `tseitin`, `php <bipartite>`,
`domset`, `kclique`; simple graphs `gnp N p [t]`, `gnm N m`, `gnd N d`, `empty N`, `complete N` with `plantclique`,
`addedges`, `splitedges`; bipartite `glrp`, `glrm`, `glrd`, `regular`, `empty` with `plantbiclique`, `addedges`; `save` and
files in the kthlist / dimacs / matrix formats; `-T shuffle | xorcomp N [d] | majcomp N [d] | xor k | or k | maj k | flip`.
Import-free.
-/
import CnfgenModel.Cli.PhaseTable
import CnfgenModel.Cli.Dispatch
import CnfgenModel.Cli.Chain
import CnfgenModel.Cli.Validate
import CnfgenModel.Cli.GraphSpecObtain
import CnfgenModel.Rand.KXOR
import CnfgenModel.Rand.NxDraws
import CnfgenModel.Rand.BipSamplers
import CnfgenModel.Fam.Coloring
import CnfgenModel.Fam.Tseitin
import CnfgenModel.Fam.Php
import CnfgenModel.Fam.DomSet
import CnfgenModel.Fam.Subgraph
import CnfgenModel.Trans.Shuffle
import CnfgenModel.Trans.Subst
import CnfgenModel.Trans.Header
import CnfgenModel.IO.Dimacs
import CnfgenModel.IO.Opb
import CnfgenModel.IO.GraphFmt
namespace Cnfgen.CliRun
open Cnfgen Cnfgen.Cli Cnfgen.GenPh

/-- one answer of the module-level generator, in the vocabulary of the sampler model that asks for it: cnfgen's graph
samplers (`g`), the formula samplers and `random.randint` of the helpers (`f`), networkx's `gnm_random_graph` /
`random_regular_graph` (`nx`), the `Shuffle` transformation (`sh`) -/
inductive RDraw where
  | g (d : GRand.Draw)
  | f (d : Rand.Draw)
  | nx (d : Nx.NxDraw)
  | sh (d : Shuffle.Draw)
  deriving Repr, DecidableEq, Inhabited

/-- an ordered stream of answers -/
abbrev Stream := List RDraw

/-- the module-level generator, as the program sees it: the answers it will give, IN ORDER, to the calls made while the
command line is parsed (`parse`: the graph arguments, materialised by argparse actions) and to the calls made afterwards
(`later`: ONE stream threaded through `build_formula` and every transformation of the `-T` chain, in order).  Two views
of one state: `cli()` seeds a second time between the two phases, so the same state answers two different sequences of
requests -/
structure Rng where
  parse : Stream
  later : Stream
  deriving Repr, DecidableEq, Inhabited

def gPre : List RDraw → List GRand.Draw
  | .g d :: r => d :: gPre r
  | _ => []
def fPre : List RDraw → List Rand.Draw
  | .f d :: r => d :: fPre r
  | _ => []
def nxPre : List RDraw → List Nx.NxDraw
  | .nx d :: r => d :: nxPre r
  | _ => []
def shPre : List RDraw → List Shuffle.Draw
  | .sh d :: r => d :: shPre r
  | _ => []

/-- inputs that are functions of the command line and of the installation (and the files named on the command line),
not of the process -/
structure World where
  gw : GSpec.World                       -- `int(tok)` / `float(tok)` of numerals, recursion budget
  floatStr : String → String             -- `str(float(tok))`
  baseHeader : List (String × String)    -- generator / copyright / url entries every formula starts with
  files : String → Option String := fun _ => none   -- content of the file a path token names (the environment)

inductive Outcome where
  | text (out : String)         -- written to stdout, exit status 0
  | cliError                    -- error report (Cli/Msg.lean), exit status ≠ 0
  | crash (e : Err)             -- an exception escapes
  | unsupported (why : String)  -- outside the modelled fragment
  | stuck                       -- the draw record is not a record of this run
  deriving Repr, DecidableEq, Inhabited

/-- what a run leaves behind: what is written to stdout (or how it fails), how many answers of the generator were
consumed while the command line was parsed and afterwards, and the files written (`save`), in order: path token, text -/
structure Result where
  out : Outcome
  usedParse : Nat
  usedLater : Nat
  written : List (String × String) := []
  deriving Repr, DecidableEq, Inhabited

/-! ### options of the main parser -/

structure Top where
  seed : Option Int := none
  verbose : Bool := true
  sub : List String := []       -- the sub-command and its words
  deriving Repr, DecidableEq, Inhabited

def isDigitStr (cs : List Char) : Bool := !cs.isEmpty && cs.all (fun c => '0' ≤ c && c ≤ '9')

/-- canonical decimal integer: `-?[0-9]+` (what argparse hands to `int` without further ado) -/
def decimal? (s : String) : Option Int :=
  match s.toList with
  | '-' :: rest => if isDigitStr rest then pyInt? s else none
  | cs => if isDigitStr cs then pyInt? s else none

def knownSubs : List String := ["randkcnf", "randkxor", "kcolor", "tseitin", "php", "domset", "kclique"]

/-- the words before the sub-command; `fuel` = number of words -/
def parseTop : Nat → List String → Top → Except Outcome Top
  | 0, _, _ => .error (.unsupported "fuel")
  | _ + 1, [], _ => .error .cliError            -- "You did not tell which formula you wanted to generate"
  | fuel + 1, w :: rest, t =>
    if w == "--seed" || w == "-S" then
      match rest with
      | v :: rest' =>
        match decimal? v with
        | some s => parseTop fuel rest' { t with seed := some s }
        | none => .error (.unsupported "seed token")
      | [] => .error .cliError
    else if w == "-q" || w == "--quiet" then parseTop fuel rest { t with verbose := false }
    else if w == "-v" || w == "--verbose" then parseTop fuel rest { t with verbose := true }
    else if knownSubs.contains w then .ok { t with sub := w :: rest }
    else .error (.unsupported "option or sub-command")

/-! ### running the sampler models on the stream -/

def ofErr : Err → Outcome
  | .valueError => .cliError            -- `except ValueError: parser.error(...)` / `subparser.error(e)`
  | e => .crash e

/-- a graph sampler (vocabulary `g`) on the stream: it sees the `g` answers at the front, and what it consumed is
dropped from the stream -/
def runG {α} (m : GRand.RM α) (ds : Stream) : Except Outcome (α × Stream) :=
  let p := gPre ds
  match m p with
  | .ok a rest => .ok (a, ds.drop (p.length - rest.length))
  | .exc e => .error (ofErr e)
  | .foreign => .error (.unsupported "third-party exception")
  | .stuck => .error .stuck

/-- a formula sampler (vocabulary `f`) on the stream -/
def runF {α} (m : Rand.RandM α) (ds : Stream) : Except Outcome (α × Stream) :=
  let p := fPre ds
  match m p with
  | .ok (a, rest) => .ok (a, ds.drop (p.length - rest.length))
  | .error (.py e) => .error (ofErr e)
  | .error _ => .error .stuck

/-- a networkx generator (vocabulary `nx`) on the stream -/
def runNx {α} (m : List Nx.NxDraw → Nx.NxOut α) (ds : Stream) : Except Outcome (α × Stream) :=
  let p := nxPre ds
  match m p with
  | .ok a rest => .ok (a, ds.drop (p.length - rest.length))
  | .stuck => .error .stuck

/-! ### graph arguments -/

/-- `networkx.gnp_random_graph(n, p)` followed by `Graph.normalize`: `p ≥ 1` complete, `p ≤ 0` empty, else one
`random() < p` per pair of `itertools.combinations(range(n), 2)` -/
def nxGnp (n : Nat) (pn : Int) (pd : Nat) : GRand.RM SimpleG :=
  if pn ≥ (pd : Int) then GRand.RM.lift (GBuild.completeGraph n)
  else if pn ≤ 0 then pure (SimpleG.init n)
  else GRand.coinLoopS (fun x => GRand.unitLt x pn pd) (GBuild.completeCalls n) (SimpleG.init n)

def simpleOfNx : Except Err SimpleG → Except Outcome (Option GCli.CG)
  | .ok S => .ok (some (.simple S))
  | .error _ => .error (.unsupported "from_networkx refuses the graph")

/-- `Graph.from_networkx(networkx.gnm_random_graph(n, m))` exactly when `obtain_gnm` reaches it -/
def extGnm (n m : Int) (ds : Stream) : Except Outcome (Option GCli.CG × Stream) :=
  if GCli.gnmGuard n m then
    match runNx (Nx.gnmSimple n.toNat m.toNat) ds with
    | .error o => .error o
    | .ok (r, ds') => (simpleOfNx r).map (fun e => (e, ds'))
  else .ok (none, ds)

/-- `Graph.normalize(networkx.random_regular_graph(d, n))` exactly when `obtain_gnd` reaches it and networkx accepts -/
def extGnd (n d : Int) (ds : Stream) : Except Outcome (Option GCli.CG × Stream) :=
  if GCli.gndGuard n d && !GCli.gndOdd n d && GCli.nxRegularPre d n then
    match runNx (Nx.gndSimple n.toNat d.toNat) ds with
    | .error o => .error o
    | .ok (some r, ds') => (simpleOfNx r).map (fun e => (e, ds'))
    | .ok (none, _) => .error (.unsupported "third-party exception")
  else .ok (none, ds)

/-- the third-party generator a specification calls, run on the stream — exactly when `obtain_*` reaches it; `none`
otherwise -/
def specExt (w : World) (p : GSpec.Parsed) (ds : Stream) : Except Outcome (Option GCli.CG × Stream) :=
  match p.graphtype, p.construction, p.args with
  | "simple", some "gnp", some (some as) =>
    let go (a pt : String) (t : Int) : Except Outcome (Option GCli.CG × Stream) :=
      match (w.gw.interp a).int?, (w.gw.interp pt).flt? with
      | some n, some (pn, pd) =>
        if GCli.gnpGuard n pn pd t && t == 1 then
          (runG (nxGnp n.toNat pn pd) ds).map (fun r => (some (.simple r.1), r.2))
        else .ok (none, ds)
      | _, _ => .ok (none, ds)
    match as with
    | [a, pt] => go a pt 1
    | [a, pt, tt] =>
      match (w.gw.interp tt).int? with
      | some t => go a pt t
      | none => .ok (none, ds)
    | _ => .ok (none, ds)
  | "simple", some "gnm", some (some [a, b]) =>
    match (w.gw.interp a).int?, (w.gw.interp b).int? with
    | some n, some m => extGnm n m ds
    | _, _ => .ok (none, ds)
  | "simple", some "gnd", some (some [a, b]) =>
    match (w.gw.interp a).int?, (w.gw.interp b).int? with
    | some n, some d => extGnd n d ds
    | _, _ => .ok (none, ds)
  | _, _, _ => .ok (none, ds)

def intStr? (w : World) (tok : String) : Option String := ((w.gw.interp tok).int?).map toString

/-- `G.name` after `obtain_*`, for the constructions of the fragment -/
def baseName (w : World) (p : GSpec.Parsed) : Option String :=
  match p.graphtype, p.construction, p.args with
  | "simple", some "gnp", some (some [a, pt]) =>
    (intStr? w a).map (fun n => "Random " ++ w.floatStr pt ++ "-biased graph of " ++ n ++ " vertices")
  | "simple", some "gnp", some (some [a, pt, tt]) =>
    match intStr? w a, (w.gw.interp tt).int? with
    | some n, some t =>
      if t == 1 then some ("Random " ++ w.floatStr pt ++ "-biased graph of " ++ n ++ " vertices")
      else some ("Random " ++ w.floatStr pt ++ "-biased " ++ toString t ++ "-partite graph with " ++ n ++
                 " vertices per part")
    | _, _ => none
  | "simple", some "gnm", some (some [a, b]) =>
    match intStr? w a, intStr? w b with
    | some n, some m => some ("Random graph of " ++ n ++ " vertices with " ++ m ++ " edges")
    | _, _ => none
  | "simple", some "gnd", some (some [a, b]) =>
    match intStr? w a, intStr? w b with
    | some n, some d => some ("Random " ++ d ++ "-regular graph of " ++ n ++ " vertices")
    | _, _ => none
  | "simple", some "empty", some (some [a]) => (intStr? w a).map (fun n => "the empty graph of order " ++ n)
  | "simple", some "complete", some (some [a]) => (intStr? w a).map (fun n => "the complete graph of order " ++ n)
  | "bipartite", some "glrp", some (some [a, b, pt]) =>
    match intStr? w a, intStr? w b with
    | some l, some r => some ("Random " ++ w.floatStr pt ++ "-biased bipartite with (" ++ l ++ "," ++ r ++ ") vertices")
    | _, _ => none
  | "bipartite", some "glrm", some (some [a, b, c]) =>
    match intStr? w a, intStr? w b, intStr? w c with
    | some l, some r, some m => some ("Random bipartite with (" ++ l ++ "," ++ r ++ ") vertices and " ++ m ++ " edges")
    | _, _, _ => none
  | "bipartite", some "glrd", some (some [a, b, c]) =>
    match intStr? w a, intStr? w b, intStr? w c with
    | some l, some r, some d => some ("Random " ++ d ++ "-left regular bipartite with (" ++ l ++ "," ++ r ++ ") vertices")
    | _, _, _ => none
  | "bipartite", some "regular", some (some [a, b, c]) =>
    match intStr? w a, intStr? w b, intStr? w c with
    | some l, some r, some d =>
      some ("Random regular bipartite with (" ++ l ++ "," ++ r ++ ") vertices and left degree " ++ d)
    | _, _, _ => none
  | "bipartite", some "empty", some (some [a, b]) =>
    match intStr? w a, intStr? w b with
    | some l, some r => some ("Empty bipartite graph with (" ++ l ++ "," ++ r ++ ") vertices")
    | _, _ => none
  | _, _, _ => none

def optSuffix (w : World) (p : GSpec.Parsed) (key pre post : String) : Option String :=
  match List.lookup key p.opts with
  | none => some ""
  | some [a] => (intStr? w a).map (fun k => pre ++ k ++ post)
  | some _ => none

def optSuffix2 (w : World) (p : GSpec.Parsed) (key : String) : Option String :=
  match List.lookup key p.opts with
  | none => some ""
  | some [a, b] =>
    match intStr? w a, intStr? w b with
    | some x, some y => some (" + planted (" ++ x ++ "," ++ y ++ ")-biclique")
    | _, _ => none
  | some _ => none

def fmtOf : String → Option GraphFmt.Fmt
  | "kthlist" => some .kthlist
  | "dimacs" => some .dimacs
  | "matrix" => some .matrix
  | _ => none                    -- gml / dot are written and parsed by third-party code

def gfType : String → Option GraphFmt.GType
  | "simple" => some .simple
  | "bipartite" => some .bipartite
  | _ => none

def anyOf : GCli.CG → Option GraphFmt.AnyG
  | .simple G => some (.simple G)
  | .bip G => some (.bip G)
  | _ => none

def cgOf : GraphFmt.AnyG → GCli.CG
  | .simple G => .simple G
  | .bip G => .bip G
  | .di G => .dag G

/-- the source of the graph: a construction (with its third-party part run on the stream) or a FILE, whose content is part
of the environment (`w.files`, by the path token as written on the command line) -/
def sourceWorld (w : World) (ty : String) (p : GSpec.Parsed) (ds : Stream) :
    Except Outcome (GSpec.World × Option String × Stream) :=
  match p.construction, p.filename, p.fileformat with
  | some _, _, _ =>
    match specExt w p ds with
    | .error o => .error o
    | .ok (e, ds1) => .ok ({ w.gw with ext := e }, baseName w p, ds1)
  | none, some fn, some ff =>
    match w.files fn, gfType ty with
    | some content, some gty =>
      let f := if ff == "autodetect" then GSpec.extension fn else ff
      if f == "gml" || f == "dot" then .error (.unsupported "third-party graph format")
      else
        let rd : GRand.RM GCli.CG := match fmtOf f with
          | some fmt => fun ds' => match GraphFmt.readText true gty fmt content.toList with
            | .ok G => .ok (cgOf G) ds'
            | .error e => .exc e
          | none => fun _ => .stuck
        .ok ({ w.gw with openFile := .ok (), readGraph := rd },
             some (ty ++ " graph from file '" ++ fn ++ "' (format: " ++ f ++ ")"), ds)
    | _, _ => .error (.unsupported "graph file outside the environment")
  | _, _, _ => .error (.unsupported "graph source")

/-- the name with the suffixes of the modifiers, in the order `obtain_graph` applies them -/
def withSuffixes (w : World) (p : GSpec.Parsed) (b : String) : Option String := do
  let s1 ← optSuffix w p "plantclique" " + planted " "-clique"
  let s1' ← optSuffix2 w p "plantbiclique"
  let s2 ← optSuffix w p "addedges" " + " " random edges"
  let s3 ← optSuffix w p "splitedges" " + " " splitted edges"
  pure (b ++ s1 ++ s1' ++ s2 ++ s3)

/-- `make_graph_from_spec(ty, toks)` inside an `Obtain…Graph.__call__`, on the stream: the graph, its name, what is left
of the stream, and the file `save` writes (path token, text) -/
def makeGraph (w : World) (ty : String) (toks : List String) (ds : Stream) :
    Except Outcome ((GCli.CG × String) × Stream × List (String × String)) :=
  match GSpec.parseGraphArgument ty toks w.gw.dot with
  | .error e => .error (ofErr e)                     -- `except ValueError: parser.error(...)`
  | .ok p =>
    match sourceWorld w ty p ds with
    | .error o => .error o
    | .ok (gw, base, ds1) =>
      match runG (GSpec.makeGraphFromSpec gw ty toks) ds1 with
      | .error o => .error o
      | .ok ((G, saved), ds2) =>
        match base.bind (withSuffixes w p) with
        | none => .error (.unsupported "graph name")
        | some nm =>
          match saved, p.save with
          | none, _ => .ok ((G, nm), ds2, [])
          | some S, some [f, fn] =>
            match (GSpec.resolveFormat w.gw.dot ty f fn).bind fmtOf, gfType ty, anyOf S with
            | some fmt, some gty, some A =>
              match GraphFmt.writeText nm.toList gty fmt A with
              | .ok txt => .ok ((G, nm), ds2, [(fn, String.ofList txt)])
              | .error e => .error (ofErr e)
            | _, _, _ => .error (.unsupported "save in a third-party format")
          | some _, _ => .error (.unsupported "save")

/-! ### the `-T` chain -/

/-- a transformation of the chain, as parsed -/
inductive TCall where
  | shuffle (pa va ca : Shuffle.Arg)
  | compress (fn : Int) (N d : Int)            -- `xorcomp N [d]` (0) / `majcomp N [d]` (1)
  | subst (kind : Nat) (k : Int)               -- 0 `xor k`, 1 `or k`, 2 `maj k`
  | flip
  deriving Repr, DecidableEq, Inhabited

def ofCliErr : CliErr → Outcome
  | .cliError => .cliError
  | .crash _ => .unsupported "helper crash"
  | .unsupported why => .unsupported why

def shArgOf : Option Val → Option Shuffle.Arg
  | some (.str "shuffle") => some .shuffle
  | some (.str "fixed") => some .fixed
  | _ => none

/-- `tparser.parse_args(chunk)` for the transformations of the fragment -/
def parseT (chunk : List String) : Except Outcome TCall :=
  match chunk with
  | [] => .error .cliError                           -- "You used option '-T' but did not pick a transformation"
  | name :: words =>
    if !(["shuffle", "xorcomp", "majcomp", "xor", "or", "maj", "flip"].contains name) then
      .error (.unsupported "transformation")
    else
    match dispatchNamed "transformation" name words with
    | .error e => .error (ofCliErr e)
    | .ok c =>
      if name == "shuffle" then
        match shArgOf (c.kw.lookup "polarity_flips"), shArgOf (c.kw.lookup "variables_permutation"),
              shArgOf (c.kw.lookup "clauses_permutation") with
        | some a, some b, some d => .ok (.shuffle a b d)
        | _, _, _ => .error (.unsupported "shuffle arguments")
      else if name == "xorcomp" || name == "majcomp" then
        let fn : Int := if name == "xorcomp" then 0 else 1
        match words.map decimal? with
        | [some n] => .ok (.compress fn n 3)
        | [some n, some d] => .ok (.compress fn n d)
        | _ => .error (.unsupported "compression by a graph argument")
      else if name == "flip" then .ok .flip
      else
        match c.pos with
        | [_, .int k] => .ok (.subst (if name == "xor" then 0 else if name == "or" then 1 else 2) k)
        | _ => .error (.unsupported "call shape")

def parseChain : List (List String) → Except Outcome (List TCall)
  | [] => .ok []
  | c :: cs =>
    match parseT c with
    | .error o => .error o
    | .ok t =>
      match parseChain cs with
      | .error o => .error o
      | .ok ts => .ok (t :: ts)

abbrev Hdr := List (String × String)

/-- `add_description(F, text)` -/
def addDescription (h : Hdr) (text : String) : Hdr := h ++ [(Shuffle.tkey (Shuffle.firstFree h), text)]

def ofCNF (G : CNF) : Formula := ⟨G.nvars, G.clauses.map .clause⟩

/-- `argdict.transformation.transform_cnf(cnf, argdict)` on the stream -/
def applyT (F : CNF) (h : Hdr) (ds : Stream) : TCall → Except Outcome ((CNF × Hdr) × Stream)
  | .shuffle pa va ca =>
    let p := shPre ds
    match Shuffle.run F pa va ca p with
    | none => .error .stuck
    | some (.error e, _) => .error (ofErr e)
    | some (.ok G, rest) => .ok ((G, Shuffle.shuffleHeader h), ds.drop (p.length - rest.length))
  | .compress fn N d =>
    -- `make_graph_from_spec('bipartite', ['glrd', V, N, d])` (obtain_glrd's checks), then `VariableCompression`
    let V : Int := F.nvars
    if !(V > 0 && N > 0 && 0 ≤ d && d ≤ N) then .error .cliError
    else
      match runG (GRand.leftRegular V N d) ds with
      | .error o => .error o
      | .ok (B, ds') =>
        match Subst.compress F B fn with
        | .error e => .error (ofErr e)
        | .ok G => .ok ((G, addDescription h (Header.descr (.compress fn B.l B.r))), ds')
  | .subst kind k =>
    match (if kind == 0 then Subst.xorSubst F k else if kind == 1 then Subst.orSubst F k else Subst.majSubst F k) with
    | .error e => .error (ofErr e)
    | .ok G =>
      .ok ((G, addDescription h (Header.descr (if kind == 0 then .xor k else if kind == 1 then .or k else .maj k))), ds)
  | .flip =>
    match Subst.flip F with
    | .error e => .error (ofErr e)
    | .ok G => .ok ((G, addDescription h (Header.descr .flip)), ds)

def applyChainT (F : CNF) (h : Hdr) (ds : Stream) : List TCall → Except Outcome ((CNF × Hdr) × Stream)
  | [] => .ok ((F, h), ds)
  | t :: ts =>
    match applyT F h ds t with
    | .error o => .error o
    | .ok ((G, h'), ds') => applyChainT G h' ds' ts

/-! ### the run -/

structure RState where
  rng : Rng
  top : Top := {}
  call : Option Call := none
  chain : List TCall := []
  graph : Option (GCli.CG × String) := none
  formula : Option (Formula × Hdr) := none  -- constraints (as added) and header, in order
  usedGraph : Nat := 0          -- answers consumed while the command line was parsed
  usedFormula : Nat := 0        -- answers consumed afterwards
  written : List (String × String) := []
  deriving Inhabited

/-- the first graph value among the positional arguments of the call -/
def graphToks (c : Call) : Option (String × List String) :=
  c.pos.findSome? (fun v => match v with | .graph ty toks => some (ty, toks) | _ => none)

def intArgs (c : Call) : List Int := c.pos.filterMap (fun v => match v with | .int i => some i | _ => none)

def boolKw (c : Call) (k : String) : Bool := match c.kw.lookup k with | some (.bool b) => b | _ => false

def setHeader (h : Hdr) (k v : String) : Hdr :=
  if h.any (fun e => e.1 == k) then h.map (fun e => if e.1 == k then (k, v) else e) else h ++ [(k, v)]

/-- `tseitin N [d]`: the graph is built by `build_formula`, not by an argparse action -/
def tseitinShortcut (sub : String) (words : List String) : Bool :=
  sub == "tseitin" && !words.isEmpty && words.all (fun t => (decimal? t).isSome)

/-- what `parse_command_line` computes from the command line and the generator: the options, the call, the chain, the
graph argument (materialised WHILE PARSING, as the argparse actions do), the generator afterwards, the answers consumed -/
structure Parsed where
  call : Call
  chain : List TCall
  graph : Option (GCli.CG × String)
  rng : Stream
  used : Nat
  written : List (String × String) := []

/-- the sub-command: its words are converted, its graph argument is materialised; then the chunks after each `-T` -/
def parseRest (w : World) (top : Top) (tcmds : List (List String)) (rng1 : Stream) : Except Outcome Parsed :=
  match top.sub with
  | [] => .error .cliError
  | sub :: words =>
    match dispatchNamed "formula" sub words with
    | .error e => .error (ofCliErr e)
    | .ok call =>
      let g : Except Outcome (Option (GCli.CG × String) × Stream × List (String × String)) :=
        match (if tseitinShortcut sub words then none else graphToks call) with
        | none => .ok (none, rng1, [])
        | some (ty, toks) => (makeGraph w ty toks rng1).map (fun r => (some r.1, r.2))
      match g with
      | .error o => .error o
      | .ok (gr, rng2, wr) =>
        match parseChain tcmds with
        | .error o => .error o
        | .ok chain => .ok ⟨call, chain, gr, rng2, rng1.length - rng2.length, wr⟩

/-- `parse_command_line`: the command line is split around `-T`; options of the main parser (the `--seed` action seeds
at once when the table says so), then the sub-command, then the transformations -/
def stepParse (σ : Int → Rng) (w : World) (t : ToolPhases) (argv : List String) (st : RState) :
    Except Outcome RState :=
  -- pbgen's `parse_command_line` first: "'-T' in command line unsupported by 'pbgen'"
  if t.tool != "cnfgen" && argv.contains "-T" then .error .cliError else
  match parseTop (argv.length + 1) (parseCommandLine argv).1 {} with
  | .error o => .error o
  | .ok top =>
    let rng1 : Rng := match t.seedOpt, top.seed with
      | some o, some s => if o.seeds then σ s else st.rng
      | _, _ => st.rng
    match parseRest w top (parseCommandLine argv).2 rng1.parse with
    | .error o => .error o
    | .ok p => .ok { st with rng := { rng1 with parse := p.rng }, top := top, call := some p.call, chain := p.chain, graph := p.graph,
                             usedGraph := st.usedGraph + p.used, written := st.written ++ p.written }

/-- `[random.randint(0, 1) for _ in range(n)]` -/
def randBits : Nat → Rand.RandM (List Int)
  | 0 => pure []
  | n + 1 => do
    let b ← Rand.randint 0 1
    let bs ← randBits n
    pure (b :: bs)

def sumInts (l : List Int) : Int := l.foldl (· + ·) 0

/-- the charge vector `TseitinCmdHelper.build_formula` computes for the word `<charge>` on a graph of order `n ≥ 1` -/
def tseitinCharge (kind : String) (n : Nat) : Rand.RandM (Option (List Int)) :=
  if kind == "first" then pure (some (1 :: List.replicate (n - 1) 0))
  else if kind == "zero" then pure (some (List.replicate n 0))
  else if kind == "one" then pure (some (List.replicate n 1))
  else if kind == "random" then do
    let c ← randBits (n - 1)
    let b ← Rand.randint 0 1
    pure (some (c ++ [b]))
  else if kind == "randomodd" then do
    let c ← randBits (n - 1)
    pure (some (c ++ [1 - sumInts c % 2]))
  else if kind == "randomeven" then do
    let c ← randBits (n - 1)
    pure (some (c ++ [sumInts c % 2]))
  else pure none

def tseitinDescr (nm : String) (ch : Option (List Int)) : String :=
  "Tseitin formula on " ++ nm ++ ", with " ++
    (match ch with
     | none => "odd"
     | some c => if sumInts c % 2 == 0 then "even" else "odd") ++ " charge"

def ofFam (r : Except Err Formula) : Except Outcome Formula :=
  match r with
  | .ok F => .ok F
  | .error e => .error (ofErr e)

/-- what `build_formula` computes: the formula, its description, the generator afterwards -/
def buildCore (w : World) (top : Top) (c : Call) (graph : Option (GCli.CG × String)) (rng : Stream) :
    Except Outcome ((Formula × String) × Stream) :=
  let plant := c.kw.any (fun p => p.1 == "planted_assignments")
  if c.fn == "RandomKCNF" then
    match intArgs c with
    | [k, n, m] =>
      (runF (Rand.cliRandKCNF plant k.toNat n.toNat m.toNat) rng).map (fun r =>
        ((r.1, "Random " ++ toString k ++ "-CNF over " ++ toString n ++ " variables and " ++ toString m ++ " clauses"), r.2))
    | _ => .error (.unsupported "call shape")
  else if c.fn == "RandomKXOR" then
    match intArgs c with
    | [k, n, m] =>
      (runF (Rand.cliRandKXORSys plant k.toNat n.toNat m.toNat) rng).map (fun r =>
        ((Rand.kxorFormula n.toNat r.1,
          "Random " ++ toString k ++ "-xor over " ++ toString n ++ " variables and " ++ toString m ++ " clauses"), r.2))
    | _ => .error (.unsupported "call shape")
  else if c.fn == "GraphColoringFormula" then
    match graph, intArgs c with
    | some (.simple G, nm), [k] =>
      (ofFam (Fam.coloring G k true)).map (fun F => ((F, "Graph " ++ toString k ++ "-Colorability of " ++ nm), rng))
    | _, _ => .error (.unsupported "call shape")
  else if c.fn == "DominatingSet" then
    match graph, intArgs c with
    | some (.simple G, nm), [d] =>
      (ofFam (Fam.domset G d (boolKw c "alternative"))).map (fun F =>
        ((F, toString d ++ "-dominating set on " ++ nm), rng))
    | _, _ => .error (.unsupported "call shape")
  else if c.fn == "CliqueFormula" then
    match graph, c.pos with
    | some (.simple G, nm), [_, .int k, .bool sb] =>
      (ofFam (Fam.G2.cliqueFormula G k sb)).map (fun F =>
        ((F, nm ++ " does not contain any " ++ toString k ++ "-clique."), rng))
    | _, _ => .error (.unsupported "call shape")
  else if c.fn == "GraphPigeonholePrinciple" then
    match graph with
    | some (.bip B, nm) =>
      let fu := boolKw c "functional"
      let on := boolKw c "onto"
      let fname := if fu && on then "Graph matching" else if fu then "Graph functional pigeonhole principle"
                   else if on then "Graph onto pigeonhole principle" else "Graph pigeonhole principle"
      .ok ((Fam.gphp B fu on, fname ++ " formula on " ++ nm), rng)
    | _ => .error (.unsupported "call shape")
  else if c.fn == "TseitinFormula" then
    match top.sub with
    | _ :: words =>
      if tseitinShortcut "tseitin" words then
        -- `tseitin N [d]`: `make_graph_from_spec('simple', ["gnd", N, d])` and a random odd charge
        match words.map decimal? with
        | [some n] | [some n, some _] =>
          let d : Int := match words.map decimal? with | [_, some d] => d | _ => 4
          if n ≤ d || n * d % 2 == 1 then .error .cliError
          else
            match extGnd n d rng with
            | .error o => .error o
            | .ok (some (.simple G), rng1) =>
              match runF (randBits (G.n - 1)) rng1 with
              | .error o => .error o
              | .ok (c0, rng2) =>
                let ch := c0 ++ [1 - sumInts c0 % 2]
                let nm := "Random " ++ toString d ++ "-regular graph of " ++ toString n ++ " vertices"
                let ch' := if G.n < 1 then none else some ch
                .ok ((Fam.tseitin G (ch'.map (·.map (· != 0))), tseitinDescr nm ch'), rng2)
            | .ok _ => .error (.unsupported "gnd")
        | _ => .error (.unsupported "call shape")
      else
        match graph, words with
        | some (.simple G, nm), kind :: _ =>
          if G.n < 1 then .ok ((Fam.tseitin G none, tseitinDescr nm none), rng)
          else
            match runF (tseitinCharge kind G.n) rng with
            | .error o => .error o
            | .ok (none, _) => .error (.unsupported "charge")
            | .ok (some ch, rng1) => .ok ((Fam.tseitin G (some (ch.map (· != 0))), tseitinDescr nm (some ch)), rng1)
        | _, _ => .error (.unsupported "call shape")
    | [] => .error (.unsupported "call shape")
  else .error (.unsupported "generator")

/-- `to_file(args.output, fileformat, export_header=args.verbose)`: DIMACS for cnfgen, OPB for pbgen (their
default formats; `formula_class` is CNF resp. OPB) -/
def render (t : ToolPhases) (st : RState) : Outcome :=
  match st.formula with
  | none => .unsupported "output before build"
  | some (F, hdr) =>
    let h : IO.Header := hdr.map (fun e => (e.1.toList, e.2.toList))
    let hdr? := if st.top.verbose then some h else none
    if t.tool == "cnfgen" then .text (String.ofList (IO.renderDimacsText F.toCNF hdr? none))
    else if t.tool == "pbgen" then .text (String.ofList (IO.renderOpbText F.toOPB hdr? none))
    else .unsupported "tool"

def stepEv (σ : Int → Rng) (w : World) (t : ToolPhases) (argv : List String) (st : RState) :
    Ev → Except Outcome RState
  | .parse _ => stepParse σ w t argv st
  | .seed gd a =>
    if guardFires (seedTy t) gd (argsSeed t st.top.seed) then
      match a, argsSeed t st.top.seed with
      | .argsSeed, some s => .ok { st with rng := σ s }
      | _, _ => .error (.unsupported "seeding from something else than the seed")
    else .ok st
  | .build _ =>
    match st.call with
    | none => .error (.unsupported "build before parse")
    | some c =>
      match buildCore w st.top c st.graph st.rng.later with
      | .error o => .error o
      | .ok ((F, d), rng') =>
        .ok { st with rng := { st.rng with later := rng' }, usedFormula := st.usedFormula + (st.rng.later.length - rng'.length),
                      formula := some (F, ("description", d) :: w.baseHeader) }
  | .transforms _ =>
    match st.chain, st.formula with
    | [], _ => .ok st                                -- no `-T`: the loop body never runs
    | _ :: _, none => .error (.unsupported "transformations before build")
    | ts, some (F, h) =>
      match applyChainT F.toCNF h st.rng.later ts with
      | .error o => .error o
      | .ok ((G, h'), rng') =>
        .ok { st with rng := { st.rng with later := rng' }, usedFormula := st.usedFormula + (st.rng.later.length - rng'.length),
                      formula := some (ofCNF G, h') }
  | .headerSeed gd _ =>
    if guardFires (seedTy t) gd (argsSeed t st.top.seed) then
      match argsSeed t st.top.seed, st.formula with
      | some s, some (F, h) => .ok { st with formula := some (F, setHeader h "random seed" (toString s)) }
      | _, _ => .error (.unsupported "header")
    else .ok st
  | .headerCmdline pre =>
    match st.formula with
    | some (F, h) =>
      .ok { st with formula := some (F, setHeader h "command line" (pre ++ " ".intercalate (argv.drop 1))) }
    | none => .error (.unsupported "header")
  | .output _ => .ok st
  | .draw _ => .error (.unsupported "draw in cli()")
  | .readInput _ => .error (.unsupported "input")
  | .shuffle => .error (.unsupported "shuffle")

/-- the events up to the first output -/
def runFrom (σ : Int → Rng) (w : World) (t : ToolPhases) (argv : List String) :
    List Ev → RState → Result
  | [], st => ⟨.unsupported "no output event", st.usedGraph, st.usedFormula, st.written⟩
  | e :: es, st =>
    if isOutput e then ⟨render t st, st.usedGraph, st.usedFormula, st.written⟩
    else match stepEv σ w t argv st e with
      | .error o => ⟨o, st.usedGraph, st.usedFormula, st.written⟩
      | .ok st' => runFrom σ w t argv es st'

/-- a run of the tool described by the table `t` -/
def runTable (σ : Int → Rng) (w : World) (t : ToolPhases) (argv : List String) (rng₀ : Rng) : Result :=
  runFrom σ w t argv t.events { rng := rng₀ }

/-- a run of `tool` (cnfgen / pbgen) as the CURRENT source orders it -/
def toolRun (tool : String) (σ : Int → Rng) (w : World) (argv : List String) (rng₀ : Rng) : Result :=
  match phasesOf tool with
  | some t => runTable σ w t argv rng₀
  | none => ⟨.unsupported "no phase table", 0, 0, []⟩

/-- a run of cnfgen as the CURRENT source orders it -/
def cliRun (σ : Int → Rng) (w : World) (argv : List String) (rng₀ : Rng) : Result :=
  toolRun "cnfgen" σ w argv rng₀

/-- the seed option of a command line of the fragment -/
def seedOf (argv : List String) : Option Int :=
  match parseTop (argv.length + 1) (parseCommandLine argv).1 {} with
  | .ok top => top.seed
  | .error _ => none

end Cnfgen.CliRun
