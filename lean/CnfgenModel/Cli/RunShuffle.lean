/-
L8 — a whole run of `cnfshuffle`: (argv, text on stdin) ↦ the text written to stdout, with the generator explicit.
Composition of existing models, ordered by the phase table regenerated from the source:
  `parse` (options of the tool), `random.seed(args.seed)` under its guard (`--seed` has `type=str`: the seed is the
  TOKEN, and the guard `args.seed` is its truthiness — an empty token is ignored), `CNF.from_file(args.input)`
  (`IO.readDimacsText`), `Shuffle(F, …)` (`Shuffle.run`: the draws are the values `random.choice` returned and the
  lists `random.shuffle` left), header (`Shuffle.shuffleHeader`) and `IO.renderDimacsText`.

Generator: a state is the record of the answers it will give (`List Shuffle.Draw`); `σ : String → List Shuffle.Draw` is
`random.seed(<token>)`.  Fragment: options `--seed`/`-S <decimal>` (or the empty token), `-q`, `--quiet`, `-p`, `-v`, `-c`
and their long forms; input from stdin or `-i <file>` (content = environment, by the path token), output to stdout or
`-o <file>`; everything else is `unsupported`.  Import-free.
-/
import CnfgenModel.Cli.Run
import CnfgenModel.Trans.Shuffle
namespace Cnfgen.CliRun
open Cnfgen Cnfgen.Cli Cnfgen.GenPh

structure ShTop where
  seed : Option String := none
  verbose : Bool := true
  noFlips : Bool := false
  noVperm : Bool := false
  noCperm : Bool := false
  input : Option String := none      -- `-i <file>`: the path token (`-` = stdin)
  output : Option String := none     -- `-o <file>`
  deriving Repr, DecidableEq, Inhabited

/-- the words after the program name; `fuel` = number of words -/
def parseShTop : Nat → List String → ShTop → Except Outcome ShTop
  | 0, _, _ => .error (.unsupported "fuel")
  | _ + 1, [], t => .ok t
  | fuel + 1, w :: rest, t =>
    if w == "--seed" || w == "-S" then
      match rest with
      | v :: rest' =>
        if v == "" || (decimal? v).isSome then parseShTop fuel rest' { t with seed := some v }
        else .error (.unsupported "seed token")
      | [] => .error .cliError
    else if w == "-q" || w == "--quiet" then parseShTop fuel rest { t with verbose := false }
    else if w == "-p" || w == "--no-polarity-flips" then parseShTop fuel rest { t with noFlips := true }
    else if w == "-v" || w == "--no-variables-permutation" then parseShTop fuel rest { t with noVperm := true }
    else if w == "-c" || w == "--no-clauses-permutation" then parseShTop fuel rest { t with noCperm := true }
    else if w == "-i" || w == "--input" then
      match rest with
      | v :: rest' => parseShTop fuel rest' { t with input := if v == "-" then none else some v }
      | [] => .error .cliError
    else if w == "-o" || w == "--output" then
      match rest with
      | v :: rest' => parseShTop fuel rest' { t with output := if v == "-" then none else some v }
      | [] => .error .cliError
    else .error (.unsupported "option")

/-- inputs that are functions of the command line / installation -/
structure ShWorld where
  inputName : String                     -- `args.input.name` (`<stdin>`)
  baseHeader : List (String × String)    -- generator / copyright / url
  files : String → Option String := fun _ => none   -- content of the file a path token names (the environment)

structure ShState where
  rng : List Shuffle.Draw
  top : ShTop := {}
  input : Option CNF := none
  out : Option (CNF × List (String × String)) := none
  used : Nat := 0
  deriving Inhabited

/-- the guard of a statement about the seed, for the TOKEN given; `ty` is the option's `type=`: with `str` the value
of `args.seed` is the token (truthy iff non-empty), with `int` it is the integer (truthy iff non-zero) -/
def tokGuardFires (ty : String) : Guard → Option String → Bool
  | .always, _ => true
  | .isNotNone, s => s.isSome
  | .truthy, some s => if ty == "str" then s != "" else if ty == "int" then decimal? s != some 0 else false
  | .truthy, none => false
  | .other _, _ => false

/-- what `random.seed` receives: the token itself (`type=str`), or the integer it denotes (`type=int`: `05` and `5`
are the same seed) -/
def seedKey (ty : String) (tok : String) : String :=
  if ty == "int" then (match decimal? tok with | some i => toString i | none => tok) else tok

/-- `parser.parse_args(argv[1:])`; `type=argparse.FileType('r')` opens the input while parsing: a missing file is an
argparse error -/
def shParse (w : ShWorld) (argv : List String) : Except Outcome ShTop :=
  match parseShTop (argv.length + 1) argv.tail {} with
  | .error o => .error o
  | .ok top =>
    match top.input with
    | some f => if (w.files f).isNone then .error .cliError else .ok top
    | none => .ok top

def shArg (fixed : Bool) : Shuffle.Arg := if fixed then .fixed else .shuffle

def shStep (σ : String → List Shuffle.Draw) (w : ShWorld) (t : ToolPhases) (argv : List String) (stdin : String)
    (st : ShState) : Ev → Except Outcome ShState
  | .parse _ =>
    match shParse w argv with
    | .error o => .error o
    | .ok top => .ok { st with top := top }
  | .seed gd a =>
    if tokGuardFires (seedTy t) gd st.top.seed then
      match a, st.top.seed with
      | .argsSeed, some s => .ok { st with rng := σ (seedKey (seedTy t) s) }
      | _, _ => .error (.unsupported "seeding from something else than the seed")
    else .ok st
  | .readInput _ =>
    let text := match st.top.input with
      | some f => (w.files f).getD ""
      | none => stdin
    match IO.readDimacsText true text.toList with
    | .ok F => .ok { st with input := some F }
    | .error e => .error (.crash e)          -- `ValueError`: reported by main() as "DIMACS ERROR", exit status ≠ 0
  | .shuffle =>
    match st.input with
    | none => .error (.unsupported "shuffle before input")
    | some F =>
      match Shuffle.run F (shArg st.top.noFlips) (shArg st.top.noVperm) (shArg st.top.noCperm) st.rng with
      | none => .error .stuck
      | some (.error e, _) => .error (.crash e)
      | some (.ok G, rest) =>
        let h := ("description", "Formula from DIMACS file " ++ st.top.input.getD w.inputName) :: w.baseHeader
        .ok { st with rng := rest, used := st.used + (st.rng.length - rest.length),
                      out := some (G, Shuffle.shuffleHeader h) }
  | .output _ => .ok st
  | _ => .error (.unsupported "event")

/-- `G.to_file(args.output, …)`: what is written to stdout, and the file written by `-o` (path token, text) -/
def shRender (st : ShState) : Outcome × List (String × String) :=
  match st.out with
  | none => (.unsupported "output before shuffle", [])
  | some (G, hdr) =>
    let h : IO.Header := hdr.map (fun e => (e.1.toList, e.2.toList))
    let txt := String.ofList (IO.renderDimacsText G (if st.top.verbose then some h else none) none)
    match st.top.output with
    | none => (.text txt, [])
    | some o => (.text "", [(o, txt)])

/-- the events up to the output that writes to stdout (`to_file`; the `to_dimacs` before it belongs to `mode='string'`
and changes nothing); result: the text and the number of answers consumed -/
def shRunFrom (σ : String → List Shuffle.Draw) (w : ShWorld) (t : ToolPhases) (argv : List String) (stdin : String) :
    List Ev → ShState → Outcome × Nat × List (String × String)
  | [], st => (.unsupported "no output event", st.used, [])
  | e :: es, st =>
    if isOutput e then ((shRender st).1, st.used, (shRender st).2)
    else match shStep σ w t argv stdin st e with
      | .error o => (o, st.used, [])
      | .ok st' => shRunFrom σ w t argv stdin es st'

def shuffleRunTable (σ : String → List Shuffle.Draw) (w : ShWorld) (t : ToolPhases) (argv : List String)
    (stdin : String) (rng₀ : List Shuffle.Draw) : Outcome × Nat × List (String × String) :=
  shRunFrom σ w t argv stdin t.events { rng := rng₀ }

/-- a run of cnfshuffle as the CURRENT source orders it -/
def shuffleRun (σ : String → List Shuffle.Draw) (w : ShWorld) (argv : List String) (stdin : String)
    (rng₀ : List Shuffle.Draw) : Outcome × Nat × List (String × String) :=
  match phasesOf "cnfshuffle" with
  | some t => shuffleRunTable σ w t argv stdin rng₀
  | none => (.unsupported "no phase table", 0, [])

/-- the seed token of a command line of the fragment -/
def shSeedOf (argv : List String) : Option String :=
  match parseShTop (argv.length + 1) argv.tail {} with
  | .ok top => top.seed
  | .error _ => none

end Cnfgen.CliRun
