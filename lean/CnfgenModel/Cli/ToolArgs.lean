/-
L8 — `argparse.ArgumentParser.parse_args` (CPython 3.12.1) for the parsers of the two small tools
`cnfshuffle` and `kthlist2pebbling`, on EVERY list of tokens.

The parsers of the two tools have optionals only (`-h`, flags, options with one argument) and — for
kthlist2pebbling — one positional `add_subparsers` action.  For such a parser the whole of
`_parse_known_args` is modelled, not a fragment:

  phase 1  every token before the first `--` is classified by `_parse_optional`: exact option string,
           `--opt=value`, unique prefix of a long option (`allow_abbrev`), short option glued to its
           value (`-ofile`) or to further short flags (`-pvc`), negative-number-like and blank-containing
           tokens (arguments), anything else starting with `-` (unknown option).  An ambiguous prefix is an
           error raised before any action is taken.  The first `--` and everything after it are arguments.
  phase 2  the tokens are consumed left to right: `consume_optional` (explicit argument, chain of glued short
           flags, one following argument), arguments that no positional takes go to `extras`
           ("unrecognized arguments" at the very end); the first argument met while the sub-command positional
           is still open takes ALL remaining tokens (`nargs=PARSER`), its first token must be one of the choices.
           Actions are taken in order; `-h` prints the help and exits (later errors are never seen),
           a failing `type=` conversion (`FileType`) is an error (a later `-h` is never seen).
  quirk    `_get_values` of plain argparse removes one `'--'` from the argument strings of every action that is not
           PARSER/REMAINDER; an option written `-o=--`, `-o--` or `--output=--` would therefore store the EMPTY LIST
           `[]` (no conversion).  The parser hands this case to the action as `ArgV.nil`; `CLIParser._get_values`
           (cnfgen/clitools/cmdline.py, fix 3772171) refuses it — see `act` in Cli/Tools.lean.

The semantic actions (what a flag / a value does to the namespace, which conversions fail) are a parameter
(`act`), so the file is independent of the file system model.  Import-free.
-/
namespace Cnfgen.Cli.ToolArgs

inductive Kind where
  /-- `-h`, `--help`: `print_help(); exit()` -/
  | help
  /-- `nargs=0` (`store_true` / `store_false`) -/
  | flag
  /-- `nargs=None`: exactly one argument -/
  | one
  deriving DecidableEq, Repr, Inhabited

structure Opt where
  dest : String
  strings : List String
  kind : Kind
  deriving DecidableEq, Repr, Inhabited

structure Spec where
  opts : List Opt
  /-- the choices of the `add_subparsers` positional (`none`: the parser has no positional) -/
  subs : Option (List String)
  deriving Repr

/-- `_option_string_actions`: (option string, action) in insertion order -/
def Spec.table (s : Spec) : List (List Char × Opt) :=
  s.opts.flatMap (fun o => o.strings.map (fun x => (x.toList, o)))

/-- `arg_string in self._option_string_actions` -/
def Spec.find (s : Spec) (cs : List Char) : Option Opt :=
  (s.table.find? (fun p => p.1 == cs)).map (·.2)

/-! ### phase 1: `_parse_optional` -/

/-- ranges of the code points with `str.isdecimal()` (Unicode 15.0, the `\d` of `re` on `str`) -/
def decimalRanges : List (Nat × Nat) :=
  [(48, 57), (1632, 1641), (1776, 1785), (1984, 1993), (2406, 2415), (2534, 2543), (2662, 2671), (2790, 2799),
   (2918, 2927), (3046, 3055), (3174, 3183), (3302, 3311), (3430, 3439), (3558, 3567), (3664, 3673), (3792, 3801),
   (3872, 3881), (4160, 4169), (4240, 4249), (6112, 6121), (6160, 6169), (6470, 6479), (6608, 6617), (6784, 6793),
   (6800, 6809), (6992, 7001), (7088, 7097), (7232, 7241), (7248, 7257), (42528, 42537), (43216, 43225),
   (43264, 43273), (43472, 43481), (43504, 43513), (43600, 43609), (44016, 44025), (65296, 65305), (66720, 66729),
   (68912, 68921), (69734, 69743), (69872, 69881), (69942, 69951), (70096, 70105), (70384, 70393), (70736, 70745),
   (70864, 70873), (71248, 71257), (71360, 71369), (71472, 71481), (71904, 71913), (72016, 72025), (72784, 72793),
   (73040, 73049), (73120, 73129), (73552, 73561), (92768, 92777), (92864, 92873), (93008, 93017), (120782, 120831),
   (123200, 123209), (123632, 123641), (124144, 124153), (125264, 125273), (130032, 130041)]

def isDecimal (c : Char) : Bool := decimalRanges.any (fun r => r.1 ≤ c.toNat && c.toNat ≤ r.2)

/-- `$`: the end of the string, or just before a final line feed -/
def atEnd (cs : List Char) : Bool := cs == [] || cs == ['\n']

/-- `\d+$` -/
def digits1End (cs : List Char) : Bool :=
  let ds := cs.takeWhile isDecimal
  !ds.isEmpty && atEnd (cs.dropWhile isDecimal)

/-- `_negative_number_matcher`: `^-\d+$|^-\d*\.\d+$` -/
def isNegNumber (cs : List Char) : Bool :=
  match cs with
  | '-' :: rest =>
    digits1End rest ||
    (match rest.dropWhile isDecimal with
     | '.' :: frac => digits1End frac
     | _ => false)
  | _ => false

/-- `s.split('=', 1)` when `'=' in s` -/
def splitEq : List Char → Option (List Char × List Char)
  | [] => none
  | c :: cs =>
    if c = '=' then some ([], cs)
    else match splitEq cs with
      | some (a, b) => some (c :: a, b)
      | none => none

/-- a classified token -/
inductive TokC where
  /-- pattern letter `A` -/
  | arg
  /-- the first `--` (pattern letter `-`) -/
  | dashdash
  /-- pattern letter `O`: (action or None, option string, explicit argument) -/
  | opt (o : Option Opt) (ostr : List Char) (explicit : Option (List Char))
  deriving DecidableEq, Repr, Inhabited

/-- `_get_option_tuples(option_string)` (both prefix characters are `-`) -/
def optionTuples (s : Spec) (cs : List Char) : List (Opt × List Char × Option (List Char)) :=
  match cs with
  | '-' :: '-' :: _ =>
    let pe : List Char × Option (List Char) :=
      match splitEq cs with
      | some (p, e) => (p, some e)
      | none => (cs, none)
    (s.table.filter (fun q => pe.1.isPrefixOf q.1)).map (fun q => (q.2, q.1, pe.2))
  | '-' :: _ :: _ =>
    s.table.filterMap (fun q =>
      if q.1 == cs.take 2 then some (q.2, q.1, some (cs.drop 2))
      else if cs.isPrefixOf q.1 then some (q.2, q.1, none)
      else none)
  | _ => []

/-- `_parse_optional(arg_string)`; `none`: the "ambiguous option" error -/
def classify (s : Spec) (t : String) : Option TokC :=
  let cs := t.toList
  match cs with
  | [] => some .arg
  | c :: rest =>
    if c ≠ '-' then some .arg
    else match s.find cs with
      | some o => some (.opt (some o) cs none)
      | none =>
        if rest.isEmpty then some .arg
        else
          match (splitEq cs).bind (fun pe => (s.find pe.1).map (fun o => (o, pe.1, pe.2))) with
          | some (o, p, e) => some (.opt (some o) p (some e))
          | none =>
            match optionTuples s cs with
            | _ :: _ :: _ => none
            | [x] => some (.opt (some x.1) x.2.1 x.2.2)
            | [] =>
              if isNegNumber cs then some .arg
              else if cs.contains ' ' then some .arg
              else some (.opt none cs none)

/-- the first loop of `_parse_known_args` -/
def classifyAll (s : Spec) : List String → Option (List (String × TokC))
  | [] => some []
  | t :: ts =>
    if t = "--" then some ((t, .dashdash) :: ts.map (fun x => (x, .arg)))
    else match classify s t, classifyAll s ts with
      | some c, some r => some ((t, c) :: r)
      | _, _ => none

/-! ### phase 2 -/

/-- what an action receives -/
inductive ArgV where
  /-- no argument (a flag) -/
  | flag
  /-- one argument string, to be converted by `type=` -/
  | val (s : String)
  /-- the argument strings were `['--']`: `_get_values` returns `[]` without converting -/
  | nil
  deriving DecidableEq, Repr, Inhabited

def argOf (cs : List Char) : ArgV := if cs = ['-', '-'] then .nil else .val (String.ofList cs)

/-- how a parse ends without a namespace -/
inductive Stop (σ : Type) where
  /-- `-h`: help text on stdout, `SystemExit(0)` -/
  | help
  /-- `parser.error(...)`: `CLIError` -/
  | error
  /-- the sub-command positional took `name :: rest`; `extras`: unrecognized arguments were met before -/
  | sub (name : String) (rest : List String) (st : σ) (extras : Bool)
  deriving Repr

/-- the `while True` loop of `consume_optional`: the actions to take, and whether the token that follows is
taken as the argument.  `next`: the following token if its pattern letter is `A`.  `none`: ArgumentError. -/
def chain (s : Spec) : Nat → Opt → List Char → Option (List Char) → Option String →
    Option (List (Opt × ArgV) × Bool)
  | 0, _, _, _, _ => none
  | fuel + 1, o, ostr, explicit, next =>
    match explicit with
    | some e =>
      if o.kind ≠ .one ∧ ostr.getD 1 '-' ≠ '-' ∧ e ≠ [] then
        -- a single-dash flag glued to further single-dash options
        match e with
        | c :: e' =>
          (match s.find ['-', c] with
           | some o' =>
             (chain s fuel o' ['-', c] (if e'.isEmpty then none else some e') next).map
               (fun r => ((o, .flag) :: r.1, r.2))
           | none => none)
        | [] => none
      else if o.kind = .one then some ([(o, argOf e)], false)
      else none
    | none =>
      if o.kind ≠ .one then some ([(o, .flag)], false)
      else match next with
        | some a => some ([(o, argOf a.toList)], true)
        | none => none

/-- `take_action` for each collected action, in order -/
def runActs {σ : Type} (act : σ → Opt → ArgV → Option σ) : List (Opt × ArgV) → σ → Except (Stop σ) σ
  | [], st => .ok st
  | (o, a) :: rest, st =>
    if o.kind = .help then .error .help
    else match act st o a with
      | none => .error .error
      | some st' => runActs act rest st'

def nextArg : List (String × TokC) → Option String
  | (t, .arg) :: _ => some t
  | _ => none

/-- the positional `add_subparsers` action applied to `name :: rest` -/
def takeSub {σ : Type} (choices : List String) (name : String) (rest : List String) (st : σ) (extras : Bool) :
    Except (Stop σ) (σ × Bool) :=
  if choices.contains name then .error (.sub name rest st extras) else .error .error

/-- the main loop and the final `consume_positionals`; result: namespace state and "there were extras".
`fuel` ≥ number of tokens. -/
def scan {σ : Type} (s : Spec) (act : σ → Opt → ArgV → Option σ) :
    Nat → List (String × TokC) → σ → Bool → Except (Stop σ) (σ × Bool)
  | _, [], st, ex => .ok (st, ex)
  | 0, _ :: _, st, ex => .ok (st, ex)
  | fuel + 1, (t, c) :: rest, st, ex =>
    match c with
    | .arg =>
      (match s.subs with
       | some ch => takeSub ch t (rest.map (·.1)) st ex
       | none => scan s act fuel rest st true)
    | .dashdash =>
      (match s.subs, rest with
       | some ch, _ :: _ => takeSub ch t (rest.map (·.1)) st ex
       | _, _ => .ok (st, true))
    | .opt none _ _ => scan s act fuel rest st true
    | .opt (some o) ostr e =>
      match chain s (t.length + 2) o ostr e (nextArg rest) with
      | none => .error .error
      | some (acts, consumed) =>
        match runActs act acts st with
        | .error x => .error x
        | .ok st' => scan s act fuel (if consumed then rest.drop 1 else rest) st' ex

/-- `parser.parse_args(argv)` -/
def parse {σ : Type} (s : Spec) (act : σ → Opt → ArgV → Option σ) (argv : List String) (st : σ) :
    Except (Stop σ) σ :=
  match classifyAll s argv with
  | none => .error .error
  | some toks =>
    match scan s act (toks.length + 1) toks st false with
    | .error x => .error x
    | .ok (st', extras) => if extras then .error .error else .ok st'

/-- no option string looks like a negative number (`_has_negative_number_optionals` is empty) -/
def Spec.noNegativeOptions (s : Spec) : Bool := s.table.all (fun p => !isNegNumber p.1)

end Cnfgen.Cli.ToolArgs
