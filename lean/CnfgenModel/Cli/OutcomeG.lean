/-
L8 — a command line with GRAPH arguments, end to end.

  tokens ──dispatch──▶ library call whose graph arguments are still token lists (`Val.graph kind toks`)
         ──make_graph_from_spec──▶ graphs, or a refusal       (the argparse actions `Obtain*Graph`, or the helper)
         ──family model──▶ formula or exception ──shield──▶ outcome class

`make_graph_from_spec` is modelled in Cli/GraphSpecObtain.lean (`makeGraphFromSpec w ty toks ds`: every construction,
every modifier, files, random draws as an explicit draw list).  Here its RESULT enters through a `GraphEnv`: for the
i-th graph argument of the call (numbered in call order) and its tokens either the graph object or `none` = the
refusal.  A refusal is a `ValueError` or an `OSError`, which the argparse action turns into `parser.error` (CLIError),
and which `cli()` shields when the helper itself calls `make_graph_from_spec` (`op N d`, `tseitin N d`).
`envOfRun` turns runs of `makeGraphFromSpec` into a `GraphEnv`; `detEnv` is the executable instance for the
constructions that need neither random draws nor third-party code nor files.

`evalCallG` maps the generators with graph arguments to the family entry points of the model; the numeric generators
stay with `evalCallF`.  Not mapped (`none`): `php M N D` with `D ≠ N` and `stone --sparse` (random bipartite graph made
by the helper itself), `tseitin` with random charges, `subsetcard`.
-/
import CnfgenModel.Cli.Text
import CnfgenModel.Cli.GraphSpecObtain
import CnfgenModel.Fam.Coloring
import CnfgenModel.Fam.DomSet
import CnfgenModel.Fam.Iso
import CnfgenModel.Fam.Subgraph
import CnfgenModel.Fam.Pebbling
import CnfgenModel.Fam.Tseitin
import CnfgenModel.Fam.SubsetCard
namespace Cnfgen.Cli
open Cnfgen Cnfgen.Gen Cnfgen.GCli Cnfgen.GRand

/-- the result of `make_graph_from_spec(kind, toks)` for the `i`-th graph argument of the call: the object, or
`none` when it raises ValueError / OSError -/
structure GraphEnv where
  simple : Nat → List String → Option SimpleG
  dag : Nat → List String → Option DiG
  bip : Nat → List String → Option BipG

/-- outcome of the build step of a call with graph arguments -/
inductive Built where
  /-- a graph argument was refused: CLIError -/
  | refused
  | result (r : Except Err Formula)
  deriving Repr, Inhabited

def withS (g : Option SimpleG) (f : SimpleG → Except Err Formula) : Built :=
  match g with | none => .refused | some G => .result (f G)
def withD (g : Option DiG) (f : DiG → Except Err Formula) : Built :=
  match g with | none => .refused | some G => .result (f G)
def withB (g : Option BipG) (f : BipG → Except Err Formula) : Built :=
  match g with | none => .refused | some G => .result (f G)

/-- `knuth` of the (graph) ordering principle: `None` behaves like 0 -/
def knuthOf : Val → Option Int
  | .none => some 0
  | .int k => some k
  | _ => none

/-- the charge vector the `tseitin` helper computes from the word `<charge>` and `G.order()` -/
def chargeOf (word : String) (n : Nat) : Option (List Bool) :=
  if word == "first" then some (true :: List.replicate (n - 1) false)
  else if word == "zero" then some (List.replicate n false)
  else if word == "one" then some (List.replicate n true)
  else none

/-! one handler per generator: positional and keyword values at the positions the generator expects (`ns`: the
namespace, read for the charge word of `tseitin` only — the call template keeps the computed list opaque) -/

abbrev GHandler := GraphEnv → Ns → Call → Option Built

def gClique : GHandler := fun env _ c =>
  match c.pos with
  | [.graph "simple" t, .int k, .bool sb] => some (withS (env.simple 0 t) fun G => Fam.G2.cliqueFormula G k sb)
  | _ => none
def gBinClique : GHandler := fun env _ c =>
  match c.pos with
  | [.graph "simple" t, .int k] => some (withS (env.simple 0 t) fun G => Fam.G2.binaryCliqueFormula G k true)
  | _ => none
def gRamseyWitness : GHandler := fun env _ c =>
  match c.pos with
  | [.graph "simple" t, .int k, .int s] =>
    some (withS (env.simple 0 t) fun G => Fam.G2.ramseyWitnessFormula G k s true)
  | _ => none
def gColoring : GHandler := fun env _ c =>
  match c.pos with
  | [.graph "simple" t, .int k] => some (withS (env.simple 0 t) fun G => Fam.coloring G k true)
  | _ => none
def gEvenColoring : GHandler := fun env _ c =>
  match c.pos with
  | [.graph "simple" t] => some (withS (env.simple 0 t) fun G => Fam.evenColoring G)
  | _ => none
def gDomset : GHandler := fun env _ c =>
  match c.pos, kwBool c "alternative" with
  | [.graph "simple" t, .int d], some a => some (withS (env.simple 0 t) fun G => Fam.domset G d a)
  | _, _ => none
def gTiling : GHandler := fun env _ c =>
  match c.pos with
  | [.graph "simple" t] => some (withS (env.simple 0 t) fun G => .ok (Fam.tiling G))
  | _ => none
def gMatching : GHandler := fun env _ c =>
  match c.pos with
  | [.graph "simple" t] => some (withS (env.simple 0 t) fun G => .ok (Fam.pmF G))
  | _ => none
def gAutomorphism : GHandler := fun env _ c =>
  match c.pos with
  | [.graph "simple" t] => some (withS (env.simple 0 t) fun G => .ok (Fam.G2.graphAutomorphism G))
  | _ => none
def gIsomorphism : GHandler := fun env _ c =>
  match c.pos with
  | [.graph "simple" t1, .graph "simple" t2] =>
    some (match env.simple 0 t1, env.simple 1 t2 with
          | some G1, some G2 => .result (.ok (Fam.G2.graphIsomorphism G1 G2))
          | _, _ => .refused)
  | _ => none
def gSubgraph : GHandler := fun env _ c =>
  match c.pos, kwBool c "induced", kwBool c "symbreak" with
  | [.graph "simple" t1, .graph "simple" t2], some ind, some sb =>
    some (match env.simple 0 t1, env.simple 1 t2 with
          | some G, some H => .result (.ok (Fam.G2.subgraphFormula G H ind sb))
          | _, _ => .refused)
  | _, _, _ => none
def gPebbling : GHandler := fun env _ c =>
  match c.pos with
  | [.graph "dag" t] => some (withD (env.dag 0 t) fun D => Fam.Pebbling.pebbling D)
  | _ => none
def gStone : GHandler := fun env _ c =>
  match c.pos with
  | [.graph "dag" t, .int s] => some (withD (env.dag 0 t) fun D => Fam.Pebbling.stone D s)
  | _ => none
def gGraphPhp : GHandler := fun env _ c =>
  match c.pos, kwBool c "functional", kwBool c "onto" with
  | [.graph "bipartite" t], some f, some o => some (withB (env.bip 0 t) fun B => .ok (Fam.gphp B f o))
  | _, _, _ => none
def gGraphOrdering : GHandler := fun env _ c =>
  match c.pos with
  | [.graph "simple" t, .bool tot, .bool sm, .bool pl, kn] =>
    (match knuthOf kn with
     | some k => some (withS (env.simple 0 t) fun G => .ok (Fam.Ordering.gop G tot sm pl k))
     | none => none)
  | _ => none
def gTseitin : GHandler := fun env ns c =>
  match c.pos, ns.lookup "charge" with
  | [.graph "simple" t, _], some (.str w) =>
    (match env.simple 0 t with
     | none => some .refused
     | some G =>
       match chargeOf w G.n with
       | some ch => some (.result (.ok (Fam.tseitin G (some ch))))
       | none => none)
  | _, _ => none

/-- generator name ↦ handler -/
def gHandlers : List (String × GHandler) :=
  [("CliqueFormula", gClique), ("BinaryCliqueFormula", gBinClique), ("RamseyWitnessFormula", gRamseyWitness),
   ("GraphColoringFormula", gColoring), ("EvenColoringFormula", gEvenColoring), ("DominatingSet", gDomset),
   ("Tiling", gTiling), ("PerfectMatchingPrinciple", gMatching), ("GraphAutomorphism", gAutomorphism),
   ("GraphIsomorphism", gIsomorphism), ("SubgraphFormula", gSubgraph), ("PebblingFormula", gPebbling),
   ("StoneFormula", gStone), ("GraphPigeonholePrinciple", gGraphPhp), ("GraphOrderingPrinciple", gGraphOrdering),
   ("TseitinFormula", gTseitin)]

/-- the build step of a library call with graph arguments -/
def evalCallG (env : GraphEnv) (ns : Ns) (c : Call) : Option Built :=
  match gHandlers.lookup c.fn with
  | some f => f env ns c
  | none => none

/-- the build step of any mapped call: generators with graph arguments, then the numeric ones (`g`: Pitfall's graph) -/
def evalCallAny (env : GraphEnv) (g : SimpleG) (ns : Ns) (c : Call) : Option Built :=
  match evalCallG env ns c with
  | some b => some b
  | none => (evalCallF g c).map .result

def Built.outcome : Built → Outcome
  | .refused => .cliError
  | .result r => shield r

/-- outcome class of `cnfgen <sub-command> <argv>` with graph arguments resolved by `env`; `none`: outside the model -/
def cliOutcomeG (env : GraphEnv) (h : HelperSpec) (argv : List String) : Option Outcome :=
  match specOf h with
  | none => none
  | some s =>
    match dispatchTemplate s argv with
    | .error .cliError => some .cliError
    | .error (.crash e) => some (.escaped (errOfName e))
    | .error (.unsupported _) => none
    | .ok (t, ns) =>
      match instantiate ns t with
      | .error .cliError => some .cliError
      | .error (.crash e) => some (.escaped (errOfName e))
      | .error (.unsupported _) => none
      | .ok c => (evalCallAny env ⟨1, 0, [[], []], []⟩ ns c).map Built.outcome

/-- the formula of the run (for the driver and the text) -/
def cliBuiltG (env : GraphEnv) (g : SimpleG) (h : HelperSpec) (argv : List String) : Option Built :=
  match specOf h with
  | none => none
  | some s =>
    match dispatchTemplate s argv with
    | .error _ => none
    | .ok (t, ns) =>
      match instantiate ns t with
      | .error _ => none
      | .ok c => evalCallAny env g ns c

/-! ### from runs of `make_graph_from_spec` to a `GraphEnv` -/

/-- what an argparse action / the shielded helper makes of a run of `make_graph_from_spec`: the object, a refusal
(`ValueError`, or an exception `isOSError` says is an `OSError`), or `none`: something else (an escaping exception, a
draw list that does not fit) -/
def graphOfRun (isOSError : Err → Bool) : Out (CG × Option CG) → Option (Option CG)
  | .ok (G, _) _ => some (some G)
  | .exc e => if e == .valueError || isOSError e then some none else none
  | .foreign => none
  | .stuck => none

def CG.simple? : CG → Option SimpleG
  | .simple G => some G
  | _ => none
def CG.dag? : CG → Option DiG
  | .dag G => some G
  | _ => none
/-- `CompleteBipartiteGraph(l, r)` behaves like the complete bipartite `BipartiteGraph` -/
def CG.bip? : CG → Option BipG
  | .bip G => some G
  | .cbip l r => some (BipG.complete l r)
  | _ => none

/-! ### the deterministic constructions (executable instance) -/

/-- `int(tok)` on the ASCII fragment; `float(tok)` is not needed by the constructions below -/
def detInterp (tok : String) : Arg := ⟨pyInt? tok, none⟩

def detWorld : GSpec.World :=
  { interp := detInterp, ext := none, openFile := .error .valueError, readGraph := RM.raise .valueError,
    fuel := 0, dot := true }

/-- constructions computed by cnfgen's own code without random draws -/
def detConstructions : List (String × String) :=
  [("simple", "complete"), ("simple", "empty"), ("dag", "path"), ("dag", "tree"), ("dag", "pyramid"),
   ("bipartite", "complete"), ("bipartite", "empty"), ("bipartite", "shift")]

/-- the token list is refused by the parser, or names a deterministic construction without modifiers and without
`save` (`complete N B` is the networkx multipartite graph: not covered) -/
def detSpec (kind : String) (toks : List String) : Bool :=
  match GSpec.parseGraphArgument kind toks true with
  | .error _ => true
  | .ok p =>
    (match p.construction, p.args with
     | some c, some (some as) =>
       detConstructions.contains (kind, c) && p.opts.isEmpty && p.save.isNone &&
       !(kind == "simple" && c == "complete" && as.length == 2)
     | _, _ => false)

/-- the graph of a deterministic specification; outer `none`: not deterministic -/
def detGraph (kind : String) (toks : List String) : Option (Option CG) :=
  if detSpec kind toks then graphOfRun (fun _ => false) (GSpec.makeGraphFromSpec detWorld kind toks []) else none

def detEnv : GraphEnv :=
  { simple := fun _ t => ((detGraph "simple" t).getD none).bind CG.simple?
    dag := fun _ t => ((detGraph "dag" t).getD none).bind CG.dag?
    bip := fun _ t => ((detGraph "bipartite" t).getD none).bind CG.bip? }

/-- every graph argument of the call is a deterministic specification -/
def callDet (c : Call) : Bool :=
  c.pos.all (fun v => match v with | .graph k t => (detGraph k t).isSome | _ => true)

end Cnfgen.Cli
