/-
L8 — decidable checks over the generated call templates (`Gen.cliSpecs`), used by the `decide`
theorems of Props/C17/Dispatch.lean.  Import-free apart from the tables and the interpreter.
-/
import CnfgenModel.Cli.Dispatch
namespace Cnfgen.Cli
open Cnfgen.Gen

/-- the option names an expression mentions -/
def _root_.Cnfgen.Gen.Expr.deps : Expr → List String
  | .arg d => [d]
  | .hasattr d => [d]
  | .getattr d e => d :: e.deps
  | .not e => e.deps
  | .isNone e => e.deps
  | .isNotNone e => e.deps
  | .star e => e.deps
  | .and a b => a.deps ++ b.deps
  | .or a b => a.deps ++ b.deps
  | .cmp _ a b => a.deps ++ b.deps
  | .ite c t e => c.deps ++ t.deps ++ e.deps
  | .binop _ a b => a.deps ++ b.deps
  | .order g => g.deps
  | .cons h t => h.deps ++ t.deps
  | .mkgraph _ sp => sp.deps
  | .opaque _ ds => ds
  | _ => []

def argExprs (t : CallTemplate) : List Expr := t.pos ++ t.kw.map (·.2)

/-- templates that end in a library call -/
def callTemplates (s : CliSpec) : List CallTemplate := s.templates.filter (fun t => t.raises == "" && t.fn != "")

def guardDeps (s : CliSpec) : List String := s.templates.flatMap (fun t => t.guard.deps)

/-- number of arguments of the call that mention option `d` -/
def mentionCount (t : CallTemplate) (d : String) : Nat := (argExprs t).countP (fun e => e.deps.contains d)

/-- number of arguments of the call that ARE the option (`args.d`, `*args.d`) -/
def directCount (t : CallTemplate) (d : String) : Nat :=
  (argExprs t).countP (fun e => e == .arg d || e == .star (.arg d))

def hasOpaqueArg (t : CallTemplate) : Bool := (argExprs t).any (fun e => !e.opaqueFree)

def isFlag (o : OptSpec) : Bool := o.arity == .zero

/-- the shapes in which a flag may reach the library: itself, negated, or choosing between two constants -/
def flagShape (d : String) (e : Expr) : Bool :=
  match e with
  | .arg d' => d' == d
  | .not (.arg d') => d' == d
  | .ite (.arg d') a b => d' == d && a.deps.isEmpty && b.deps.isEmpty
  | _ => false

/-- the templates of a helper are variants of one call: same generator, same positional arguments, and
keyword arguments that agree wherever both give them -/
def variantsAgree (s : CliSpec) : Bool :=
  (callTemplates s).all (fun t1 => (callTemplates s).all (fun t2 =>
    t1.fn == t2.fn && t1.pos == t2.pos &&
    t1.kw.all (fun p1 => t2.kw.all (fun p2 => p1.1 != p2.1 || p1.2 == p2.2))))

/-- a boolean option either is an ARGUMENT flag — it is tested by no guard, and in every call exactly one
argument mentions it, in one of the shapes above — or it is a VARIANT flag — it only selects the path, no
argument mentions it, and the paths are variants of one call -/
def flagOK (s : CliSpec) (o : OptSpec) : Bool :=
  if (guardDeps s).contains o.dest then
    (callTemplates s).all (fun t => mentionCount t o.dest == 0) && variantsAgree s
  else
    (callTemplates s).all (fun t => mentionCount t o.dest == 1 &&
      (argExprs t).all (fun e => !e.deps.contains o.dest || flagShape o.dest e))

def flagsOK (s : CliSpec) : Bool := (s.opts.filter isFlag).all (flagOK s)

/-- a positional option reaches every call: some argument mentions it, it is passed as itself at most once,
and exactly once when no argument of the call is opaque -/
def positionalOK (s : CliSpec) (o : OptSpec) : Bool :=
  (callTemplates s).all (fun t =>
    mentionCount t o.dest ≥ 1 && directCount t o.dest ≤ 1 && (hasOpaqueArg t || directCount t o.dest == 1))

/-- a positional of a sub-parser of `compose_two_parsers` reaches the calls made when that sub-parser is
chosen: some call mentions it (or it selects the path, like the charge of `tseitin`), no call is given it twice -/
def subPositionalOK (s : CliSpec) (o : OptSpec) : Bool :=
  ((callTemplates s).any (fun t => mentionCount t o.dest ≥ 1) || (guardDeps s).contains o.dest) &&
  (callTemplates s).all (fun t => directCount t o.dest ≤ 1)

def positionalsOK (s : CliSpec) : Bool :=
  ((positionals s).filter (fun o => o.action != "PHPArgs" && o.action != "compose_two_parsers")).all (positionalOK s) &&
  (s.opts.filter (fun o => o.nested && o.positional)).all (subPositionalOK s)

/-- parameter names of a library function (`*ks` counts as `ks`) -/
def paramsOf (fn : String) : List String :=
  match sigOf fn with
  | some sg => sg.params.map (fun p => if p.startsWith "*" then (p.drop 1).toString else p)
  | none => []

def directDest : Expr → Option String
  | .arg d => some d
  | .star (.arg d) => some d
  | _ => none

/-- an option whose name IS a parameter name of the generator is passed to that parameter (this is what
`onto=args.functional`, or swapping `args.pigeons` and `args.holes`, violates) -/
def namesCoherent (t : CallTemplate) : Bool :=
  let ps := paramsOf t.fn
  (t.pos.zipIdx.all (fun (e, i) =>
    match directDest e with
    | some d => !ps.contains d || ps[i]? == some d
    | none => true)) &&
  (t.kw.all (fun (k, e) =>
    match directDest e with
    | some d => !ps.contains d || k == d
    | none => true)) &&
  -- keywords are parameters of the function, no parameter is given twice
  (t.kw.all (fun (k, _) => ps.contains k && !(ps.take t.pos.length).contains k || ps.isEmpty))

def specNamesCoherent (s : CliSpec) : Bool := (callTemplates s).all namesCoherent

/-- well-formedness of the option table that the generic theorems assume -/
def destsOf (os : List OptSpec) : List String := os.map (·.dest)

def specWF (s : CliSpec) : Bool :=
  -- positional dests are distinct, and disjoint from the dests of the options
  (destsOf (positionals s)).Nodup &&
  (s.opts.all (fun o => o.positional || !(destsOf (positionals s)).contains o.dest)) &&
  -- a required option is not a flag, and no flag shares its dest
  (s.opts.all (fun o => !o.required || o.positional || (!isFlag o && (s.opts.filter isFlag).all (·.dest != o.dest)))) &&
  -- option strings are not shared
  ((s.opts.flatMap (fun o => if o.positional then [] else o.flags)).Nodup)

/-- no OTHER option of `o`'s mutually exclusive group occurs on the command line -/
def noRival (s : CliSpec) (o : OptSpec) (argv : List String) : Bool :=
  o.group == "" ||
  argv.all (fun t => match optOf s t with | some o' => o'.group != o.group || o' == o | none => true)

/-- (decidable form of `numericBranch`, Lemmas/DispatchNumeric.lean) the sub-command's only positional is the
composed action `c`, and the sub-parser chosen when the first token is a number has positionals `[n, d]`: one
typed token and an optional typed token -/
def numericBranchB (s : CliSpec) (c n d : OptSpec) : Bool :=
  positionals s == [c] && c.action == "compose_two_parsers" && c.arity == .star && !c.nested &&
  (match c.compose with | [p1, _] => subPositionals s p1 == [n, d] | _ => false) &&
  composeOpt s c.dest == some c &&
  n.arity == .one && d.arity == .opt && n.action != "PHPArgs" && n.action != "compose_two_parsers" &&
  d.action != "PHPArgs" && d.action != "compose_two_parsers" && n.dest != d.dest &&
  s.opts.all (fun o => o.positional || !o.required)

/-! ### classes of sub-commands for the generic theorems -/

/-- the argument tokens of a command line, in order -/
def argTokens (s : CliSpec) (argv : List String) : List String := argv.filter (fun t => classify s t == .arg)

/-- every token is an option string of the sub-command or an argument (the fragment `dispatch` models) -/
def inFragment (s : CliSpec) (argv : List String) : Bool := argv.all (fun t => classify s t != .outside)

/-- sub-commands whose positionals each take one typed token and whose options are all flags -/
def numericOnly (s : CliSpec) : Bool :=
  s.opts.all (fun o => o.standard && (if o.positional then o.arity == .one else o.arity == .zero && !o.required))

def optsFor (s : CliSpec) (d : String) : List OptSpec := s.opts.filter (·.dest == d)

def plainVal : Val → Bool
  | .opaque _ => false
  | .param _ => false
  | _ => true

/-- `d` is set by flags only, and their constants and defaults have a truth value -/
def pureFlag (s : CliSpec) (d : String) : Bool :=
  !(optsFor s d).isEmpty &&
  (optsFor s d).all (fun o => isFlag o && (truthy o.flagVal).isSome && (truthy o.defaultVal).isSome)

/-- `d` is an option of the sub-command and nothing opaque can be stored under it -/
def plainDest (s : CliSpec) (d : String) : Bool :=
  !(optsFor s d).isEmpty && (optsFor s d).all (fun o => plainVal o.flagVal && plainVal o.defaultVal)

/-- expressions whose value is never opaque (operands of `is None`) -/
def valueTotal (s : CliSpec) : Expr → Bool
  | .arg d => plainDest s d
  | .getattr d e => ((optsFor s d).all (fun o => plainVal o.flagVal && plainVal o.defaultVal)) && valueTotal s e
  | .none => true
  | .bool _ => true
  | .int _ => true
  | .str _ => true
  | _ => false

/-- guards that evaluate to a truth value in every namespace the parser can produce -/
def guardTotal (s : CliSpec) : Expr → Bool
  | .bool _ => true
  | .arg d => pureFlag s d
  | .hasattr _ => true
  | .not e => guardTotal s e
  | .and a b => guardTotal s a && guardTotal s b
  | .or a b => guardTotal s a && guardTotal s b
  | .isNone e => valueTotal s e
  | .isNotNone e => valueTotal s e
  | _ => false

/-- argument expressions that evaluate in every namespace the parser can produce -/
def argTotal (s : CliSpec) : Expr → Bool
  | .arg d => !(optsFor s d).isEmpty
  | .name _ => true
  | .none => true
  | .bool _ => true
  | .int _ => true
  | .str _ => true
  | .opaque _ _ => true
  | .not (.arg d) => pureFlag s d
  | .ite (.arg d) a b => pureFlag s d && argTotal s a && argTotal s b
  | _ => false

/-- the guards cover every namespace: one unguarded path, or a test and its negation -/
def pathsExhaustive : List CallTemplate → Bool
  | [t] => t.guard == .bool true
  | [t1, t2] => t2.guard == .not t1.guard
  | _ => false

/-- sub-commands for which `dispatch` is proved total: standard options, guards and arguments in the
fragments above, and only exceptions that `cli()` turns into a CLIError -/
def totalClass (s : CliSpec) : Bool :=
  s.standard &&
  s.templates.all (fun t =>
    guardTotal s t.guard && (t.raises == "" || shielded t.raises) &&
    t.pos.all (argTotal s) && t.kw.all (fun p => argTotal s p.2)) &&
  pathsExhaustive s.templates

/-- the two templates of the pebbling formula: `peb` and the stand-alone tool -/
def pebTemplates : List CallTemplate :=
  (cliSpecs.filter (fun s => s.kind == "formula" && s.name == "peb")).flatMap (·.templates)

def k2pTemplates : List CallTemplate :=
  (toolTemplates.filter (fun p => p.1 == "kthlist2pebbling")).flatMap (·.2)

/-- same generator, one positional argument (the graph), nothing else but the formula class -/
def sameCallShape (a b : CallTemplate) : Bool :=
  a.fn == b.fn && a.raises == "" && b.raises == "" && a.pos.length == 1 && b.pos.length == 1 &&
  a.kw.all (fun p => p.1 == "formula_class") && b.kw.all (fun p => p.1 == "formula_class")

end Cnfgen.Cli
