/-
L8 — clitools/msg.py and `CLIParser.error`: how an error reaches the user.  Messages are modelled as lists of
lines (the code builds them with "\n".join and prints them after `textwrap.indent(msg, prefix, lambda line: True)`).
Import-free.
-/
import CnfgenModel.Generated.Tables
namespace Cnfgen.Cli

/-- `CLIParser.error(message)`: the lines of the CLIError text -/
def cliErrorLines (message : List String) (usage : Option (List String)) (prog : String) : List String :=
  message.map ("ERROR: " ++ ·) ++ [""] ++
    (match usage with | some u => u ++ [""] | none => []) ++
    ["See '" ++ prog ++ " -h' or '" ++ prog ++ " --help' for more info."]

/-- `error_msg(msg)` with the current prefix: what is printed on the error stream, line by line
(`textwrap.indent` with a predicate that is always true prefixes EVERY line, empty ones included) -/
def errorMsgLines (pre : String) (msg : List String) : List String := msg.map (pre ++ ·)

/-- the prefix that is active when `main()` prints a CLIError raised while the output format `fmt` was known -/
def prefixOf (fmt : String) : String :=
  match Gen.commentChar.find? (fun p => p.1 == fmt) with
  | some p => p.2
  | none => ""

theorem errorMsgLines_prefixed (pre : String) (msg : List String) :
    ∀ l ∈ errorMsgLines pre msg, ∃ rest, l = pre ++ rest := by
  intro l hl
  simp only [errorMsgLines, List.mem_map] at hl
  obtain ⟨r, _, rfl⟩ := hl
  exact ⟨r, rfl⟩

theorem errorMsgLines_length (pre : String) (msg : List String) :
    (errorMsgLines pre msg).length = msg.length := by simp [errorMsgLines]

end Cnfgen.Cli
