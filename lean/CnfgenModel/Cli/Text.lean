/-
L8 — what a successful run WRITES:  tokens ──dispatch──▶ library call ──family model──▶ formula
──formula class of the tool──▶ CNF / OPB ──writer of the output format──▶ text.

* `evalCallF`  : the formula of a library call whose arguments are numbers and booleans (the generators of
  `evalCall`, Cli/Outcome.lean, with the formula kept).  `PitfallFormula`: the graph that
  `networkx.random_regular_graph` draws is an input `g`.
* `Global`     : the options of the tool's own parser that decide what is written (`-of`, `-q`/`-v`, `--varnames`,
  `--seed`) and the whole argument vector (it goes into the header).  The tool's own parser is argparse with
  sub-parsers; it is NOT modelled: its result is the input here.
* `cliHeader`  : `cnf.header['random seed'] = seed` (when given), `cnf.header['command line'] = "<tool> " + " ".join(argv[1:])`
  on the header dictionary the generator made (an input: the descriptions of the families are free text).
* `cliText`    : `cnfgen` builds with `formula_class=CNF` and writes DIMACS (`to_dimacs_file`) or, under `-of opb`,
  the CNF branch of `to_opb_file`; `pbgen` builds with `formula_class=OPB` and writes OPB.  `pbgen -of dimacs` is
  refused by its parser (`choices=['latex','opb']`) — not a value of `Global`.  LaTeX has no strict reader and is
  not covered.
Import-free apart from the model.
-/
import CnfgenModel.Cli.Outcome
import CnfgenModel.IO.Dimacs
import CnfgenModel.IO.Opb
namespace Cnfgen.Cli
open Cnfgen Cnfgen.Gen Cnfgen.IO

/-- the formula built by a library call whose arguments are numbers and booleans; `g` is the graph networkx draws
for `PitfallFormula` -/
def evalCallF (g : SimpleG) (c : Call) : Option (Except Err Formula) :=
  if c.fn == "PigeonholePrinciple" then
    (match c.pos, kwBool c "functional", kwBool c "onto" with
     | [.int m, .int n], some f, some o => some (Fam.php m n f o)
     | _, _, _ => none)
  else if c.fn == "BinaryPigeonholePrinciple" then
    (match c.pos with | [.int m, .int n] => some (Fam.bphp m n) | _ => none)
  else if c.fn == "RelativizedPigeonholePrinciple" then
    (match c.pos with | [.int m, .int r, .int n] => some (Fam.rphp m r n) | _ => none)
  else if c.fn == "CountingPrinciple" then
    (match c.pos with | [.int m, .int p] => some (Fam.counting m p) | _ => none)
  else if c.fn == "CliqueColoring" then
    (match c.pos with | [.int n, .int k, .int cc] => some (Fam.cliqueColoring n k cc) | _ => none)
  else if c.fn == "OrderingPrinciple" then
    (match c.pos with
     | [.int n, .bool t, .bool s, .bool p, .none] => some (Fam.Ordering.op n t s p 0)
     | [.int n, .bool t, .bool s, .bool p, .int k] => some (Fam.Ordering.op n t s p k)
     | _ => none)
  else if c.fn == "PythagoreanTriples" then
    (match c.pos with | [.int n] => some (Fam.Ramsey.ptn n) | _ => none)
  else if c.fn == "RamseyNumber" then
    (match c.pos with | [.int s, .int k, .int n] => some (Fam.Ramsey.ramseyNumber s k n) | _ => none)
  else if c.fn == "VanDerWaerden" then
    (match allInts c.pos with
     | some (n :: k1 :: k2 :: ks) => some (Fam.Ramsey.vdw n k1 k2 ks)
     | _ => none)
  else if c.fn == "CPLSFormula" then
    (match c.pos with | [.int a, .int b, .int cc] => some (Fam.Cpls.cpls a b cc) | _ => none)
  else if c.fn == "PitfallFormula" then
    (match c.pos with
     | [.int v, .int d, .int ny, .int nz, .int k] => some (Fam.Pitfall.pitfall v d ny nz k g)
     | _ => none)
  else none

/-- the formula of `<tool> <sub-command> <argv>`; `none`: the run does not reach a mapped library call -/
def cliFormula (g : SimpleG) (h : HelperSpec) (argv : List String) : Option (Except Err Formula) :=
  match dispatch h argv with
  | .ok c => evalCallF g c
  | .error _ => none

def cliFormulaNamed (g : SimpleG) (kind name : String) (argv : List String) : Option (Except Err Formula) :=
  match helpers.find? (fun h => h.kind == kind && h.name == name) with
  | some h => cliFormula g h argv
  | none => none

/-! ### the tool's own options -/

inductive Tool where
  | cnfgen | pbgen
  deriving DecidableEq, Repr, Inhabited

inductive OutFmt where
  | dimacs | opb
  deriving DecidableEq, Repr, Inhabited

def Tool.name : Tool → String
  | .cnfgen => "cnfgen"
  | .pbgen => "pbgen"

/-- what the tool's own parser hands to `cli()` (an input: that parser is not modelled) -/
structure Global where
  tool : Tool
  /-- `guess_output_format(args.output, args.output_format)` -/
  fmt : OutFmt
  /-- `args.verbose` (`-q` makes it false): `export_header` -/
  verbose : Bool
  /-- `args.varnames`: `export_varnames` -/
  varnames : Bool
  /-- `args.seed` -/
  seed : Option Int
  /-- `argv[1:]`, every token `str()`-ed -/
  cmdline : List String
  deriving Repr, Inhabited

/-- the combinations the parsers accept: `pbgen` offers only `latex` and `opb` -/
def Global.legal (gl : Global) : Bool := !(gl.tool == .pbgen && gl.fmt == .dimacs)

/-- `header[key] = value` on an ordered dictionary: an existing key keeps its position -/
def setHdr (h : Header) (k v : Str) : Header :=
  if h.any (fun e => e.1 == k) then h.map (fun e => if e.1 == k then (k, v) else e) else h ++ [(k, v)]

/-- `" ".join(l)` -/
def joinBlank : List String → String
  | [] => ""
  | [a] => a
  | a :: rest => a ++ " " ++ joinBlank rest

/-- the header after `cli()` has added the seed and the command line -/
def cliHeader (gl : Global) (famHdr : Header) : Header :=
  let h1 := match gl.seed with
    | some s => setHdr famHdr "random seed".toList (intStr s)
    | none => famHdr
  setHdr h1 "command line".toList (gl.tool.name ++ " " ++ joinBlank gl.cmdline).toList

/-- the comment marker of the output format (`comment_char` of `cli()`) -/
def OutFmt.marker : OutFmt → Str
  | .dimacs => ['c', ' ']
  | .opb => ['*', ' ']

/-- the text `to_file` writes for the formula `F` of the generator: `famHdr` = the header the generator made,
`names` = `all_variable_labels()` -/
def cliText (gl : Global) (famHdr : Header) (names : List Str) (F : Formula) : Str :=
  let hdr := if gl.verbose then some (cliHeader gl famHdr) else none
  let nm := if gl.varnames then some names else none
  match gl.tool, gl.fmt with
  | .cnfgen, .dimacs => renderDimacsText F.toCNF hdr nm
  | .cnfgen, .opb => renderOpbTextCNF F.toCNF hdr nm
  | .pbgen, _ => renderOpbText F.toOPB hdr nm

end Cnfgen.Cli
