/-
L8 — the command-line graph constructions: cnfgen/clitools/graph_build.py (`obtain_*`,
`modify_*`) and `obtain_graph` of cnfgen/clitools/graph_args.py.  Import-free.

Input is the dictionary `parsed` that `parse_graph_argument` produces: the construction name,
its numeric tokens, the numeric tokens of each option, and whether `save` is present.
A token that reaches this layer has passed `float(tok)` (that is what `consumenumbers` keeps);
it is represented by what `int(tok)` and `float(tok)` give (`Arg`).

GUARDS.  One definition per accept/reject test of the code, each a plain boolean expression over
the integer arguments (the coordinator's translator regenerates these from the source).

THIRD PARTY.  `gnp` (t = 1), `gnm`, `gnd`, `grid`, `torus`, `complete N B` call networkx.  Their
result is not modelled: it is an input (`ext`, what the generator and cnfgen's conversion
returned).  Only their documented refusal conditions are modelled (`nx…Pre`).
-/
import CnfgenModel.Graph.Build
import CnfgenModel.Rand.BipSamplers
import CnfgenModel.Rand.Mods
namespace Cnfgen.GCli
open Cnfgen Cnfgen.GRand

/-- a numeric token: `int(tok)` (`none` = `ValueError`) and `float(tok)` as an exact fraction
(`none` = `nan`, `inf`, `-inf`) -/
structure Arg where
  int? : Option Int
  flt? : Option (Int × Nat)
  deriving Repr, DecidableEq, Inhabited

/-! ### guards (graph_build.py) -/
def gndGuard (n d : Int) : Bool := n > 0 && d > 0 && n > d
/-- second test of `obtain_gnd`: refused when true -/
def gndOdd (n d : Int) : Bool := (n * d) % 2 == 1
def gnpGuard (n : Int) (pn : Int) (pd : Nat) (t : Int) : Bool := n > 0 && (0 ≤ pn && pn ≤ pd) && t > 0
def gnmGuard (n m : Int) : Bool := n > 0 && m ≥ 0 && m ≤ n * (n - 1) / 2
def completeSimpleGuard (n : Int) : Bool := n > 0
def completeMultiGuard (n b : Int) : Bool := n > 0 && b > 0
def emptySimpleGuard (n : Int) : Bool := n > 0
/-- `if len(dimensions) == 0: raise ValueError` -/
def gridDimsGiven (dims : List Int) : Bool := !(dims.length == 0)
/-- `for d in dimensions: if d <= 0: raise ValueError` -/
def gridGuard (dims : List Int) : Bool := dims.all (fun d => !(d ≤ 0))
def plantcliqueGuard (k : Int) : Bool := k ≥ 0
def addedgesGuard (k : Int) : Bool := k ≥ 0
def splitedgesGuard (k : Int) : Bool := k ≥ 0
def glrpGuard (l r : Int) (pn : Int) (pd : Nat) : Bool := l > 0 && r > 0 && (0 ≤ pn && pn ≤ pd)
def glrmGuard (l r m : Int) : Bool := l > 0 && r > 0 && (0 ≤ m && m ≤ l * r)
def glrdGuard (l r d : Int) : Bool := l > 0 && r > 0 && (0 ≤ d && d ≤ r)
def regularGuard (l r d : Int) : Bool := l > 0 && r > 0 && (0 ≤ d && d ≤ r) && (d * l % r == 0)
/-- `pattern[i] == pattern[i+1]` for some `i` (on the sorted pattern) -/
def hasAdjacentEqual : List Int → Bool
  | x :: y :: rest => x == y || hasAdjacentEqual (y :: rest)
  | _ => false
def shiftGuard (l r : Int) (sorted : List Int) : Bool :=
  l > 0 && r > 0 && !hasAdjacentEqual sorted && !sorted.any (fun x => x < 0 || x > r)
def completeBipGuard (l r : Int) : Bool := l > 0 && r > 0
def emptyBipGuard (l r : Int) : Bool := l > 0 && r > 0
def plantbicliqueGuard (a b : Int) : Bool := a ≥ 0 && b ≥ 0
def treeGuard (h : Int) : Bool := h ≥ 0
def pyramidGuard (h : Int) : Bool := h ≥ 0
def pathGuard (h : Int) : Bool := h ≥ 0

/-! ### documented refusal conditions of the third-party generators -/
/-- `networkx.random_regular_graph(d, n)` raises `NetworkXError` unless `n*d` is even and `0 ≤ d < n` -/
def nxRegularPre (d n : Int) : Bool := (n * d) % 2 == 0 && (0 ≤ d && d < n)
/-- `Graph.from_networkx` of a periodic grid with a dimension of size 1: networkx's 1-cycle is a
self-loop, which `Graph.add_edge` refuses with `ValueError` -/
def torusPre (dims : List Int) : Bool := !dims.contains 1

/-! ### graphs on the command line -/
inductive GType where | simple | dag | bipartite
  deriving Repr, DecidableEq, Inhabited

inductive Cons where
  | gnp | gnm | gnd | grid | torus | completeS | emptyS
  | path | tree | pyramid
  | glrp | glrm | glrd | regular | shift | completeB | emptyB
  deriving Repr, DecidableEq, Inhabited

/-- the object that is built: the class matters for `complete L R`, whose
`CompleteBipartiteGraph` overrides `has_edge`, `add_edge` and `number_of_edges` -/
inductive CG where
  | simple (G : SimpleG)
  | dag (G : DiG)
  | bip (G : BipG)
  | cbip (l r : Nat)
  deriving Repr, DecidableEq, Inhabited

structure Parsed where
  cons : Cons
  args : List Arg
  plantclique : Option (List Arg) := none
  plantbiclique : Option (List Arg) := none
  addedges : Option (List Arg) := none
  splitedges : Option (List Arg) := none
  /-- `save` present?  `some true`: `writeGraph` knows the format (given, or guessed from the file
  extension); `some false`: it does not, and raises `ValueError` -/
  save : Option Bool := none
  deriving Repr, Inhabited

def valueError {α} : RM α := RM.raise .valueError

/-- `int(tok)` inside a `try … except ValueError` that re-raises `ValueError` -/
def argInt (a : Arg) : RM Int :=
  match a.int? with
  | some i => pure i
  | none => valueError

def guard (b : Bool) : RM Unit := if b then pure () else valueError

/-- the result of a third-party generator -/
def ext (e : Option CG) : RM CG := fun ds =>
  match e with
  | some g => .ok g ds
  | none => .stuck

/-! ### obtain_* -/
def obtainGnd (args : List Arg) (e : Option CG) : RM CG :=
  match args with
  | [a, b] => do
    let n ← argInt a; let d ← argInt b
    guard (gndGuard n d)
    if gndOdd n d then valueError
    else if !nxRegularPre d n then (fun _ => .foreign)
    else ext e
  | _ => valueError

def obtainGnpGo (e : Option CG) (a p : Arg) (t? : Option Arg) : RM CG := do
  let n ← argInt a
  match p.flt? with
  | none =>
    -- float(p) is nan or ±inf: `t = int(t)` is evaluated first, then `0 <= p <= 1` fails
    match t? with
    | some t => do let _ ← argInt t; valueError
    | none => valueError
  | some (pn, pd) =>
    let t ← (match t? with | some t => argInt t | none => pure 1)
    guard (gnpGuard n pn pd t)
    if t = 1 then ext e
    else do
      let G ← multipartiteTnp t.toNat n.toNat pn pd
      pure (.simple G)

def obtainGnp (args : List Arg) (e : Option CG) : RM CG :=
  match args with
  | [a, p] => obtainGnpGo e a p none
  | [a, p, t] => obtainGnpGo e a p (some t)
  | _ => valueError

def obtainGnm (args : List Arg) (e : Option CG) : RM CG :=
  match args with
  | [a, b] => do
    let n ← argInt a; let m ← argInt b
    guard (gnmGuard n m)
    ext e
  | _ => valueError

def obtainCompleteSimple (args : List Arg) (e : Option CG) : RM CG :=
  match args with
  | [a] => do
    let n ← argInt a
    guard (completeSimpleGuard n)
    let G ← RM.lift (GBuild.completeGraph n)
    pure (.simple G)
  | [a, b] => do
    let n ← argInt a; let k ← argInt b
    guard (completeMultiGuard n k)
    ext e
  | _ => valueError

def obtainEmptySimple (args : List Arg) : RM CG :=
  match args with
  | [a] => do
    let n ← argInt a
    guard (emptySimpleGuard n)
    let G ← RM.lift (GBuild.emptyGraph n)
    pure (.simple G)
  | _ => valueError

def argInts : List Arg → RM (List Int)
  | [] => pure []
  | a :: as => do let i ← argInt a; let is ← argInts as; pure (i :: is)

def obtainGridOrTorus (args : List Arg) (periodic : Bool) (e : Option CG) : RM CG := do
  let dims ← argInts args
  guard (gridDimsGiven dims)
  guard (gridGuard dims)
  if periodic && !torusPre dims then valueError
  else ext e

def obtainGlrp (args : List Arg) : RM CG :=
  match args with
  | [a, b, p] => do
    let l ← argInt a; let r ← argInt b
    match p.flt? with
    | none => valueError
    | some (pn, pd) =>
      guard (glrpGuard l r pn pd)
      let G ← bipRandom l r pn pd
      pure (.bip G)
  | _ => valueError

def obtainGlrm (args : List Arg) : RM CG :=
  match args with
  | [a, b, c] => do
    let l ← argInt a; let r ← argInt b; let m ← argInt c
    guard (glrmGuard l r m)
    let G ← randomMEdges l r m
    pure (.bip G)
  | _ => valueError

def obtainGlrd (args : List Arg) : RM CG :=
  match args with
  | [a, b, c] => do
    let l ← argInt a; let r ← argInt b; let d ← argInt c
    guard (glrdGuard l r d)
    let G ← leftRegular l r d
    pure (.bip G)
  | _ => valueError

def obtainRegular (args : List Arg) (fuel : Nat) : RM CG :=
  match args with
  | [a, b, c] => do
    let l ← argInt a; let r ← argInt b; let d ← argInt c
    guard (regularGuard l r d)
    let G ← randomRegular l r d fuel
    pure (.bip G)
  | _ => valueError

def obtainShift (args : List Arg) : RM CG :=
  match args with
  | a :: b :: rest => do
    let l ← argInt a; let r ← argInt b
    let pat ← argInts rest
    let sorted := GBuild.sortInt pat
    guard (shiftGuard l r sorted)
    let res ← RM.lift (GBuild.shift l r sorted)
    pure (.bip res.2)
  | _ => valueError

def obtainCompleteBip (args : List Arg) : RM CG :=
  match args with
  | [a, b] => do
    let l ← argInt a; let r ← argInt b
    guard (completeBipGuard l r)
    pure (.cbip l.toNat r.toNat)
  | _ => valueError

def obtainEmptyBip (args : List Arg) : RM CG :=
  match args with
  | [a, b] => do
    let l ← argInt a; let r ← argInt b
    guard (emptyBipGuard l r)
    pure (.bip (BipG.init l.toNat r.toNat))
  | _ => valueError

def obtainTree (args : List Arg) : RM CG :=
  match args with
  | [a] => do
    let h ← argInt a
    guard (treeGuard h)
    let G ← RM.lift (GBuild.tree h)
    pure (.dag G)
  | _ => valueError

def obtainPyramid (args : List Arg) : RM CG :=
  match args with
  | [a] => do
    let h ← argInt a
    guard (pyramidGuard h)
    let G ← RM.lift (GBuild.pyramid h)
    pure (.dag G)
  | _ => valueError

def obtainPath (args : List Arg) : RM CG :=
  match args with
  | [a] => do
    let h ← argInt a
    guard (pathGuard h)
    let G ← RM.lift (GBuild.path h)
    pure (.dag G)
  | _ => valueError

/-- the table `constructions[graphtype]` -/
def Cons.gtype : Cons → GType
  | .gnp | .gnm | .gnd | .grid | .torus | .completeS | .emptyS => .simple
  | .path | .tree | .pyramid => .dag
  | .glrp | .glrm | .glrd | .regular | .shift | .completeB | .emptyB => .bipartite

def construct (c : Cons) (args : List Arg) (e : Option CG) (fuel : Nat) : RM CG :=
  match c with
  | .gnp => obtainGnp args e
  | .gnm => obtainGnm args e
  | .gnd => obtainGnd args e
  | .grid => obtainGridOrTorus args false e
  | .torus => obtainGridOrTorus args true e
  | .completeS => obtainCompleteSimple args e
  | .emptyS => obtainEmptySimple args
  | .path => obtainPath args
  | .tree => obtainTree args
  | .pyramid => obtainPyramid args
  | .glrp => obtainGlrp args
  | .glrm => obtainGlrm args
  | .glrd => obtainGlrd args
  | .regular => obtainRegular args fuel
  | .shift => obtainShift args
  | .completeB => obtainCompleteBip args
  | .emptyB => obtainEmptyBip args

/-! ### modify_* -/
def modifyPlantclique (opt : List Arg) (G : CG) : RM CG :=
  match opt with
  | [a] => do
    let k ← argInt a
    guard (plantcliqueGuard k)
    match G with
    | .simple S => do let S' ← plantClique S k; pure (.simple S')
    | _ => fun _ => .stuck        -- obtain_graph calls it for graphtype 'simple' only
  | _ => valueError

def modifyPlantbiclique (opt : List Arg) (G : CG) : RM CG :=
  match opt with
  | [x, y] => do
    let a ← argInt x; let b ← argInt y
    guard (plantbicliqueGuard a b)
    match G with
    | .bip B => do let B' ← plantBiclique B a b; pure (.bip B')
    | .cbip l r => do plantBicliqueCBip l r a b; pure (.cbip l r)
    | _ => fun _ => .stuck        -- obtain_graph calls it for graphtype 'bipartite' only
  | _ => valueError

def modifyAddedges (opt : List Arg) (G : CG) : RM CG :=
  match opt with
  | [a] => do
    let k ← argInt a
    guard (addedgesGuard k)
    match G with
    | .simple S => do let S' ← addMissingSimple S k; pure (.simple S')
    | .bip B => do let B' ← addMissingBip B k; pure (.bip B')
    | .cbip l r => do addMissingCBip l r k; pure (.cbip l r)
    | .dag _ => fun _ => .stuck   -- 'addedges' is not an option of dag / digraph
  | _ => valueError

def modifySplitedges (opt : List Arg) (G : CG) : RM CG :=
  match opt with
  | [a] => do
    let k ← argInt a
    guard (splitedgesGuard k)
    match G with
    | .simple S => do let S' ← splitEdges S k; pure (.simple S')
    | _ => RM.raise .typeError    -- `if not isinstance(G, Graph): raise TypeError`
  | _ => valueError

def applyOpt (o : Option (List Arg)) (f : List Arg → CG → RM CG) (G : CG) : RM CG :=
  match o with
  | some a => f a G
  | none => pure G

/-- `obtain_graph(parsed)`.  ONE graph value is threaded through the modifications in the fixed
order plantclique / plantbiclique, addedges, splitedges (whatever their order on the command
line); then, if `save` is present, that value is handed to `writeGraph` (which refuses an
unknown file format with `ValueError`); then it is returned.
The second component is the value `writeGraph` received. -/
def obtainGraph (gt : GType) (p : Parsed) (e : Option CG) (fuel : Nat) : RM (CG × Option CG) := do
  let G0 ← construct p.cons p.args e fuel
  let G1 ← (match gt with
    | .simple => applyOpt p.plantclique modifyPlantclique G0
    | .bipartite => applyOpt p.plantbiclique modifyPlantbiclique G0
    | .dag => pure G0)
  let G2 ← applyOpt p.addedges modifyAddedges G1
  let G3 ← applyOpt p.splitedges modifySplitedges G2
  match p.save with
  | none => pure (G3, none)
  | some true => pure (G3, some G3)
  | some false => valueError

end Cnfgen.GCli
