/-
L8 — the outcome of a command line on EVERY list of tokens, the random paths of the helpers included.

  tokens ──argparse of CPython (Cli/Argparse.lean: `parseX`, every token list)──▶ namespace
         ──the helper's method (`selectTemplate` over the regenerated templates)──▶ library call
         ──graphs (`GraphEnv`) / random choices of the helper (`RandEnv`) ▸ family model──▶ formula or exception
         ──shield──▶ outcome class, or the help exit

`cliOutcomeG` (Cli/OutcomeG.lean) runs the FRAGMENT parser of Cli/Dispatch.lean; `cliOutcomeX` below runs the extended
parser, so that abbreviations, `--opt=v`, clusters, `--`, unknown options and `-h` have an outcome too, and it adds the
paths `evalCallAny` does not map, with the random choices of the helper as an explicit input (`RandEnv`):

  * `tseitin random|randomodd|randomeven <graph>` and the shortcut `tseitin N d` (charges drawn with
    `random.randint(0, 1)`: `RandEnv.bit i` is the i-th draw of `build_formula`);
  * `php M N D` with `D ≠ N` and `stone s D --sparse d` (`bipartite_random_left_regular(l, r, d)`: `RandEnv.lreg`, the
    graph or `none` = its ValueError, which `cli()` shields);
  * `subsetcard N [d]` (graph of the specification `regular N N d addedges 1`, through `GraphEnv.bip`) and
    `subsetcard <bipartite>`.

Import-free apart from the model files.
-/
import CnfgenModel.Cli.OutcomeG
import CnfgenModel.Cli.ArgparseAbs
namespace Cnfgen.Cli
open Cnfgen Cnfgen.Gen Cnfgen.GCli Cnfgen.GRand Cnfgen.Cli.AP

/-- the random choices a helper makes itself (not through `make_graph_from_spec`) -/
structure RandEnv where
  /-- the `i`-th `random.randint(0, 1)` of `TseitinCmdHelper.build_formula` -/
  bit : Nat → Bool := fun _ => false
  /-- `bipartite_random_left_regular(l, r, d)`: the graph, or `none` when it raises ValueError -/
  lreg : Int → Int → Int → Option BipG := fun _ _ _ => none

/-- the number of `true` among the bits is odd -/
def oddBits (l : List Bool) : Bool := (l.filter id).length % 2 == 1

/-- the charge vector `TseitinCmdHelper.build_formula` computes for a graph of order `n`; `word = none`: the shortcut
`tseitin N d` (random bits, the last one making the sum odd).  An unknown word never gets here (the helper raises
ValueError before the call: that path is a template with `raises`). -/
def chargeX (re : RandEnv) (word : Option String) (n : Nat) : List Bool :=
  let pre := (List.range (n - 1)).map re.bit
  match word with
  | some w =>
    if w == "first" then true :: List.replicate (n - 1) false
    else if w == "zero" then List.replicate n false
    else if w == "one" then List.replicate n true
    else if w == "random" then pre ++ [re.bit (n - 1)]
    else if w == "randomeven" then pre ++ [oddBits pre]
    else pre ++ [!oddBits pre]
  | none => pre ++ [!oddBits pre]

def wordOf : Option Val → Option String
  | some (.str w) => some w
  | _ => none

/-- the build steps `evalCallAny` does not map -/
def evalCallR (re : RandEnv) (env : GraphEnv) (ns : Ns) (c : Call) : Option Built :=
  if c.fn == "TseitinFormula" then
    (match c.pos with
     | [.graph "simple" t, _] =>
       some (match env.simple 0 t with
             | none => .refused
             | some G => .result (.ok (Fam.tseitin G (some (chargeX re (wordOf (ns.lookup "charge")) G.n)))))
     | _ => none)
  else if c.fn == "GraphPigeonholePrinciple" then
    (match c.pos, kwBool c "functional", kwBool c "onto", ns.lookup "pigeons", ns.lookup "holes",
        ns.lookup "degree" with
     | [.opaque _], some f, some o, some (.int p), some (.int h), some (.int d) =>
       some (.result (match re.lreg p h d with
                      | none => .error .valueError
                      | some B => .ok (Fam.gphp B f o)))
     | _, _, _, _, _, _ => none)
  else if c.fn == "SubsetCardinalityFormula" then
    (match c.pos with
     | [.graph "bipartite" t, .bool eq] => some (withB (env.bip 0 t) fun B => .ok (Fam.subsetCardF B eq))
     | _ => none)
  else if c.fn == "SparseStoneFormula" then
    (match c.pos, ns.lookup "s", ns.lookup "sparse" with
     | [.graph "dag" t, .opaque _], some (.int s), some (.int d) =>
       some (withD (env.dag 0 t) fun D =>
         match re.lreg D.n s d with
         | none => .error .valueError
         | some B => Fam.Pebbling.sparseStone D B)
     | _, _, _ => none)
  else none

/-- the build step of a library call: `evalCallAny`, then the random paths -/
def evalCallX (re : RandEnv) (env : GraphEnv) (g : SimpleG) (ns : Ns) (c : Call) : Option Built :=
  match evalCallAny env g ns c with
  | some b => some b
  | none => evalCallR re env ns c

/-- how a run of `cnfgen … <sub-command> <tokens>` ends -/
inductive EndX where
  /-- `-h`: the help text, exit status 0 -/
  | help
  | done (o : Outcome)
  deriving Repr, DecidableEq, Inhabited

/-- ORDER OF `-h` AND A REFUSED GRAPH ARGUMENT.  The model examines the graph arguments after parsing (`GraphEnv`); argparse
runs the action of a graph argument as soon as it has its tokens, so a graph argument IN FRONT of `-h` that is refused
ends the real run in a CLIError before `-h` is read.  `argRefused`: an action refused its tokens during the real parse. -/
def EndX.observed (argRefused : Bool) : EndX → EndX
  | .help => if argRefused then .done .cliError else .help
  | e => e

/-- the helper's method on the bindings `b` of the parser.  A single-argument option that holds the empty list
(`hasQuirk`: CPython 3.12.1's removal of a lone `--`) makes a guard, an argument or the generator's own check raise
TypeError / ValueError, which `cli()` reports as a CLIError. -/
def runCallX (re : RandEnv) (env : GraphEnv) (g : SimpleG) (ord : List String → Nat) (s : CliSpec) (b : Ns) :
    Option EndX :=
  let ns := namespaceOf s b
  let quirk : Option EndX := if hasQuirk s b then some (.done .cliError) else none
  match selectTemplate ns (s.templates.map (fixTemplate ord ns)) with
  | .error _ => quirk
  | .ok t =>
    match instantiate ns t with
    | .error .cliError => some (.done .cliError)
    | .error (.crash e) => some (.done (.escaped (errOfName e)))
    | .error (.unsupported _) => quirk
    | .ok c =>
      match evalCallX re env g ns c with
      | some bt => some (.done bt.outcome)
      | none => quirk

/-- the inline helpers (`and`, `or`, `true`, `false`): the formula is built without a library call -/
def inlineEnd (cls : String) (ns : Ns) : Option EndX :=
  match inlineBuild cls ns with
  | .ok (.formula _ _) => some (.done .ok)
  | .ok _ => none                                    -- `dimacs`: reads a file
  | .error .cliError => some (.done .cliError)
  | .error .helpExit => some .help
  | .error (.crash e) => some (.done (.escaped (errOfName e)))
  | .error (.unsupported _) => none

/-- how `tool <global options> <sub-command> argv` ends, for ANY list of tokens; `none`: outside the model.
`ord`: the number of vertices of a graph FILE (by its tokens); `g`: the graph networkx draws for Pitfall. -/
def cliOutcomeX (re : RandEnv) (env : GraphEnv) (g : SimpleG) (tool : String) (ord : List String → Nat)
    (s : CliSpec) (argv : List String) : Option EndX :=
  if !s.supportedX then none
  else if topAmbiguous tool s.kind argv then some (.done .cliError)
  else
    match parseX s argv with
    | .error .cliError => some (.done .cliError)
    | .error .helpExit => some .help
    | .error (.crash e) => some (.done (.escaped (errOfName e)))
    | .error (.unsupported _) => none
    | .ok b => if s.inline then inlineEnd s.cls (namespaceOf s b) else runCallX re env g ord s b

/-- the formula of the run (for the driver) -/
def cliBuiltX (re : RandEnv) (env : GraphEnv) (g : SimpleG) (ord : List String → Nat) (s : CliSpec)
    (argv : List String) : Option Built :=
  match parseX s argv with
  | .error _ => none
  | .ok b =>
    let ns := namespaceOf s b
    match selectTemplate ns (s.templates.map (fixTemplate ord ns)) with
    | .error _ => none
    | .ok t =>
      match instantiate ns t with
      | .error _ => none
      | .ok c => evalCallX re env g ns c

/-! ### the abstract check: every call the helper can make is one `evalCallX` maps

Run over the worlds of Cli/ArgparseAbs.lean (the namespaces the parser of `php` / a composed sub-command can produce). -/

/-- the sort of value a generator expects at a position -/
inductive PSort where
  | graph (k : String) | int | bool | intNone | anyv | opq
  deriving Repr, DecidableEq

structure Sig where
  fn : String
  pos : List PSort
  /-- keyword arguments that must be booleans -/
  kws : List String
  /-- attributes of the namespace the handler reads: they must hold an integer -/
  ints : List String
  deriving Repr

def sigs : List Sig :=
  [⟨"GraphOrderingPrinciple", [.graph "simple", .bool, .bool, .bool, .intNone], [], []⟩,
   ⟨"OrderingPrinciple", [.int, .bool, .bool, .bool, .intNone], [], []⟩,
   ⟨"TseitinFormula", [.graph "simple", .anyv], [], []⟩,
   ⟨"GraphPigeonholePrinciple", [.graph "bipartite"], ["functional", "onto"], []⟩,
   ⟨"GraphPigeonholePrinciple", [.opq], ["functional", "onto"], ["pigeons", "holes", "degree"]⟩,
   ⟨"PigeonholePrinciple", [.int, .int], ["functional", "onto"], []⟩,
   ⟨"SubsetCardinalityFormula", [.graph "bipartite", .bool], [], []⟩]

/-- every option (of the sub-command or of `php`'s inner parser) that stores a graph under `d` stores one of kind `k` -/
def destKind (s : CliSpec) (d k : String) : Bool :=
  ((s.opts ++ phpInner.poss).filter (fun o => o.dest == d)).all
    (fun o => (graphKind o.action).isNone || graphKind o.action == some k)

def isStar : Expr → Bool
  | .star _ => true
  | _ => false

def isBoolAV : Option AV → Bool
  | some .tt => true | some .ff => true | some .bool => true | _ => false

def isGraphAV : Option AV → Bool
  | some .graphC => true | some .graphAny => true | _ => false

/-- the expression at a position has the sort the generator expects, in every namespace of the world -/
def sortOK (s : CliSpec) (w : World) (e : Expr) : PSort → Bool
  | .graph k =>
    (match e with
     | .arg d => isGraphAV (w.lookup d) && destKind s d k
     | .mkgraph k' _ => k' == k && isGraphAV (aval w e)
     | _ => false)
  | .int => !isStar e && (match aval w e with | some a => isIntLike a | Option.none => false)
  | .bool => !isStar e && isBoolAV (aval w e)
  | .intNone => !isStar e && (match aval w e with | some a => isIntNone a | Option.none => false)
  | .anyv => !isStar e && (aval w e).isSome
  | .opq => !isStar e && aval w e == some .opq

def posSortsOK (s : CliSpec) (w : World) : List Expr → List PSort → Bool
  | [], [] => true
  | e :: es, p :: ps => sortOK s w e p && posSortsOK s w es ps
  | _, _ => false

def sigOK (s : CliSpec) (w : World) (t : CallTemplate) (sg : Sig) : Bool :=
  sg.fn == t.fn && posSortsOK s w t.pos sg.pos &&
  t.kw.all (fun p => (aval w p.2).isSome) &&
  sg.kws.all (fun k => match t.kw.lookup k with | some e => isBoolAV (aval w e) | Option.none => false) &&
  sg.ints.all (fun d => match w.lookup d with | some a => isIntLike a | Option.none => false)

/-- the path raises a shielded exception, or its call matches a signature `evalCallX` maps -/
def callOK (s : CliSpec) (w : World) (t : CallTemplate) : Bool :=
  if t.raises != "" then shielded t.raises else sigs.any (sigOK s w t)

/-- `arun` of Cli/ArgparseAbs.lean with the check of the path taken as a parameter -/
def arunG (ok : World → CallTemplate → Bool) (w : World) : List CallTemplate → Facts → Bool
  | [], _ => false
  | t :: rest, fs =>
    match aguard w t.guard fs with
    | Option.none => false
    | some outs => outs.all (fun o => if o.1 then ok (refine w o.2) t else arunG ok w rest o.2)

/-- in every world of the sub-command the helper takes a path that raises a shielded exception or makes a mapped call -/
def mappedWorldsOK (s : CliSpec) : Bool := (worlds s).all (fun w => arunG (callOK s) w s.templates [])

end Cnfgen.Cli
