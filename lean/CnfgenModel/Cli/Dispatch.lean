/-
L8 — the command line → library call mapping (`dispatch`).

  tokens of a sub-command  ──argparse──▶  namespace `args`  ──build_formula / transform_cnf──▶  Generator(…)

The second arrow is NOT written by hand: it is the list of call templates that tools/extract_tables.py
regenerates from the helpers' source (one template per path of the method, `Gen.cliSpecs`).  The first
arrow is a model of `argparse.ArgumentParser._parse_known_args` (CPython 3.12) for the sub-commands whose
options are standard, on the following fragment of command lines:

  * a token is an OPTION iff it is literally one of the option strings of the sub-command;
  * a token that does not start with `-`, the token `-`, and tokens that look like negative numbers
    (`-\d+`, `-\d*\.\d+`) are ARGUMENTS;
  * any other token starting with `-` (abbreviated options, `--opt=value`, clustered short flags, `--`,
    `-h`) is outside the fragment: `unsupported`.

Graph arguments are opaque token lists: `Val.graph kind toks` stands for `make_graph_from_spec(kind, toks)`
(what that call builds, and whether it refuses the tokens, is the subject of C15).

Import-free apart from the generated tables and the validators of Cli/Validate.lean.
-/
import CnfgenModel.Generated.Tables
import CnfgenModel.Cli.Validate
import CnfgenModel.Cli.TableChecks
namespace Cnfgen.Cli
open Cnfgen.Gen

/-! ### values, calls, errors -/

inductive Val where
  | none
  | bool (b : Bool)
  | int (i : Int)
  | str (s : String)
  | ints (l : List Int)                         -- value of a typed `nargs='*'` positional
  | graph (kind : String) (toks : List String)  -- `make_graph_from_spec(kind, toks)`
  | param (n : String)                          -- a parameter of the helper's method (`F`, `formula_class`)
  | toks (l : List String)                      -- a list of tokens (graph specification under construction;
                                                --   the tokens collected for a `compose_two_parsers` action)
  | pos                                         -- an unknown POSITIVE integer (order of a constructed graph)
  | opaque (src : String)                       -- value of an expression outside the fragment
  deriving Repr, DecidableEq, Inhabited

structure Call where
  fn : String
  pos : List Val
  kw : List (String × Val)
  deriving Repr, DecidableEq

inductive CliErr where
  | cliError                  -- `CLIError`: argparse refuses the tokens, or the helper raises ValueError
  | crash (exc : String)      -- the helper raises something `cli()` does not turn into a CLIError
  | unsupported (why : String)
  deriving Repr, DecidableEq

deriving instance DecidableEq for Except

def isUnsupported : Except CliErr Call → Bool
  | .error (.unsupported _) => true
  | _ => false

/-- the namespace: latest binding first -/
abbrev Ns := List (String × Val)

/-! ### the options -/

inductive Arity where
  | zero | one | plus | star | opt | other
  deriving Repr, DecidableEq

def graphKind (action : String) : Option String := graphActions.lookup action

def _root_.Cnfgen.Gen.OptSpec.arity (o : OptSpec) : Arity :=
  if o.action == "store_true" || o.action == "store_false" || o.action == "store_const" then
    (if o.nargs == "" && !o.positional then .zero else .other)
  else if (graphKind o.action).isSome then (if o.nargs == "" then .plus else .other)
  else if o.action == "" || o.action == "store" then
    (if o.nargs == "" then .one else if o.nargs == "*" && o.positional then .star
     else if o.nargs == "?" && o.positional then .opt else .other)
  else if o.action == "PHPArgs" && o.nargs == "*" && o.positional then .star
  else if o.action == "compose_two_parsers" && o.nargs == "*" && o.positional then .star
  else .other

def constVal : Expr → Val
  | .none => .none
  | .bool b => .bool b
  | .int i => .int i
  | .str s => .str s
  | _ => .opaque "const"

/-- the value a flag stores -/
def _root_.Cnfgen.Gen.OptSpec.flagVal (o : OptSpec) : Val :=
  if o.action == "store_true" then .bool true
  else if o.action == "store_false" then .bool false
  else constVal o.const

def _root_.Cnfgen.Gen.OptSpec.defaultVal (o : OptSpec) : Val :=
  if o.hasDefault then constVal o.default
  else if o.action == "store_true" then .bool false
  else if o.action == "store_false" then .bool true
  else .none

def typesOK : List String := ["", "int"] ++ intValidators

/-- an option the generic interpreter understands -/
def _root_.Cnfgen.Gen.OptSpec.standard (o : OptSpec) : Bool :=
  !o.nested && o.odd.isEmpty && o.action != "PHPArgs" && o.action != "compose_two_parsers" && o.group == "" &&
  (match o.arity with
   | .zero => o.ty == "" && o.choices.isEmpty
   | .one => typesOK.contains o.ty && (o.choices.isEmpty || o.ty == "")
   | .plus => o.ty == "" && o.choices.isEmpty
   | .star => intValidators.contains o.ty && o.choices.isEmpty && !o.hasDefault
   | .opt => false
   | .other => false) &&
  (o.positional || !o.flags.isEmpty) &&
  -- string defaults of typed options are converted by argparse after parsing: not modelled
  !(o.ty != "" && (match o.default with | .str _ => true | _ => false))

/-- `type=` applied to one token (then `choices`) -/
def convertOne (o : OptSpec) (t : String) : Option Val :=
  if o.ty == "" then
    (if o.choices.isEmpty || o.choices.contains t then some (.str t) else none)
  else (validate o.ty t).map .int

def intsOf : List Val → List Int
  | [] => []
  | .int i :: r => i :: intsOf r
  | _ :: r => intsOf r

/-! ### `float(s)` succeeds (ASCII fragment) — used by the custom action of `php` -/

/-- after a digit: `( _? digit )*`; returns what is left -/
def digitsTail : List Char → List Char
  | [] => []
  | c :: rest =>
    if c.isDigit then digitsTail rest
    else if c == '_' then
      (match rest with
       | d :: rest' => if d.isDigit then digitsTail rest' else c :: rest
       | [] => c :: rest)
    else c :: rest

/-- a non-empty digit part (single underscores between digits allowed); returns the rest -/
def digitPart (cs : List Char) : Option (List Char) :=
  match cs with
  | c :: rest => if c.isDigit then some (digitsTail rest) else none
  | [] => none

def expPart (cs : List Char) : Bool :=
  match cs with
  | [] => true
  | e :: rest =>
    if e == 'e' || e == 'E' then
      let rest := match rest with | '+' :: r => r | '-' :: r => r | r => r
      digitPart rest == some []
    else false

def floatBody (cs : List Char) : Bool :=
  let low := cs.map Char.toLower
  if low == "inf".toList || low == "infinity".toList || low == "nan".toList then true
  else
    match digitPart cs with
    | some ('.' :: rest) =>
      (match digitPart rest with
       | some r => expPart r
       | none => expPart rest)
    | some rest => expPart rest
    | none =>
      (match cs with
       | '.' :: rest => (match digitPart rest with | some r => expPart r | none => false)
       | _ => false)

def pyFloatOk (s : String) : Bool :=
  let cs := (s.toList.dropWhile isWs).reverse.dropWhile isWs |>.reverse
  match cs with
  | '+' :: rest => floatBody rest
  | '-' :: rest => floatBody rest
  | rest => floatBody rest

/-- `PHPArgs.__call__` of clihelpers/php_helpers.py (hand-written: a custom argparse action) -/
def phpArgs (toks : List String) : Except CliErr Ns :=
  match toks with
  | [] => .error .cliError
  | t :: _ =>
    if !pyFloatOk t then .ok [("B", .graph "bipartite" toks)]
    else if toks.length > 3 then .error .cliError
    else
      match toks.mapM pyInt? with
      | none => .error .cliError
      | some vs =>
        if vs.any (fun v => decide (v < 0)) then .error .cliError
        else
          match vs with
          | [a] => .ok [("degree", .int a), ("holes", .int a), ("pigeons", .int (a + 1))]
          | [a, b] => .ok [("degree", .int b), ("holes", .int b), ("pigeons", .int a)]
          | [a, b, c] =>
            if b < c then .error .cliError
            else .ok [("degree", .int c), ("holes", .int b), ("pigeons", .int a)]
          | _ => .error .cliError

/-! ### argparse: token classes -/

/-- `^-\d+$|^-\d*\.\d+$` -/
def isNegNumber (t : String) : Bool :=
  match t.toList with
  | '-' :: rest =>
    let ds := rest.takeWhile Char.isDigit
    match rest.dropWhile Char.isDigit with
    | [] => !ds.isEmpty
    | '.' :: frac => !frac.isEmpty && frac.all Char.isDigit
    | _ => false
  | _ => false

inductive Tok where
  | arg
  | opt (o : OptSpec)
  | outside
  deriving Repr, DecidableEq

def optOf (s : CliSpec) (t : String) : Option OptSpec :=
  s.opts.find? (fun o => !o.positional && o.flags.contains t)

def dashLike (t : String) : Bool :=
  (match t.toList with | '-' :: _ :: _ => true | _ => false) && !isNegNumber t

def classify (s : CliSpec) (t : String) : Tok :=
  match optOf s t with
  | some o => .opt o
  | none => if dashLike t then .outside else .arg

/-- the command line as: leading arguments, then each option with the arguments that follow it -/
def segments (s : CliSpec) : List String → Except CliErr (List String × List (OptSpec × List String))
  | [] => .ok ([], [])
  | t :: rest =>
    match segments s rest with
    | .error e => .error e
    | .ok (c, segs) =>
      match classify s t with
      | .arg => .ok (t :: c, segs)
      | .opt o => .ok ([], (o, c) :: segs)
      | .outside => .error (.unsupported "token outside the modelled fragment")

/-! ### argparse: actions -/

/-- the action of option `o` applied to the tokens matched to it -/
def bindOne (o : OptSpec) (toks : List String) : Except CliErr Ns :=
  if o.action == "PHPArgs" then phpArgs toks
  else if o.action == "compose_two_parsers" then .ok [(o.dest, .toks toks)]   -- expanded by `expand` below
  else
    match o.arity with
    | .zero => .ok [(o.dest, o.flagVal)]
    | .one =>
      (match toks with
       | [t] => (match convertOne o t with | some v => .ok [(o.dest, v)] | none => .error .cliError)
       | _ => .error .cliError)
    | .plus =>
      (match graphKind o.action, toks with
       | some k, _ :: _ => .ok [(o.dest, .graph k toks)]
       | _, _ => .error .cliError)
    | .star =>
      (match toks.mapM (convertOne o) with
       | some vs => .ok [(o.dest, .ints (intsOf vs))]
       | none => .error .cliError)
    | .opt =>
      (match toks with
       | [] => .ok [(o.dest, o.defaultVal)]
       | [t] => (match convertOne o t with | some v => .ok [(o.dest, v)] | none => .error .cliError)
       | _ => .error .cliError)
    | .other => .error (.unsupported "option")

/-- `consume_optional`: the option takes its arguments from the front of the arguments that follow it -/
def consumeOpt (o : OptSpec) (chunk : List String) : Except CliErr (Ns × List String) :=
  match o.arity with
  | .zero => (bindOne o []).map (fun b => (b, chunk))
  | .one =>
    (match chunk with
     | t :: rest => (bindOne o [t]).map (fun b => (b, rest))
     | [] => .error .cliError)
  | .plus =>
    (match chunk with
     | _ :: _ => (bindOne o chunk).map (fun b => (b, []))
     | [] => .error .cliError)
  | _ => .error (.unsupported "option arity")

def minArgs : Arity → Nat
  | .one => 1
  | .plus => 1
  | _ => 0

/-- how the regular expression `(A)(A+)(A*)…` built from the positionals' `nargs` splits a run of `L`
arguments (greedy, with backtracking; prefix match) -/
def counts : List Arity → Nat → Option (List Nat)
  | [], _ => some []
  | a :: rest, L =>
    let m := (rest.map minArgs).sum
    match a with
    | .one => if 1 + m ≤ L then (counts rest (L - 1)).map (1 :: ·) else none
    | .plus => if 1 + m ≤ L then (counts rest m).map ((L - m) :: ·) else none
    | .star => if m ≤ L then (counts rest m).map ((L - m) :: ·) else none
    | .opt =>
      if 1 + m ≤ L then (counts rest (L - 1)).map (1 :: ·)
      else if m ≤ L then (counts rest L).map (0 :: ·) else none
    | _ => none

/-- `_match_arguments_partial`: the longest prefix of the positionals whose pattern matches -/
def matchPartial (ars : List Arity) (L : Nat) : Nat → List Nat
  | 0 => []
  | i + 1 =>
    match counts (ars.take (i + 1)) L with
    | some c => c
    | none => matchPartial ars L i

/-- the positionals take their tokens in order -/
def applyPos : List OptSpec → List Nat → List String → Except CliErr Ns
  | o :: os, c :: cs, toks =>
    match bindOne o (toks.take c) with
    | .error e => .error e
    | .ok b =>
      match applyPos os cs (toks.drop c) with
      | .error e => .error e
      | .ok more => .ok (more ++ b)
  | _, _, _ => .ok []

/-- `consume_positionals` on a maximal run of arguments; arguments left over are "unrecognized arguments".
Inside the loop an empty run is skipped; the call after the last option is made even on an empty run. -/
def consumePos (ps : List OptSpec) (chunk : List String) (final : Bool) :
    Except CliErr (List OptSpec × Ns) :=
  if chunk.isEmpty && !final then .ok (ps, [])
  else
    let cs := matchPartial (ps.map OptSpec.arity) chunk.length ps.length
    if cs.sum < chunk.length then .error .cliError
    else
      match applyPos ps cs chunk with
      | .error e => .error e
      | .ok b => .ok (ps.drop cs.length, b)

/-- the loop of `_parse_known_args` after the leading run of arguments -/
def parseSegs : List OptSpec → List (OptSpec × List String) → Except CliErr Ns
  | ps, [] => if ps.isEmpty then .ok [] else .error .cliError      -- "the following arguments are required"
  | ps, (o, chunk) :: rest =>
    match consumeOpt o chunk with
    | .error e => .error e
    | .ok (b, chunk') =>
      match consumePos ps chunk' rest.isEmpty with
      | .error e => .error e
      | .ok (ps', bs) =>
        match parseSegs ps' rest with
        | .error e => .error e
        | .ok more => .ok (more ++ bs ++ b)

/-- the options of the sub-command's own parser (the others belong to the sub-parsers of a
`compose_two_parsers` action) -/
def mainOpts (s : CliSpec) : List OptSpec := s.opts.filter (fun o => !o.nested)

def positionals (s : CliSpec) : List OptSpec := (mainOpts s).filter (·.positional)

/-- every `required=True` option was given -/
def requiredSeen (s : CliSpec) (b : Ns) : Bool :=
  s.opts.all (fun o => o.positional || !o.required || b.any (fun p => p.1 == o.dest))

/-- no two different options of one mutually exclusive group -/
def mutexOK (segs : List (OptSpec × List String)) : Bool :=
  segs.all (fun p => segs.all (fun q => p.1.group == "" || p.1.group != q.1.group || p.1 == q.1))

/-- the bindings made by the sub-command's own parser, latest first; the tokens of a
`compose_two_parsers` action are kept as they are -/
def parseRaw (s : CliSpec) (argv : List String) : Except CliErr Ns :=
  match segments s argv with
  | .error e => .error e
  | .ok (chunk0, segs) =>
    if !mutexOK segs then .error .cliError
    else
    match consumePos (positionals s) chunk0 segs.isEmpty with
    | .error e => .error e
    | .ok (ps, b0) =>
      match parseSegs ps segs with
      | .error e => .error e
      | .ok more =>
        let b := more ++ b0
        if requiredSeen s b then .ok b else .error .cliError

/-! ### `compose_two_parsers` (clitools/cmdline.py)

`TmpAction.__call__`: no token → error; `float(values[0])` succeeds → `parser1.parse_args(values, namespace=args)`,
otherwise `parser2.parse_args(values, namespace=args)`.  The sub-parsers have positionals only; every token is
an argument for them too (they only know `-h`), so the sub-parse is one final `consume_positionals`; only the
dests of the CHOSEN sub-parser appear in the namespace. -/

def subPositionals (s : CliSpec) (p : String) : List OptSpec :=
  s.opts.filter (fun o => o.nested && o.parser == p && o.positional)

def composeParse (s : CliSpec) (o : OptSpec) (toks : List String) : Except CliErr Ns :=
  match o.compose, toks with
  | [p1, p2], t :: _ =>
    (match consumePos (subPositionals s (if pyFloatOk t then p1 else p2)) toks true with
     | .error e => .error e
     | .ok (rest, b) => if rest.isEmpty then .ok b else .error .cliError)
  | [_, _], [] => .error .cliError
  | _, _ => .error (.unsupported "compose")

def composeOpt (s : CliSpec) (d : String) : Option OptSpec :=
  s.opts.find? (fun o => o.dest == d && o.action == "compose_two_parsers" && !o.nested)

/-- every token list collected for a composed action is parsed by the sub-parser it selects -/
def expand (s : CliSpec) : Ns → Except CliErr Ns
  | [] => .ok []
  | (d, .toks l) :: rest =>
    (match composeOpt s d with
     | none => .error (.unsupported "token list")
     | some o =>
       match composeParse s o l with
       | .error e => .error e
       | .ok inner =>
         match expand s rest with
         | .error e => .error e
         | .ok more => .ok (inner ++ more))
  | p :: rest =>
    (match expand s rest with
     | .error e => .error e
     | .ok more => .ok (p :: more))

/-- the bindings made while parsing, latest first -/
def parseArgs (s : CliSpec) (argv : List String) : Except CliErr Ns :=
  match parseRaw s argv with
  | .error e => .error e
  | .ok b => expand s b

def defaults (s : CliSpec) : Ns := (mainOpts s).map (fun o => (o.dest, o.defaultVal))

/-! ### evaluation of the templates -/

def truthy : Val → Option Bool
  | .none => some false
  | .bool b => some b
  | .int i => some (i != 0)
  | .str s => some (s != "")
  | .ints l => some (!l.isEmpty)
  | _ => Option.none

def isNoneV : Val → Option Bool
  | .none => some true
  | .opaque _ => Option.none
  | .param _ => Option.none
  | _ => some false

def valEq : Val → Val → Option Bool
  | .int a, .int b => some (a == b)
  | .str a, .str b => some (a == b)
  | .bool a, .bool b => some (a == b)
  | .none, .none => some true
  | .none, .int _ => some false
  | .none, .str _ => some false
  | .none, .bool _ => some false
  | .int _, .none => some false
  | .str _, .none => some false
  | .bool _, .none => some false
  | .int _, .str _ => some false
  | .str _, .int _ => some false
  | _, _ => Option.none

/-- comparisons of an unknown positive integer with a constant that are decided all the same -/
def cmpPos (op : String) (k : Int) : Option Bool :=
  if op == "<" then (if k ≤ 1 then some false else Option.none)
  else if op == "<=" then (if k ≤ 0 then some false else Option.none)
  else if op == ">" then (if k ≤ 0 then some true else Option.none)
  else if op == ">=" then (if k ≤ 1 then some true else Option.none)
  else if op == "==" then (if k ≤ 0 then some false else Option.none)
  else if op == "!=" then (if k ≤ 0 then some true else Option.none)
  else Option.none

/-- Python's integer `+ - * % //` (floor division; `x % 0`, `x // 0` raise: not evaluable) -/
def evalBinop (op : String) (a b : Val) : Option Val :=
  match a, b with
  | .int x, .int y =>
    if op == "+" then some (.int (x + y))
    else if op == "-" then some (.int (x - y))
    else if op == "*" then some (.int (x * y))
    else if op == "%" then (if y == 0 then Option.none else some (.int (Int.fmod x y)))
    else if op == "//" then (if y == 0 then Option.none else some (.int (Int.fdiv x y)))
    else Option.none
  | .opaque _, _ => some (.opaque "arithmetic")
  | _, .opaque _ => some (.opaque "arithmetic")
  | .pos, _ => some (.opaque "arithmetic")
  | _, .pos => some (.opaque "arithmetic")
  | _, _ => Option.none

/-- `str(x)` of an element of a graph specification list -/
def tokOf : Val → Option String
  | .str s => some s
  | .int i => some (toString i)
  | _ => Option.none

/-- `G.order()`: a graph built by a construction has at least one vertex (every `obtain_*` of graph_build.py
refuses a non-positive size); the order of a graph read from a file is not known to the model -/
def orderOf : Val → Val
  | .graph k (c :: _) =>
    if ((graphConstructions.lookup k).getD []).contains c then .pos else .opaque "order of a graph file"
  | _ => .opaque "order"

def evalCmp (op : String) (a b : Val) : Option Bool :=
  match a, b with
  | .pos, .int k => cmpPos op k
  | _, _ =>
  if op == "==" then valEq a b
  else if op == "!=" then (valEq a b).map (!·)
  else
    match a, b with
    | .int x, .int y =>
      if op == "<" then some (decide (x < y))
      else if op == "<=" then some (decide (x ≤ y))
      else if op == ">" then some (decide (x > y))
      else if op == ">=" then some (decide (x ≥ y))
      else Option.none
    | _, _ => Option.none

/-- value of an expression in a namespace; `none`: not evaluable in the model (reading an attribute that
does not exist, a test on an opaque value, an ill-typed comparison) -/
def evalE (ns : Ns) : Expr → Option Val
  | .arg d => ns.lookup d
  | .hasattr d => some (.bool (ns.lookup d).isSome)
  | .getattr d e => match ns.lookup d with | some v => some v | Option.none => evalE ns e
  | .none => some .none
  | .bool b => some (.bool b)
  | .int i => some (.int i)
  | .str s => some (.str s)
  | .name n => some (.param n)
  | .not e => ((evalE ns e).bind truthy).map (fun b => .bool (!b))
  | .and a b =>
    (match evalE ns a with
     | Option.none => Option.none
     | some va =>
       match truthy va with
       | Option.none => Option.none
       | some false => some va
       | some true => evalE ns b)
  | .or a b =>
    (match evalE ns a with
     | Option.none => Option.none
     | some va =>
       match truthy va with
       | Option.none => Option.none
       | some true => some va
       | some false => evalE ns b)
  | .isNone e => ((evalE ns e).bind isNoneV).map .bool
  | .isNotNone e => ((evalE ns e).bind isNoneV).map (fun b => .bool (!b))
  | .cmp op a b =>
    (match evalE ns a, evalE ns b with
     | some va, some vb => (evalCmp op va vb).map .bool
     | _, _ => Option.none)
  | .ite c t e =>
    (match (evalE ns c).bind truthy with
     | Option.none => Option.none
     | some true => evalE ns t
     | some false => evalE ns e)
  | .star e => evalE ns e
  | .binop op a b =>
    (match evalE ns a, evalE ns b with
     | some va, some vb => evalBinop op va vb
     | _, _ => Option.none)
  | .order g => (evalE ns g).map orderOf
  | .nil => some (.toks [])
  | .cons h t =>
    (match evalE ns h, evalE ns t with
     | some vh, some (.toks l) =>
       (match tokOf vh with
        | some x => some (.toks (x :: l))
        | Option.none => some (.opaque "graph specification"))
     | some _, some _ => some (.opaque "graph specification")
     | _, _ => Option.none)
  | .mkgraph k spec =>
    (match evalE ns spec with
     | some (.toks l) => some (.graph k l)
     | some _ => some (.opaque "graph")
     | Option.none => Option.none)
  | .opaque src _ => some (.opaque src)

def evalGuard (ns : Ns) (e : Expr) : Option Bool := (evalE ns e).bind truthy

/-- positional arguments of the call; `*e` splices a list of integers -/
def evalPos (ns : Ns) : List Expr → Option (List Val)
  | [] => some []
  | e :: rest =>
    match evalE ns e, evalPos ns rest with
    | some v, some vs =>
      (match e, v with
       | .star _, .ints l => some (l.map .int ++ vs)
       | .star _, _ => Option.none
       | _, _ => some (v :: vs))
    | _, _ => Option.none

def evalKw (ns : Ns) : List (String × Expr) → Option (List (String × Val))
  | [] => some []
  | (k, e) :: rest =>
    match evalE ns e, evalKw ns rest with
    | some v, some vs => some ((k, v) :: vs)
    | _, _ => Option.none

/-- the path `build_formula` / `transform_cnf` takes: the first template whose guard holds -/
def selectTemplate (ns : Ns) : List CallTemplate → Except CliErr CallTemplate
  | [] => .error (.unsupported "no template applies")
  | t :: ts =>
    match evalGuard ns t.guard with
    | Option.none => .error (.unsupported "guard not evaluable")
    | some true => .ok t
    | some false => selectTemplate ns ts

/-- exceptions of the helper that `cli()` turns into a CLIError (`except (CLIError, ValueError, TypeError)`) -/
def shielded (exc : String) : Bool := exc == "ValueError" || exc == "CLIError" || exc == "TypeError" || exc == "OverflowError"

def instantiate (ns : Ns) (t : CallTemplate) : Except CliErr Call :=
  if t.raises != "" then (if shielded t.raises then .error .cliError else .error (.crash t.raises))
  else if t.fn == "" then .error (.unsupported "no library call")
  else
    match evalPos ns t.pos, evalKw ns t.kw with
    | some p, some k => .ok ⟨t.fn, p, k⟩
    | _, _ => .error (.unsupported "argument not evaluable")

/-! ### which sub-commands are handled -/

/-- no opaque test, no uninterpreted statement, every path ends in a library call or a `raise` -/
def _root_.Cnfgen.Gen.Expr.opaqueFree : Expr → Bool
  | .opaque _ _ => false
  | .getattr _ e => e.opaqueFree
  | .not e => e.opaqueFree
  | .isNone e => e.opaqueFree
  | .isNotNone e => e.opaqueFree
  | .star e => e.opaqueFree
  | .and a b => a.opaqueFree && b.opaqueFree
  | .or a b => a.opaqueFree && b.opaqueFree
  | .cmp _ a b => a.opaqueFree && b.opaqueFree
  | .ite c t e => c.opaqueFree && t.opaqueFree && e.opaqueFree
  | .binop _ a b => a.opaqueFree && b.opaqueFree
  | .order g => g.opaqueFree
  | .cons h t => h.opaqueFree && t.opaqueFree
  | .mkgraph _ sp => sp.opaqueFree
  | _ => true

def templateOK (t : CallTemplate) : Bool :=
  t.guard.opaqueFree && t.effects.isEmpty && (t.raises != "" || t.fn != "")

/-- sub-commands interpreted generically: standard options only -/
def _root_.Cnfgen.Gen.CliSpec.standard (s : CliSpec) : Bool :=
  s.name != "" && s.opts.all OptSpec.standard && !s.templates.isEmpty && s.templates.all templateOK

/-- sub-commands with a custom action that has a hand-written model (`php`) -/
def _root_.Cnfgen.Gen.CliSpec.special (s : CliSpec) : Bool :=
  s.cls == "PHPCmdHelper" &&
  s.opts.all (fun o => (o.action == "PHPArgs" && o.arity == .star && !o.nested) || o.standard) &&
  !s.templates.isEmpty && s.templates.all templateOK

/-- a flag of the sub-command's own parser that belongs to a mutually exclusive group -/
def groupedFlag (o : OptSpec) : Bool :=
  !o.nested && o.odd.isEmpty && o.arity == .zero && o.ty == "" && o.choices.isEmpty && !o.flags.isEmpty &&
  !o.required

/-- a positional of a sub-parser: one typed token, an optional typed token, or a graph -/
def subOption (s : CliSpec) (o : OptSpec) : Bool :=
  o.nested && o.positional && o.odd.isEmpty && o.compose.isEmpty && o.group == "" &&
  s.opts.any (fun c => c.compose.contains o.parser) &&
  (match o.arity with
   | .one => typesOK.contains o.ty && (o.choices.isEmpty || o.ty == "")
   | .opt => typesOK.contains o.ty && o.ty != "" && o.choices.isEmpty &&
             (match o.defaultVal with | .none => true | .int _ => true | _ => false)
   | .plus => o.ty == "" && o.choices.isEmpty
   | _ => false)

/-- the option carrying a `compose_two_parsers(p1, p2)` action -/
def composeOption (o : OptSpec) : Bool :=
  !o.nested && o.positional && o.odd.isEmpty && o.action == "compose_two_parsers" && o.arity == .star &&
  o.compose.length == 2 && o.group == ""

/-- sub-commands whose arguments go through `compose_two_parsers` (`op tseitin subsetcard xorcomp majcomp`) -/
def _root_.Cnfgen.Gen.CliSpec.composed (s : CliSpec) : Bool :=
  s.name != "" && s.opts.any composeOption &&
  s.opts.all (fun o => o.standard || groupedFlag o || subOption s o || composeOption o) &&
  !s.templates.isEmpty && s.templates.all (fun t => t.raises != "" || t.fn != "")

def _root_.Cnfgen.Gen.CliSpec.supported (s : CliSpec) : Bool := s.standard || s.special || s.composed

/-- the namespace `args` after parsing: the bindings made, over the defaults of the options -/
def namespaceOf (s : CliSpec) (b : Ns) : Ns := b ++ defaults s

/-- parse, then take the path of the helper's method: the template reached and the namespace -/
def dispatchTemplate (s : CliSpec) (argv : List String) : Except CliErr (CallTemplate × Ns) :=
  if !s.supported then .error (.unsupported "sub-command with custom argument handling")
  else
    match parseArgs s argv with
    | .error e => .error e
    | .ok b =>
      match selectTemplate (namespaceOf s b) s.templates with
      | .error e => .error e
      | .ok t => .ok (t, namespaceOf s b)

def dispatchSpec (s : CliSpec) (argv : List String) : Except CliErr Call :=
  match dispatchTemplate s argv with
  | .error e => .error e
  | .ok (t, ns) => instantiate ns t

def specOf (h : HelperSpec) : Option CliSpec :=
  cliSpecs.find? (fun s => s.cls == h.cls && s.name == h.name && s.kind == h.kind)

/-- the library call a sub-command line stands for -/
def dispatch (h : HelperSpec) (argv : List String) : Except CliErr Call :=
  match specOf h with
  | some s => dispatchSpec s argv
  | none => .error (.unsupported "no call templates for this helper")

/-- `dispatch` for the helper of a sub-command given by kind ("formula" / "transformation") and name -/
def dispatchNamed (kind name : String) (argv : List String) : Except CliErr Call :=
  match helpers.find? (fun h => h.kind == kind && h.name == name) with
  | some h => dispatch h argv
  | none => .error (.unsupported "no such sub-command")

def supportedNames (kind : String) : List String :=
  (cliSpecs.filter (fun s => s.kind == kind && s.supported)).map (·.name)

end Cnfgen.Cli
