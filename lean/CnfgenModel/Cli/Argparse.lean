/-
L8 — argparse as CPython 3.12 runs it on cnfgen's parsers (`ArgumentParser._parse_known_args`, `_parse_optional`,
`_get_option_tuples`, `consume_optional`, `consume_positionals`, `_get_values`), for EVERY list of tokens.

Cli/Dispatch.lean interprets a fragment of command lines (exact option strings, arguments that do not look like
options).  This file removes the restriction.  A token is first classified as argparse does (`classifyTok`):

  * an exact option string; `--opt=value`; a unique PREFIX of a long option (an ambiguous prefix is an error);
    a single-dash token `-xREST` whose first two characters are an option string (`REST` is the explicit argument:
    the value of `-x`, or — when `-x` takes no argument — further single-dash options, `-xyz` = `-x -y -z`);
  * `--`: everything after it is an argument; the `--` itself is swallowed by a positional;
  * negative-number-like tokens (`-\d+`, `-\d*\.\d+`) are arguments because no parser of cnfgen has a
    negative-number-like option (`hasNegOpts`); tokens containing a blank are arguments;
  * any other token that starts with `-` is an UNKNOWN option: it ends up in "unrecognized arguments"
    (a CLIError at the end of the parse — unless `-h` is met first);
  * `-h` / `--help` print the help text and leave with exit status 0 (`PErr.helpExit`).

Then the tokens are consumed as `_parse_known_args` does: positionals and options alternately, the options taking their
arguments from the run of arguments that follows them, the positionals matched against their `nargs` pattern as many
as possible (`matchPartial` of Cli/Dispatch.lean, unchanged); arguments left over and unknown options are remembered
(`extras`), errors of the actions are raised where they occur, so that `-h` wins exactly when it is reached first.

CPython 3.12.1 detail that is modelled because it is observable: `_get_values` removes the first `--` of the strings
given to EACH action; a positional with `nargs=None` whose only string was such a `--` receives the empty LIST
(`bphp -- 3 --` stores `N = []`).

The parsers built inside custom actions — the two sub-parsers of `compose_two_parsers`, the inner parser of `php`'s
`PHPArgs` — run the same engine on the tokens they are handed (`engine subBind`).

Import-free apart from the interpreter of the fragment, whose value / template layer is reused unchanged.
-/
import CnfgenModel.Cli.Dispatch
namespace Cnfgen.Cli.AP
open Cnfgen.Gen Cnfgen.Cli

/-! ### results -/

inductive PErr where
  | cliError                   -- `CLIError`
  | helpExit                   -- `-h`: help text, `sys.exit(0)`
  | crash (exc : String)       -- the helper raises something `cli()` does not shield
  | unsupported (why : String)
  deriving Repr, DecidableEq

def liftErr : CliErr → PErr
  | .cliError => .cliError
  | .crash e => .crash e
  | .unsupported w => .unsupported w

def liftE {α : Type} : Except CliErr α → Except PErr α
  | .ok a => .ok a
  | .error e => .error (liftErr e)

/-! ### the option strings of a parser -/

inductive Target where
  | opt (o : OptSpec)
  | help
  deriving Repr, DecidableEq

/-- a parser as argparse sees it: its optionals and its positionals (in order) -/
structure PSpec where
  opts : List OptSpec
  poss : List OptSpec
  deriving Repr

/-- `_option_string_actions` (`add_help=True` everywhere) -/
def optStrings (opts : List OptSpec) : List (String × Target) :=
  [("-h", .help), ("--help", .help)] ++ opts.flatMap (fun o => o.flags.map (fun f => (f, Target.opt o)))

def PSpec.strings (p : PSpec) : List (String × Target) := optStrings p.opts

def lookupOS (strs : List (String × Target)) (t : String) : Option Target :=
  (strs.find? (fun x => x.1 == t)).map (·.2)

/-- `_has_negative_number_optionals` -/
def hasNegOpts (strs : List (String × Target)) : Bool := strs.any (fun x => isNegNumber x.1)

/-! ### `_parse_optional` -/

inductive Item where
  | arg (t : String)                                       -- 'A'
  | dd                                                     -- the first `--`: '-'
  | opt (tg : Target) (os : String) (ex : Option String)   -- 'O': action, option string, explicit argument
  | unknown (t : String)                                   -- 'O' without an action
  | ambiguous (t : String)                                 -- `parser.error("ambiguous option …")`
  deriving Repr, DecidableEq

/-- `s.split('=', 1)` when `'=' in s` -/
def splitEq : List Char → Option (List Char × List Char)
  | [] => none
  | c :: cs => if c == '=' then some ([], cs) else (splitEq cs).map (fun p => (c :: p.1, p.2))

/-- `_get_option_tuples` (allow_abbrev is True: `CLIParser.__init` is never called, the default applies) -/
def optionTuples (strs : List (String × Target)) (cs : List Char) : List (Target × String × Option String) :=
  match cs with
  | '-' :: c :: _ =>
    if c == '-' then
      -- two prefix characters: split at the `=`, every option string that starts with the part before it
      let pe : List Char × Option String :=
        match splitEq cs with
        | some (a, b) => (a, some (String.ofList b))
        | none => (cs, none)
      (strs.filter (fun x => pe.1.isPrefixOf x.1.toList)).map (fun x => (x.2, x.1, pe.2))
    else
      -- one prefix character: the option string made of the first two characters (the rest is its explicit
      -- argument), and every option string that starts with the whole token
      strs.filterMap (fun x =>
        if x.1.toList == cs.take 2 then some (x.2, x.1, some (String.ofList (cs.drop 2)))
        else if cs.isPrefixOf x.1.toList then some (x.2, x.1, none)
        else none)
  | _ => []

def classifyTok (strs : List (String × Target)) (t : String) : Item :=
  match t.toList with
  | [] => .arg t
  | c :: rest =>
    if c != '-' then .arg t
    else
      match lookupOS strs t with
      | some tg => .opt tg t none
      | none =>
        if rest.isEmpty then .arg t
        else
          let viaEq : Option Item :=
            match splitEq (c :: rest) with
            | some (pre, ex) =>
              (match lookupOS strs (String.ofList pre) with
               | some tg => some (.opt tg (String.ofList pre) (some (String.ofList ex)))
               | none => none)
            | none => none
          match viaEq with
          | some it => it
          | none =>
            match optionTuples strs (c :: rest) with
            | [x] => .opt x.1 x.2.1 x.2.2
            | _ :: _ :: _ => .ambiguous t
            | [] =>
              if isNegNumber t && !hasNegOpts strs then .arg t
              else if rest.contains ' ' then .arg t
              else .unknown t

/-- the loop that builds `arg_strings_pattern`: after the first `--` everything is an argument -/
def itemize (strs : List (String × Target)) : List String → List Item
  | [] => []
  | t :: rest => if t == "--" then .dd :: rest.map .arg else classifyTok strs t :: itemize strs rest

def Item.isAmbiguous : Item → Bool
  | .ambiguous _ => true
  | _ => false

/-! ### runs of arguments -/

/-- a maximal run of 'A' (and at most one '-') in the pattern: the argument strings, and how many of them precede
the `--` when it is in this run -/
structure Run where
  args : List String
  dd : Option Nat
  deriving Repr, DecidableEq

inductive OptItem where
  | known (tg : Target) (os : String) (ex : Option String)
  | unknown
  deriving Repr, DecidableEq

/-- leading run, then every option with the run that follows it -/
def segs : List Item → Run × List (OptItem × Run)
  | [] => (⟨[], none⟩, [])
  | it :: rest =>
    match segs rest with
    | (r, ss) =>
      match it with
      | .arg t => (⟨t :: r.args, r.dd.map (· + 1)⟩, ss)
      | .dd => (⟨r.args, some 0⟩, ss)
      | .opt tg os ex => (⟨[], none⟩, (.known tg os ex, r) :: ss)
      | .unknown _ => (⟨[], none⟩, (.unknown, r) :: ss)
      | .ambiguous _ => (⟨[], none⟩, (.unknown, r) :: ss)

/-- the arguments an option may take: '-' is not allowed in the pattern of an optional -/
def Run.avail (r : Run) : List String :=
  match r.dd with
  | none => r.args
  | some a => r.args.take a

def Run.dropFront (r : Run) (n : Nat) : Run := ⟨r.args.drop n, r.dd.map (· - n)⟩

/-! ### the state of `_parse_known_args` -/

abbrev Bind := OptSpec → List String → Except PErr Ns

structure PState where
  ps : List OptSpec        -- positionals not yet consumed
  ns : Ns                  -- bindings made, latest first
  extras : Bool            -- `extras` is non-empty
  seen : List OptSpec      -- members of mutually exclusive groups taken so far (`seen_non_default_actions`)
  deriving Repr

/-- `take_action`: conflict with an earlier member of the same mutually exclusive group, then the action -/
def takeAction (bind : Bind) (o : OptSpec) (toks : List String) (st : PState) : Except PErr PState :=
  if o.group != "" && st.seen.any (fun o' => o'.group == o.group && o' != o) then .error .cliError
  else
    match bind o toks with
    | .error e => .error e
    | .ok b => .ok { st with ns := b ++ st.ns, seen := if o.group != "" then o :: st.seen else st.seen }

/-! ### `consume_positionals` -/

/-- the group of the match that holds the `--`: the one with the last argument before it (its trailing `-*`),
the first group when no argument precedes it (its leading `-*`) -/
def ddGroup : List Nat → Nat → Nat
  | [], _ => 0
  | c :: cs, a => if a ≤ c then 0 else 1 + ddGroup cs (a - c)

def slices : List Nat → List String → List (List String)
  | [], _ => []
  | c :: cs, toks => toks.take c :: slices cs (toks.drop c)

/-- every positional of the match takes its action on its strings; `_get_values` first removes the first `--` among
them (for the group that holds the `--` of the pattern that is this one; for the others, a later literal `--`) -/
def applyPosX (bind : Bind) : List OptSpec → List (List String) → Nat → Option Nat → PState → Except PErr PState
  | o :: os, sl :: sls, i, ddg, st =>
    match takeAction bind o (if ddg == some i then sl else sl.erase "--") st with
    | .error e => .error e
    | .ok st' => applyPosX bind os sls (i + 1) ddg st'
  | _, _, _, _, st => .ok st

/-- is the `--` of the run inside the match -/
def ddTaken (cs : List Nat) (run : Run) : Bool :=
  match run.dd with
  | some a => !cs.isEmpty && decide (a ≤ cs.sum)
  | none => false

/-- index of the group that holds it -/
def ddgOf (cs : List Nat) (run : Run) : Option Nat :=
  match run.dd with
  | some a => if ddTaken cs run then some (ddGroup cs a) else none
  | none => none

/-- something of the run is not consumed -/
def leftOver (cs : List Nat) (run : Run) : Bool :=
  decide (cs.sum < run.args.length) || (run.dd.isSome && !ddTaken cs run)

/-- `consume_positionals` on a run.  Inside the loop it is called only on a non-empty run; after the last option it
is called in any case.  What it does not consume goes to `extras`. -/
def consumePosX (bind : Bind) (run : Run) (final : Bool) (st : PState) : Except PErr PState :=
  if run.args.isEmpty && run.dd.isNone && !final then .ok st
  else
    match applyPosX bind st.ps
        (slices (matchPartial (st.ps.map OptSpec.arity) run.args.length st.ps.length) run.args) 0
        (ddgOf (matchPartial (st.ps.map OptSpec.arity) run.args.length st.ps.length) run) st with
    | .error e => .error e
    | .ok st' =>
      .ok { st' with
            ps := st.ps.drop (matchPartial (st.ps.map OptSpec.arity) run.args.length st.ps.length).length,
            extras := st'.extras ||
              leftOver (matchPartial (st.ps.map OptSpec.arity) run.args.length st.ps.length) run }

/-! ### `consume_optional` -/

def arityT : Target → Arity
  | .help => .zero
  | .opt o => o.arity

/-- the explicit argument `e` of an option: its value when the option takes one; when it takes none and is a
single-dash option, `e` continues with further single-dash options (`-xyz`).  Result: the options without
argument met on the way, the last option, and its explicit argument if the characters did not run out. -/
def cluster (strs : List (String × Target)) : Target → Bool → List Char →
    Except PErr (List Target × Target × Option String)
  | tg, _, [] =>
    (match arityT tg with
     | .zero => .error .cliError                       -- "ignored explicit argument ''"
     | .one => .ok ([], tg, some "")
     | .plus => .ok ([], tg, some "")
     | _ => .error (.unsupported "option arity"))
  | tg, single, c :: e' =>
    (match arityT tg with
     | .zero =>
       if !single then .error .cliError                -- `--flag=value`
       else
         match lookupOS strs (String.ofList ['-', c]) with
         | none => .error .cliError                    -- "ignored explicit argument"
         | some tg' =>
           if e'.isEmpty then .ok ([tg], tg', none)
           else
             match cluster strs tg' true e' with
             | .error x => .error x
             | .ok (l, r) => .ok (tg :: l, r)
     | .one => .ok ([], tg, some (String.ofList (c :: e')))
     | .plus => .ok ([], tg, some (String.ofList (c :: e')))
     | _ => .error (.unsupported "option arity"))

/-- the actions of the options without argument of a chain, in order -/
def runFlags (bind : Bind) : List Target → PState → Except PErr PState
  | [], st => .ok st
  | .help :: _, _ => .error .helpExit
  | .opt o :: rest, st =>
    match takeAction bind o [] st with
    | .error e => .error e
    | .ok st' => runFlags bind rest st'

/-- is the option string a single-dash one (`option_string[1] not in prefix_chars`) -/
def singleDash (os : String) : Bool :=
  match os.toList with
  | _ :: c :: _ => c != '-'
  | _ => false

/-- the chain of options one token stands for -/
def chainOf (strs : List (String × Target)) (tg : Target) (os : String) (ex : Option String) :
    Except PErr (List Target × Target × Option String) :=
  match ex with
  | none => .ok ([], tg, none)
  | some e => cluster strs tg (singleDash os) e.toList

/-- the arguments of the last option of the chain: its explicit argument, or what its `nargs` pattern matches at
the front of the run that follows -/
def takeArgs (last : Target) (lex : Option String) (run : Run) : Except PErr (List String × Run) :=
  match lex with
  | some e => .ok ([e], run)
  | none =>
    match arityT last with
    | .zero => .ok ([], run)
    | .one => (match run.avail with | t :: _ => .ok ([t], run.dropFront 1) | [] => .error .cliError)
    | .plus =>
      (match run.avail with
       | _ :: _ => .ok (run.avail, run.dropFront run.avail.length)
       | [] => .error .cliError)
    | _ => .error (.unsupported "option arity")

/-- the action of the last option.  `CLIParser._get_values` (cmdline.py) refuses an optional whose only string is `--`
(`--opt=--`, `-G--`): argparse 3.12.1 would drop it and hand NO string to the action. -/
def lastAction (bind : Bind) (last : Target) (toks : List String) (st : PState) : Except PErr PState :=
  match last with
  | .help => .error .helpExit
  | .opt o => if toks == ["--"] then .error .cliError else takeAction bind o (toks.erase "--") st

/-- `consume_optional`: the chain is worked out first (errors before any action), the last option takes its
arguments from the explicit argument or from the run that follows, then the actions run in order -/
def consumeOptX (bind : Bind) (strs : List (String × Target)) (tg : Target) (os : String) (ex : Option String)
    (run : Run) (st : PState) : Except PErr (PState × Run) :=
  match chainOf strs tg os ex with
  | .error x => .error x
  | .ok (flags, last, lex) =>
    match takeArgs last lex run with
    | .error x => .error x
    | .ok (toks, run') =>
      match runFlags bind flags st with
      | .error x => .error x
      | .ok st1 =>
        match lastAction bind last toks st1 with
        | .error x => .error x
        | .ok st2 => .ok (st2, run')

/-- one option of the command line (an unknown one goes to `extras`) with the run that follows it -/
def stepOpt (bind : Bind) (strs : List (String × Target)) (oi : OptItem) (run : Run) (st : PState) :
    Except PErr (PState × Run) :=
  match oi with
  | .unknown => .ok ({ st with extras := true }, run)
  | .known tg os ex => consumeOptX bind strs tg os ex run st

/-! ### the loop -/

def runSegs (bind : Bind) (strs : List (String × Target)) : List (OptItem × Run) → PState → Except PErr PState
  | [], st => .ok st
  | (oi, run) :: rest, st =>
    match stepOpt bind strs oi run st with
    | .error x => .error x
    | .ok (st1, run1) =>
      match consumePosX bind run1 rest.isEmpty st1 with
      | .error x => .error x
      | .ok st2 => runSegs bind strs rest st2

/-- every `required=True` option was given -/
def requiredOK (p : PSpec) (b : Ns) : Bool :=
  p.opts.all (fun o => !o.required || b.any (fun q => q.1 == o.dest))

/-- the end of `_parse_known_args` / `parse_args`: "the following arguments are required", "unrecognized arguments" -/
def finish (p : PSpec) (r : Except PErr PState) : Except PErr Ns :=
  match r with
  | .error x => .error x
  | .ok st => if !st.ps.isEmpty || st.extras || !requiredOK p st.ns then .error .cliError else .ok st.ns

/-- `parse_args`: classification of all tokens (an ambiguous prefix is an error at once), the loop, the positionals
after the last option, then the final checks -/
def engineItems (bind : Bind) (p : PSpec) (items : List Item) : Except PErr Ns :=
  if items.any Item.isAmbiguous then .error .cliError
  else
    match consumePosX bind (segs items).1 (segs items).2.isEmpty ⟨p.poss, [], false, []⟩ with
    | .error x => .error x
    | .ok st0 => finish p (runSegs bind p.strings (segs items).2 st0)

def engine (bind : Bind) (p : PSpec) (argv : List String) : Except PErr Ns :=
  engineItems bind p (itemize p.strings argv)

/-! ### the actions -/

def isFileType (ty : String) : Bool := "argparse.FileType".toList.isPrefixOf ty.toList

/-- the action of a plain option on the strings `_get_values` hands to it.  Differences with `bindOne`:
`nargs=None` / a graph action given NO string (possible only through the removal of a `--`) store the empty list /
call `make_graph_from_spec(kind, [])`; `type=argparse.FileType('r')` stores the (opened) file, named by the token. -/
def bindBase : Bind := fun o toks =>
  if isFileType o.ty then
    (match o.arity, toks with
     | .opt, [] => (match o.default with | .str d => .ok [(o.dest, .str d)] | _ => .ok [(o.dest, o.defaultVal)])
     | .opt, [t] => .ok [(o.dest, .str t)]
     | .one, [t] => .ok [(o.dest, .str t)]
     | .one, [] => .ok [(o.dest, .ints [])]
     | .opt, _ => .error .cliError               -- (the pattern of `?` / of a single argument never matches two)
     | .one, _ => .error .cliError
     | _, _ => .error (.unsupported "file option"))
  else
    match o.arity, toks with
    | .one, [] => .ok [(o.dest, .ints [])]
    | .plus, [] =>
      (match graphKind o.action with
       | some k => .ok [(o.dest, .graph k [])]
       | none => .error .cliError)
    | _, _ => liftE (bindOne o toks)

/-- the inner parser of `PHPArgs`: one positional, a bipartite graph -/
def phpInner : PSpec :=
  ⟨[], [⟨"B", ["B"], true, "ObtainBipartiteGraph", "", "", [], false, .none, false, .none, false, true, [],
          "innerparser", [], ""⟩]⟩

/-- `PHPArgs.__call__`: a first token that is not a number sends ALL the tokens to the inner parser -/
def phpArgsX (toks : List String) : Except PErr Ns :=
  match toks with
  | [] => .error .cliError
  | t :: _ => if !pyFloatOk t then engine bindBase phpInner toks else liftE (phpArgs toks)

/-- `compose_two_parsers`: the chosen sub-parser parses the tokens (`parse_args(values, namespace=args)`) -/
def composeX (s : CliSpec) (o : OptSpec) (toks : List String) : Except PErr Ns :=
  match o.compose, toks with
  | [p1, p2], t :: _ => engine bindBase ⟨[], subPositionals s (if pyFloatOk t then p1 else p2)⟩ toks
  | [_, _], [] => .error .cliError
  | _, _ => .error (.unsupported "compose")

def mainBind (s : CliSpec) : Bind := fun o toks =>
  if o.action == "PHPArgs" then phpArgsX toks
  else if o.action == "compose_two_parsers" then composeX s o toks
  else bindBase o toks

def mainSpec (s : CliSpec) : PSpec := ⟨(mainOpts s).filter (fun o => !o.positional), positionals s⟩

/-- the bindings the sub-command's parser makes on ANY list of tokens, latest first -/
def parseX (s : CliSpec) (argv : List String) : Except PErr Ns := engine (mainBind s) (mainSpec s) argv

/-! ### the level above: the tool's own parser sees the tokens first

`cnfgen <options> <formula> <tokens…>`: the main parser classifies EVERY token up to the first `--` before it hands
the ones after the sub-command name to the sub-parser; a token that is an ambiguous prefix of the main parser's own
options (`--v`, `--he`, `--o`, …) is an error there.  The transformation chunks (`-T <name> <tokens…>`) are parsed by
a parser that has only `-h`. -/

def topStrings (tool kind : String) : List (String × Target) :=
  if kind == "transformation" then optStrings []
  else
    match tools.find? (fun t => t.tool == tool) with
    | some t => optStrings [] ++ (t.args.flatMap (·.flags)).map (fun f => (f, Target.help))
    | none => optStrings []

def topAmbiguous (tool kind : String) (argv : List String) : Bool :=
  (argv.takeWhile (fun t => t != "--")).any (fun t => (classifyTok (topStrings tool kind) t).isAmbiguous)

/-! ### what a command line builds -/

/-- a library call, or — for the helpers that build the formula themselves — the formula -/
inductive Built where
  | call (c : Call)
  | formula (nvars : Nat) (clauses : List (List Int))
  | same                                                -- `-T none`: the formula it was given
  deriving Repr, DecidableEq

/-- `G.order()` of a graph read from a FILE is not known to the model: it is a parameter (`ord`, a function of the
tokens).  The occurrences that evaluate to such a graph are replaced by its value. -/
def fixOrder (ord : List String → Nat) (ns : Ns) : Expr → Expr
  | .order g =>
    (match evalE ns g with
     | some (.graph k (c :: r)) =>
       if ((graphConstructions.lookup k).getD []).contains c then .order g else .int (ord (c :: r))
     | some (.graph _ []) => .int (ord [])
     | _ => .order g)
  | .getattr d e => .getattr d (fixOrder ord ns e)
  | .not e => .not (fixOrder ord ns e)
  | .isNone e => .isNone (fixOrder ord ns e)
  | .isNotNone e => .isNotNone (fixOrder ord ns e)
  | .star e => .star (fixOrder ord ns e)
  | .and a b => .and (fixOrder ord ns a) (fixOrder ord ns b)
  | .or a b => .or (fixOrder ord ns a) (fixOrder ord ns b)
  | .cmp op a b => .cmp op (fixOrder ord ns a) (fixOrder ord ns b)
  | .ite c t e => .ite (fixOrder ord ns c) (fixOrder ord ns t) (fixOrder ord ns e)
  | .binop op a b => .binop op (fixOrder ord ns a) (fixOrder ord ns b)
  | .cons h t => .cons (fixOrder ord ns h) (fixOrder ord ns t)
  | .mkgraph k sp => .mkgraph k (fixOrder ord ns sp)
  | e => e

def fixTemplate (ord : List String → Nat) (ns : Ns) (t : CallTemplate) : CallTemplate :=
  { t with guard := fixOrder ord ns t.guard, pos := t.pos.map (fixOrder ord ns),
           kw := t.kw.map (fun p => (p.1, fixOrder ord ns p.2)) }

/-! #### the helpers that build the formula inline

Their bodies are not library calls; the model of what they build is written by hand below and PINNED to the source:
`inlinePinned` is the list of templates (return expression and statements, as the translator prints them) for which
the hand-written model was made.  A helper whose regenerated templates differ is no longer handled. -/

def inlinePinned : List (String × List CallTemplate) := [
  ("AND", [⟨.bool true, "", "", [.opaque "F after `F.add_clauses_from(([-v] for v in negative))`" ["P", "N"]], [],
            ["F.add_clauses_from(([v] for v in positive))", "F.add_clauses_from(([-v] for v in negative))"]⟩]),
  ("OR", [⟨.bool true, "", "", [.opaque "F after `F.add_clause(clause)`" ["P", "N"]], [],
           ["clause.extend(positive)", "clause.extend((-v for v in negative))", "F.add_clause(clause)"]⟩]),
  ("TRUE", [⟨.bool true, "", "", [.opaque "formula_class(description='Formula with no clauses')" []], [], []⟩]),
  ("FALSE", [⟨.bool true, "", "", [.opaque "F after `F.add_clause([])`" []], [], ["F.add_clause([])"]⟩]),
  ("DimacsCmdHelper", [⟨.bool true, "", "", [.opaque "from_dimacs_file(formula_class, args.input)" ["input"]], [],
                        ["with msg_prefix('INPUT: '):\n    interactive_msg(msg)"]⟩]),
  ("NoSubstitutionCmd", [⟨.bool true, "", "", [.name "F"], [], []⟩])]

/-- the literals `1 … n` -/
def upTo (n : Nat) : List Int := (List.range n).map (fun i => ((i + 1 : Nat) : Int))

/-- what the inline helpers return, from the namespace.  `and` / `or` hand their two numbers to `F.new_block`, which
refuses anything that is not a non-negative integer with ValueError (the empty list that CPython 3.12.1 stores for
a lone `--` included): a CLIError. -/
def inlineBuild (cls : String) (ns : Ns) : Except PErr Built :=
  if cls == "AND" then
    (match ns.lookup "P", ns.lookup "N" with
     | some (.int p), some (.int n) =>
       .ok (.formula (p.toNat + n.toNat)
         ((upTo p.toNat).map (fun v => [v]) ++ (upTo n.toNat).map (fun v => [-(v + (p.toNat : Int))])))
     | some (.ints []), some _ => .error .cliError
     | some _, some (.ints []) => .error .cliError
     | _, _ => .error (.unsupported "inline helper"))
  else if cls == "OR" then
    (match ns.lookup "P", ns.lookup "N" with
     | some (.int p), some (.int n) =>
       .ok (.formula (p.toNat + n.toNat) [upTo p.toNat ++ (upTo n.toNat).map (fun v => -(v + (p.toNat : Int)))])
     | some (.ints []), some _ => .error .cliError
     | some _, some (.ints []) => .error .cliError
     | _, _ => .error (.unsupported "inline helper"))
  else if cls == "TRUE" then .ok (.formula 0 [])
  else if cls == "FALSE" then .ok (.formula 0 [[]])
  else if cls == "DimacsCmdHelper" then
    (match ns.lookup "input" with
     | some v => .ok (.call ⟨"from_dimacs_file", [.param "formula_class", v], []⟩)
     | none => .error (.unsupported "inline helper"))
  else if cls == "NoSubstitutionCmd" then .ok .same
  else .error (.unsupported "inline helper")

/-- an option of an inline helper: a typed positional, or the optional input file of `dimacs` -/
def inlineOpt (o : OptSpec) : Bool :=
  o.standard ||
  (o.positional && !o.nested && o.odd.isEmpty && o.group == "" && o.arity == .opt && isFileType o.ty &&
   o.choices.isEmpty && (match o.default with | .str _ => true | _ => false))

def _root_.Cnfgen.Gen.CliSpec.inline (s : CliSpec) : Bool :=
  s.name != "" && inlinePinned.lookup s.cls == some s.templates && s.opts.all inlineOpt

/-- every sub-command the extended interpreter handles -/
def _root_.Cnfgen.Gen.CliSpec.supportedX (s : CliSpec) : Bool := s.supported || s.inline

/-- a dest that takes ONE string (`nargs=None`) -/
def quirkDest (s : CliSpec) (d : String) : Bool := s.opts.any (fun o => o.dest == d && o.arity == .one)

/-- a single-argument option holds the empty list: only CPython 3.12.1's removal of a lone `--` produces that -/
def hasQuirk (s : CliSpec) (b : Ns) : Bool := b.any (fun p => p.2 == .ints [] && quirkDest s p.1)

/-- parse (any tokens), then take the path of the helper's method -/
def dispatchTemplateX (ord : List String → Nat) (s : CliSpec) (argv : List String) :
    Except PErr (CallTemplate × Ns) :=
  match parseX s argv with
  | .error e => .error e
  | .ok b =>
    match selectTemplate (namespaceOf s b) (s.templates.map (fixTemplate ord (namespaceOf s b))) with
    | .error e => .error (liftErr e)
    | .ok t => .ok (t, namespaceOf s b)

/-- the library call of the path taken -/
def callOf (ord : List String → Nat) (s : CliSpec) (b : Ns) : Except PErr Built :=
  match selectTemplate (namespaceOf s b) (s.templates.map (fixTemplate ord (namespaceOf s b))) with
  | .error e => .error (liftErr e)
  | .ok t => (liftE (instantiate (namespaceOf s b) t)).map .call

/-- a guard or an argument that cannot be evaluated because a single-argument option holds the empty list instead
of a number: the helpers' guards compare it with an integer (`[] > 2`), which raises TypeError — and `cli()` reports a
TypeError of `build_formula` / `transform_cnf` as a CLIError (`except (CLIError, ValueError, TypeError)`) -/
def quirkCrash (s : CliSpec) (b : Ns) (r : Except PErr Built) : Except PErr Built :=
  match r with
  | .error (.unsupported w) => if hasQuirk s b then .error .cliError else .error (.unsupported w)
  | r => r

def dispatchSpecX (tool : String) (ord : List String → Nat) (s : CliSpec) (argv : List String) :
    Except PErr Built :=
  if !s.supportedX then .error (.unsupported "sub-command with custom argument handling")
  else if topAmbiguous tool s.kind argv then .error .cliError
  else
    match parseX s argv with
    | .error e => .error e
    | .ok b =>
      if s.inline then inlineBuild s.cls (namespaceOf s b)
      else quirkCrash s b (callOf ord s b)

/-- what `tool … <sub-command> argv` builds; `ord`: the number of vertices of a graph FILE, by its tokens -/
def dispatchX (tool : String) (ord : List String → Nat) (h : HelperSpec) (argv : List String) : Except PErr Built :=
  match specOf h with
  | some s => dispatchSpecX tool ord s argv
  | none => .error (.unsupported "no call templates for this helper")

def dispatchNamedX (tool : String) (ord : List String → Nat) (kind name : String) (argv : List String) :
    Except PErr Built :=
  match helpers.find? (fun h => h.kind == kind && h.name == name) with
  | some h => dispatchX tool ord h argv
  | none => .error (.unsupported "no such sub-command")

/-- what the totality of the parser needs of an option: a modelled arity; a file type only on a single / optional
argument; an optional takes no, one or `+` arguments; a composed action names its two sub-parsers -/
def goodOpt (o : OptSpec) : Bool :=
  o.arity != .other &&
  (!isFileType o.ty || o.arity == .opt || o.arity == .one) &&
  (o.positional || o.arity == .zero || o.arity == .one || o.arity == .plus) &&
  (o.action != "compose_two_parsers" || o.compose.length == 2)

/-! ### decidable checks over the option strings of a parser (used by the table theorems) -/

/-- the proper prefixes of at least three characters -/
def prefixesOf (f : String) : List String :=
  (List.range f.toList.length).filterMap (fun k => if 3 ≤ k then some (String.ofList (f.toList.take k)) else none)

/-- every proper prefix of a long option string is read as argparse documents: the option itself when no other
option string starts with it, an ambiguity error otherwise (unless the prefix is itself an option string) -/
def abbrevOK (strs : List (String × Target)) : Bool :=
  strs.all (fun x =>
    !("--".toList.isPrefixOf x.1.toList) ||
    (prefixesOf x.1).all (fun a =>
      (lookupOS strs a).isSome ||
      (if (strs.filter (fun y => a.toList.isPrefixOf y.1.toList)).length == 1
       then classifyTok strs a == .opt x.2 x.1 none
       else classifyTok strs a == .ambiguous a)))

/-- the single-dash, one-letter option strings of options without argument (`-h` included) -/
def shortFlags (strs : List (String × Target)) : List (String × Target) :=
  strs.filter (fun x => (match x.1.toList with | ['-', c] => c != '-' | _ => false) && arityT x.2 == .zero)

def letterOf (f : String) : List Char := f.toList.drop 1

/-- every two / three short flags written as one token are read as the first one with the letters of the others
as explicit argument -/
def clusterOK (strs : List (String × Target)) : Bool :=
  (shortFlags strs).all (fun x => (shortFlags strs).all (fun y =>
    classifyTok strs (x.1 ++ String.ofList (letterOf y.1)) == .opt x.2 x.1 (some (String.ofList (letterOf y.1))) &&
    (shortFlags strs).all (fun z =>
      classifyTok strs (x.1 ++ String.ofList (letterOf y.1 ++ letterOf z.1)) ==
        .opt x.2 x.1 (some (String.ofList (letterOf y.1 ++ letterOf z.1))))))

/-- no option string looks like a negative number, contains `=` or a blank, or is `--`; all start with `-` -/
def stringsOK (strs : List (String × Target)) : Bool :=
  !hasNegOpts strs &&
  strs.all (fun x => !x.1.toList.contains '=' && !x.1.toList.contains ' ' && x.1 != "--" &&
    (match x.1.toList with | '-' :: _ :: _ => true | _ => false))

def supportedNamesX (kind : String) : List String :=
  (cliSpecs.filter (fun s => s.kind == kind && s.supportedX)).map (·.name)

end Cnfgen.Cli.AP
