/-
L8 — `parse_command_line` of cnfgen.py: the command line is split around the `-T` tokens; the first
chunk (minus the program name) is the formula command, the others are transformation commands, applied
in order.  Import-free.
-/
namespace Cnfgen.Cli

/-- the loop `for arg in argv: if arg == '-T': cmd_chunks.append([]) else: cmd_chunks[-1].append(arg)` -/
def splitT : List String → List (List String)
  | [] => [[]]
  | a :: rest =>
    if a = "-T" then [] :: splitT rest
    else match splitT rest with
      | [] => [[a]]
      | c :: cs => (a :: c) :: cs

/-- `parse_command_line`: the formula command is the first chunk without the program name; the other
chunks are the transformation commands, in order -/
def parseCommandLine (argv : List String) : List String × List (List String) :=
  match splitT argv with
  | [] => ([], [])
  | c :: cs => (c.drop 1, cs)

def joinT : List (List String) → List String
  | [] => []
  | [c] => c
  | c :: cs => c ++ "-T" :: joinT cs

/-- `for argdict in t_args: cnf = transform(cnf, argdict)` with errors aborting the run -/
def applyChain {F E : Type} (apply : F → String → Except E F) (f : F) : List String → Except E F
  | [] => .ok f
  | t :: ts => (apply f t).bind (fun g => applyChain apply g ts)

theorem splitT_ne_nil (argv : List String) : splitT argv ≠ [] := by
  induction argv with
  | nil => simp [splitT]
  | cons a rest ih =>
    unfold splitT
    by_cases h : a = "-T"
    · simp [h]
    · simp only [h, if_false]
      cases hs : splitT rest <;> simp

theorem splitT_joinT (argv : List String) : joinT (splitT argv) = argv := by
  induction argv with
  | nil => simp [splitT, joinT]
  | cons a rest ih =>
    unfold splitT
    by_cases h : a = "-T"
    · simp only [h, if_true]
      have hne := splitT_ne_nil rest
      cases hs : splitT rest with
      | nil => exact absurd hs hne
      | cons c cs => rw [hs] at ih; simp [joinT, ih]
    · simp only [h, if_false]
      have hne := splitT_ne_nil rest
      cases hs : splitT rest with
      | nil => exact absurd hs hne
      | cons c cs =>
        rw [hs] at ih
        cases cs with
        | nil => simp [joinT] at ih ⊢; exact ih
        | cons d ds => simp [joinT] at ih ⊢; exact ih

theorem splitT_clean (argv : List String) : ∀ c ∈ splitT argv, "-T" ∉ c := by
  induction argv with
  | nil => simp [splitT]
  | cons a rest ih =>
    unfold splitT
    by_cases h : a = "-T"
    · simp only [h, if_true]
      intro c hc
      rcases List.mem_cons.1 hc with rfl | hc
      · simp
      · exact ih c hc
    · simp only [h, if_false]
      cases hs : splitT rest with
      | nil => intro c hc; simp at hc; subst hc; simp; exact fun h' => h h'.symm
      | cons c cs =>
        rw [hs] at ih
        intro c' hc'
        rcases List.mem_cons.1 hc' with rfl | hc'
        · have := ih c (by simp)
          simp only [List.mem_cons, not_or]
          exact ⟨fun h' => h h'.symm, this⟩
        · exact ih c' (by simp [hc'])

theorem splitT_length (argv : List String) : (splitT argv).length = argv.count "-T" + 1 := by
  induction argv with
  | nil => simp [splitT]
  | cons a rest ih =>
    unfold splitT
    by_cases h : a = "-T"
    · simp [h, ih]
    · simp only [h, if_false]
      have hne := splitT_ne_nil rest
      cases hs : splitT rest with
      | nil => exact absurd hs hne
      | cons c cs =>
        rw [hs] at ih
        simp only [List.length_cons] at ih ⊢
        rw [List.count_cons_of_ne (fun h' => h h')]
        exact ih

theorem applyChain_snoc {F E : Type} (apply : F → String → Except E F) (f : F) (ts : List String)
    (t : String) :
    applyChain apply f (ts ++ [t]) = (applyChain apply f ts).bind (fun g => apply g t) := by
  induction ts generalizing f with
  | nil =>
    simp only [List.nil_append, applyChain]
    cases h : apply f t <;> simp [Except.bind, applyChain, h]
  | cons x xs ih =>
    simp only [List.cons_append, applyChain]
    cases apply f x with
    | error e => simp [Except.bind]
    | ok g => simp [Except.bind, ih]

end Cnfgen.Cli
