/-
L8 — an abstract interpreter for the call templates: which namespaces can the parser of a sub-command produce
(`worlds`: for every dest, the kind of value it holds, or its absence), and does the helper's method, run on ANY such
namespace, take a path whose call can be built (`arun`)?  Decidable; its soundness is proved in
Lemmas/ArgparseAbsSound.lean, so `worldsOK s = true` (checked by `decide` over the regenerated tables) gives the totality
of the interpreter for `php` and the sub-commands that go through `compose_two_parsers`.
-/
import CnfgenModel.Cli.Argparse
import CnfgenModel.Cli.DispatchChecks
namespace Cnfgen.Cli.AP
open Cnfgen.Gen Cnfgen.Cli

/-- kinds of values -/
inductive AV where
  | none | tt | ff | bool
  | int | intc (k : Int) | intOrNone
  | str (s : String) | strIn (l : List String)
  | ints
  | graphC            -- a graph given by a construction (it has a vertex)
  | graphAny          -- any graph argument
  | toks (hd : Option String)   -- a list of tokens (with its first token, when known)
  | param | opq | pos | posOrInt
  | any               -- some value
  deriving Repr, DecidableEq

abbrev World := List (String × AV)
abbrev Facts := List (Expr × Bool)

def constructed (k c : String) : Bool := ((graphConstructions.lookup k).getD []).contains c

def isIntLike : AV → Bool
  | .int => true | .intc _ => true | _ => false

def isIntNone : AV → Bool
  | .int => true | .intc _ => true | .intOrNone => true | .none => true | _ => false

def isStrLike : AV → Bool
  | .str _ => true | .strIn _ => true | _ => false

def cmpOpsX : List String := ["==", "!=", "<", "<=", ">", ">="]

/-- what is known of a truth value: a constant, or defined but unknown -/
inductive AB where
  | const (b : Bool)
  | atom
  deriving Repr, DecidableEq

def atruthy : AV → Option AB
  | .tt => some (.const true)
  | .ff => some (.const false)
  | .none => some (.const false)
  | .bool => some .atom
  | .int => some .atom
  | .intc k => some (.const (k != 0))
  | .intOrNone => some .atom
  | .str s => some (.const (s != ""))
  | .strIn _ => some .atom
  | .ints => some .atom
  | _ => Option.none

def aisNone : AV → Option AB
  | .none => some (.const true)
  | .intOrNone => some .atom
  | .opq => Option.none
  | .param => Option.none
  | .any => Option.none
  | .posOrInt => some (.const false)
  | _ => some (.const false)

def acmp (op : String) (a b : AV) : Option AB :=
  match a, b with
  | .pos, .intc k => (cmpPos op k).map .const
  | .posOrInt, .intc k => if (cmpPos op k).isSome && cmpOpsX.contains op then some .atom else Option.none
  | _, _ =>
    if op == "==" || op == "!=" then
      (if (isIntNone a && isIntNone b) || (isStrLike a && isStrLike b) then some .atom else Option.none)
    else if cmpOpsX.contains op && isIntLike a && isIntLike b then some .atom
    else Option.none

def abinop (op : String) (a b : AV) : Option AV :=
  if isIntLike a && isIntLike b then
    (if op == "+" || op == "-" || op == "*" then some .int
     else if op == "%" || op == "//" then (match b with | .intc k => if k != 0 then some .int else Option.none | _ => Option.none)
     else Option.none)
  else if a == .opq || b == .opq then some .opq
  else if a == .pos && isIntLike b then some .any
  else if a == .posOrInt && isIntLike b && (op == "+" || op == "-" || op == "*") then some .any
  else Option.none

/-- no `G.order()` inside (same as `orderFree` of Lemmas/ArgparseRefine.lean) -/
def noOrder : Expr → Bool
  | .order _ => false
  | .getattr _ e => noOrder e
  | .not e => noOrder e
  | .isNone e => noOrder e
  | .isNotNone e => noOrder e
  | .star e => noOrder e
  | .and a b => noOrder a && noOrder b
  | .or a b => noOrder a && noOrder b
  | .cmp _ a b => noOrder a && noOrder b
  | .ite c t e => noOrder c && noOrder t && noOrder e
  | .binop _ a b => noOrder a && noOrder b
  | .cons h t => noOrder h && noOrder t
  | .mkgraph _ sp => noOrder sp
  | _ => true

/-- the kind of the value of an expression (after the `G.order()` of graph files have been replaced by numbers) -/
def aval (w : World) : Expr → Option AV
  | .arg d => w.lookup d
  | .hasattr d => some (if (w.lookup d).isSome then .tt else .ff)
  | .getattr d e => match w.lookup d with | some a => some a | Option.none => aval w e
  | .none => some .none
  | .bool b => some (if b then .tt else .ff)
  | .int i => some (.intc i)
  | .str s => some (.str s)
  | .name _ => some .param
  | .not e => ((aval w e).bind atruthy).map (fun _ => .bool)
  | .isNone e => ((aval w e).bind aisNone).map (fun _ => .bool)
  | .isNotNone e => ((aval w e).bind aisNone).map (fun _ => .bool)
  | .cmp op a b =>
    (match aval w a, aval w b with
     | some x, some y => (acmp op x y).map (fun _ => .bool)
     | _, _ => Option.none)
  | .star e => aval w e
  | .binop op a b =>
    (match aval w a, aval w b with
     | some x, some y => abinop op x y
     | _, _ => Option.none)
  | .order g =>
    if noOrder g then
      (match aval w g with
       | some .graphC => some .pos
       | some .graphAny => some .posOrInt
       | some .any => Option.none
       | some _ => some .opq
       | Option.none => Option.none)
    else Option.none
  | .nil => some (.toks Option.none)
  | .cons h t =>
    (match aval w h, aval w t with
     | some (.str s), some (.toks _) => some (.toks (some s))
     | some .int, some (.toks _) => some (.toks Option.none)
     | some (.intc _), some (.toks _) => some (.toks Option.none)
     | some _, some _ => some .any
     | _, _ => Option.none)
  | .mkgraph k spec =>
    (match aval w spec with
     | some (.toks (some h)) => some (if constructed k h then .graphC else .graphAny)
     | some (.toks Option.none) => some .graphAny
     | some _ => some .any
     | Option.none => Option.none)
  | .opaque _ _ => some .opq
  | _ => Option.none

/-- what the tests taken so far say about the options: `d is (not) None` -/
def refineOne (w : World) (f : Expr × Bool) : World :=
  match f with
  | (.isNotNone (.arg d), true) => w.map (fun p => if p.1 == d && p.2 == .intOrNone then (p.1, .int) else p)
  | (.isNone (.arg d), false) => w.map (fun p => if p.1 == d && p.2 == .intOrNone then (p.1, .int) else p)
  | (.isNotNone (.arg d), false) => w.map (fun p => if p.1 == d && p.2 == .intOrNone then (p.1, .none) else p)
  | (.isNone (.arg d), true) => w.map (fun p => if p.1 == d && p.2 == .intOrNone then (p.1, .none) else p)
  | _ => w

def refine (w : World) (fs : Facts) : World := fs.foldl refineOne w

/-- an atomic test: its truth value when it is a constant, both values (remembered) when it is unknown -/
def atomOut (e : Expr) (fs : Facts) (r : Option AB) : Option (List (Bool × Facts)) :=
  match r with
  | Option.none => Option.none
  | some (.const b) => some [(b, fs)]
  | some .atom =>
    match fs.lookup e with
    | some b => some [(b, fs)]
    | Option.none => some [(true, (e, true) :: fs), (false, (e, false) :: fs)]

/-- continue every outcome with `k`; all the continuations must be defined -/
def seqOuts (k : Bool → Facts → Option (List (Bool × Facts))) :
    List (Bool × Facts) → Option (List (Bool × Facts))
  | [] => some []
  | o :: rest =>
    match k o.1 o.2, seqOuts k rest with
    | some l', some l => some (l' ++ l)
    | _, _ => Option.none

/-- the outcomes of a guard: truth value, and what has been learnt -/
def aguard (w : World) : Expr → Facts → Option (List (Bool × Facts))
  | .and a b, fs =>
    (aguard w a fs).bind (seqOuts (fun r f => if r then aguard w b f else some [(false, f)]))
  | .or a b, fs =>
    (aguard w a fs).bind (seqOuts (fun r f => if r then some [(true, f)] else aguard w b f))
  | .not e, fs => (aguard w e fs).map (fun outs => outs.map (fun o => (!o.1, o.2)))
  | .hasattr d, fs => some [((w.lookup d).isSome, fs)]
  | .bool b, fs => some [(b, fs)]
  | .isNone e, fs => atomOut (.isNone e) fs ((aval (refine w fs) e).bind aisNone)
  | .isNotNone e, fs =>
    atomOut (.isNotNone e) fs (((aval (refine w fs) e).bind aisNone).map
      (fun r => match r with | .const b => .const (!b) | .atom => .atom))
  | .cmp op a b, fs =>
    atomOut (.cmp op a b) fs
      (match aval (refine w fs) a, aval (refine w fs) b with
       | some x, some y => acmp op x y
       | _, _ => Option.none)
  | .arg d, fs => atomOut (.arg d) fs (((refine w fs).lookup d).bind atruthy)
  | _, _ => Option.none

/-- the arguments of the call can be evaluated -/
def aargs (w : World) (t : CallTemplate) : Bool :=
  t.pos.all (fun e => match e with
    | .star e' => aval w e' == some .ints
    | e => (aval w e).isSome) &&
  t.kw.all (fun p => (aval w p.2).isSome)

def tmplOK (w : World) (t : CallTemplate) : Bool :=
  if t.raises != "" then shielded t.raises else t.fn != "" && aargs w t

/-- the helper's method on every namespace of the world: some path is taken, and it ends well -/
def arun (w : World) : List CallTemplate → Facts → Bool
  | [], _ => false
  | t :: rest, fs =>
    match aguard w t.guard fs with
    | Option.none => false
    | some outs => outs.all (fun o => if o.1 then tmplOK (refine w o.2) t else arun w rest o.2)

/-! ### the worlds of a sub-command -/

def avOfVal : Val → AV
  | .none => .none
  | .bool true => .tt
  | .bool false => .ff
  | .int i => .intc i
  | .str s => .str s
  | _ => .any

def joinAV (a b : AV) : AV :=
  if a == b then a
  else if (a == .tt || a == .ff || a == .bool) && (b == .tt || b == .ff || b == .bool) then .bool
  else if isIntNone a && isIntNone b then (if isIntLike a && isIntLike b then .int else .intOrNone)
  else .any

/-- a flag dest of the main parser: the values its options store, or their default -/
def flagAV (s : CliSpec) (d : String) : AV :=
  match ((mainOpts s).filter (fun o => o.dest == d)) with
  | [] => .any
  | o :: rest =>
    rest.foldl (fun a o' => joinAV (joinAV a (avOfVal o'.flagVal)) (avOfVal o'.defaultVal))
      (joinAV (avOfVal o.flagVal) (avOfVal o.defaultVal))

def isSpecial (o : OptSpec) : Bool := o.action == "PHPArgs" || o.action == "compose_two_parsers"

def flagOpts (s : CliSpec) : List OptSpec := (mainOpts s).filter (fun o => !isSpecial o)

def specialOpts (s : CliSpec) : List OptSpec := (mainOpts s).filter isSpecial

/-- the dests set by the flags of the main parser -/
def mainWorld (s : CliSpec) : World := (flagOpts s).map (fun o => (o.dest, flagAV s o.dest))

/-- a positional of a sub-parser -/
def subAV (o : OptSpec) : AV :=
  match o.arity with
  | .one => if o.ty != "" then .int else if !o.choices.isEmpty then .strIn o.choices else .any
  | .opt => if o.ty != "" then (match o.defaultVal with | .int _ => .int | .none => .intOrNone | _ => .any) else .any
  | .plus => .graphAny
  | _ => .any

def subWorld (s : CliSpec) (p : String) : World := (subPositionals s p).map (fun o => (o.dest, subAV o))

def phpWorlds : List World :=
  [[("B", .graphAny)], [("degree", .int), ("holes", .int), ("pigeons", .int)]]

/-- the main parser's dest of the custom action is bound only to `None` (its default: the action stores elsewhere) -/
def specialDefaults (s : CliSpec) : World :=
  ((mainOpts s).filter isSpecial).map (fun o => (o.dest, avOfVal o.defaultVal))

/-- what the custom action of the sub-command can bind: one list per sub-parser (`php`: graph form, numeric form) -/
def specialWorlds (s : CliSpec) : List World :=
  if s.cls == "PHPCmdHelper" then phpWorlds
  else match (mainOpts s).find? (fun o => o.action == "compose_two_parsers") with
    | some o => o.compose.map (subWorld s)
    | Option.none => [[]]

def worlds (s : CliSpec) : List World :=
  (specialWorlds s).map (fun sw => sw ++ mainWorld s ++ specialDefaults s)

def keysOf (w : World) : List String := w.map (·.1)

/-- a positional of a sub-parser as the model understands it: one typed or chosen string, an optional typed string, a
graph -/
def subOptOK (o : OptSpec) : Bool :=
  o.action != "PHPArgs" && o.action != "compose_two_parsers" && !isFileType o.ty && o.group == "" &&
  (match o.arity with
   | .one => o.ty != "" || !o.choices.isEmpty
   | .opt => o.ty != "" && (match o.defaultVal with | .int _ => true | .none => true | _ => false)
   | .plus => true
   | _ => false)

/-- the shape of the option table that the derivation of the worlds assumes: one custom positional and nothing else
positional; the other options of the main parser are flags; the dests of the sub-parsers, of the flags and of the
custom action do not overlap; the sub-parsers' positionals are of the kinds the model understands -/
def worldTablesOK (s : CliSpec) : Bool :=
  positionals s == specialOpts s && (specialOpts s).length == 1 &&
  (flagOpts s).all (fun o => o.arity == .zero && !isFileType o.ty && !o.positional) &&
  (specialWorlds s).all (fun sw =>
    (keysOf sw).Nodup &&
    (keysOf sw).all (fun d => !((flagOpts s).map (·.dest)).contains d && !((specialOpts s).map (·.dest)).contains d)) &&
  ((flagOpts s).map (·.dest)).all (fun d => !((specialOpts s).map (·.dest)).contains d) &&
  s.templates.all (fun t => t.raises == "" || shielded t.raises) &&
  (if s.cls == "PHPCmdHelper" then (specialOpts s).all (fun o => o.action == "PHPArgs")
   else (specialOpts s).all (fun o => o.action == "compose_two_parsers" && o.compose.length == 2 &&
     o.compose.all (fun p => (subPositionals s p).all subOptOK && ((subPositionals s p).map (·.dest)).Nodup) &&
     (mainOpts s).find? (fun o' => o'.action == "compose_two_parsers") == some o))

/-- every path of the helper, in every world of the sub-command (for EVERY order of a graph file), ends in a call that
can be built or in a ValueError -/
def worldsOK (s : CliSpec) : Bool := (worlds s).all (fun w => arun w s.templates [])

end Cnfgen.Cli.AP
