/-
L8 — the two SMALL TOOLS end to end, as processes:

  `cnfshuffle`        cnfgen/clitools/cnfshuffle.py        `main()` ∘ `cli(argv)`
  `kthlist2pebbling`  cnfgen/clitools/kthlist2pebbling.py  `main()` ∘ `cli(argv)`

  argv tokens ──argparse (Cli/ToolArgs.lean)──▶ namespace ──open / read──▶ TEXT ──character-level reader
  (IO/Lex + IO/Dimacs, resp. IO/GraphLex + IO/GraphFmt)──▶ formula / DAG ──Shuffle (Trans/Shuffle), resp.
  PebblingFormula (Fam/Pebbling)──▶ formula ──`to_dimacs_file` (IO/Dimacs.renderDimacsText)──▶ TEXT written.

What is assumed about the environment (`Env`):
  * the file system enters as a function `file : path → Option Content` (`none`: `open(path)` raises OSError —
    missing, a directory, no permission, …) and `writable : path → Bool` (`open(path, 'w')` succeeds).  Reading a
    path that the same command line also opens for writing (`-o X -i X`, in either order) sees the empty file the
    `'w'` mode leaves (FileType opens while the arguments are parsed).  Different path strings are assumed to
    name different files.
  * a `Content` is the decoded text (`List Char`; decoding with the locale's encoding is outside the model),
    `undecodable` (reading raises UnicodeDecodeError, a ValueError) or `unreadable` (reading raises OSError);
  * files are read in text mode (universal newlines); for standard input `stdinUniversal` says whether the
    stream translates newlines (a process: yes; a `StringIO` put in place of `sys.stdin`: no);
  * writing to the opened output never fails; `sys.stdin` is not a terminal (no interactive message);
  * every report is printed by `main()` with the prefix that is active when the exception leaves `cli()`: since the
    fixes 0ec5c04 / e014bd6 that is `c ` for a refused command line and for everything the read raises;
  * the three header values `generator`, `copyright`, `url` (cnfgen/info.py; the version comes from git) are
    parameters; `argv` is the list of tokens AFTER `argv[0]`; `draws` are the values the `random` module returns.

Import-free apart from the model files it composes.
-/
import CnfgenModel.Cli.ToolArgs
import CnfgenModel.IO.Dimacs
import CnfgenModel.IO.GraphFmt
import CnfgenModel.Trans.Shuffle
import CnfgenModel.Fam.Pebbling
import CnfgenModel.Generated.Tables
namespace Cnfgen.Cli.Tools
open Cnfgen Cnfgen.Cli.ToolArgs

abbrev Str := List Char

/-! ### environment -/

inductive Content where
  /-- the characters a complete read returns -/
  | text (s : Str)
  /-- reading raises UnicodeDecodeError (a ValueError) -/
  | undecodable
  /-- reading raises OSError -/
  | unreadable
  deriving DecidableEq, Repr, Inhabited

structure Env where
  stdin : Content
  stdinUniversal : Bool
  /-- `sys.stdin.name` (`<stdin>`), or `<unknown>` for a stream without a name -/
  stdinName : String
  file : String → Option Content
  writable : String → Bool
  generator : String
  copyright : String
  url : String

/-! ### what the process does -/

inductive Dest where
  | stdout
  | file (path : String)
  deriving DecidableEq, Repr, Inhabited

inductive ErrSrc where
  /-- CLIError: `CLIParser.error` (refused command line, file that cannot be opened), or the OSError of a read
  turned into a CLIError by `cli()` -/
  | parser
  /-- ValueError of the reader / of the transformation, caught by `main()` -/
  | reader
  deriving DecidableEq, Repr, Inhabited

inductive Outcome where
  /-- exit status 0; `text` is everything that was written to `dest` -/
  | ok (dest : Dest) (text : Str)
  /-- the help text on stdout, exit status 0 -/
  | help
  /-- nothing on stdout / in the output file, a report on stderr every line of which starts with `pfx`,
  exit status 255 -/
  | cliError (src : ErrSrc) (pfx : String)
  /-- an exception `main()` does not handle: traceback, exit status 1 -/
  | escaped (exc : String)
  /-- not an outcome of the tool: the draw list does not have the shape of the calls the code makes -/
  | badDraws
  deriving DecidableEq, Repr, Inhabited

def exitStatus : Outcome → Nat
  | .ok _ _ => 0 | .help => 0 | .cliError _ _ => 255 | .escaped _ => 1 | .badDraws => 2

/-! ### the namespace of both tools -/

inductive InArg where
  | stdin
  | file (path : String)
  deriving DecidableEq, Repr, Inhabited

inductive OutArg where
  | stdout
  | file (path : String)
  deriving DecidableEq, Repr, Inhabited

structure Args where
  input : InArg := .stdin
  output : OutArg := .stdout
  /-- `args.seed` (cnfshuffle only): the string given, `none` for `None` -/
  seed : Option String := none
  noFlips : Bool := false
  noVperm : Bool := false
  noCperm : Bool := false
  verbose : Bool := true
  /-- the paths `FileType('w')` has opened (and truncated) so far -/
  opened : List String := []
  deriving DecidableEq, Repr, Inhabited

/-- `FileType('r')(s)` -/
def openRead (env : Env) (st : Args) (s : String) : Option InArg :=
  if s = "-" then some .stdin
  else if st.opened.contains s || (env.file s).isSome then some (.file s)
  else none

/-- `FileType('w')(s)` -/
def openWrite (env : Env) (st : Args) (s : String) : Option Args :=
  if s = "-" then some { st with output := .stdout }
  else if env.writable s then some { st with output := .file s, opened := s :: st.opened }
  else none

/-- the actions of both parsers (a dest the parser does not have is never passed).  `ArgV.nil` — the explicit value
`--`, for which plain argparse would store `[]` — is refused by `CLIParser._get_values` (fix 3772171: ArgumentError
"expected one argument", raised where the conversion would take place). -/
def act (env : Env) (st : Args) (o : Opt) (a : ArgV) : Option Args :=
  if o.dest = "output" then
    (match a with
     | .val s => openWrite env st s
     | _ => none)
  else if o.dest = "input" then
    (match a with
     | .val s => (openRead env st s).map (fun i => { st with input := i })
     | _ => none)
  else if o.dest = "seed" then
    (match a with
     | .val s => some { st with seed := some s }
     | _ => none)
  else if o.dest = "no_polarity_flips" then some { st with noFlips := true }
  else if o.dest = "no_variables_permutation" then some { st with noVperm := true }
  else if o.dest = "no_clauses_permutation" then some { st with noCperm := true }
  else if o.dest = "verbose" then some { st with verbose := false }
  else none

def helpOpt : Opt := ⟨"help", ["-h", "--help"], .help⟩

/-- the parser of `cnfshuffle.cli` -/
def shuffleSpec : Spec :=
  ⟨[helpOpt,
    ⟨"output", ["--output", "-o"], .one⟩,
    ⟨"seed", ["--seed", "-S"], .one⟩,
    ⟨"input", ["--input", "-i"], .one⟩,
    ⟨"no_polarity_flips", ["--no-polarity-flips", "-p"], .flag⟩,
    ⟨"no_variables_permutation", ["--no-variables-permutation", "-v"], .flag⟩,
    ⟨"no_clauses_permutation", ["--no-clauses-permutation", "-c"], .flag⟩,
    ⟨"verbose", ["--quiet", "-q"], .flag⟩], none⟩

/-- the names of the transformation sub-commands (`get_transformation_helpers()`: the subclasses of
`TransformationHelper`, the base class excluded), from the generated tables -/
def transformationNames : List String :=
  (Gen.helpers.filter (fun h => h.kind == "transformation" && h.cls != "TransformationHelper")).map (·.name)

/-- the parser of `kthlist2pebbling.setup_command_line` -/
def k2pSpec : Spec :=
  ⟨[helpOpt,
    ⟨"output", ["--output", "-o"], .one⟩,
    ⟨"input", ["--input", "-i"], .one⟩,
    ⟨"verbose", ["--quiet", "-q"], .flag⟩], some transformationNames⟩

/-! the tie of the two hand-written parsers to the source: the regenerated option tables -/

def kindOfArgSpec (a : Gen.ArgSpec) : Kind :=
  if a.action == "store_true" || a.action == "store_false" then .flag else .one

def optOfArgSpec (a : Gen.ArgSpec) : Opt := ⟨a.dest, a.flags, kindOfArgSpec a⟩

def generatedOpts (tool : String) : List Opt :=
  match Gen.tools.find? (fun t => t.tool == tool) with
  | some t => helpOpt :: t.args.map optOfArgSpec
  | none => []

/-! ### reading the input -/

/-- what reading `args.input` to the end gives: content, newline translation, name of the stream -/
def inputOf (env : Env) (st : Args) : Content × Bool × String :=
  match st.input with
  | .stdin => (env.stdin, env.stdinUniversal, env.stdinName)
  | .file p => ((if st.opened.contains p then .text [] else (env.file p).getD .unreadable), true, p)

def destOf : OutArg → Dest
  | .stdout => .stdout
  | .file p => .file p

/-- the header `BaseCNF.__init__` builds -/
def baseHeader (env : Env) (description : String) : Shuffle.Header :=
  [("description", description), ("generator", env.generator), ("copyright", env.copyright), ("url", env.url)]

def toIOHeader (h : Shuffle.Header) : IO.Header := h.map (fun p => (p.1.toList, p.2.toList))

/-- `to_file(args.output, 'dimacs', export_header=args.verbose)` -/
def writeOut (st : Args) (F : CNF) (hdr : Shuffle.Header) : Outcome :=
  .ok (destOf st.output) (IO.renderDimacsText F (if st.verbose then some (toIOHeader hdr) else none) none)

def errOutcome (pfx : String) (e : Err) : Outcome :=
  if e = .valueError then .cliError .reader pfx else .escaped e.name

/-! ### cnfshuffle -/

def toolArg (off : Bool) : Shuffle.Arg := if off then .fixed else .shuffle

/-- after parsing: `CNF.from_file` inside `with msg_prefix('c ')` (the prefix stays when the read raises; an OSError of
the read becomes a CLIError: fixes e014bd6, 0ec5c04), then `Shuffle` and `to_file` with the prefix restored -/
def shuffleBody (env : Env) (st : Args) (draws : List Shuffle.Draw) : Outcome :=
  match inputOf env st with
  | (.unreadable, _, _) => .cliError .parser "c "
  | (.undecodable, _, _) => .cliError .reader "c "
  | (.text s, u, name) =>
    match IO.readDimacsText u s with
    | .error e => errOutcome "c " e
    | .ok F =>
      match Shuffle.run F (toolArg st.noFlips) (toolArg st.noVperm) (toolArg st.noCperm) draws with
      | none => .badDraws
      | some (.error e, _) => errOutcome "" e
      | some (.ok G, _) =>
        writeOut st G (Shuffle.shuffleHeader (baseHeader env ("Formula from DIMACS file " ++ name)))

/-- the process `cnfshuffle argv`; `parse_args` runs inside `with msg_prefix('c ')` (fix 0ec5c04) -/
def cnfshuffleRun (env : Env) (argv : List String) (draws : List Shuffle.Draw) : Outcome :=
  match parse shuffleSpec (act env) argv {} with
  | .error .help => .help
  | .error .error => .cliError .parser "c "
  | .error (.sub _ _ _ _) => .cliError .parser "c "      -- unreachable: the parser has no positional
  | .ok st => shuffleBody env st draws

/-! ### kthlist2pebbling -/

/-- the name `_kthlist_parse` gives the graph: the first comment line before the size line whose text after
the two leading characters is not blank, stripped -/
def kthName : List Str → Str
  | [] => []
  | l :: ls =>
    if l.head? = some 'c' then
      (let nm := GraphLex.strip (l.drop 2)
       if nm.isEmpty then kthName ls else nm)
    else if (GraphLex.strip l).isEmpty then kthName ls
    else []

/-- after parsing, without a transformation: `readGraph(sys.stdin, 'dag', 'kthlist')` inside
`msg_prefix('c ')` (the prefix stays when the reader raises; an OSError of the read becomes a CLIError: fix e014bd6),
`PebblingFormula`, `to_file` -/
def k2pBody (env : Env) (st : Args) : Outcome :=
  match inputOf env st with
  | (.unreadable, _, _) => .cliError .parser "c "
  | (.undecodable, _, _) => .cliError .reader "c "
  | (.text s, u, _) =>
    let s' := if u then GraphLex.universalNL s else s
    match GraphFmt.readGraph .dag (.kth (GraphLex.lexKth s')) with
    | .error e => errOutcome "c " e
    | .ok (.di D) =>
      (match Fam.Pebbling.pebbling D with
       | .error e => errOutcome "" e
       | .ok Fm =>
         writeOut st Fm.toCNF
           (baseHeader env ("Pebbling formula for " ++ String.ofList (kthName (GraphLex.readlines s')))))
    | .ok _ => .escaped "TypeError"      -- unreachable: the `dag` reader returns a directed graph

/-- the process `kthlist2pebbling argv`; `none`: the command line selects a transformation sub-command
(the sub-parsers and `transform_cnf` are outside this model) -/
def k2pRun (env : Env) (argv : List String) : Option Outcome :=
  match parse k2pSpec (act env) argv {} with
  | .error .help => some .help
  | .error .error => some (.cliError .parser "c ")
  | .error (.sub _ _ _ _) => none
  | .ok st => some (k2pBody env st)

end Cnfgen.Cli.Tools
