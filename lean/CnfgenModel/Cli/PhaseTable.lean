/-
L8 — the generator-state flow of a run of `cli()`, INTERPRETED FROM THE GENERATED PHASE TABLE
(`Generated/Phases.lean`, rewritten from the current source on every run by tools/extract_phases.py).

`Cli/Phases.lean` is the hand-written phase model of cnfgen/pbgen (`Variant`, `run`).  Here the order of the
phase events is data: `runEvents` executes the event list extracted from `cli()` of a tool, `variantOf`
computes the `Variant` the old model is about, `sound` is the decidable condition on a table under which
the run is a function of the command line and the seed (a taint analysis of the generator state:
"is the state a function of the seed alone when something draws?").  Import-free.

What a table row means (the translator's reading of the source, see tools/extract_phases.py):
* `.parse`      — the command line is parsed; option actions run.  The `--seed` option belongs to the main
                  parser, so it is handled before the sub-command and its arguments (argparse hands everything
                  after the sub-command name to the sub-parser): if its action seeds, the generator is seeded
                  BEFORE the actions of the sub-command's arguments (graph arguments) draw.
* `.seed g a`   — `if g: random.seed(a)`
* `.draw`, `.build`, `.transforms`, `.shuffle` — code that may draw
* `.headerSeed g v`, `.headerCmdline` — header entries written
* `.output`     — the formula is written: everything that happens later cannot influence the output
-/
import CnfgenModel.Cli.Phases
import CnfgenModel.Generated.Phases
namespace Cnfgen.Cli
open Cnfgen.GenPh

/-- the table of a tool -/
def phasesOf (tool : String) : Option ToolPhases := toolPhases.find? (fun t => t.tool == tool)

/-- does the guard let its statement run, for the value `args.seed` has?  `ty` is the option's `type=`:
with `int` the value is the integer; with `str` it is the token, and the token of an integer is a
non-empty string, which is truthy.  A guard outside the fragment is assumed not to fire. -/
def guardFires (ty : String) : Guard → Option Int → Bool
  | .always, _ => true
  | .isNotNone, s => s.isSome
  | .truthy, some s => if ty == "int" then s != 0 else ty == "str"
  | .truthy, none => false
  | .other _, _ => false

/-- the guard fires for EVERY integer seed -/
def firesForAllSeeds (ty : String) : Guard → Bool
  | .always => true
  | .isNotNone => true
  | .truthy => ty == "str"
  | .other _ => false

/-- a guard of the fragment (its behaviour is known) -/
def _root_.Cnfgen.GenPh.Guard.known : Guard → Bool
  | .other _ => false
  | _ => true

def seedTy (t : ToolPhases) : String := match t.seedOpt with | some o => o.ty | none => ""

/-- the value of `args.seed` after parsing: the option's value if its action stores it, else the default `None` -/
def argsSeed (t : ToolPhases) (seed : Option Int) : Option Int :=
  match t.seedOpt with
  | some o => if o.stores then seed else none
  | none => none

/-- can the argparse actions of the sub-command's arguments draw?  Only if the tool sets up the helpers'
parsers, and some call site of `random` is reachable from such an action (generated call graph). -/
def parseMayDraw (t : ToolPhases) : Bool :=
  t.loadsHelpers && randomSites.any (fun s => s.draws && s.roots.contains "action")

/-! ### the `Variant` of the hand-written model, computed from the table -/

def isParse : Ev → Bool | .parse _ => true | _ => false
def isBuild : Ev → Bool | .build _ => true | _ => false
def isSeedEv : Ev → Bool | .seed _ _ => true | _ => false

/-- the events between parsing and the build: is there a `random.seed(args.seed)` with this kind of guard? -/
def seedsBeforeBuild (evs : List Ev) : List Guard :=
  ((evs.dropWhile (fun e => !isParse e)).takeWhile (fun e => !isBuild e)).filterMap
    (fun e => match e with | .seed g .argsSeed => some g | _ => none)

/-- `seedAtParse`: the option's action seeds; `zeroIsSeed`: the re-seeding before the build is guarded by
`is not None`, not by truthiness; `reseedBeforeBuild`: a `random.seed(args.seed)` stands between parsing and
`build_formula` -/
def variantOf (t : ToolPhases) : Variant :=
  { seedAtParse := match t.seedOpt with | some o => o.seeds && o.stores | none => false
    zeroIsSeed := (seedsBeforeBuild t.events).any (fun g => firesForAllSeeds (seedTy t) g)
    reseedBeforeBuild := !(seedsBeforeBuild t.events).isEmpty && (t.events.any isBuild) }

/-- the variant the CURRENT source of cnfgen has -/
def sourceVariant : Variant :=
  match phasesOf "cnfgen" with
  | some t => variantOf t
  | none => ⟨false, false, false⟩

/-! ### running a table -/

/-- hidden inputs of a process -/
structure Hidden (S : Type) where
  rng0 : S            -- the generator state at start (seeded from the clock / the OS)
  entropy : S         -- what `random.seed()` without a seed would install
  addr : Nat          -- object addresses, hash seed
  cwdVersion : Nat    -- anything read from the working directory

/-- a command line, abstracted to what matters for the generator -/
structure RunCmd where
  seed : Option Int
  parseDraws : Nat         -- draws of the actions of the sub-command's arguments (graph arguments)
  buildDraws : Nat
  transDraws : Nat
  shuffleDraws : Nat
  printsObject : Bool := false
  deriving DecidableEq, Repr

/-- everything the output is computed from -/
structure Obs where
  parseVals : List Nat
  laterVals : List Nat            -- values drawn by cli(), build, transformations, Shuffle — in order
  headerSeed : Option Int
  headerCmdline : Bool
  headerAddr : Option Nat
  deriving DecidableEq, Repr

structure St (S : Type) where
  rng : S
  obs : Obs

def St.init {S : Type} (c : RunCmd) (h : Hidden S) : St S :=
  ⟨h.rng0, ⟨[], [], none, false, if c.printsObject then some h.addr else none⟩⟩

def St.drawLater {S : Type} (g : Gen S) (k : Nat) (st : St S) : St S :=
  let (vs, r) := draws g k st.rng
  { rng := r, obs := { st.obs with laterVals := st.obs.laterVals ++ vs } }

/-- one event -/
def stepEv {S : Type} (g : Gen S) (t : ToolPhases) (c : RunCmd) (h : Hidden S) (st : St S) : Ev → St S
  | .parse _ =>
    let r1 := match t.seedOpt, c.seed with
      | some o, some s => if o.seeds then g.seedTo s else st.rng
      | _, _ => st.rng
    let (vs, r2) := draws g (if parseMayDraw t then c.parseDraws else 0) r1
    { rng := r2, obs := { st.obs with parseVals := st.obs.parseVals ++ vs } }
  | .seed gd a =>
    if guardFires (seedTy t) gd (argsSeed t c.seed) then
      match a, argsSeed t c.seed with
      | .argsSeed, some s => { st with rng := g.seedTo s }
      | _, _ => { st with rng := h.entropy }       -- random.seed(None) / random.seed() / anything else
    else st
  | .draw _ => st.drawLater g 1
  | .readInput _ => st
  | .build _ => st.drawLater g c.buildDraws
  | .transforms _ => st.drawLater g c.transDraws
  | .shuffle => st.drawLater g c.shuffleDraws
  | .headerSeed gd _ =>
    if guardFires (seedTy t) gd (argsSeed t c.seed) then
      { st with obs := { st.obs with headerSeed := argsSeed t c.seed } }
    else st
  | .headerCmdline _ => { st with obs := { st.obs with headerCmdline := true } }
  | .output _ => st

def isOutput : Ev → Bool | .output _ => true | _ => false

/-- the events up to the first output; what is observed is the state there -/
def runFrom {S : Type} (g : Gen S) (t : ToolPhases) (c : RunCmd) (h : Hidden S) : List Ev → St S → Obs
  | [], st => st.obs
  | e :: es, st => if isOutput e then st.obs else runFrom g t c h es (stepEv g t c h st e)

def runEvents {S : Type} (g : Gen S) (t : ToolPhases) (c : RunCmd) (h : Hidden S) : Obs :=
  runFrom g t c h t.events (St.init c h)

/-! ### the taint analysis: when is the run a function of the seed? -/

/-- `det` = "the generator state is a function of the seed alone".  `none` = the table lets something draw
(or writes the header) from a state / value that is not. -/
def taintStep (t : ToolPhases) (det : Bool) : Ev → Option Bool
  | .parse _ =>
    let det1 := det || (match t.seedOpt with | some o => o.seeds | none => false)
    if parseMayDraw t && !det1 then none else some det1
  | .seed gd a =>
    match a with
    | .argsSeed =>
      if (match t.seedOpt with | some o => o.stores | none => false) then
        (if gd.known then some (det || firesForAllSeeds (seedTy t) gd) else none)
      else none      -- `args.seed` is not the seed that was given
    | _ => none       -- seeding from anything but the seed
  | .draw _ => if det then some det else none
  | .readInput _ => some det
  | .build _ => if det then some det else none
  | .transforms _ => if det then some det else none
  | .shuffle => if det then some det else none
  | .headerSeed gd v => if gd.known && v == "args.seed" then some det else none
  | .headerCmdline pre => if pre == "?" then none else some det
  | .output _ => some det

def taintFrom (t : ToolPhases) : Bool → List Ev → Bool
  | _, [] => true
  | det, e :: es =>
    if isOutput e then true
    else match taintStep t det e with
      | some det' => taintFrom t det' es
      | none => false

/-- the table makes the output a function of the command line and the seed (for every integer seed) -/
def sound (t : ToolPhases) : Bool := t.seedOpt.isSome && taintFrom t false t.events

/-- the header records the seed: `header['random seed'] = args.seed` guarded by `is not None` (or unguarded)
is written before the first output, and the option's action stores the value -/
def isHeaderSeed : Ev → Bool | .headerSeed _ _ => true | _ => false

def headerRecordsSeed (t : ToolPhases) : Bool :=
  (match t.seedOpt with | some o => o.stores | none => false) &&
  ((t.events.takeWhile (fun e => !isOutput e)).filter isHeaderSeed == [.headerSeed .isNotNone "args.seed"])

/-! ### the generator events an observer of the module-level generator sees (compared with real runs) -/

inductive TraceTok where
  | parseBegin | parseEnd
  | seed          -- random.seed(<the seed given>)
  | seedOther     -- random.seed(<something else>)
  | draws         -- one or more draws
  deriving DecidableEq, Repr

def drawTok (k : Nat) : List TraceTok := if k = 0 then [] else [.draws]

def traceEv (t : ToolPhases) (c : RunCmd) : Ev → List TraceTok
  | .parse _ =>
    [.parseBegin] ++
      (match t.seedOpt, c.seed with
        | some o, some _ => if o.seeds then [.seed] else []
        | _, _ => []) ++
      drawTok (if parseMayDraw t then c.parseDraws else 0) ++ [.parseEnd]
  | .seed gd a =>
    if guardFires (seedTy t) gd (argsSeed t c.seed) then
      match a, argsSeed t c.seed with
      | .argsSeed, some _ => [.seed]
      | _, _ => [.seedOther]
    else []
  | .draw _ => [.draws]
  | .build _ => drawTok c.buildDraws
  | .transforms _ => drawTok c.transDraws
  | .shuffle => drawTok c.shuffleDraws
  | _ => []

/-- consecutive draw blocks are one block -/
def collapse : List TraceTok → List TraceTok
  | .draws :: .draws :: rest => collapse (.draws :: rest)
  | x :: rest => x :: collapse rest
  | [] => []

def traceOf (t : ToolPhases) (c : RunCmd) : List TraceTok :=
  collapse ((t.events.takeWhile (fun e => !isOutput e)).flatMap (traceEv t c))

/-! ### historical variants, as tables (regression witnesses) -/

/-- cnfgen before D2 was repaired: `--seed` stored by the default action, graph arguments drawn while parsing -/
def tableD2 : ToolPhases :=
  ⟨"cnfgen-D2", some ⟨["--seed", "-S"], "int", "None", "store", true, false, false⟩, true,
   [.parse "parse_command_line", .seed .isNotNone .argsSeed, .build "args.generator.build_formula",
    .transforms "argdict.transformation.transform_cnf", .headerSeed .isNotNone "args.seed", .headerCmdline "cnfgen ",
    .output "to_file"]⟩

/-- cnfgen before D1 was repaired: `if args.seed:` -/
def tableD1 : ToolPhases :=
  ⟨"cnfgen-D1", some ⟨["--seed", "-S"], "int", "None", "store", true, false, false⟩, true,
   [.parse "parse_command_line", .seed .truthy .argsSeed, .build "args.generator.build_formula",
    .transforms "argdict.transformation.transform_cnf", .headerSeed .truthy "args.seed", .headerCmdline "cnfgen ",
    .output "to_file"]⟩

/-- `random.seed` moved after the build, no seeding action -/
def tableLate : ToolPhases :=
  ⟨"cnfgen-late", some ⟨["--seed", "-S"], "int", "None", "store", true, false, false⟩, true,
   [.parse "parse_command_line", .build "args.generator.build_formula", .seed .isNotNone .argsSeed,
    .transforms "argdict.transformation.transform_cnf", .headerSeed .isNotNone "args.seed", .headerCmdline "cnfgen ",
    .output "to_file"]⟩

end Cnfgen.Cli
