/-
L8 — a whole command line `<formula> <args> -T <transformation> <args> -T …`, end to end.

`parse_command_line` splits the tokens at every `-T` (`splitT`, Cli/Chain.lean); the first chunk is parsed by the
formula parser, every other chunk by the transformation parser (ALL chunks are parsed before anything is built);
`cli()` then builds the formula (`formula_class=CNF`) and applies the transformations left to right, each inside
`try … except (CLIError, ValueError)`.

* `evalTrans`  : the library call of a transformation sub-command applied to the CNF built so far — the models of
  Trans/Subst.lean (`xor or maj eq neq one exact atleast atmost anybut ite lift flip`, and `xorcomp` / `majcomp` with a
  bipartite graph argument resolved by the `GraphEnv`).  Not mapped: `shuffle` (random), `xorcomp N [d]` (random graph).
* `cliOutcomeLine` : outcome class of `cnfgen <line>`; `none`: outside the model.
Import-free apart from the model.
-/
import CnfgenModel.Cli.OutcomeG
import CnfgenModel.Cli.Chain
import CnfgenModel.Trans.Subst
namespace Cnfgen.Cli
open Cnfgen Cnfgen.Gen

/-- `function=` of `VariableCompression` -/
def compFn (c : Call) : Option Int :=
  match c.kw.lookup "function" with
  | some (.str s) => if s == "xor" then some 0 else if s == "maj" then some 1 else none
  | _ => none

/-- the transformation step of a call made by a transformation helper, on the formula `F` built so far -/
def evalTrans (env : GraphEnv) (F : CNF) (c : Call) : Option (Except Err CNF) :=
  match c.pos with
  | [.param "F"] =>
    if c.fn == "IfThenElseSubstitution" then some (Subst.ifThenElse F)
    else if c.fn == "FlipPolarity" then some (Subst.flip F)
    else none
  | [.param "F", .int k] =>
    if c.fn == "XorSubstitution" then some (Subst.xorSubst F k)
    else if c.fn == "OrSubstitution" then some (Subst.orSubst F k)
    else if c.fn == "MajoritySubstitution" then some (Subst.majSubst F k)
    else if c.fn == "AllEqualSubstitution" then some (Subst.allEqual F k)
    else if c.fn == "NotAllEqualSubstitution" then some (Subst.notAllEqual F k)
    else if c.fn == "ExactlyOneSubstitution" then some (Subst.exactlyOne F k)
    else if c.fn == "FormulaLifting" then some (Subst.lifting F k)
    else none
  | [.param "F", .int n, .int k] =>
    if c.fn == "ExactlyKSubstitution" then some (Subst.exactly F n k)
    else if c.fn == "AtLeastKSubstitution" then some (Subst.atLeast F n k)
    else if c.fn == "AtMostKSubstitution" then some (Subst.atMost F n k)
    else if c.fn == "AnythingButKSubstitution" then some (Subst.anythingBut F n k)
    else none
  | [.param "F", .graph "bipartite" t] =>
    if c.fn == "VariableCompression" then
      (match compFn c with
       | some fn =>
         (match env.bip 0 t with
          | none => some (.error .valueError)      -- the graph argument was refused (at parse time): CLIError
          | some B => some (Subst.compress F B fn))
       | none => none)
    else none
  | _ => none

/-- one parsed transformation chunk: the identity (`-T none`) or a library call -/
inductive TCall where
  | identity
  | call (c : Call)
  deriving Repr

/-- the transformation parser on one chunk: `some (.error _)`: CLIError; `none`: outside the model -/
def parseTrans (chunk : List String) : Option (Except Unit TCall) :=
  match chunk with
  | [] => some (.error ())        -- "You used option '-T' but did not pick a transformation."
  | name :: args =>
    match helpers.find? (fun h => h.kind == "transformation" && h.name == name) with
    | none => none
    | some h =>
      if name == "none" then (if args.isEmpty then some (.ok .identity) else none)
      else
        match dispatch h args with
        | .ok c => some (.ok (.call c))
        | .error .cliError => some (.error ())
        | .error _ => none

/-- all the chunks, parsed in order: outside the model if one is, else a CLIError if one is refused -/
def parseChain : List (List String) → Option (Except Unit (List TCall))
  | [] => some (.ok [])
  | ch :: rest =>
    match parseTrans ch, parseChain rest with
    | none, _ => none
    | _, none => none
    | some (.error _), _ => some (.error ())
    | _, some (.error _) => some (.error ())
    | some (.ok t), some (.ok ts) => some (.ok (t :: ts))

/-- `for argdict in t_args: cnf = transform_cnf(cnf, argdict)`; `none`: a step outside the model -/
def runChain (env : GraphEnv) (F : CNF) : List TCall → Option (Except Err CNF)
  | [] => some (.ok F)
  | .identity :: rest => runChain env F rest
  | .call c :: rest =>
    match evalTrans env F c with
    | none => none
    | some (.error e) => some (.error e)
    | some (.ok G) => runChain env G rest

/-- the formula part: parsed, built -/
def buildFormula (env : GraphEnv) (g : SimpleG) (fcmd : List String) : Option (Except Unit Built) :=
  match fcmd with
  | [] => none
  | name :: fargs =>
    match helpers.find? (fun h => h.kind == "formula" && h.name == name) with
    | none => none
    | some h =>
      match specOf h with
      | none => none
      | some s =>
        match dispatchTemplate s fargs with
        | .error .cliError => some (.error ())
        | .error _ => none
        | .ok (t, ns) =>
          match instantiate ns t with
          | .error .cliError => some (.error ())
          | .error _ => none
          | .ok c => (evalCallAny env g ns c).map .ok

/-- the CNF at the end of `cnfgen <line>` (for the driver): `some (.ok G)` when the run ends in `ok` -/
def cliLineCNF (env : GraphEnv) (g : SimpleG) (line : List String) : Option (Except Outcome CNF) :=
  match splitT line with
  | [] => none
  | fcmd :: tcmds =>
    match buildFormula env g fcmd, parseChain tcmds with
    | none, _ => none
    | _, none => none
    | some (.error _), _ => some (.error .cliError)
    | _, some (.error _) => some (.error .cliError)
    | some (.ok b), some (.ok ts) =>
      match b with
      | .refused => some (.error .cliError)
      | .result (.error e) => some (.error (shield (Except.error e : Except Err Unit)))
      | .result (.ok F) =>
        match runChain env F.toCNF ts with
        | none => none
        | some (.error e) => some (.error (shield (Except.error e : Except Err Unit)))
        | some (.ok G) => some (.ok G)

/-- outcome class of `cnfgen <line>` (`line`: the tokens after the tool's own options) -/
def cliOutcomeLine (env : GraphEnv) (line : List String) : Option Outcome :=
  (cliLineCNF env ⟨1, 0, [[], []], []⟩ line).map (fun r => match r with | .ok _ => .ok | .error o => o)

end Cnfgen.Cli
