/-
L8 — decidable checks over the tables that tools/extract_tables.py regenerates from the
current cnfgen source (CnfgenModel/Generated/Tables.lean).  Import-free apart from the tables.
-/
import CnfgenModel.Generated.Tables
namespace Cnfgen.Cli
open Cnfgen.Gen

def sigOf (fn : String) : Option SigSpec := signatures.find? (fun s => s.fn == fn)

/-- does the library function take a `formula_class` parameter? -/
def takesClass (fn : String) : Bool :=
  match sigOf fn with | some s => s.params.contains "formula_class" | none => false

/-- T-C17.3: every generator call of a formula helper forwards the formula class it was given -/
def helperForwardsClass (h : HelperSpec) : Bool :=
  h.kind != "formula" || h.calls.all (fun c => !takesClass c.fn || c.forwardsClass)

/-- option dests that the main parsers of the tools define (readable by every helper) -/
def globalDests : List String :=
  (tools.filter (fun t => t.tool == "cnfgen" || t.tool == "pbgen" || t.tool == "kthlist2pebbling")).flatMap
    (fun t => t.args.map (·.dest)) ++ ["generator", "transformation"]

/-- every attribute of `args` a helper reads is defined by one of its own options, by a custom
argparse action of its module, or by the main parser (this is what `iso -e` violated) -/
def helperReadsDefined (h : HelperSpec) : Bool :=
  h.reads.all (fun r => (h.args.map (·.dest)).contains r || h.sets.contains r || globalDests.contains r)

/-- actions whose only effect is to store a value under `dest` (custom composite actions such as
`PHPArgs` or `compose_two_parsers(...)` define other attributes and are covered by `sets`) -/
def standardActions : List String :=
  ["", "store", "store_true", "store_false", "store_const",
   "ObtainSimpleGraph", "ObtainBipartiteGraph", "ObtainDirectedAcyclicGraph"]

/-- every option a helper declares is read when the formula is built (no dead option) -/
def helperDestsUsed (h : HelperSpec) : Bool :=
  h.args.all (fun a => h.reads.contains a.dest || !standardActions.contains a.action)

def helpLike (a : ArgSpec) : Bool :=
  a.action == "version" || a.action == "help" || a.action.startsWith "print_help"

/-- every option of a tool's own parser is read by its `cli()` (what `cnfshuffle -q` violated) -/
def toolDestsUsed (t : ToolSpec) : Bool :=
  t.args.all (fun a => helpLike a || t.reads.contains a.dest)

/-! ### validators imply the generator's own argument checks -/

/-- pairs (command-line validator, library check) for which `accepted by the first ⇒ accepted by
the second` is proven in Props/C18.lean -/
def impliesTab : List (String × String) :=
  [("positive_int", "positive_int"), ("positive_int", "non_negative_int"), ("positive_int", "any_int"),
   ("nonnegative_int", "non_negative_int"), ("nonnegative_int", "any_int"),
   ("positive_even_int", "positive_int"), ("positive_even_int", "non_negative_int"),
   ("positive_even_int", "any_int")]

def intValidators : List String := ["positive_int", "nonnegative_int", "positive_even_int"]

/-- for a call, the list of (validator of the option, check of the parameter it is passed to) -/
def callObligations (h : HelperSpec) (c : CallSpec) : List (String × String) :=
  match sigOf c.fn with
  | none => []
  | some s =>
    let argTy (e : String) : Option String :=
      if e.startsWith "args." then
        match h.args.find? (fun a => "args." ++ a.dest == e) with
        | some a => if intValidators.contains a.ty then some a.ty else none
        | none => none
      else none
    let chk (p : String) : Option String := (s.checks.find? (fun q => q.1 == p)).map (·.2)
    let posPairs := (c.pos.zip s.params).filterMap (fun (e, p) =>
      match argTy e, chk p with | some t, some w => some (t, w) | _, _ => none)
    let kwPairs := c.kw.filterMap (fun (k, e) =>
      match argTy e, chk k with | some t, some w => some (t, w) | _, _ => none)
    posPairs ++ kwPairs

def helperValidatorsSuffice (h : HelperSpec) : Bool :=
  h.calls.all (fun c => (callObligations h c).all (fun p => impliesTab.contains p))

/-- integer-typed option passed to a parameter the generator checks: how many such obligations exist -/
def allObligations : List (String × String × String × String) :=
  helpers.flatMap (fun h => h.calls.flatMap (fun c => (callObligations h c).map (fun p => (h.name, c.fn, p.1, p.2))))

end Cnfgen.Cli
