/-
L4 — cnfgen/families/pigeonhole.py: `PigeonholePrinciple`, `GraphPigeonholePrinciple`,
`BinaryPigeonholePrinciple`, `RelativizedPigeonholePrinciple`.
Each generator is a `Formula` (variable count + abstract constraints in the order the
code adds them); the `Except` wrappers carry the parameter validation.  Import-free.
-/
import CnfgenModel.Fam.Mapping
namespace Cnfgen.Fam

/-! ### PigeonholePrinciple(pigeons, holes, functional, onto) -/

def phpF (m n : Nat) (functional onto : Bool) : Formula :=
  let p : UMap := ⟨1, m, n⟩
  ⟨m * n,
   p.forceComplete ++ (if onto then p.forceSurjective else []) ++ p.forceInjective
     ++ (if functional then p.forceFunctional else [])⟩

/-- `non_negative_int(pigeons)`, `non_negative_int(holes)` -/
def php (pigeons holes : Int) (functional onto : Bool) : Except Err Formula :=
  if pigeons < 0 ∨ holes < 0 then .error .valueError
  else .ok (phpF pigeons.toNat holes.toNat functional onto)

/-! ### GraphPigeonholePrinciple(G, functional, onto) -/

def gphp (B : BipG) (functional onto : Bool) : Formula :=
  let p : SMap := ⟨B, 1⟩
  ⟨B.numberOfEdges,
   p.forceComplete ++ (if onto then p.forceSurjective else []) ++ p.forceInjective
     ++ (if functional then p.forceFunctional else [])⟩

/-! ### BinaryPigeonholePrinciple(pigeons, holes) -/

/-- the literal list of `forbid(i, j)` (no range check) -/
def forbidLits (start bits i j : Nat) : Clause :=
  (Vars.flipPattern bits j).zipWith
    (fun s t => s * (Vars.binId start bits i (bits - 1 - t) : Int)) (List.range bits)

theorem forbid_eq (start bits i j : Nat) :
    Vars.forbid start bits i j =
      if j ≥ 2 ^ bits then .error .valueError else .ok (forbidLits start bits i j) := rfl

def bphpF (m n : Nat) : Formula :=
  let k := Vars.clog2 n
  ⟨m * k,
   -- force_complete_mapping: for i in domain, for j in range(m, 2**k)
   (idx m).flatMap (fun i => (rangeN n (2 ^ k)).map (fun j => Con.clause (forbidLits 1 k i j)))
   -- force_injective_mapping: for y in range, for x1,x2 in combinations(domain, 2)
   ++ (List.range n).flatMap (fun y => (pairs (idx m)).map (fun x =>
        Con.clause (forbidLits 1 k x.1 y ++ forbidLits 1 k x.2 y)))⟩

/-- `non_negative_int` twice; `BinaryMappingVariables.__init__` accepts an empty domain or range
(since the fix of D42: zero bits are enough for at most one value) -/
def bphp (pigeons holes : Int) : Except Err Formula :=
  if pigeons < 0 ∨ holes < 0 then .error .valueError
  else .ok (bphpF pigeons.toNat holes.toNat)

/-! ### RelativizedPigeonholePrinciple(pigeons, resting_places, holes) -/

/-- `r(v)` for the block `new_block(V)` created after `p` and `q` -/
def rphpR (m r n v : Nat) : Int := (Vars.blockId (1 + m * r + r * n) [r] [v] : Nat)

def rphpF (m r n : Nat) : Formula :=
  let p : UMap := ⟨1, m, r⟩
  let q : UMap := ⟨1 + m * r, r, n⟩
  let rv := rphpR m r n
  ⟨m * r + r * n + r,
   -- (3.1a)
   (idx m).map (fun u => Con.clause (p.row u))
   -- (3.1b)
   ++ (idx r).map (fun v => Con.lin (p.col v) .le 1)
   -- (3.1c) product(p.range(), p.domain())
   ++ (idx r).flatMap (fun v => (idx m).map (fun u => Con.clause [-(p.lit u v), rv v]))
   -- (3.1d)
   ++ (idx r).map (fun v => Con.clause (-(rv v) :: q.row v))
   -- (3.1e) product(q.range(), combinations(q.domain(), 2))
   ++ (idx n).flatMap (fun w => (pairs (idx r)).map (fun v =>
        Con.clause [-(rv v.1), -(rv v.2), -(q.lit v.1 w), -(q.lit v.2 w)]))⟩

def rphp (pigeons resting holes : Int) : Except Err Formula :=
  if pigeons < 0 ∨ resting < 0 ∨ holes < 0 then .error .valueError
  else .ok (rphpF pigeons.toNat resting.toNat holes.toNat)

end Cnfgen.Fam
