/-
L4 — cnfgen/families/cpls.py: Thapen's coloured polynomial local search formula.
Import-free.
-/
import CnfgenModel.Core.Sem
import CnfgenModel.Core.Iter
import CnfgenModel.Build.Constr
import CnfgenModel.Vars.Groups
namespace Cnfgen.Fam.Cpls

def positiveInt (x : Int) : Except Err Unit := if x < 1 then .error .valueError else .ok ()

/-- the loop of `intlog2(x)`: `while 2**ilog < x: ilog += 1` (it stops after at most `x` rounds) -/
def intlog2Aux (x : Nat) : Nat → Nat → Nat
  | 0, i => i
  | fuel + 1, i => if 2 ^ i < x then intlog2Aux x fuel (i + 1) else i

def intlog2 (x : Nat) : Nat := intlog2Aux x x 0

/-- `G(i, x, y)` of `new_block(a, b, c)` (first group) -/
def gId (a b c i x y : Nat) : Nat := Vars.blockId 1 [a, b, c] [i, x, y]

/-- bit length of the binary mappings `f_i : [b] → [b]` (`int(ceil(log(b, 2)))`) -/
def bitsB (b : Nat) : Nat := Vars.clog2 b
def bitsC (c : Nat) : Nat := Vars.clog2 c

/-- first identifier of the group `f_i` (`i = 1 … a`) -/
def fStart (a b c i : Nat) : Nat := a * b * c + (i - 1) * (b * bitsB b) + 1
/-- first identifier of the group `u` -/
def uStart (a b c : Nat) : Nat := a * b * c + a * (b * bitsB b) + 1

/-- Axiom 1: `¬G_1(1, y)` for `1 ≤ y ≤ c` -/
def axiom1 (a b c : Nat) : List Con :=
  (rangeN 1 (c + 1)).map (fun y => Con.clause [-(gId a b c 1 1 y : Int)])

/-- Axiom 2: `f_i(x) = x' ∧ G_{i+1}(x', y) → G_i(x, y)` in `product` order -/
def axiom2 (a b c : Nat) : Except Err (List Con) :=
  (product [rangeN 1 a, rangeN 1 (b + 1), rangeN 1 (b + 1), rangeN 1 (c + 1)]).mapM (fun t =>
    match t with
    | [i, x, xx, y] => do
        let first ← Vars.forbid (fStart a b c i) (bitsB b) x (xx - 1)
        pure (Con.clause (first ++ [-(gId a b c (i + 1) xx y : Int), (gId a b c i x y : Int)]))
    | _ => .error .runtimeError)

/-- Axiom 3: `u(x) = y - 1 → G_a(x, y)` -/
def axiom3 (a b c : Nat) : Except Err (List Con) :=
  (product [rangeN 1 (b + 1), rangeN 1 (c + 1)]).mapM (fun t =>
    match t with
    | [x, y] => do
        let first ← Vars.forbid (uStart a b c) (bitsC c) x (y - 1)
        pure (Con.clause (first ++ [(gId a b c a x y : Int)]))
    | _ => .error .runtimeError)

/-- `CPLSFormula(a, b, c)` including the two `assert`s at its end -/
def cpls (a b c : Int) : Except Err Formula := do
  positiveInt a
  positiveInt b
  positiveInt c
  let a' := a.toNat; let b' := b.toNat; let c' := c.toNat
  if b' &&& (b' - 1) ≠ 0 then throw .valueError
  if c' &&& (c' - 1) ≠ 0 then throw .valueError
  let ax2 ← axiom2 a' b' c'
  let ax3 ← axiom3 a' b' c'
  let F : Formula := ⟨a' * b' * c' + a' * (b' * bitsB b') + b' * bitsC c', axiom1 a' b' c' ++ ax2 ++ ax3⟩
  let nvars := a' * b' * c' + a' * b' * intlog2 b' + b' * intlog2 c'
  let ncls := c' + (a' - 1) * b' * b' * c' + b' * c'
  if F.nvars ≠ nvars then throw .assertion
  if F.cons.length ≠ ncls then throw .assertion
  pure F

end Cnfgen.Fam.Cpls
