/-
L4 — cnfgen/families/subsetcardinality.py: `SubsetCardinalityFormula`.  Import-free.
-/
import CnfgenModel.Fam.Mapping
namespace Cnfgen.Fam

def subsetCardF (B : BipG) (equalities : Bool) : Formula :=
  let e : SMap := ⟨B, 1⟩
  ⟨B.numberOfEdges,
   (idx B.l).map (fun u =>
      if equalities then Con.lin (e.row u) .eq ((((B.rnbrs u).length + 1) / 2 : Nat) : Int)
      else Con.maj .looseMaj (e.row u))
   ++ (idx B.r).map (fun v =>
      if equalities then Con.lin (e.col v) .eq (((B.lnbrs v).length / 2 : Nat) : Int)
      else Con.maj .looseMin (e.col v))⟩

end Cnfgen.Fam
