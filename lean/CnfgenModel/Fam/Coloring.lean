/-
L4 — `GraphColoringFormula` and `EvenColoringFormula` (cnfgen/families/coloring.py).
Import-free.
-/
import CnfgenModel.Fam.Tseitin
import CnfgenModel.Vars.Groups
namespace Cnfgen
namespace Fam

/-! ### complete unary mapping `new_mapping(n, m)` starting at identifier `start` -/

/-- `f(u, None)` -/
def mapRow (start m u : Nat) : List Int :=
  (rangeN 1 (m + 1)).map (fun v => (Vars.mapId start m u v : Int))

/-- `f(None, v)` over the domain `1..n` -/
def mapCol (start n m v : Nat) : List Int :=
  (rangeN 1 (n + 1)).map (fun u => (Vars.mapId start m u v : Int))

/-- the formula built by `GraphColoringFormula` for a legal number of colours -/
def coloringF (G : SimpleG) (k : Nat) (functional : Bool) : Formula :=
  let vs := rangeN 1 (G.n + 1)
  { nvars := G.n * k,
    cons :=
      -- force_complete_mapping(col)
      vs.map (fun v => Con.clause (mapRow 1 k v))
      -- force_functional_mapping(col)
      ++ (if functional then vs.map (fun v => Con.lin (mapRow 1 k v) .le 1) else [])
      -- for (v1,v2) in G.edges(): for c in 1..colors
      ++ G.edges.flatMap (fun e => (rangeN 1 (k + 1)).map (fun c =>
           Con.clause [-(Vars.mapId 1 k e.1 c : Int), -(Vars.mapId 1 k e.2 c : Int)])) }

/-- `GraphColoringFormula(G, colors, functional)` -/
def coloring (G : SimpleG) (colors : Int) (functional : Bool) : Except Err Formula :=
  if colors < 0 then .error .valueError       -- non_negative_int(colors)
  else .ok (coloringF G colors.toNat functional)

/-- `[e(u, v) for u,v in e.indices(w, None)]` -/
def incidentLits (G : SimpleG) (w : Nat) : List Int :=
  (incidentPairs G w).map (fun p => (edgeId G 1 p.1 p.2 : Int))

/-- the formula built by `EvenColoringFormula` when no vertex has odd degree -/
def evenColoringF (G : SimpleG) : Formula :=
  { nvars := G.edges.length,
    cons := (rangeN 1 (G.n + 1)).map (fun v =>
      Con.lin (incidentLits G v) .eq ((incidentLits G v).length / 2 : Nat)) }

/-- `EvenColoringFormula(G)`: `ValueError` at the first vertex of odd degree -/
def evenColoring (G : SimpleG) : Except Err Formula :=
  if (rangeN 1 (G.n + 1)).any (fun v => (G.nbrs v).length % 2 == 1) then .error .valueError
  else .ok (evenColoringF G)

end Fam
end Cnfgen
