/-
L4 — cnfgen/families/graphisomorphism.py: `GraphIsomorphism`, `GraphAutomorphism`
as lists of abstract constraints, in the order the code adds them.  Import-free.
-/
import CnfgenModel.Fam.MapCons
import CnfgenModel.Graph.Basic
namespace Cnfgen
namespace Fam
namespace G2
open Vars

/-- `G.has_edge(u, v)` on vertices given as naturals -/
def adj (G : SimpleG) (u v : Nat) : Bool := G.hasEdge (u : Int) (v : Int)

/-- the "edge consistency" loop of `GraphIsomorphism` -/
def isoEdgeCons (G1 G2 : SimpleG) : List Con :=
  (pairs2 (verts G1.n)).flatMap (fun u => (pairs2 (verts G2.n)).flatMap (fun v =>
    if adj G1 u.1 u.2 != adj G2 v.1 v.2 then
      [Con.clause [-(mlit 1 G2.n u.1 v.1), -(mlit 1 G2.n u.2 v.2)],
       Con.clause [-(mlit 1 G2.n u.1 v.2), -(mlit 1 G2.n u.2 v.1)]]
    else []))

/-- `GraphIsomorphism(G1, G2)`; variables `x_{u,v}` = `mapId 1 |V2| u v`.
(The option `nontrivial` of the signature is never read by the code.) -/
def graphIsomorphism (G1 G2 : SimpleG) : Formula :=
  { nvars := G1.n * G2.n
    cons := forceComplete 1 G1.n G2.n ++ forceSurjective 1 G1.n G2.n ++
            forceFunctional 1 G1.n G2.n ++ forceInjective 1 G1.n G2.n ++ isoEdgeCons G1 G2 }

/-- the clause added by the option `nontrivial`: `[-f(u, u) for u in f.domain() if u <= G2.order()]` -/
def notIdentityClause (n1 n2 : Nat) : Con :=
  .clause (((verts n1).filter (fun u => u ≤ n2)).map (fun u => -(mlit 1 n2 u u)))

/-- `GraphIsomorphism(G1, G2, nontrivial)`: with the option, one more clause forbids the identical mapping -/
def graphIsomorphismOpt (G1 G2 : SimpleG) (nontrivial : Bool) : Formula :=
  { nvars := G1.n * G2.n
    cons := (graphIsomorphism G1 G2).cons ++ (if nontrivial then [notIdentityClause G1.n G2.n] else []) }

/-- `GraphAutomorphism(G)`: the isomorphism formula of `G` with itself plus one clause
that excludes the identity -/
def graphAutomorphism (G : SimpleG) : Formula :=
  { nvars := G.n * G.n
    cons := (graphIsomorphism G G).cons ++ [Con.clause ((verts G.n).map (fun u => -(mlit 1 G.n u u)))] }

end G2
end Fam
end Cnfgen
