/-
L4 — cnfgen/families/subgraph.py: `SubgraphFormula`, `CliqueFormula`, `BinaryCliqueFormula`,
`RamseyWitnessFormula` as lists of abstract constraints, in the order the code adds them,
with the parameter validation of the code (`non_negative_int`, `BinaryMappingVariables.__init__`).
Import-free.
-/
import CnfgenModel.Fam.Iso
namespace Cnfgen
namespace Fam
namespace G2
open Vars

/-- `non_edges(G)`: pairs `u < v` that are not edges, `u` ascending then `v` ascending -/
def nonEdges (G : SimpleG) : List (Nat × Nat) := (pairs2 (verts G.n)).filter (fun e => !adj G e.1 e.2)

/-- `consistent` in the "local consistency" loop of `SubgraphFormula` -/
def consistent (gedge tedge induced : Bool) : Bool := (gedge == tedge) || (gedge && !induced)

/-- the "local consistency" loop of `SubgraphFormula` -/
def subgraphEdgeCons (G H : SimpleG) (induced symbreak : Bool) : List Con :=
  let N := G.n; let k := H.n
  (pairs2 (verts k)).flatMap (fun i => (pairs2 (verts N)).flatMap (fun j =>
    if !consistent (adj G j.1 j.2) (adj H i.1 i.2) induced then
      Con.clause [-(mlit 1 N i.1 j.1), -(mlit 1 N i.2 j.2)] ::
        (if !symbreak then [Con.clause [-(mlit 1 N i.1 j.2), -(mlit 1 N i.2 j.1)]] else [])
    else []))

/-- `SubgraphFormula(G, H, induced, symbreak)`: `H` (order `k`) is mapped into `G` (order `N`) -/
def subgraphFormula (G H : SimpleG) (induced symbreak : Bool) : Formula :=
  let N := G.n; let k := H.n
  { nvars := k * N
    cons := forceComplete 1 k N ++ forceFunctional 1 k N ++ forceInjective 1 k N ++
      (if symbreak then forceNondecreasing 1 k N else []) ++ subgraphEdgeCons G H induced symbreak }

/-- the "local consistency" loop of `CliqueFormula` -/
def cliqueEdgeCons (G : SimpleG) (k : Nat) (symbreak : Bool) : List Con :=
  let N := G.n
  (pairs2 (verts k)).flatMap (fun i => (nonEdges G).flatMap (fun j =>
    Con.clause [-(mlit 1 N i.1 j.1), -(mlit 1 N i.2 j.2)] ::
      (if !symbreak then [Con.clause [-(mlit 1 N i.1 j.2), -(mlit 1 N i.2 j.1)]] else [])))

/-- the part of `CliqueFormula` after the validation of `k` -/
def cliqueCore (G : SimpleG) (k : Nat) (symbreak : Bool) : Formula :=
  let N := G.n
  { nvars := k * N
    cons := forceComplete 1 k N ++ forceFunctional 1 k N ++ forceInjective 1 k N ++
      (if symbreak then forceNondecreasing 1 k N else []) ++ cliqueEdgeCons G k symbreak }

/-- `CliqueFormula(G, k, symbreak)`; `non_negative_int(k)` raises ValueError for `k < 0` -/
def cliqueFormula (G : SimpleG) (k : Int) (symbreak : Bool) : Except Err Formula :=
  if k < 0 then .error .valueError else .ok (cliqueCore G k.toNat symbreak)

/-- the "local consistency on non edges" loop of `BinaryCliqueFormula` (codes are 0-based) -/
def binCliqueEdgeCons (G : SimpleG) (k : Nat) (symbreak : Bool) : List Con :=
  let bits := clog2 G.n
  (pairs2 (verts k)).flatMap (fun i => (nonEdges G).flatMap (fun e =>
    let j1 := e.1 - 1; let j2 := e.2 - 1
    Con.clause (forbidC 1 bits i.1 j1 ++ forbidC 1 bits i.2 j2) ::
      (if !symbreak then [Con.clause (forbidC 1 bits i.1 j2 ++ forbidC 1 bits i.2 j1)] else [])))

/-- the part of `BinaryCliqueFormula` after the validation (`k ≥ 1`, `N ≥ 1`);
variables `y_{i,b}` = `binId 1 bits i b`, `bits = ⌈log₂ N⌉`; vertex `v` has code `v - 1` -/
def binaryCliqueCore (G : SimpleG) (k : Nat) (symbreak : Bool) : Formula :=
  let N := G.n
  let bits := clog2 N
  { nvars := k * bits
    cons := binComplete 1 bits k N ++ binInjective 1 bits k N ++
      (if symbreak then binNondecreasing 1 bits k N else []) ++ binCliqueEdgeCons G k symbreak }

/-- `BinaryCliqueFormula(G, k, symbreak)`: ValueError only for `k < 0` (`non_negative_int`); `k = 0` and the
null graph are accepted since the fix of D42 (`BinaryMappingVariables` with an empty domain or range) -/
def binaryCliqueFormula (G : SimpleG) (k : Int) (symbreak : Bool) : Except Err Formula :=
  if k < 0 then .error .valueError
  else .ok (binaryCliqueCore G k.toNat symbreak)

/-- the totality clauses of `RamseyWitnessFormula` (the loop over `m.domain()`): the rows both alternatives
use (`i ≤ min k s`) must have an image; the remaining rows only under `C` (`k > s`: clause `¬C ∨ row`) or only
under `¬C` (`k < s`: clause `C ∨ row`) -/
def ramseyCompleteCons (k s N : Nat) : List Con :=
  (verts (max k s)).map (fun i =>
    if i ≤ min k s then Con.clause (mRow 2 N i)
    else if k > s then Con.clause (-1 :: mRow 2 N i)
    else Con.clause (1 :: mRow 2 N i))

/-- the selector literal of the "local consistency" loop for the rows `i1 < i2` and a pair of vertices:
`inclique` (non-edge, `i2 ≤ k`) gives `¬C`, `inindset` (edge, `i2 ≤ s`) gives `C`, otherwise no clause -/
def ramseyGuard (edge : Bool) (i2 k s : Nat) : Option Int :=
  if !edge && decide (i2 ≤ k) then some (-1)
  else if edge && decide (i2 ≤ s) then some 1
  else none

/-- the clause `[c, -a, -b]` when the selector literal is `some c`, nothing otherwise -/
def ramseyGuarded (g : Option Int) (a b : Int) : List Con :=
  match g with
  | some c => [Con.clause [c, -a, -b]]
  | none => []

/-- one round of the "local consistency" loop: rows `i.1 < i.2`, vertices `j.1 < j.2`; first the clause of the
increasing placement, then the one of the decreasing placement (forbidden outright with symmetry breaking) -/
def ramseyPairCons (G : SimpleG) (k s : Nat) (symbreak : Bool) (i j : Nat × Nat) : List Con :=
  let N := G.n
  let g := ramseyGuard (adj G j.1 j.2) i.2 k s
  ramseyGuarded g (mlit 2 N i.1 j.1) (mlit 2 N i.2 j.2) ++
    (if symbreak then [Con.clause [-(mlit 2 N i.1 j.2), -(mlit 2 N i.2 j.1)]]
     else ramseyGuarded g (mlit 2 N i.1 j.2) (mlit 2 N i.2 j.1))

/-- the "local consistency" loop of `RamseyWitnessFormula` over `max k s` rows -/
def ramseyEdgeCons (G : SimpleG) (k s : Nat) (symbreak : Bool) : List Con :=
  (pairs2 (verts (max k s))).flatMap (fun i => (pairs2 (verts G.n)).flatMap (ramseyPairCons G k s symbreak i))

/-- the part of `RamseyWitnessFormula` after the validation.  Variable 1 is `C` ("maybe clique");
one mapping `s_{i,j}` = `mapId 2 N i j` with `max k s` rows serves both alternatives: under `C` its first
`k` rows list a clique, under `¬C` its first `s` rows list an independent set (code after the fix of D25). -/
def ramseyWitnessCore (G : SimpleG) (k s : Nat) (symbreak : Bool) : Formula :=
  let N := G.n
  { nvars := 1 + max k s * N
    cons := ramseyCompleteCons k s N ++ forceFunctional 2 (max k s) N ++ forceInjective 2 (max k s) N ++
      ramseyEdgeCons G k s symbreak }

/-- `RamseyWitnessFormula(G, k, s, symbreak)`: `k` and `s` are validated (`non_negative_int`) -/
def ramseyWitnessFormula (G : SimpleG) (k s : Int) (symbreak : Bool) : Except Err Formula :=
  if k < 0 then .error .valueError
  else if s < 0 then .error .valueError
  else .ok (ramseyWitnessCore G k.toNat s.toNat symbreak)

end G2
end Fam
end Cnfgen
