/-
L4 — the part of cnfgen/families/tseitin.py that `PitfallFormula` uses:
`TseitinFormula(graph, [True])` as a CNF (the template whose *clauses* Pitfall copies).
Local to the Pitfall model (the Tseitin family itself is modelled elsewhere).  Import-free.
-/
import CnfgenModel.Core.Sem
import CnfgenModel.Build.Linear
import CnfgenModel.Graph.Basic
namespace Cnfgen.Fam.PitfallTseitin

/-- `e(u, v)` of `new_graph_edges(G)` whose first identifier is `start`: the auxiliary bipartite
graph lists the edges `(min, max)` in the order of `G.edges()`, so the identifier is the
position of the sorted pair in that list. -/
def edgeId (g : SimpleG) (start u v : Nat) : Nat := start + g.edges.idxOf (min u v, max u v)

/-- charge of vertex `v` for `charges = [True]` padded with `False` -/
def charge (v : Nat) : Int := if v = 1 then 1 else 0

/-- literals of the parity constraint of vertex `v`: `[e(u, v) for u in G.neighbors(v)]` -/
def vertexLits (g : SimpleG) (v : Nat) : List Int :=
  (g.nbrs v).map (fun u => (edgeId g 1 u v : Int))

/-- `TseitinFormula(g, [True])` rendered by the CNF class -/
def template (g : SimpleG) : CNF :=
  ⟨g.edges.length,
   (List.range g.n).flatMap (fun i => Linear.parity (vertexLits g (i + 1)) (charge (i + 1)))⟩

end Cnfgen.Fam.PitfallTseitin
