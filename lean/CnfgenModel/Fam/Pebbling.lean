/-
L4 — cnfgen/families/pebbling.py: `PebblingFormula`, `StoneFormula`, `SparseStoneFormula`.
Import-free.  The model produces the abstract `Formula` (list of `Con.clause`s) in exactly the
order in which the code calls `add_clause`.

Variable identifiers come from `Vars/Groups.lean`:
* `x = new_block(n)` on an empty formula: `x(v) = blockId 1 [n] [v]`;
* `R = new_block(r)`: `R(j) = blockId 1 [r] [j]`; `P = new_sparse_mapping(B)` created after it:
  `P(u,v) = bipId B (r+1) u v`, `P(u,None) = bipRow B (r+1) u`.
The run-time check of `P(p,s)` (`has_edge`) never fails on a graph object whose `edgeset`
agrees with its adjacency lists (every reachable `BipartiteGraph`), and is not modelled.
-/
import CnfgenModel.Build.Constr
import CnfgenModel.Graph.Basic
import CnfgenModel.Vars.Groups
namespace Cnfgen.Fam.Pebbling

/-- `range(1, n+1)` -/
def verts (n : Nat) : List Nat := (List.range n).map (· + 1)

/-- `_uniqify_list`: remove duplicates, keep the first occurrence of each element -/
def uniq : List Nat → List Nat
  | [] => []
  | x :: xs => x :: (uniq xs).filter (· != x)

/-! ### pebbling -/

def x (n v : Nat) : Int := (Vars.blockId 1 [n] [v] : Nat)

/-- the clauses once the arguments are accepted -/
def peb (D : DiG) : Formula :=
  ⟨D.n, (verts D.n).flatMap fun v =>
      Con.clause ((D.preds v).map (fun p => - x D.n p) ++ [x D.n v]) ::
        (if (D.succs v).length == 0 then [Con.clause [- x D.n v]] else [])⟩

/-- `PebblingFormula(digraph)` -/
def pebbling (D : DiG) : Except Err Formula :=
  if !D.stillDag then .error .valueError else .ok (peb D)

/-! ### stone formulas -/

def R (B : BipG) (j : Nat) : Int := (Vars.blockId 1 [B.r] [j] : Nat)
def P (B : BipG) (u v : Nat) : Int := (Vars.bipId B (B.r + 1) u v : Nat)

/-- the propagation clause of vertex `v`, stone `j`, and a choice `pat` of stones (≠ j) for
the predecessors `pred` -/
def stoneClause (B : BipG) (pred : List Nat) (v j : Nat) (pat : List Nat) : Clause :=
  (pred.zip pat).map (fun ps => - P B ps.1 ps.2) ++ [- P B v j] ++
    (uniq pat).map (fun s => - R B s) ++ [R B j]

/-- `product(*tuple([s for s in B.right_neighbors(p) if s != j] for p in pred))` -/
def patterns (B : BipG) (pred : List Nat) (j : Nat) : List (List Nat) :=
  product (pred.map fun p => (B.rnbrs p).filter (· != j))

/-- the clauses once the arguments are accepted -/
def sstone (D : DiG) (B : BipG) : Formula :=
  ⟨B.r + B.numberOfEdges,
   -- force_complete_mapping(P)
   (verts B.l).map (fun u => Con.clause ((Vars.bipRow B (B.r + 1) u).map (fun (i : Nat) => (i : Int)))) ++
   (verts D.n).flatMap fun v =>
     ((B.rnbrs v).flatMap fun j =>
        (patterns B (D.preds v) j).map fun pat => Con.clause (stoneClause B (D.preds v) v j pat)) ++
     (if (D.succs v).length == 0 then (B.rnbrs v).map fun j => Con.clause [- P B v j, - R B j] else [])⟩

/-- `SparseStoneFormula(D, B)` -/
def sparseStone (D : DiG) (B : BipG) : Except Err Formula :=
  if !D.stillDag then .error .valueError
  else if B.l != D.n then .error .valueError
  else .ok (sstone D B)

/-- `StoneFormula(D, nstones)` -/
def stone (D : DiG) (nstones : Int) : Except Err Formula :=
  if !D.stillDag then .error .valueError
  else if nstones < 0 then .error .valueError
  else sparseStone D (BipG.complete D.n nstones.toNat)

end Cnfgen.Fam.Pebbling
