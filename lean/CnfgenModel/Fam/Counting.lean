/-
L4 — cnfgen/families/counting.py: `CountingPrinciple`, `PerfectMatchingPrinciple`.
Import-free.
-/
import CnfgenModel.Fam.Mapping
namespace Cnfgen.Fam

/-! ### CountingPrinciple(M, p) -/

/-- `stars[x-1]`: the variables `X(S)` of the `p`-subsets `S ∋ x`, in the order of
`combinations(range(1, M+1), p)`; the `j`-th subset (0-based) has identifier `1 + j` -/
def countingStar (M p x : Nat) : List Int :=
  (Vars.combosSeqs M p).zipIdx.filterMap
    (fun S => if S.1.contains x then some ((1 + S.2 : Nat) : Int) else none)

def countingF (M p : Nat) : Formula :=
  ⟨(Vars.combosSeqs M p).length, (idx M).map (fun x => Con.lin (countingStar M p x) .eq 1)⟩

/-- `non_negative_int(M)`, `positive_int(p)` -/
def counting (M p : Int) : Except Err Formula :=
  if M < 0 then .error .valueError
  else if p < 1 then .error .valueError
  else .ok (countingF M.toNat p.toNat)

/-! ### PerfectMatchingPrinciple(G) -/

/-- the bipartite graph `B` built in `GraphEdgesVariables.__init__`: an edge `(u, v)`, `u < v`,
for every edge of `G` (closed form of the insertion loop: `G.edges()` is sorted) -/
def auxBip (G : SimpleG) : BipG :=
  ⟨G.n, G.n,
   [] :: (idx G.n).map (fun u => (G.nbrs u).filter (fun v => u < v)),
   [] :: (idx G.n).map (fun v => (G.nbrs v).filter (fun u => u < v)),
   (idx G.n).flatMap (fun u => ((G.nbrs u).filter (fun v => u < v)).map (fun v => (u, v)))⟩

/-- `e(u, None)` of `GraphEdgesVariables`: first the edges to smaller neighbours, then the
edges to larger neighbours -/
def pmStar (G : SimpleG) (u : Nat) : List Int :=
  let e : SMap := ⟨auxBip G, 1⟩
  e.col u ++ e.row u

def pmF (G : SimpleG) : Formula :=
  ⟨(auxBip G).numberOfEdges, (idx G.n).map (fun u => Con.lin (pmStar G u) .eq 1)⟩

end Cnfgen.Fam
