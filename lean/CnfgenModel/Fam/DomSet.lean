/-
L4 — `unique_neighborhoods`, `DominatingSet` (both encodings) and `Tiling`
(cnfgen/families/dominatingset.py).  Import-free.
-/
import CnfgenModel.Fam.Coloring
namespace Cnfgen
namespace Fam

/-! ### `unique_neighborhoods` -/

/-- `sorted(l)` on integers -/
def sortNat (l : List Nat) : List Nat := l.foldr (fun x acc => insertSorted acc x) []

/-- Python's `<=` on lists of integers (lexicographic, a proper prefix is smaller) -/
def lexLe : List Nat → List Nat → Bool
  | [], _ => true
  | _ :: _, [] => false
  | a :: as, b :: bs => a < b || (a == b && lexLe as bs)

def insertLex : List (List Nat) → List Nat → List (List Nat)
  | [], v => [v]
  | x :: xs, v => if lexLe x v then x :: insertLex xs v else v :: x :: xs

/-- `neighborhoods.sort()` (a total order: equal elements are identical, any sort gives this list) -/
def sortLex (l : List (List Nat)) : List (List Nat) := l.foldr (fun x acc => insertLex acc x) []

/-- the `unique` loop: drop an element equal to the last one kept -/
def dedupAdj : List (List Nat) → List (List Nat)
  | [] => []
  | [x] => [x]
  | x :: y :: r => if x == y then dedupAdj (y :: r) else x :: dedupAdj (y :: r)

/-- `sorted([v] + list(G.neighbors(v)))` -/
def closedNbr (G : SimpleG) (v : Nat) : List Nat := sortNat (v :: G.nbrs v)

/-- `unique_neighborhoods(G)` -/
def uniqueNeighborhoods (G : SimpleG) : List (List Nat) :=
  if G.n = 0 then []
  else dedupAdj (sortLex ((rangeN 1 (G.n + 1)).map (closedNbr G)))

/-! ### `DominatingSet` -/

/-- `itertools.combinations(l, 2)` as pairs -/
def pairs2 {α : Type} : List α → List (α × α)
  | [] => []
  | x :: xs => xs.map (fun y => (x, y)) ++ pairs2 xs

/-- `itertools.product(l, r)` as pairs -/
def prod2 {α β : Type} (l : List α) (r : List β) : List (α × β) :=
  l.flatMap (fun a => r.map (fun b => (a, b)))

/-- `D(v)` for `D = F.new_block(V)` created first -/
def dId (V v : Nat) : Int := (Vars.blockId 1 [V] [v] : Nat)

/-- `M(v, i)` for `M = F.new_mapping(V, d)` created after `D` -/
def mId (V d v i : Nat) : Int := (Vars.mapId (V + 1) d v i : Nat)

/-- the formula built by `DominatingSet` for a legal (positive) `d` -/
def domsetF (G : SimpleG) (d : Nat) (alternative : Bool) : Formula :=
  let V := G.n
  if V = 0 then ⟨0, []⟩
  else
    let vs := rangeN 1 (V + 1)
    let is := rangeN 1 (d + 1)
    let part1 : List Con :=
      if alternative then
        (pairs2 vs).flatMap (fun p => is.map (fun i =>
          Con.clause [-(dId V p.1), -(dId V p.2), -(mId V d p.1 i), -(mId V d p.2 i)]))
      else
        -- force_injective_mapping(M)
        is.map (fun y => Con.lin (mapCol (V + 1) V d y) .le 1)
    let part2 : List Con :=
      if alternative then
        vs.flatMap (fun v => (pairs2 is).map (fun p =>
          Con.clause [-(dId V v), -(mId V d v p.1), -(mId V d v p.2)]))
      else
        -- force_nondecreasing_mapping(M)
        (pairs2 vs).flatMap (fun p => (prod2 is is).flatMap (fun q =>
          if q.1 > q.2 then [Con.clause [-(mId V d p.1 q.1), -(mId V d p.2 q.2)]] else []))
    let part3 : List Con :=
      if alternative then []
      else is.flatMap (fun i => vs.map (fun v => Con.clause [-(mId V d v i), dId V v]))
    let part4 : List Con := vs.map (fun v => Con.clause (-(dId V v) :: mapRow (V + 1) d v))
    let part5 : List Con := (uniqueNeighborhoods G).map (fun N => Con.clause (N.map (dId V)))
    { nvars := V + V * d, cons := part1 ++ part2 ++ part3 ++ part4 ++ part5 }

/-- `DominatingSet(G, d, alternative)` -/
def domset (G : SimpleG) (d : Int) (alternative : Bool) : Except Err Formula :=
  if d < 1 then .error .valueError            -- positive_int(d)
  else .ok (domsetF G d.toNat alternative)

/-- `Tiling(G)` -/
def tiling (G : SimpleG) : Formula :=
  { nvars := G.n,
    cons := (uniqueNeighborhoods G).map (fun N => Con.lin (N.map (dId G.n)) .eq 1) }

end Fam
end Cnfgen
