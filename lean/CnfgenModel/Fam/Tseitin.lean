/-
L4 — `TseitinFormula` (cnfgen/families/tseitin.py) and the identifier arithmetic of
`GraphEdgesVariables` (cnfgen/formula/variables.py) that it and `EvenColoringFormula` use.
Import-free.
-/
import CnfgenModel.Build.Constr
import CnfgenModel.Graph.Basic
namespace Cnfgen
namespace Fam

/-! ### `GraphEdgesVariables`

The group builds an auxiliary bipartite graph `B = BipartiteGraph(V, V)` with one edge
`(min u v, max u v)` per element of `G.edges()` and delegates to `BipartiteEdgesVariables`.
`G.edges()` (`GraphEdgeList.__iter__`) yields, for `u` in `range(1, n)`, the neighbours of `u`
from position `bisect_right(adj[u], u)` on; `B.add_edge` inserts by `bisect_right`, so the right
neighbours of `u` in `B` are that very slice (adjacency lists of a `Graph` are sorted). -/

/-- `B.right_neighbors(u)` -/
def upNbrs (G : SimpleG) (u : Nat) : List Nat :=
  if 1 ≤ u ∧ u < G.n then (G.nbrs u).drop (bisectRight (G.nbrs u) u) else []

/-- `B.left_neighbors(w)`: the `u` (ascending) with `w` among the right neighbours of `u` -/
def loNbrs (G : SimpleG) (w : Nat) : List Nat :=
  (rangeN 1 (G.n + 1)).filter (fun u => (upNbrs G u).contains w)

/-- `offset[u]` of `BipartiteEdgesVariables` on `B` (prefix sums of the right degrees) -/
def edgeOffset (G : SimpleG) (start u : Nat) : Nat :=
  start + ((List.range (u - 1)).map (fun i => (upNbrs G (i + 1)).length)).sum

/-- `e(u, v)` for an edge `{u,v}`: `BG._unsafe_index_to_lit(sorted((u,v)))` -/
def edgeId (G : SimpleG) (start u v : Nat) : Nat :=
  edgeOffset G start (min u v) + (upNbrs G (min u v)).idxOf (max u v)

/-- the pairs of `e.indices(w, None)`: `(u,w)` for the left neighbours of `w`, then `(w,x)` for
the right neighbours `x ≠ w` -/
def incidentPairs (G : SimpleG) (w : Nat) : List (Nat × Nat) :=
  (loNbrs G w).map (fun u => (u, w)) ++ ((upNbrs G w).filter (fun x => x != w)).map (fun x => (w, x))

/-! ### Tseitin -/

/-- `charges + [False] * (n - len(charges))` when the sequence is shorter than the vertex list -/
def padCharges (n : Nat) (c : List Bool) : List Bool :=
  if c.length < n then c ++ List.replicate (n - c.length) false else c

/-- the charge vector after defaulting, `bool` cast (done by the caller) and padding;
`zip` with the vertices then ignores excess entries -/
def charges (n : Nat) (ch : Option (List Bool)) : List Bool :=
  padCharges n (match ch with
    | none => true :: List.replicate (n - 1) false
    | some c => c)

/-- literals of the parity constraint of vertex `v`: `[e(u, v) for u in G.neighbors(v)]` -/
def tseitinLits (G : SimpleG) (v : Nat) : List Int :=
  (G.nbrs v).map (fun u => (edgeId G 1 u v : Int))

/-- `TseitinFormula(G, charges)` -/
def tseitin (G : SimpleG) (ch : Option (List Bool)) : Formula :=
  { nvars := G.edges.length,
    cons := ((rangeN 1 (G.n + 1)).zip (charges G.n ch)).map (fun p =>
      Con.parity (tseitinLits G p.1) (if p.2 then 1 else 0)) }

end Fam
end Cnfgen
