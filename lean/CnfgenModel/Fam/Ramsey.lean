/-
L4 — cnfgen/families/ramsey.py: `PythagoreanTriples`, `RamseyNumber`,
`_vdw_ap_generator`, `VanDerWaerden` (2-colour and multi-colour encodings).
Import-free.  Each family returns a `Formula` (abstract constraints in the order the
code adds them); the CNF / OPB renderings are `Formula.toCNF` / `Formula.toOPB`.

Integer parameters are `Int` (what the Python function receives); `TypeError` for
non-integers is outside the model (the driver only sends integers).
-/
import CnfgenModel.Core.Sem
import CnfgenModel.Core.Iter
import CnfgenModel.Build.Constr
import CnfgenModel.Vars.Groups
namespace Cnfgen.Fam.Ramsey

/-- `localtypes.positive_int` (value part) -/
def positiveInt (x : Int) : Except Err Unit := if x < 1 then .error .valueError else .ok ()
/-- `localtypes.non_negative_int` (value part) -/
def nonNegInt (x : Int) : Except Err Unit := if x < 0 then .error .valueError else .ok ()
/-- `localtypes.positive_int_seq` (value part) -/
def positiveIntSeq (xs : List Int) : Except Err Unit :=
  if xs.any (· < 1) then .error .valueError else .ok ()

/-! ### Pythagorean triples -/

/-- the two clauses added for the pair `x < y`, if `x² + y²` is the square of some `z ≤ N`.
`int(sqrt(x**2 + y**2))` is modelled by the exact integer square root `Nat.sqrt`
(the float computation is exact as long as `x² + y² < 2^52`; compared by the harness). -/
def ptnPair (N x y : Nat) : List Con :=
  let z := Nat.sqrt (x ^ 2 + y ^ 2)
  if z ≤ N ∧ z ^ 2 = x ^ 2 + y ^ 2 then
    [Con.clause [(x : Int), (y : Int), (z : Int)], Con.clause [-(x : Int), -(y : Int), -(z : Int)]]
  else []

/-- `PythagoreanTriples(N)`; the variable of the number `i` is `v(i) = i` -/
def ptnCons (N : Nat) : List Con :=
  (combos (rangeN 1 (N + 1)) 2).flatMap (fun p =>
    match p with
    | [x, y] => ptnPair N x y
    | _ => [])

def ptn (N : Int) : Except Err Formula := do
  nonNegInt N
  pure ⟨N.toNat, ptnCons N.toNat⟩

/-! ### Ramsey number -/

/-- `e(u, v)`: identifier of the pair in `new_combinations(N, 2)` (first group, ids from 1) -/
def eId (N : Nat) (u v : Nat) : Nat := 1 + (Vars.combosSeqs N 2).idxOf [u, v]

/-- literals `e(u,v)` for `u,v in combinations(vertex_set, 2)` -/
def pairLits (N : Nat) (S : List Nat) : List Nat :=
  (combos S 2).map (fun p => match p with | [u, v] => eId N u v | _ => 0)

def ramseyCons (s k N : Nat) : List Con :=
  (combos (rangeN 1 (N + 1)) s).map (fun S => Con.clause ((pairLits N S).map (fun (e : Nat) => (e : Int)))) ++
  (combos (rangeN 1 (N + 1)) k).map (fun S => Con.clause ((pairLits N S).map (fun (e : Nat) => -(e : Int))))

/-- `RamseyNumber(s, k, N)`: no independent set of size `s`, no clique of size `k` -/
def ramseyNumber (s k N : Int) : Except Err Formula := do
  nonNegInt N
  positiveInt s
  positiveInt k
  pure ⟨(Vars.combosSeqs N.toNat 2).length, ramseyCons s.toNat k.toNat N.toNat⟩

/-! ### van der Waerden -/

/-- `_vdw_ap_generator(N, k)` for `k ≥ 1` (its only caller validates `k ≥ 1`).
`max_d = (N-1)//(k-1)` and `max_i = N - d*k + d` are Python integers; for `N = 0` the
Python value `-1 // (k-1) = -1` and the natural-number value `0` give the same (empty) range,
and `N + d - d*k` is the same integer whenever it is positive (both ranges are empty otherwise). -/
def apGenerator (N k : Nat) : List (List Nat) :=
  if k = 1 then (rangeN 1 (N + 1)).map (fun i => [i])
  else
    let maxD := (N - 1) / (k - 1)
    (rangeN 1 (maxD + 1)).flatMap (fun d =>
      let maxI := N + d - d * k
      (rangeN 1 (maxI + 1)).map (fun i => (List.range k).map (fun t => i + d * t)))

/-- `X(i, c)` of `new_block(N, C)` created first -/
def xId (N C i c : Nat) : Nat := Vars.blockId 1 [N, C] [i, c]

/-- two colours: one variable per number, `X(i) = i` -/
def vdw2Cons (N k1 k2 : Nat) : List Con :=
  (apGenerator N k1).map (fun ap => Con.clause (ap.map (fun (i : Nat) => (i : Int)))) ++
  (apGenerator N k2).map (fun ap => Con.clause (ap.map (fun (i : Nat) => -(i : Int))))

/-- more colours: `X(i,c)`, exactly one colour per number, then the forbidden progressions -/
def vdwMultiCons (N : Nat) (K : List Nat) : List Con :=
  let C := K.length
  (rangeN 1 (N + 1)).map (fun i =>
      Con.lin ((rangeN 1 (C + 1)).map (fun c => (xId N C i c : Int))) .eq 1) ++
  (rangeN 1 (C + 1)).flatMap (fun c =>
      (apGenerator N (K.getD (c - 1) 0)).map (fun ap =>
        Con.clause (ap.map (fun i => -(xId N C i c : Int)))))

/-- `VanDerWaerden(N, k1, k2, *ks)` -/
def vdw (N k1 k2 : Int) (ks : List Int) : Except Err Formula := do
  nonNegInt N
  positiveInt k1
  positiveInt k2
  positiveIntSeq ks
  let n := N.toNat
  if ks.isEmpty then
    pure ⟨n, vdw2Cons n k1.toNat k2.toNat⟩
  else
    let K := (k1 :: k2 :: ks).map Int.toNat
    pure ⟨n * K.length, vdwMultiCons n K⟩

end Cnfgen.Fam.Ramsey
