/-
L4 — cnfgen/families/ordering.py: `OrderingPrinciple`, `GraphOrderingPrinciple`
(plain, total, smart/compact, planted, Knuth variants 2 and 3).  Import-free.

The model produces the abstract `Formula` (list of `Con.clause`s) in exactly the order
in which the code calls `add_clause`.

* `X = new_permutations(n, 2)`: the identifier of `X(u,v)` (`u ≠ v`) is the 1-based
  position of `(u,v)` in `itertools.permutations(range(1,n+1), 2)`, i.e. `permId n u v`.
* `X = new_combinations(n, 2)` (smart): the identifier of `X(u,v)` (`u < v`) is the
  1-based position of `(u,v)` in `itertools.combinations(range(1,n+1), 2)`, `combId n u v`.
* `permutations(V,3)` / `combinations(V,3)` / `combinations(V,2)` over the sorted range `V`
  are lexicographic enumerations of the distinct / increasing tuples: they are written
  as nested loops with a filter (same list, same order; compared with `Core/Iter`'s
  `permsK` / `combos` in `Lemmas/FamOrdering.lean` for small `n` and with the real code by
  the correspondence harness).
-/
import CnfgenModel.Build.Constr
import CnfgenModel.Graph.Basic
namespace Cnfgen.Fam.Ordering

/-- `range(1, n+1)` -/
def verts (n : Nat) : List Nat := (List.range n).map (· + 1)

/-- identifier of `X(u,v)` in `new_permutations(n,2)` created on an empty formula -/
def permId (n u v : Nat) : Nat := (u - 1) * (n - 1) + (if v < u then v else v - 1)

/-- number of pairs `(a,b)`, `a < b ≤ n`, with `a ≤ k` -/
def combOff (n : Nat) : Nat → Nat
  | 0 => 0
  | k + 1 => combOff n k + (n - (k + 1))

/-- identifier of `X(u,v)`, `u < v`, in `new_combinations(n,2)` created on an empty formula -/
def combId (n u v : Nat) : Nat := combOff n (u - 1) + (v - u)

/-- the literal `X(u,v)` of the non-smart encodings -/
def X (n u v : Nat) : Int := (permId n u v : Int)
/-- the variable `X(u,v)`, `u < v`, of the smart encoding -/
def Xs (n u v : Nat) : Int := (combId n u v : Int)

/-- the literal that says "u is below v" in the smart encoding -/
def below (n u v : Nat) : Int := if u < v then Xs n u v else - Xs n v u

/-- `itertools.permutations(V, 3)` for `V = range(1,n+1)` -/
def perm3 (n : Nat) : List (Nat × Nat × Nat) :=
  (verts n).flatMap fun v1 => (verts n).flatMap fun v2 => ((verts n).filter
    (fun v3 => v1 != v2 && v1 != v3 && v2 != v3)).map fun v3 => (v1, v2, v3)

/-- `itertools.combinations(V, 3)` -/
def comb3 (n : Nat) : List (Nat × Nat × Nat) :=
  (verts n).flatMap fun v1 => (verts n).flatMap fun v2 => ((verts n).filter
    (fun v3 => decide (v1 < v2) && decide (v2 < v3))).map fun v3 => (v1, v2, v3)

/-- `itertools.combinations(V, 2)` -/
def comb2 (n : Nat) : List (Nat × Nat) :=
  (verts n).flatMap fun v1 => ((verts n).filter (fun v2 => decide (v1 < v2))).map fun v2 => (v1, v2)

/-- the transitivity instances that a Knuth variant *keeps* -/
def knuthKeep (knuth : Int) (v1 v2 v3 : Nat) : Bool :=
  !(knuth == 2 && (decide (v2 < v1) || decide (v2 < v3))) &&
  !(knuth == 3 && (decide (v3 < v1) || decide (v3 < v2)))

/-- the non-minimality clause of vertex `v` -/
def nonminClause (G : SimpleG) (smart : Bool) (v : Nat) : Clause :=
  if smart then (G.nbrs v).map (fun u => below G.n u v)
  else (G.nbrs v).map (fun u => X G.n u v)

def nonmin (G : SimpleG) (smart plant : Bool) : List Con :=
  ((verts G.n).filter (fun v => !(v == G.n && plant))).map fun v => Con.clause (nonminClause G smart v)

def transSmart (n : Nat) : List Con :=
  (comb3 n).flatMap fun t =>
    [Con.clause [Xs n t.1 t.2.1, Xs n t.2.1 t.2.2, - Xs n t.1 t.2.2],
     Con.clause [- Xs n t.1 t.2.1, - Xs n t.2.1 t.2.2, Xs n t.1 t.2.2]]

def trans (n : Nat) (knuth : Int) : List Con :=
  ((perm3 n).filter (fun t => knuthKeep knuth t.1 t.2.1 t.2.2)).map fun t =>
    Con.clause [- X n t.1 t.2.1, - X n t.2.1 t.2.2, X n t.1 t.2.2]

def antisym (n : Nat) : List Con :=
  (comb2 n).map fun p => Con.clause [- X n p.1 p.2, - X n p.2 p.1]

def totality (n : Nat) : List Con :=
  (comb2 n).map fun p => Con.clause [X n p.1 p.2, X n p.2 p.1]

/-- `GraphOrderingPrinciple(graph, total, smart, plant, knuth)` -/
def gop (G : SimpleG) (total smart plant : Bool) (knuth : Int) : Formula :=
  let n := G.n
  if smart then
    ⟨n * (n - 1) / 2, nonmin G true plant ++ transSmart n⟩
  else
    ⟨n * (n - 1), nonmin G false plant ++ trans n knuth ++ antisym n ++ (if total then totality n else [])⟩

/-- `Graph.complete_graph(n)` as a value (what the `add_edge` loop produces) -/
def completeG (n : Nat) : SimpleG :=
  { n := n, m := n * (n - 1) / 2,
    adj := [] :: (verts n).map (fun u => (verts n).filter (· != u)),
    edgeset := (comb2 n).reverse.flatMap (fun p => [(p.2, p.1), (p.1, p.2)]) }

/-- `OrderingPrinciple(size, total, smart, plant, knuth)`; `non_negative_int(size)` -/
def op (size : Int) (total smart plant : Bool) (knuth : Int) : Except Err Formula :=
  if size < 0 then .error .valueError
  else .ok (gop (completeG size.toNat) total smart plant knuth)

end Cnfgen.Fam.Ordering
