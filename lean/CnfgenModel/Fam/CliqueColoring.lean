/-
L4 — cnfgen/families/cliquecoloring.py: `CliqueColoring(n, k, c)`.  Import-free.
-/
import CnfgenModel.Fam.Mapping
namespace Cnfgen.Fam

/-- `e.indices()` with the identifier of each pair: the `j`-th pair of
`combinations(range(1, n+1), 2)` is variable `1 + j` -/
def ccEdges (n : Nat) : List ((Nat × Nat) × Nat) := (pairs (idx n)).zipIdx

def ccQ (n k : Nat) : UMap := ⟨1 + (pairs (idx n)).length, k, n⟩
def ccR (n k c : Nat) : UMap := ⟨1 + (pairs (idx n)).length + k * n, n, c⟩

def cliqueColoringF (n k c : Nat) : Formula :=
  let q := ccQ n k
  let r := ccR n k c
  ⟨(pairs (idx n)).length + k * n + n * c,
   q.forceComplete ++ q.forceFunctional ++ q.forceInjective
   ++ (ccEdges n).flatMap (fun e => (pairs (idx k)).flatMap (fun i =>
        [Con.clause [((1 + e.2 : Nat) : Int), -(q.lit i.1 e.1.1), -(q.lit i.2 e.1.2)],
         Con.clause [((1 + e.2 : Nat) : Int), -(q.lit i.1 e.1.2), -(q.lit i.2 e.1.1)]]))
   ++ r.forceComplete ++ r.forceFunctional
   ++ (ccEdges n).flatMap (fun e => (idx c).map (fun l =>
        Con.clause [-((1 + e.2 : Nat) : Int), -(r.lit e.1.1 l), -(r.lit e.1.2 l)]))⟩

def cliqueColoring (n k c : Int) : Except Err Formula :=
  if n < 0 ∨ k < 0 ∨ c < 0 then .error .valueError
  else .ok (cliqueColoringF n.toNat k.toNat c.toNat)

end Cnfgen.Fam
