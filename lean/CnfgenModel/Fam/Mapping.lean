/-
L4 (shared by the C01 families) — unary mappings (`new_mapping`, `new_sparse_mapping`,
`new_bipartite_edges`) and the `force_*_mapping` constraint generators of
cnfgen/formula/variables.py, as lists of abstract constraints.  Import-free.
-/
import CnfgenModel.Build.Constr
import CnfgenModel.Vars.Groups
namespace Cnfgen.Fam

/-- `range(1, n+1)` -/
def idx (n : Nat) : List Nat := rangeN 1 (n + 1)

/-- `itertools.combinations(l, 2)` as pairs, in Python's order -/
def pairs {α : Type} : List α → List (α × α)
  | [] => []
  | x :: xs => xs.map (fun y => (x, y)) ++ pairs xs

/-- a unary mapping group created by `new_mapping(dom, rng)` on a formula that had
`start - 1` variables (`UnaryMappingVariables` over `CompleteBipartiteGraph(dom, rng)`) -/
structure UMap where
  start : Nat
  dom : Nat
  rng : Nat
  deriving Repr, Inhabited

namespace UMap
/-- `f(u, v)` -/
def var (f : UMap) (u v : Nat) : Nat := Vars.mapId f.start f.rng u v
def lit (f : UMap) (u v : Nat) : Int := (f.var u v : Nat)
/-- `f(u, None)` -/
def row (f : UMap) (u : Nat) : List Int := (idx f.rng).map (fun v => f.lit u v)
/-- `f(None, v)` -/
def col (f : UMap) (v : Nat) : List Int := (idx f.dom).map (fun u => f.lit u v)
/-- number of variables of the group -/
def size (f : UMap) : Nat := f.dom * f.rng
/-- `force_complete_mapping(f)` -/
def forceComplete (f : UMap) : List Con := (idx f.dom).map (fun u => Con.clause (f.row u))
/-- `force_functional_mapping(f)` -/
def forceFunctional (f : UMap) : List Con := (idx f.dom).map (fun u => Con.lin (f.row u) .le 1)
/-- `force_surjective_mapping(f)` -/
def forceSurjective (f : UMap) : List Con := (idx f.rng).map (fun v => Con.clause (f.col v))
/-- `force_injective_mapping(f)` -/
def forceInjective (f : UMap) : List Con := (idx f.rng).map (fun v => Con.lin (f.col v) .le 1)
end UMap

/-- a group of variables over the edges of a bipartite graph (`BipartiteEdgesVariables`,
also `UnaryMappingVariables` of `new_sparse_mapping`), first identifier `start` -/
structure SMap where
  B : BipG
  start : Nat
  deriving Repr, Inhabited

namespace SMap
def var (f : SMap) (u v : Nat) : Nat := Vars.bipId f.B f.start u v
def lit (f : SMap) (u v : Nat) : Int := (f.var u v : Nat)
/-- `f(u, None)` -/
def row (f : SMap) (u : Nat) : List Int := (f.B.rnbrs u).map (fun v => f.lit u v)
/-- `f(None, v)` -/
def col (f : SMap) (v : Nat) : List Int := (f.B.lnbrs v).map (fun u => f.lit u v)
def forceComplete (f : SMap) : List Con := (idx f.B.l).map (fun u => Con.clause (f.row u))
def forceFunctional (f : SMap) : List Con := (idx f.B.l).map (fun u => Con.lin (f.row u) .le 1)
def forceSurjective (f : SMap) : List Con := (idx f.B.r).map (fun v => Con.clause (f.col v))
def forceInjective (f : SMap) : List Con := (idx f.B.r).map (fun v => Con.lin (f.col v) .le 1)
end SMap

end Cnfgen.Fam
