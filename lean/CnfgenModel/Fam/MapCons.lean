/-
L4 helper — the constraints that `VariablesManager.force_*_mapping` (cnfgen/formula/variables.py)
appends for a *complete unary* mapping `new_mapping(k, N)` and for a *binary* mapping
`new_binary_mapping(k, N)`, as lists of abstract constraints `Con`, in the order of the code.
Used by the graph-isomorphism / subgraph / clique / Ramsey-witness families.  Import-free.
-/
import CnfgenModel.Build.Constr
import CnfgenModel.Core.Iter
import CnfgenModel.Vars.Groups
namespace Cnfgen
namespace Fam
namespace G2
open Vars

/-- `itertools.combinations(l, 2)` as pairs, in Python's order -/
def pairs2 {α : Type} : List α → List (α × α)
  | [] => []
  | x :: xs => xs.map (fun y => (x, y)) ++ pairs2 xs

/-- `range(1, n+1)`: the vertices of a graph / the domain or range of a unary mapping -/
def verts (n : Nat) : List Nat := rangeN 1 (n + 1)

/-! ### unary mapping `f = new_mapping(k, N)` whose first identifier is `st` -/

/-- the variable `f(u, v)` as a literal -/
def mlit (st N u v : Nat) : Int := (mapId st N u v : Nat)

/-- `f(u, None)` -/
def mRow (st N u : Nat) : List Int := (verts N).map (mlit st N u)
/-- `f(None, v)` -/
def mCol (st k N v : Nat) : List Int := (verts k).map (fun u => mlit st N u v)

/-- `force_complete_mapping(f)` -/
def forceComplete (st k N : Nat) : List Con := (verts k).map (fun u => .clause (mRow st N u))
/-- `force_functional_mapping(f)` -/
def forceFunctional (st k N : Nat) : List Con := (verts k).map (fun u => .lin (mRow st N u) .le 1)
/-- `force_surjective_mapping(f)` -/
def forceSurjective (st k N : Nat) : List Con := (verts N).map (fun v => .clause (mCol st k N v))
/-- `force_injective_mapping(f)` -/
def forceInjective (st k N : Nat) : List Con := (verts N).map (fun v => .lin (mCol st k N v) .le 1)
/-- `force_nondecreasing_mapping(f)` (unary branch) -/
def forceNondecreasing (st k N : Nat) : List Con :=
  (pairs2 (verts k)).flatMap (fun u =>
    (verts N).flatMap (fun v1 => (verts N).filterMap (fun v2 =>
      if v1 > v2 then some (.clause [-(mlit st N u.1 v1), -(mlit st N u.2 v2)]) else none)))

/-! ### binary mapping `m = new_binary_mapping(k, N)` whose first identifier is `st` -/

/-- `forbid(i, j)` without its range check (`j < 2^bits`), which is a separate guard in `Vars.forbid` -/
def forbidC (st bits i j : Nat) : Clause :=
  (flipPattern bits j).zipWith (fun s t => s * (binId st bits i (bits - 1 - t) : Int)) (List.range bits)

/-- `force_complete_mapping(m)` (binary branch): codes `N … 2^bits - 1` are forbidden -/
def binComplete (st bits k N : Nat) : List Con :=
  (verts k).flatMap (fun i => (rangeN N (2 ^ bits)).map (fun j => .clause (forbidC st bits i j)))
/-- `force_injective_mapping(m)` (binary branch) -/
def binInjective (st bits k N : Nat) : List Con :=
  (List.range N).flatMap (fun y => (pairs2 (verts k)).map (fun x =>
    .clause (forbidC st bits x.1 y ++ forbidC st bits x.2 y)))
/-- `force_nondecreasing_mapping(m)` (binary branch) -/
def binNondecreasing (st bits k N : Nat) : List Con :=
  (pairs2 (verts k)).flatMap (fun u => (pairs2 (List.range N)).map (fun v =>
    .clause (forbidC st bits u.1 v.2 ++ forbidC st bits u.2 v.1)))

end G2
end Fam
end Cnfgen
