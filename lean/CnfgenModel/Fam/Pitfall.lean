/-
L4 — cnfgen/families/pitfall.py: `PitfallFormula(v, d, ny, nz, k)`.
The random regular graph drawn by `networkx.random_regular_graph(d, v)` (after
`Graph.normalize`) is an INPUT `g` of the model.  Pitfall copies the *clauses* of the CNF
template `TseitinFormula(g, [True])`, whatever the formula class of the result, so every
constraint is a `Con.clause`.  Import-free.
-/
import CnfgenModel.Core.Sem
import CnfgenModel.Core.Iter
import CnfgenModel.Build.Constr
import CnfgenModel.Vars.Groups
import CnfgenModel.Graph.Basic
import CnfgenModel.Fam.PitfallTseitin
namespace Cnfgen.Fam.Pitfall
open Cnfgen.Fam

def positiveInt (x : Int) : Except Err Unit := if x < 1 then .error .valueError else .ok ()

/-- the parameter checks at the top of `PitfallFormula` -/
def check (v d ny nz k : Int) : Except Err Unit := do
  positiveInt v
  positiveInt d
  positiveInt ny
  positiveInt nz
  positiveInt k
  if k % 2 ≠ 0 then throw .valueError
  if nz < 2 then throw .valueError
  if d ≥ v ∨ v * d % 2 = 1 then throw .valueError

/-- the precondition of `networkx.random_regular_graph(d, v)` (third-party): it raises
`NetworkXError` unless `0 ≤ d < v` and `v·d` is even — i.e. unless a `d`-regular graph on `v`
vertices exists.  Since the fix of D41 (`d >= v` in the guard) `check` implies it. -/
def drawable (v d : Int) : Bool := decide (0 ≤ d ∧ d < v ∧ v * d % 2 = 0)

/-- sizes of the variable groups: `m` = number of template variables (`nx`) -/
structure Shape where
  m : Nat
  ny : Nat
  nz : Nat
  k : Nat
  deriving Repr, DecidableEq

namespace Shape
/-- `X[j][0]`: first identifier of the `j`-th copy of the edge variables -/
def xStart (s : Shape) (j : Nat) : Nat := 1 + (j - 1) * s.m
def yStart (s : Shape) : Nat := s.k * s.m + 1
def zStart (s : Shape) : Nat := s.yStart + s.k * s.ny
def pStart (s : Shape) : Nat := s.zStart + s.k * s.nz
def aStart (s : Shape) : Nat := s.pStart + s.k * (s.m + s.nz)
def nvars (s : Shape) : Nat := s.k * s.m + s.k * s.ny + s.k * s.nz + s.k * (s.m + s.nz) + s.k * 3

def yId (s : Shape) (j i : Nat) : Nat := Vars.blockId s.yStart [s.k, s.ny] [j, i]
def zId (s : Shape) (j i : Nat) : Nat := Vars.blockId s.zStart [s.k, s.nz] [j, i]
def pId (s : Shape) (j i : Nat) : Nat := Vars.blockId s.pStart [s.k, s.m + s.nz] [j, i]
def aId (s : Shape) (j i : Nat) : Nat := Vars.blockId s.aStart [s.k, 3] [j, i]

/-- `list(X[j])`, `Y(j, None)`, `Z(j, None)`, `P(j, None)` as positive literals -/
def xs (s : Shape) (j : Nat) : List Int := (List.range s.m).map (fun t => ((s.xStart j + t : Nat) : Int))
def ys (s : Shape) (j : Nat) : List Int := (rangeN 1 (s.ny + 1)).map (fun i => (s.yId j i : Int))
def zs (s : Shape) (j : Nat) : List Int := (rangeN 1 (s.nz + 1)).map (fun i => (s.zId j i : Int))
def ps (s : Shape) (j : Nat) : List Int := (rangeN 1 (s.m + s.nz + 1)).map (fun i => (s.pId j i : Int))
end Shape

/-- `shift_edgelit(j, lit) = sign·(X[j][0] − 1) + lit` with `off = X[j][0] − 1`
(template literals are never 0, so `lit // abs(lit)` is defined) -/
def shiftLit (off : Int) (lit : Int) : Int := if 0 < lit then lit + off else lit - off

/-- hard part: every template clause renamed into block `j`, followed by `Z(j, ·)` -/
def hardCopy (s : Shape) (T : List Clause) (j : Nat) : List Con :=
  T.map (fun cl => Con.clause (cl.map (shiftLit ((s.xStart j : Int) - 1)) ++ s.zs j))

/-- pitfall gadgets of copy `j` -/
def pitfallGadget (s : Shape) (j : Nat) : List Con :=
  (combos (s.ys j) 2).flatMap (fun pr =>
    match pr with
    | [y1, y2] => (s.ps j).map (fun p => Con.clause [y1, y2, -p])
    | _ => [])

/-- `pipe(y, PP, XX, ZZ)`: clause number `t` is `[y] + CP_t + C_t + [−s_t]` where `CP_t` is the
`t`-th `(|PP|−1)`-subset of `PP`, `C_t` the first `t` elements of `S = XX + ZZ`, and in the last
round `del CS[nx]` removes `z_1` from it (`nz ≥ 2` makes the index valid). -/
def pipe (y : Int) (PP XX ZZ : List Int) (nx : Nat) : List Con :=
  let S := XX ++ ZZ
  let CPs := combos PP (PP.length - 1)
  (List.range (min S.length CPs.length)).map (fun t =>
    let CS := if t + 1 = S.length then (S.take t).eraseIdx nx else S.take t
    Con.clause ([y] ++ CPs.getD t [] ++ CS ++ [-(S.getD t 0)]))

def pipeGadget (s : Shape) (j : Nat) : List Con :=
  (s.ys j).flatMap (fun y => pipe y (s.ps j) (s.xs j) (s.zs j) s.m)

/-- tail gadgets of copy `j` -/
def tailGadget (s : Shape) (j : Nat) : List Con :=
  (s.ys j).flatMap (fun y => (s.zs j).flatMap (fun z =>
    [Con.clause [-(s.aId j 1 : Int), (s.aId j 3 : Int), -z],
     Con.clause [-(s.aId j 2 : Int), -(s.aId j 3 : Int), -z],
     Con.clause [(s.aId j 1 : Int), -z, -y],
     Con.clause [(s.aId j 2 : Int), -z, -y]]))

/-- Γ: for `i = 1, 3, … < ny` the clause `⋁_j ¬y(j,i) ∨ ¬y(j,i+1)` -/
def gamma (s : Shape) : List Con :=
  (List.range (s.ny / 2)).map (fun r =>
    let i := 2 * r + 1
    Con.clause ((rangeN 1 (s.k + 1)).flatMap (fun j => [-(s.yId j i : Int), -(s.yId j (i + 1) : Int)])))

def copies (s : Shape) : List Nat := rangeN 1 (s.k + 1)

def consOf (s : Shape) (T : List Clause) : List Con :=
  (copies s).flatMap (hardCopy s T) ++
  (copies s).flatMap (pitfallGadget s) ++
  (copies s).flatMap (pipeGadget s) ++
  (copies s).flatMap (tailGadget s) ++
  gamma s

/-- the formula built once the graph `g` has been drawn -/
def build (ny nz k : Nat) (g : SimpleG) : Formula :=
  let T := PitfallTseitin.template g
  let s : Shape := ⟨T.nvars, ny, nz, k⟩
  ⟨s.nvars, consOf s T.clauses⟩

/-- `PitfallFormula(v, d, ny, nz, k)` given the graph `g` that was drawn -/
def pitfall (v d ny nz k : Int) (g : SimpleG) : Except Err Formula := do
  check v d ny nz k
  pure (build ny.toNat nz.toNat k.toNat g)

end Cnfgen.Fam.Pitfall
