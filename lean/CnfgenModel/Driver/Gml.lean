/-
Driver for GML files (C14, `IO/Gml.lean`).

  ty ::= 0 simple | 1 digraph | 2 dag | 3 bipartite;  u ::= 0 io.StringIO | 1 text-mode file
  graph literal: simple/digraph/dag `n <#e> u v …`, bipartite `l r <#e> u v …`

  gml_w  ty <name> <graph>      the text `writeGraph(G, f, ty, 'gml')` writes: `OK <#cp> cp…`
  gml_p  u <text>               `networkx.read_gml(lines, label='id')`:
                                `OK P <d> <n> <label>… C <colour>… E <#e> s t … N <name>` | `ERR <exception>` | `OK U`
                                label ::= `i <int>` | `s <#cp> cp…`;  colour ::= 0 | 1 | 2 (missing / invalid)
                                name ::= `s <#cp> cp…` | `o` (not a string);  edges in `G.edges()` order, as positions
  gml_r  ty u <text>            `readGraph(f, ty, 'gml')`: `OK <view> N <name>` | `ERR <exception>` | `OK U`
  gml_rt ty u <name> <graph>    gml_r of the text of gml_w
  gml_esc <str>                 `escape(str)`, then `unescape` of it: `OK <#cp> cp… ; <#cp> cp…`

`OK U` = outside the modelled subset (the harness does not compare).
-/
import CnfgenModel.Driver.Util
import CnfgenModel.Driver.GraphIO
import CnfgenModel.IO.Gml
namespace Cnfgen.Driver.Gml
open Cnfgen Cnfgen.Driver Cnfgen.GraphFmt Cnfgen.GraphLex Cnfgen.Gml Cnfgen.Driver.GraphIO

def fmtLabel : Label → String
  | .int z => "i " ++ toString z
  | .str s => "s " ++ fmtText s

def fmtColour : Colour → String
  | .left => "0" | .right => "1" | .invalid => "2" | .unknown => "3"

/-- `none`: the name is a string whose content is not modelled -/
def fmtName : Field → Option String
  | .one (.str s) => some ("s " ++ fmtText s)
  | .one .ostr => none
  | _ => some "o"

def fmtParsed (P : Parsed) : String :=
  if P.colours.contains .unknown then ok "U"
  else match fmtName (nameOf P) with
    | none => ok "U"
    | some nm =>
      ok (" ".intercalate (["P", (if P.directed then "1" else "0"), toString P.labels.length] ++
        P.labels.map fmtLabel ++ ["C"] ++ P.colours.map fmtColour ++
        ["E", fmtPairs (nxEdges P.directed P.labels.length P.tedges), "N", nm]))

def fmtRes {α} (f : α → String) : Res α → String
  | .ok a => f a
  | .err e => "ERR " ++ e.name
  | .unmodelled => ok "U"

def fmtRead (r : Res (AnyG × Field)) : String :=
  fmtRes (fun p => match fmtName p.2 with
    | none => ok "U"
    | some nm => ok (viewAny p.1 ++ " N " ++ nm)) r

def handle (opname : String) (a : Args) : Option String :=
  match opname with
  | "gml_w" => run (do
      let ty ← pTy; let name ← chars; let g ← anyG ty
      pure (match g with
        | .error e => err e
        | .ok G => ok (fmtText (writeGml name G)))) a
  | "gml_p" => run (do
      let u ← bool; let t ← chars
      pure (fmtRes fmtParsed (parseGml u t))) a
  | "gml_r" => run (do
      let ty ← pTy; let u ← bool; let t ← chars
      pure (fmtRead (readGml u ty t))) a
  | "gml_rt" => run (do
      let ty ← pTy; let u ← bool; let name ← chars; let g ← anyG ty
      pure (match g with
        | .error e => err e
        | .ok G => fmtRead (readGml u ty (writeGml name G)))) a
  | "gml_esc" => run (do
      let s ← chars
      let e := escape s
      pure (match unescape e with
        | .ok t => ok (fmtText e ++ " ; " ++ fmtText t)
        | .opaque => ok (fmtText e ++ " ; opaque")
        | .fail => ok (fmtText e ++ " ; fail"))) a
  | _ => none

end Cnfgen.Driver.Gml
