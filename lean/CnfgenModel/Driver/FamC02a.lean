/-
Driver requests of the graph-problem families of C02 (Tseitin, colouring, even colouring,
dominating set, tiling):   `<name> <cls> params… <graph literal>`
-/
import CnfgenModel.Driver.Util
import CnfgenModel.Fam.Tseitin
import CnfgenModel.Fam.Coloring
import CnfgenModel.Fam.DomSet
namespace Cnfgen.Driver.FamC02a
open Cnfgen Cnfgen.Driver Cnfgen.Fam

def fmtLists (ls : List (List Nat)) : String :=
  toString ls.length ++ ls.foldl (fun s l => s ++ " " ++ toString l.length ++ l.foldl (fun t x => t ++ " " ++ toString x) "") ""

def withG (g : Except Err SimpleG) (f : SimpleG → Except Err String) : String :=
  match g with
  | .error e => err e
  | .ok G => match f G with
    | .ok s => ok s
    | .error e => err e

def handle (opname : String) (a : Args) : Option String :=
  match opname with
  | "tseitin" => run (do
      let cls ← int; let has ← bool; let ch ← ints; let g ← simpleG
      let ch' : Option (List Bool) := if has then some (ch.map (· != 0)) else none
      pure (withG g (fun G => .ok (fmtFormula cls (tseitin G ch'))))) a
  | "kcolor" => run (do
      let cls ← int; let k ← int; let fn ← bool; let g ← simpleG
      pure (withG g (fun G => (coloring G k fn).map (fmtFormula cls)))) a
  | "ecolor" => run (do
      let cls ← int; let g ← simpleG
      pure (withG g (fun G => (evenColoring G).map (fmtFormula cls)))) a
  | "domset" => run (do
      let cls ← int; let d ← int; let alt ← bool; let g ← simpleG
      pure (withG g (fun G => (domset G d alt).map (fmtFormula cls)))) a
  | "tiling" => run (do
      let cls ← int; let g ← simpleG
      pure (withG g (fun G => .ok (fmtFormula cls (tiling G))))) a
  | "uniqnbr" => run (do
      let g ← simpleG
      pure (withG g (fun G => .ok (fmtLists (uniqueNeighborhoods G))))) a
  | _ => none

end Cnfgen.Driver.FamC02a
