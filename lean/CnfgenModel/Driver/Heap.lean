/-
Driver handler for the C19 heap model.

  heap <hdr0> <#instr> <instr>…        run a history on an empty store, print outcomes, snapshots, sharing
     <hdr0>  = #entries (key value)*   strings as code-point lists: what `BaseCNF.__init__` adds after `description`
     <instr> = code + arguments, see `instr` below (registers are numbered by instruction)
  answer: `OK <outcome>… | <register> ; <register> … | <alias class>…`  or `BAD program`
-/
import CnfgenModel.Driver.Util
import CnfgenModel.Driver.Vars
import CnfgenModel.Driver.Shuffle
import CnfgenModel.Heap.Prog
namespace Cnfgen.Driver.Heap
open Cnfgen Cnfgen.Driver Cnfgen.Heap

def optStr : P (Option String) := Cnfgen.Driver.Vars.optStr

def optReg : P (Option Nat) := do
  let x ← int
  if x < 0 then pure none else pure (some x.toNat)

def trP : P Tr := do
  let code ← int
  match code with
  | 0 => pure .flip
  | 1 => do let k ← int; pure (.xor k)
  | 2 => do let k ← int; pure (.or k)
  | 3 => do let k ← int; pure (.maj k)
  | 4 => do let k ← int; pure (.allEqual k)
  | 5 => do let k ← int; pure (.notAllEqual k)
  | 6 => do let k ← int; pure (.exactlyOne k)
  | 7 => do let k ← int; let o ← op; let C ← int; pure (.linear k o C)
  | 8 => pure .ite
  | 9 => do let k ← int; pure (.lift k)
  | 10 => do let b ← nat; let fn ← int; pure (.compress b fn)
  | 11 => do let a ← optReg; let b ← optReg; let c ← optReg; pure (.shuffle a b c)
  | _ => failure

def instr : P Instr := do
  let code ← int
  match code with
  | 0 => do let d ← optStr; pure (.newCNF d)
  | 1 => do let xs ← ints; pure (.mkList xs)
  | 2 => do let ls ← nats; pure (.mkLists ls)
  | 3 => do let f ← nat; let l ← nat; let c ← bool; pure (.addClause f l c)
  | 4 => do let f ← nat; let xs ← ints; let c ← bool; pure (.addClauseGen f xs c)
  | 5 => do let f ← nat; let l ← nat; let c ← bool; pure (.addFrom f l c)
  | 6 => do let f ← nat; let i ← int; pure (.getItem f i)
  | 7 => do let f ← nat; let i ← int; pure (.iterItem f i)
  | 8 => do let f ← nat; pure (.view f)
  | 9 => do let v ← nat; let i ← int; pure (.viewGet v i)
  | 10 => do let v ← nat; let i ← nat; let j ← nat; pure (.viewSlice v i j)
  | 11 => do let v ← nat; let i ← int; pure (.viewIter v i)
  | 12 => do let l ← nat; let i ← int; pure (.elem l i)
  | 13 => do let l ← nat; let i ← int; let v ← int; pure (.setItem l i v)
  | 14 => do let l ← nat; let v ← int; pure (.append l v)
  | 15 => do let f ← nat; let k ← str; let v ← str; pure (.hdrSet f k v)
  | 16 => do let f ← nat; let n ← int; pure (.updVar f n)
  | 17 => do
      let f ← nat; let sp ← Cnfgen.Driver.Vars.spec
      match sp with
      | .ok sp => pure (.newGroup f sp)
      | .error _ => failure
  | 18 => do let f ← nat; let t ← str; pure (.describe f t)
  | 19 => do let f ← nat; let t ← trP; pure (.trans f t)
  | 20 => do
      let g ← bipG
      match g with
      | .ok G => pure (.mkBip G)
      | .error _ => failure
  | 21 => do let f ← nat; let l ← nat; let o ← op; let k ← int; let c ← bool; pure (.addLinear f l o k c)
  | 22 => do let d ← optStr; pure (.newOPB d)
  | 23 => do let ts ← pairs; let o ← op; let r ← int; pure (.mkPBC ⟨ts, o, r⟩)
  | 24 => do let o ← nat; let l ← nat; let c ← bool; pure (.opbAddClause o l c)
  | 25 => do let o ← nat; let c ← nat; let chk ← bool; pure (.opbAddConstraint o c chk)
  | 26 => do let o ← nat; let l ← nat; let p ← op; let k ← int; let c ← bool; pure (.opbCard o l p k c)
  | 27 => do let o ← nat; let i ← int; pure (.opbGetItem o i)
  | 28 => do let o ← nat; let i ← int; pure (.opbIterItem o i)
  | 29 => do let c ← nat; let i ← nat; let a ← int; let b ← int; pure (.pbcSet c i a b)
  | 30 => do let g ← nat; pure (.normBip g)
  | 31 => do let g ← nat; let u ← int; let v ← int; pure (.bipAddEdge g u v)
  | 32 => do
      let g ← simpleG
      match g with
      | .ok G => pure (.mkGraph G)
      | .error _ => failure
  | 33 => do
      let g ← diG
      match g with
      | .ok G => pure (.mkDiG G)
      | .error _ => failure
  | 34 => do let d ← bool; let n ← nat; let es ← natPairs; pure (.mkNx d n es)
  | 35 => do
      let c ← int; let g ← nat
      match c with
      | 0 => pure (.normalize .simple g)
      | 1 => pure (.normalize .directed g)
      | 2 => pure (.normalize .bipartite g)
      | _ => failure
  | 36 => do let g ← nat; let u ← int; let v ← int; pure (.gAddEdge g u v)
  | 37 => do let g ← nat; let c ← optReg; let d ← str; pure (.tseitin g c d)
  | 38 => do let g ← nat; let fn ← bool; let onto ← bool; let d ← str; pure (.gphp g fn onto d)
  | 39 => do
      let p ← nat; let k ← nat; let n ← nat; let m ← nat; let cs ← listOf ints; let ds ← listOf ints; let d ← str
      pure (.planted p k n m cs ds d)
  | 40 => do let f ← nat; pure (.liveGroup f)
  | _ => failure

def fmtStr := Cnfgen.Driver.Shuffle.fmtStr
def fmtHeader := Cnfgen.Driver.Shuffle.fmtHeader

def fmtName : Option String → String
  | none => "None"
  | some s => fmtStr s

def fmtNames : Except Err (List (Option String)) → String
  | .error e => "E:" ++ e.name
  | .ok ls => toString ls.length ++ ls.foldl (fun acc l => acc ++ " " ++ fmtName l) ""

def fmtIntList (xs : List Int) : String := toString xs.length ++ xs.foldl (fun acc x => acc ++ " " ++ toString x) ""

def fmtReg (s : Store) : Option Nat → String
  | none => "U"
  | some a =>
    match s[a]? with
    | some (.cnf _ _ _ _) =>
      match snap s a with
      | some S => "F " ++ fmtCNF S.cnf ++ " H " ++ fmtHeader S.header ++ " N " ++
          fmtNames ((liveNames s a).getD S.names)     -- = S.names unless a live group refers to a caller's graph (O1)
      | none => "F ?"
    | some (.opb _ _ _ _) =>
      match osnap s a with
      | some S => "O " ++ fmtOPB ⟨S.numvar, S.constraints⟩ ++ " H " ++ fmtHeader S.header
      | none => "O ?"
    | some (.ints xs) => "I " ++ fmtIntList xs
    | some (.refs []) => "I 0"          -- an empty Python list has no element type
    | some (.refs as) =>
      "L " ++ toString as.length ++ as.foldl (fun acc x =>
        acc ++ " [" ++ (match readInts s x with | some xs => fmtIntList xs | none => "?") ++ "]") ""
    | some (.view _ _) => "V " ++ (match viewLen s a with | some n => toString n | none => "?")
    | some (.bipg B) => "G " ++ toString B.l ++ " " ++ toString B.r ++ " " ++ fmtPairs B.edges
    | some (.pbc c) => "C " ++ fmtPBC c
    | some (.graph G) => "S " ++ toString G.n ++ " " ++ fmtPairs G.edges
    | some (.dig D) => "D " ++ toString D.n ++ " " ++ fmtPairs D.edges
    | some (.nx d n es) => "X " ++ (if d then "1 " else "0 ") ++ toString n ++ " " ++ fmtPairs es
    | some (.bgroup _ _) =>
      -- the live group object: what it enumerates NOW (it reads the caller's graph)
      "P " ++ (match bgroupEdges s a with | some es => fmtPairs es | none => "?")
    | _ => "?"

def fmtOut : Option Err → String
  | none => "-"
  | some e => e.name

def fmtMachine (m : Machine) : String :=
  " ".intercalate (m.outs.toList.map fmtOut) ++ " | " ++
  " ; ".intercalate (m.regs.toList.map (fmtReg m.store)) ++ " | " ++
  " ".intercalate (m.sharing.map toString)

def handle (opname : String) (a : Args) : Option String :=
  match opname with
  | "heap" => run (do
      let h ← listOf (do let k ← str; let v ← str; pure (k, v))
      let prog ← listOf instr
      match runProg ⟨h⟩ Machine.init prog with
      | none => pure "BAD program"
      | some m => pure (ok (fmtMachine m))) a
  | _ => none

end Cnfgen.Driver.Heap
