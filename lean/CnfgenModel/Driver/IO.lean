/-
Driver ops of the I/O layer (C06, C12).  Strings travel as length-prefixed code points.

  lex u <text>                               → OK <rows>
  wdimacs u <cnf> <hdr?> <names?>            → OK <agree> <text>      agree = lex(text) == token-level rows
  rdimacs u <text>                           → OK <cnf> | ERR <kind>
  wopb u <cls> <formula> <hdr?> <names?>     → OK <agree> <text>
  ropb u <text>                              → OK <nvars> <pbcs> | ERR <kind>
  wlatex <cls> <formula> <names>             → OK <text>              (to_latex)
  wlatexdoc <cls> <formula> <names> <hdr> <exportHeader> <extra> → OK <text> | ERR KeyError
  latexrows <cls> <formula> <names> <split> <compact> → OK <rows-agree> <blocks>
  rlatexrow <cls> <names> <compact> <text>   → OK <clause | constraint> | ERR ValueError
  rlatexbody <cls> <names> <text>            → OK <clauses | constraints> | ERR ValueError   (reader of a whole body text)
  guessfmt <name?> <request?>                → OK <fmt> | ERR ValueError
-/
import CnfgenModel.Driver.Util
import CnfgenModel.IO.Lex
import CnfgenModel.IO.Dimacs
import CnfgenModel.IO.Opb
import CnfgenModel.IO.Latex
namespace Cnfgen.Driver.IO
open Cnfgen Cnfgen.Driver Cnfgen.IO

def cstr : P Str := do let l ← ints; pure (l.map (fun i => Char.ofNat i.toNat))

def fmtStr (s : Str) : String :=
  toString s.length ++ s.foldl (fun acc c => acc ++ " " ++ toString c.toNat) ""

def optOf {α} (p : P α) : P (Option α) := do
  let b ← int
  if b == 0 then pure none else do let x ← p; pure (some x)

def header : P Header := listOf (do let k ← cstr; let v ← cstr; pure (k, v))
def names : P (List Str) := listOf cstr
def clauses : P (List Clause) := listOf ints
def cnf : P CNF := do let n ← nat; let cs ← clauses; pure ⟨n, cs⟩

def pbc : P PBC := do let ts ← pairs; let o ← op; let k ← int; pure ⟨ts, o, k⟩
def opbF : P OPB := do let n ← nat; let cs ← listOf pbc; pure ⟨n, cs⟩
def anyF : P AnyF := do
  let cls ← int
  if cls == 0 then do let F ← cnf; pure (.cnf F) else do let G ← opbF; pure (.opb G)

def fileArg : P FileArg := do
  let k ← int
  match k with
  | 0 => do let s ← cstr; pure (.path s)
  | 1 => do let s ← cstr; pure (.named s)
  | 2 => pure .fdNamed
  | _ => pure .nameless

def cleanNames (ns : List Str) : Bool := ns.all (fun n => !n.any isSpace)

/-- does lexing the body text give the token rows the theorems speak about? (`-` when a name contains blanks) -/
def latexAgree (F : AnyF) (ns : List Str) (split : Int) (compact : Bool) : String :=
  if !cleanNames ns then "-"
  else match latexBodyText F ns split compact, latexBlocks F ns split.toNat compact with
    | .ok t, .ok bs => if lexLatex t == latexBodyRows bs then "1" else "0"
    | .error _, .error _ => "1"
    | _, _ => "0"

def fmtTok : Tok → String
  | .int i => "I" ++ toString i
  | .xvar neg v => "X" ++ (if neg then "1:" else "0:") ++ toString v
  | .word s => "W" ++ ".".intercalate (s.map (fun c => toString c.toNat))

def fmtRow (r : Row) : String := " ".intercalate (r.map fmtTok)
def fmtRows (rs : List Row) : String := toString rs.length ++ rs.foldl (fun acc r => acc ++ " / " ++ fmtRow r) ""

def b01 (b : Bool) : String := if b then "1" else "0"

def handle (opname : String) (a : Args) : Option String :=
  match opname with
  | "nop" => run (pure "OK -") a
  | "lex" => run (do let u ← bool; let s ← cstr; pure (ok (fmtRows (lex u s)))) a
  | "wdimacs" => run (do
      let u ← bool; let F ← cnf; let h ← optOf header; let ns ← optOf names
      let text := renderDimacsText F h ns
      pure (ok (b01 (lex u text == renderDimacs u F h ns) ++ " " ++ fmtStr text))) a
  | "rdimacs" => run (do let u ← bool; let s ← cstr; pure (fmtExcept fmtCNF (readDimacsText u s))) a
  | "wopb" => run (do
      let u ← bool; let F ← anyF; let h ← optOf header; let ns ← optOf names
      match F with
      | .cnf F =>
        let text := renderOpbTextCNF F h ns
        pure (ok (b01 (lex u text == renderOpbCNF u F h ns) ++ " " ++ fmtStr text))
      | .opb G =>
        let text := renderOpbText G h ns
        pure (ok (b01 (lex u text == renderOpb u G h ns) ++ " " ++ fmtStr text))) a
  | "ropb" => run (do let u ← bool; let s ← cstr
                      pure (fmtExcept (fun r => toString r.1 ++ " " ++ fmtPBCs r.2) (readOpbText u s))) a
  | "wlatex" => run (do
      let F ← anyF; let ns ← names
      pure (fmtExcept (fun t => latexAgree F ns (-1) true ++ " " ++ fmtStr t) (latexString F ns))) a
  | "wlatexdoc" => run (do
      let F ← anyF; let ns ← names; let h ← header; let eh ← bool; let extra ← cstr
      pure (fmtExcept (fun t => latexAgree F ns clausesPerPage false ++ " " ++ fmtStr t)
        (latexDocumentText F ns h eh extra))) a
  | "wlatexbody" => run (do
      let F ← anyF; let ns ← names; let split ← int; let compact ← bool
      pure (fmtExcept (fun t => latexAgree F ns split compact ++ " " ++ fmtStr t)
        (latexBodyText F ns split compact))) a
  | "rlatexrow" => run (do
      let cls ← int; let ns ← names; let s ← cstr
      let row := lexLatexLine s
      if cls == 0 then pure (fmtExcept fmtInts (readClauseRow ns row))
      else pure (fmtExcept fmtPBC (readConstraintRow ns row))) a
  | "rlatexbody" => run (do
      let cls ← int; let ns ← names; let s ← cstr
      if cls == 0 then pure (fmtExcept fmtClauses (readLatexClausesText ns s))
      else pure (fmtExcept fmtPBCs (readLatexConstraintsText ns s))) a
  | "guessfmt" => run (do
      let f ← fileArg; let r ← optOf cstr
      pure (fmtExcept (fun x => x.name) (guessOutputFormat f r) ++ " | " ++
            fmtExcept (fun x => x.name) (toFileWriter false f r) ++ " | " ++
            fmtExcept (fun x => x.name) (toFileWriter true f r))) a
  | _ => none

end Cnfgen.Driver.IO
