/-
Driver request for a whole run of `cnfgen` / `pbgen` on ANY list of tokens (Cli/OutcomeX.lean).

  cli_runx <cls: 0 CNF (cnfgen) | 1 OPB (pbgen)> <name> <argv…> <bits…> <oS> <oB> <oL> <argRefused>
      the run of the formula sub-command `name`: extended argparse, the helper's method, graph arguments resolved by
      the deterministic constructions; what the helper drew itself is REPLAYED from the record of the real run:
        bits  the results of `random.randint(0, 1)` in `build_formula`, in order
        oS    the result of the helper's own `make_graph_from_spec('simple', …)`:   0 not called | 1 ValueError | 2 <graph>
        oB    … of `make_graph_from_spec('bipartite', …)`                          0 | 1 | 2 <bipartite graph>
        oL    … of `bipartite_random_left_regular(…)`                              0 | 1 | 2 <bipartite graph>
        argRefused  an argparse action refused the tokens of a graph argument (`EndX.observed`)
      answer: `OK ok <formula in the class>` | `OK cliError` | `OK help` | `OK escaped:<Exception>` | `OK internalBug` |
      `UNSUPPORTED` (a graph argument that is neither deterministic nor recorded, an unmapped call, `dimacs`)
-/
import CnfgenModel.Driver.Util
import CnfgenModel.Cli.OutcomeX
namespace Cnfgen.Driver.CliRunX
open Cnfgen Cnfgen.Driver Cnfgen.Cli Cnfgen.Gen Cnfgen.Cli.AP

/-- 0 absent | 1 refused | 2 graph -/
def optGraph {α : Type} (p : P (Except Err α)) : P (Option (Option α)) := do
  let tag ← int
  if tag == 0 then pure none
  else if tag == 1 then pure (some none)
  else do
    let g ← p
    match g with
    | .ok G => pure (some (some G))
    | .error _ => failure

def oneVertex : SimpleG := ⟨1, 0, [[], []], []⟩

def fmtOutcome : Outcome → String
  | .ok => "ok" | .cliError => "cliError" | .internalBug => "internalBug" | .escaped e => "escaped:" ++ e.name

/-- deterministic constructions, then the recorded graph of the helper's own call -/
def envX (oS : Option (Option SimpleG)) (oB : Option (Option BipG)) : GraphEnv :=
  { simple := fun i t => match detGraph "simple" t with
      | some _ => detEnv.simple i t
      | none => oS.getD none
    dag := detEnv.dag
    bip := fun i t => match detGraph "bipartite" t with
      | some _ => detEnv.bip i t
      | none => oB.getD none }

/-- every graph argument of the call is deterministic or recorded -/
def callKnown (oS : Option (Option SimpleG)) (oB : Option (Option BipG)) (c : Call) : Bool :=
  c.pos.all (fun v => match v with
    | .graph k t => (detGraph k t).isSome || (k == "simple" && oS.isSome) || (k == "bipartite" && oB.isSome)
    | _ => true)

def handle (opname : String) (a : Args) : Option String :=
  match opname with
  | "cli_runx" => run (do
      let cls ← int; let name ← str; let argv ← listOf str
      let bits ← ints
      let oS ← optGraph simpleG; let oB ← optGraph bipG; let oL ← optGraph bipG
      let argRefused ← bool
      let re : RandEnv := { bit := fun i => (bits.getD i 0) != 0, lreg := fun _ _ _ => oL.getD none }
      let env := envX oS oB
      let tool := if cls == 0 then "cnfgen" else "pbgen"
      match cliSpecs.find? (fun s => s.kind == "formula" && s.name == name) with
      | none => pure "UNSUPPORTED"
      | some s =>
        -- the library call (when there is one) must speak of known graphs only
        let known : Bool := match dispatchTemplateX (fun _ => 0) s argv with
          | .ok (t, ns) => (match instantiate ns t with
              | .ok c => callKnown oS oB c &&
                  (c.fn != "SparseStoneFormula" && !(c.fn == "GraphPigeonholePrinciple" &&
                      (match c.pos with | [.opaque _] => true | _ => false)) || oL.isSome)
              | _ => true)
          | _ => true
        if !known then pure "UNSUPPORTED" else
        match cliOutcomeX re env oneVertex tool (fun _ => 0) s argv with
        | none => pure "UNSUPPORTED"
        | some .help => pure (ok (if argRefused then "cliError" else "help"))
        | some (.done .ok) =>
          if s.inline then
            (match parseX s argv with
             | .ok b => (match inlineBuild s.cls (namespaceOf s b) with
                 | .ok (.formula n cs) => pure (ok ("ok " ++ fmtFormula cls ⟨n, cs.map Con.clause⟩))
                 | _ => pure "UNSUPPORTED")
             | _ => pure "UNSUPPORTED")
          else
          (match cliBuiltX re env oneVertex (fun _ => 0) s argv with
           | some (.result (.ok F)) =>
             if name == "pitfall" then pure "UNSUPPORTED" else pure (ok ("ok " ++ fmtFormula cls F))
           | _ => pure "UNSUPPORTED")
        | some (.done o) => pure (ok (fmtOutcome o))) a
  | _ => none

end Cnfgen.Driver.CliRunX
