/-
Driver requests of property C07 (whole runs and phase tables).

  clirun <tool> <argv> <interp table> <floatStr table> <base header> <dot> <fuel> <rng₀> <σ>
      argv          : list of strings (code-point lists)
      interp table  : list of  <tok> <hasInt> <int> <hasFlt> <pn> <pd>      (`int(tok)`, `float(tok)` as a fraction)
      floatStr table: list of  <tok> <str(float(tok))>
      base header   : list of  <key> <value>
      files         : list of  <path token> <content>       (after <fuel>)
      rng₀, σ       : two streams each (parse phase, later): list of <vocabulary> <draw>: 0 graph samplers (format of Driver/GraphBuild),
                      1 formula samplers (Driver/Rand), 2 networkx (Driver/NxBuild), 3 Shuffle (Driver/Shuffle)
                      (σ is the state `random.seed(s)` installs, for the seed of this command line)
      answer: `OK T <#draws consumed while parsing> <#draws consumed later> <code points of the text> W <files written>`
              or `OK E <outcome>`
  shufflerun <argv> <stdin text> <input name> <base header> <files> <rng₀ draws> <σ draws>      (draw format of Driver/Shuffle)
      answer: `OK T <#draws consumed> <code points of the text>` or `OK E <outcome>`
  phasetrace <tool> <hasSeed> <seed> <parseDraws> <buildDraws> <transDraws> <shuffleDraws>
      answer: the generator events an observer sees (P( seed other draws )P …)
  seededgraph <which> <hasSeed> <seed> <args…> <pre draws> <post draws>      (draw format of Driver/GraphBuild)
      which: 0 bipartite_random_left_regular l r d | 1 bipartite_random_m_edges L R m | 2 bipartite_random L R pn pd
             3 bipartite_random_regular l r d fuel | 4 add_random_missing_edges (simple G) m
             5 add_random_missing_edges (bipartite G) m | 6 split_random_edges (simple G) k
      `pre` = the state the generator is in, `post` = the state random.seed(seed) installs
  c07_seeded      names of the library generators with a `seed` parameter (generated table)
  c07_tables      summary of the generated phase tables (tool, seed option, soundness, variant)
-/
import CnfgenModel.Driver.Util
import CnfgenModel.Driver.GraphBuild
import CnfgenModel.Driver.Rand
import CnfgenModel.Cli.Run
import CnfgenModel.Rand.Seeded
import CnfgenModel.Cli.RunShuffle
import CnfgenModel.Driver.Shuffle
import CnfgenModel.Driver.NxBuild
namespace Cnfgen.Driver.CliRun
open Cnfgen Cnfgen.Driver Cnfgen.Cli Cnfgen.CliRun Cnfgen.GenPh

def rdraw : P RDraw := do
  let tag ← int
  match tag with
  | 0 => do let d ← GraphBuild.draw; pure (.g d)
  | 1 => do let d ← Rand.draw; pure (.f d)
  | 2 => do let d ← NxBuild.draw; pure (.nx d)
  | 3 => do let d ← Shuffle.drawP; pure (.sh d)
  | _ => failure

def rng : P Rng := do
  let p ← listOf rdraw
  let l ← listOf rdraw
  pure ⟨p, l⟩

def interpRow : P (String × GCli.Arg) := do
  let tok ← str; let a ← GraphBuild.arg
  pure (tok, a)

def world : P World := do
  let tab ← listOf interpRow
  let ftab ← listOf (do let t ← str; let r ← str; pure (t, r))
  let base ← listOf (do let k ← str; let v ← str; pure (k, v))
  let dot ← bool
  let fuel ← nat
  let files ← listOf (do let t ← str; let r ← str; pure (t, r))
  pure { gw := { interp := fun tok => (tab.lookup tok).getD ⟨none, none⟩
                 ext := none
                 openFile := .error .valueError
                 readGraph := fun _ => .stuck
                 fuel := fuel
                 dot := dot }
         floatStr := fun tok => (ftab.lookup tok).getD "?"
         baseHeader := base
         files := fun tok => files.lookup tok }

def fmtWritten (l : List (String × String)) : String :=
  " W " ++ toString l.length ++ l.foldl (fun acc p => acc ++ " " ++ Shuffle.fmtStr p.1 ++ " " ++ Shuffle.fmtStr p.2) ""

def fmtOutcome : CliRun.Outcome × Nat × Nat → String
  | (.text s, ug, uf) => ok ("T " ++ toString ug ++ " " ++ toString uf ++ " " ++ fmtInts (intsOfStr s))
  | (.cliError, _) => ok "E cliError"
  | (.crash e, _) => ok ("E crash:" ++ e.name)
  | (.unsupported why, _) => ok ("E unsupported:" ++ why.replace " " "_")
  | (.stuck, _) => ok "E stuck"

def fmtResult (r : CliRun.Result) : String :=
  match r.out with
  | .text _ => fmtOutcome (r.out, r.usedParse, r.usedLater) ++ fmtWritten r.written
  | o => fmtOutcome (o, 0, 0)

def fmtTok : TraceTok → String
  | .parseBegin => "P("
  | .parseEnd => ")P"
  | .seed => "seed"
  | .seedOther => "seedOther"
  | .draws => "draws"

def fmtGuard : Guard → String
  | .always => "always" | .isNotNone => "isNotNone" | .truthy => "truthy" | .other _ => "other"

def handle (opname : String) (a : Args) : Option String :=
  match opname with
  | "clirun" => run (do
      let tool ← str
      let argv ← listOf str
      let w ← world
      let r0 ← rng
      let rs ← rng
      pure (fmtResult (toolRun tool (fun _ => rs) w argv r0))) a
  | "shufflerun" => run (do
      let argv ← listOf str
      let stdin ← str
      let name ← str
      let base ← listOf (do let k ← str; let v ← str; pure (k, v))
      let files ← listOf (do let t ← str; let r ← str; pure (t, r))
      let r0 ← listOf Shuffle.drawP
      let rs ← listOf Shuffle.drawP
      pure (match shuffleRun (fun _ => rs) ⟨name, base, fun tok => files.lookup tok⟩ argv stdin r0 with
        | (.text s, u, wr) => ok ("T " ++ toString u ++ " " ++ fmtInts (intsOfStr s)) ++ fmtWritten wr
        | (o, _) => fmtOutcome (o, 0, 0))) a
  | "phasetrace" => run (do
      let tool ← str; let has ← bool; let s ← int
      let p ← nat; let b ← nat; let t ← nat; let sh ← nat
      match phasesOf tool with
      | some tab =>
        let c : RunCmd := ⟨if has then some s else none, p, b, t, sh, false⟩
        pure (ok (" ".intercalate ((traceOf tab c).map fmtTok)))
      | none => pure "ERR NoSuchTool") a
  | "seededgraph" => run (do
      let which ← int; let has ← bool; let s ← int
      let seed : Option Int := if has then some s else none
      match which with
      | 0 => do
        let l ← int; let r ← int; let d ← int; let pre ← GraphBuild.draws; let post ← GraphBuild.draws
        pure (GraphBuild.fmtOut GraphBuild.fmtBip (GRand.bipartiteRandomLeftRegular (fun _ => post) l r d seed pre))
      | 1 => do
        let l ← int; let r ← int; let m ← int; let pre ← GraphBuild.draws; let post ← GraphBuild.draws
        pure (GraphBuild.fmtOut GraphBuild.fmtBip (GRand.bipartiteRandomMEdges (fun _ => post) l r m seed pre))
      | 2 => do
        let l ← int; let r ← int; let pn ← int; let pd ← nat; let pre ← GraphBuild.draws; let post ← GraphBuild.draws
        pure (GraphBuild.fmtOut GraphBuild.fmtBip (GRand.bipartiteRandom (fun _ => post) l r pn pd seed pre))
      | 3 => do
        let l ← int; let r ← int; let d ← int; let fuel ← nat; let pre ← GraphBuild.draws; let post ← GraphBuild.draws
        pure (GraphBuild.fmtOut GraphBuild.fmtBip (GRand.bipartiteRandomRegular (fun _ => post) l r d fuel seed pre))
      | 4 => do
        let G ← GraphBuild.okG simpleG; let m ← int; let pre ← GraphBuild.draws; let post ← GraphBuild.draws
        pure (GraphBuild.fmtOut GraphBuild.fmtSimple (GRand.addRandomMissingEdgesSimple (fun _ => post) G m seed pre))
      | 5 => do
        let G ← GraphBuild.okG bipG; let m ← int; let pre ← GraphBuild.draws; let post ← GraphBuild.draws
        pure (GraphBuild.fmtOut GraphBuild.fmtBip (GRand.addRandomMissingEdgesBip (fun _ => post) G m seed pre))
      | 6 => do
        let G ← GraphBuild.okG simpleG; let k ← int; let pre ← GraphBuild.draws; let post ← GraphBuild.draws
        pure (GraphBuild.fmtOut GraphBuild.fmtSimple (GRand.splitRandomEdges (fun _ => post) G k seed pre))
      | _ => failure) a
  | "c07_seeded" => run (do
      pure (ok (" ".intercalate ((seededGenerators.map (fun s => s.fn)).mergeSort (fun x y => decide (x ≤ y)))))) a
  | "c07_tables" => run (do
      pure (ok (" | ".intercalate (toolPhases.map (fun t =>
        t.tool ++ " " ++ (match t.seedOpt with
          | some o => o.ty ++ " " ++ o.action ++ " seeds=" ++ toString o.seeds
          | none => "noseed") ++ " sound=" ++ toString (sound t) ++ " parseMayDraw=" ++ toString (parseMayDraw t)))))) a
  | _ => none

end Cnfgen.Driver.CliRun
