/-
Driver handler for the command line → library call interpreter (Cli/Dispatch.lean).

  dispatch <kind: 0 formula | 1 transformation> <name> <argv…>      strings as code-point lists
      answer: `<call by the templates regenerated from the source> ## <call by the documented table>`
  dispatch_supported <kind>                                         names of the handled sub-commands
  cli_outcome <kind> <name> <argv…>                                 outcome class of the whole run (Cli/Outcome.lean)
-/
import CnfgenModel.Driver.Util
import CnfgenModel.Cli.Dispatch
import CnfgenModel.Cli.DispatchDoc
import CnfgenModel.Cli.Outcome
namespace Cnfgen.Driver.Dispatch
open Cnfgen Cnfgen.Driver Cnfgen.Cli Cnfgen.Gen

def fmtStr (s : String) : String := ".".intercalate (s.toList.map (fun c => toString c.toNat))

def fmtVal : Val → String
  | .none => "N"
  | .bool b => if b then "B1" else "B0"
  | .int i => "I" ++ toString i
  | .str s => "S" ++ fmtStr s
  | .ints l => "L" ++ ",".intercalate (l.map toString)
  | .graph k toks => "G" ++ k ++ ":" ++ "/".intercalate (toks.map fmtStr)
  | .param n => "P" ++ n
  | .toks _ => "?"
  | .pos => "?"
  | .opaque _ => "?"

def fmtCall (c : Call) : String :=
  "CALL " ++ c.fn ++ " P " ++ toString c.pos.length ++ c.pos.foldl (fun s v => s ++ " " ++ fmtVal v) "" ++
  " K " ++ toString c.kw.length ++ c.kw.foldl (fun s p => s ++ " " ++ p.1 ++ "=" ++ fmtVal p.2) ""

def fmtResult : Except CliErr Call → String
  | .ok c => ok (fmtCall c)
  | .error .cliError => "ERR CLIError"
  | .error (.crash e) => "ERR " ++ e
  | .error (.unsupported _) => "UNSUPPORTED"

def kindName (k : Int) : String := if k == 0 then "formula" else "transformation"

def handle (opname : String) (a : Args) : Option String :=
  match opname with
  | "dispatch" => run (do
      let k ← int; let name ← str; let argv ← listOf str
      let cur := match helpers.find? (fun h => h.kind == kindName k && h.name == name) with
            | some h => fmtResult (Cnfgen.Cli.dispatch h argv)
            | none => "UNSUPPORTED"
      pure (cur ++ " ## " ++ fmtResult (dispatchDoc (kindName k) name argv))) a
  | "cli_outcome" => run (do
      let k ← int; let name ← str; let argv ← listOf str
      pure (match cliOutcomeNamed (kindName k) name argv with
            | some .ok => ok "ok"
            | some .cliError => ok "cliError"
            | some .internalBug => ok "internalBug"
            | some (.escaped e) => ok ("escaped:" ++ e.name)
            | none => "UNSUPPORTED")) a
  | "dispatch_supported" => run (do
      let k ← int
      pure (ok (" ".intercalate (supportedNames (kindName k))))) a
  | _ => none

end Cnfgen.Driver.Dispatch
