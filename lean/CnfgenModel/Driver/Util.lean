/-
Line-protocol helpers shared by all driver modules.
Request  : `<op> <int> <int> …`  (lists are length-prefixed, strings hex-encoded ints)
Response : one line, `OK …` or `ERR <PythonExceptionName>`
-/
import CnfgenModel.Core.Sem
import CnfgenModel.Build.Constr
import CnfgenModel.Graph.Basic
namespace Cnfgen.Driver

abbrev Args := List Int

/-- a tiny parser over the integer arguments -/
abbrev P := StateT Args Option

def int : P Int := do
  match (← get) with
  | x :: xs => set xs; pure x
  | [] => failure

def nat : P Nat := do let x ← int; if x < 0 then failure else pure x.toNat

def bool : P Bool := do let x ← int; pure (x != 0)

def takeN : Nat → P (List Int)
  | 0 => pure []
  | n + 1 => do let x ← int; let xs ← takeN n; pure (x :: xs)

def ints : P (List Int) := do let n ← nat; takeN n

def nats : P (List Nat) := do let l ← ints; pure (l.map Int.toNat)

def listOf {α} (p : P α) : P (List α) := do
  let n ← nat
  let rec go : Nat → P (List α)
    | 0 => pure []
    | k + 1 => do let x ← p; let xs ← go k; pure (x :: xs)
  go n

def pairs : P (List (Int × Int)) := listOf (do let a ← int; let b ← int; pure (a, b))
def natPairs : P (List (Nat × Nat)) := listOf (do let a ← nat; let b ← nat; pure (a, b))

def opOfInt : Int → Option Op
  | 0 => some .le | 1 => some .ge | 2 => some .lt | 3 => some .gt | 4 => some .eq | 5 => some .ne
  | _ => none

def op : P Op := do let x ← int; match opOfInt x with | some o => pure o | none => failure

def run {α} (p : P α) (a : Args) : Option α :=
  match p.run a with
  | some (x, []) => some x
  | _ => none

/-! output -/
def fmtInts (l : List Int) : String := " ".intercalate (l.map toString)
def fmtNats (l : List Nat) : String := " ".intercalate (l.map toString)

/-- `<#clauses> <lits…> 0 <lits…> 0 …` -/
def fmtClauses (cs : List Clause) : String :=
  toString cs.length ++ cs.foldl (fun s c => s ++ " " ++ (if c.isEmpty then "" else fmtInts c ++ " ") ++ "0") ""

def fmtCNF (F : CNF) : String := toString F.nvars ++ " " ++ fmtClauses F.clauses

def fmtPBC (c : PBC) : String :=
  c.terms.foldl (fun s t => s ++ toString t.1 ++ " " ++ toString t.2 ++ " ") "" ++ c.op.str ++ " " ++ toString c.rhs

def fmtPBCs (cs : List PBC) : String :=
  toString cs.length ++ cs.foldl (fun s c => s ++ " ; " ++ fmtPBC c) ""

def fmtOPB (F : OPB) : String := toString F.nvars ++ " " ++ fmtPBCs F.constraints

def ok (s : String) : String := "OK " ++ s
def err (e : Err) : String := "ERR " ++ e.name

def fmtExcept {α} (f : α → String) : Except Err α → String
  | .ok a => ok (f a)
  | .error e => err e

/-- decode a hex-free "string" passed as a list of code points -/
def strOfInts (l : List Int) : String := String.ofList (l.map (fun i => Char.ofNat i.toNat))
def str : P String := do let l ← ints; pure (strOfInts l)
def intsOfStr (s : String) : List Int := s.toList.map (fun c => (c.toNat : Int))

/-! graph literals: `n m u₁ v₁ … u_m v_m` (bipartite: `l r m u₁ v₁ …`), built by the model's
own `addEdge` in the given order -/
def simpleG : P (Except Err SimpleG) := do let n ← nat; let es ← natPairs; pure (SimpleG.ofEdges n es)
def diG : P (Except Err DiG) := do let n ← nat; let es ← natPairs; pure (DiG.ofEdges n es)
def bipG : P (Except Err BipG) := do let l ← nat; let r ← nat; let es ← natPairs; pure (BipG.ofEdges l r es)

def fmtPairs (l : List (Nat × Nat)) : String :=
  toString l.length ++ l.foldl (fun s p => s ++ " " ++ toString p.1 ++ " " ++ toString p.2) ""

/-- a formula-class tag: 0 = CNF, 1 = OPB -/
def fmtFormula (cls : Int) (F : Formula) : String :=
  if cls == 0 then fmtCNF F.toCNF else fmtOPB F.toOPB

end Cnfgen.Driver
