import CnfgenModel.Driver.Util
import CnfgenModel.Fam.Ordering
import CnfgenModel.Fam.Pebbling
/-!
Requests of property C03 (ordering / pebbling share):
  c03_op     <cls> <size> <total> <smart> <plant> <knuth>
  c03_gop    <cls> <total> <smart> <plant> <knuth> <simple graph literal>
  c03_peb    <cls> <digraph literal>
  c03_stone  <cls> <nstones> <digraph literal>
  c03_sstone <cls> <digraph literal> <bipartite graph literal>
Answer: `OK <fmtFormula cls F>` or `ERR <PythonExceptionName>`.
-/
namespace Cnfgen.Driver.FamC03a
open Cnfgen Cnfgen.Driver Cnfgen.Fam

def fmtEF (cls : Int) : Except Err Formula → String
  | .ok F => ok (fmtFormula cls F)
  | .error e => err e

def handle (opname : String) (a : Args) : Option String :=
  match opname with
  | "c03_op" => run (do
      let cls ← int; let size ← int; let total ← bool; let smart ← bool; let plant ← bool; let knuth ← int
      pure (fmtEF cls (Ordering.op size total smart plant knuth))) a
  | "c03_gop" => run (do
      let cls ← int; let total ← bool; let smart ← bool; let plant ← bool; let knuth ← int
      let G ← simpleG
      pure (fmtEF cls (do let g ← G; pure (Ordering.gop g total smart plant knuth)))) a
  | "c03_peb" => run (do
      let cls ← int; let D ← diG
      pure (fmtEF cls (do let d ← D; Pebbling.pebbling d))) a
  | "c03_stone" => run (do
      let cls ← int; let k ← int; let D ← diG
      pure (fmtEF cls (do let d ← D; Pebbling.stone d k))) a
  | "c03_sstone" => run (do
      let cls ← int; let D ← diG; let B ← bipG
      pure (fmtEF cls (do let d ← D; let b ← B; Pebbling.sparseStone d b))) a
  | _ => none

end Cnfgen.Driver.FamC03a
