import CnfgenModel.Driver.Util
import CnfgenModel.Fam.Ramsey
import CnfgenModel.Fam.Cpls
import CnfgenModel.Fam.Pitfall
namespace Cnfgen.Driver.FamC03b
open Cnfgen Cnfgen.Driver Cnfgen.Fam

def fmtLists (ls : List (List Nat)) : String :=
  toString ls.length ++ ls.foldl (fun s l => s ++ " " ++ (if l.isEmpty then "" else fmtNats l ++ " ") ++ "0") ""

def handle (opname : String) (a : Args) : Option String :=
  match opname with
  | "c03b_ptn" => run (do
      let cls ← int; let N ← int
      pure (fmtExcept (fmtFormula cls) (Ramsey.ptn N))) a
  | "c03b_ram" => run (do
      let cls ← int; let s ← int; let k ← int; let N ← int
      pure (fmtExcept (fmtFormula cls) (Ramsey.ramseyNumber s k N))) a
  | "c03b_vdw" => run (do
      let cls ← int; let N ← int; let k1 ← int; let k2 ← int; let ks ← ints
      pure (fmtExcept (fmtFormula cls) (Ramsey.vdw N k1 k2 ks))) a
  | "c03b_apgen" => run (do
      let N ← nat; let k ← nat
      pure (ok (fmtLists (Ramsey.apGenerator N k)))) a
  | "c03b_cpls" => run (do
      let cls ← int; let x ← int; let y ← int; let z ← int
      pure (fmtExcept (fmtFormula cls) (Cpls.cpls x y z))) a
  | "c03b_pitfall" => run (do
      let cls ← int; let v ← int; let d ← int; let ny ← int; let nz ← int; let k ← int
      let g ← simpleG
      pure (match g with
        | .error e => err e
        | .ok g => fmtExcept (fmtFormula cls) (Pitfall.pitfall v d ny nz k g))) a
  | "c03b_pitfall_args" => run (do
      let v ← int; let d ← int; let ny ← int; let nz ← int; let k ← int
      pure (match Pitfall.check v d ny nz k with
        | .error e => err e
        | .ok () => if Pitfall.drawable v d then ok "drawable" else "ERR NetworkXError")) a
  | "c03b_pftemplate" => run (do
      let g ← simpleG
      pure (match g with
        | .error e => err e
        | .ok g => ok (fmtCNF (PitfallTseitin.template g)))) a
  | _ => none

end Cnfgen.Driver.FamC03b
