/-
Driver requests of property C15 (graph constructions).  All request names start with `gb_`.

Draw list  : `<#draws>` then per draw  `0 k x₁…x_k` (sample) | `1 k u₁ v₁ …` (samplePairs)
             | `2 v` (randint) | `3 num` (random() = num/2^53)
Arg        : `<hasInt> <int> <hasFlt> <pn> <pd>`
Graph out  : `S n m <edges view> <sorted edgeset>` | `D n m dag <edges> <edges by successor>`
             | `B l r m <edges> <edges by right vertex>` | `C l r m <edges> <edges by right vertex>`
Outcome    : `OK <…> R <#unused draws>` | `ERR <PythonExceptionName>` | `ERR NetworkXError` | `STUCK`
-/
import CnfgenModel.Driver.Util
import CnfgenModel.Graph.Build
import CnfgenModel.Rand.BipSamplers
import CnfgenModel.Rand.Mods
import CnfgenModel.Cli.GraphArgs
namespace Cnfgen.Driver.GraphBuild
open Cnfgen Cnfgen.Driver Cnfgen.GRand Cnfgen.GCli

def pairLe (a b : Nat × Nat) : Bool := a.1 < b.1 || (a.1 == b.1 && a.2 ≤ b.2)
def insertPair : List (Nat × Nat) → Nat × Nat → List (Nat × Nat)
  | [], v => [v]
  | x :: xs, v => if pairLe x v then x :: insertPair xs v else v :: x :: xs
def sortPairs (l : List (Nat × Nat)) : List (Nat × Nat) := l.foldl insertPair []

def fmtSimple (G : SimpleG) : String :=
  s!"S {G.n} {G.m} {fmtPairs G.edges} {fmtPairs (sortPairs G.edgeset)}"
def fmtDi (G : DiG) : String :=
  s!"D {G.n} {G.m} {if G.stillDag then 1 else 0} {fmtPairs G.edges} {fmtPairs G.edgesBySucc}"
def bipByRight (G : BipG) : List (Nat × Nat) :=
  (List.range G.r).flatMap (fun j => (G.lnbrs (j + 1)).map (fun u => (u, j + 1)))
def fmtBipTag (tag : String) (m : Nat) (G : BipG) : String :=
  s!"{tag} {G.l} {G.r} {m} {fmtPairs G.edges} {fmtPairs (bipByRight G)}"
def fmtBip (G : BipG) : String := fmtBipTag "B" G.numberOfEdges G
def fmtCG : CG → String
  | .simple G => fmtSimple G
  | .dag G => fmtDi G
  | .bip G => fmtBip G
  | .cbip l r => fmtBipTag "C" (l * r) (BipG.complete l r)

def fmtOut {α} (f : α → String) : Out α → String
  | .ok a rest => s!"OK {f a} R {rest.length}"
  | .exc e => err e
  | .foreign => "ERR NetworkXError"
  | .stuck => "STUCK"

def draw : P Draw := do
  let tag ← int
  match tag with
  | 0 => do let l ← nats; pure (.sample l)
  | 1 => do let l ← natPairs; pure (.samplePairs l)
  | 2 => do let v ← int; pure (.randint v)
  | 3 => do let v ← nat; pure (.unit v)
  | _ => failure

def draws : P (List Draw) := listOf draw

def arg : P Arg := do
  let hi ← bool; let i ← int; let hf ← bool; let pn ← int; let pd ← nat
  pure ⟨if hi then some i else none, if hf then some (pn, pd) else none⟩

def optArgs : P (Option (List Arg)) := do
  let present ← bool
  let l ← listOf arg
  pure (if present then some l else none)

def consOfInt : Int → Option Cons
  | 0 => some .gnp | 1 => some .gnm | 2 => some .gnd | 3 => some .grid | 4 => some .torus
  | 5 => some .completeS | 6 => some .emptyS | 7 => some .path | 8 => some .tree | 9 => some .pyramid
  | 10 => some .glrp | 11 => some .glrm | 12 => some .glrd | 13 => some .regular | 14 => some .shift
  | 15 => some .completeB | 16 => some .emptyB
  | _ => none

def gtypeOfInt : Int → Option GType
  | 0 => some .simple | 1 => some .dag | 2 => some .bipartite | _ => none

def okG {α} (p : P (Except Err α)) : P α := do
  match ← p with
  | .ok g => pure g
  | .error _ => failure

def extG : P (Option CG) := do
  let present ← bool
  if present then do let G ← okG simpleG; pure (some (.simple G)) else pure none

def fmtSaved : Option CG → String
  | none => "NOSAVE"
  | some g => "SAVED " ++ fmtCG g

def handle (opname : String) (a : Args) : Option String :=
  match opname with
  | "gb_pyramid" => run (do let h ← int; pure (fmtExcept fmtDi (GBuild.pyramid h))) a
  | "gb_tree" => run (do let h ← int; pure (fmtExcept fmtDi (GBuild.tree h))) a
  | "gb_path" => run (do let h ← int; pure (fmtExcept fmtDi (GBuild.path h))) a
  | "gb_complete" => run (do let n ← int; pure (fmtExcept fmtSimple (GBuild.completeGraph n))) a
  | "gb_empty" => run (do let n ← int; pure (fmtExcept fmtSimple (GBuild.emptyGraph n))) a
  | "gb_star" => run (do let n ← int; pure (fmtExcept fmtSimple (GBuild.starGraph n))) a
  | "gb_cbip" => run (do
      let l ← int; let r ← int
      pure (fmtExcept (fun G => fmtBipTag "C" (G.l * G.r) G) (GBuild.completeBipartite l r))) a
  | "gb_shift" => run (do
      let n ← int; let m ← int; let pat ← ints
      pure (fmtExcept (fun res => s!"{res.1.length} {fmtInts res.1} | {fmtBip res.2}") (GBuild.shift n m pat))) a
  | "gb_glrd" => run (do
      let l ← int; let r ← int; let d ← int; let ds ← draws
      pure (fmtOut fmtBip (leftRegular l r d ds))) a
  | "gb_glrd_big" => run (do
      -- `r > sys.maxsize`: the run without the (r + 1)-entry right adjacency table
      -- (`leftRegularNoRadj_eq`: the model's run minus that table); the left view only is printed
      let l ← int; let r ← int; let d ← int; let ds ← draws
      pure (fmtOut (fun G => s!"BL {G.l} {G.r} {G.numberOfEdges} {fmtPairs G.edges}") (leftRegularNoRadj l r d ds))) a
  | "gb_glrm" => run (do
      let l ← int; let r ← int; let m ← int; let ds ← draws
      pure (fmtOut fmtBip (randomMEdges l r m ds))) a
  | "gb_glrp" => run (do
      let l ← int; let r ← int; let pn ← int; let pd ← nat; let ds ← draws
      pure (fmtOut fmtBip (bipRandom l r pn pd ds))) a
  | "gb_regular" => run (do
      let l ← int; let r ← int; let d ← int; let fuel ← nat; let ds ← draws
      pure (fmtOut fmtBip (randomRegular l r d fuel ds))) a
  | "gb_addedges_s" => run (do
      let G ← okG simpleG; let m ← int; let ds ← draws
      pure (fmtOut fmtSimple (addMissingSimple G m ds))) a
  | "gb_addedges_b" => run (do
      let G ← okG bipG; let m ← int; let ds ← draws
      pure (fmtOut fmtBip (addMissingBip G m ds))) a
  | "gb_split" => run (do
      let G ← okG simpleG; let k ← int; let ds ← draws
      pure (fmtOut fmtSimple (splitEdges G k ds))) a
  | "gb_cli" => run (do
      let gt ← int; let c ← int; let args ← listOf arg
      let pc ← optArgs; let pb ← optArgs; let ae ← optArgs; let se ← optArgs
      let save ← int; let fuel ← nat; let e ← extG; let ds ← draws
      match gtypeOfInt gt, consOfInt c with
      | some gt, some c =>
        pure (fmtOut (fun res => fmtCG res.1 ++ " " ++ fmtSaved res.2)
          (obtainGraph gt ⟨c, args, pc, pb, ae, se, if save == 0 then none else some (save == 1)⟩ e fuel ds))
      | _, _ => failure) a
  | _ => none

end Cnfgen.Driver.GraphBuild
