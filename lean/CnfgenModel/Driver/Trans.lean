/-
Driver handlers for the transformations of substitutions.py.

Formula literal : `nvars #clauses (len lit…)*`
Requests        : `sub.xor k F` `sub.or k F` `sub.maj k F` `sub.eq k F` `sub.neq k F` `sub.one k F`
                  `sub.lin k op C F` `sub.atleast N k F` `sub.atmost N k F` `sub.exactly N k F`
                  `sub.anybut N k F` `sub.ite F` `sub.lift k F` `sub.flip F`
                  `sub.compress fn F B`   (fn: 0 xor, 1 maj, other: rejected; B = `l r m u v …`)
                  `sub.hdr tcode k op C fn L R H`   (header H: `n (kind payload value)*`)
Answer          : `OK <fmtCNF>` / `ERR <exception>`;  for `sub.hdr` the header in the same encoding
-/
import CnfgenModel.Driver.Util
import CnfgenModel.Trans.Subst
import CnfgenModel.Trans.Header
namespace Cnfgen.Driver.Trans
open Cnfgen Cnfgen.Driver

def cnf : P CNF := do
  let nv ← nat
  let cs ← listOf ints
  pure ⟨nv, cs⟩

def entry : P (Header.Key × String) := do
  let kind ← int
  let key ← (if kind == 1 then do let i ← nat; pure (Header.Key.trans i)
             else do let s ← nats; pure (Header.Key.other s))
  let v ← str
  pure (key, v)

def fmtEntry (e : Header.Key × String) : String :=
  (match e.1 with
   | .trans i => "1 " ++ toString i
   | .other s => "0 " ++ toString s.length ++ s.foldl (fun acc c => acc ++ " " ++ toString c) "") ++
  " " ++ toString (intsOfStr e.2).length ++ (intsOfStr e.2).foldl (fun acc c => acc ++ " " ++ toString c) ""

def fmtHdr (h : Header.Hdr) : String :=
  toString h.length ++ h.foldl (fun acc e => acc ++ " " ++ fmtEntry e) ""

def tOf (code k : Int) (o : Op) (C fn : Int) (L R : Nat) : Option Header.T :=
  match code with
  | 0 => some (.xor k) | 1 => some (.or k) | 2 => some (.maj k) | 3 => some (.allEqual k)
  | 4 => some (.notAllEqual k) | 5 => some (.exactlyOne k) | 6 => some (.linear k o C)
  | 7 => some .ite | 8 => some (.lift k) | 9 => some .flip | 10 => some (.compress fn L R)
  | _ => none

def handle (opname : String) (a : Args) : Option String :=
  let k1 (f : CNF → Int → Except Err CNF) : Option String :=
    run (do let k ← int; let F ← cnf; pure (fmtExcept fmtCNF (f F k))) a
  let k2 (f : CNF → Int → Int → Except Err CNF) : Option String :=
    run (do let n ← int; let k ← int; let F ← cnf; pure (fmtExcept fmtCNF (f F n k))) a
  match opname with
  | "sub.xor" => k1 Subst.xorSubst
  | "sub.or" => k1 Subst.orSubst
  | "sub.maj" => k1 Subst.majSubst
  | "sub.eq" => k1 (fun F k => Subst.allEqual F k)
  | "sub.neq" => k1 Subst.notAllEqual
  | "sub.one" => k1 Subst.exactlyOne
  | "sub.lift" => k1 Subst.lifting
  | "sub.lin" => run (do
      let k ← int; let o ← op; let C ← int; let F ← cnf
      pure (fmtExcept fmtCNF (Subst.linearSubst F k o C))) a
  | "sub.atleast" => k2 Subst.atLeast
  | "sub.atmost" => k2 Subst.atMost
  | "sub.exactly" => k2 Subst.exactly
  | "sub.anybut" => k2 Subst.anythingBut
  | "sub.ite" => run (do let F ← cnf; pure (fmtExcept fmtCNF (Subst.ifThenElse F))) a
  | "sub.flip" => run (do let F ← cnf; pure (fmtExcept fmtCNF (Subst.flip F))) a
  | "sub.compress" => run (do
      let fn ← int; let F ← cnf; let B ← bipG
      match B with
      | .error e => pure (err e)
      | .ok B => pure (fmtExcept fmtCNF (Subst.compress F B fn))) a
  | "sub.hdr" => run (do
      let code ← int; let k ← int; let o ← op; let C ← int; let fn ← int; let L ← nat; let R ← nat
      let h ← listOf entry
      match tOf code k o C fn L R with
      | none => failure
      | some t => pure (ok (fmtHdr (Header.transform h t)))) a
  | _ => none

end Cnfgen.Driver.Trans
