/-
Driver handlers for the shuffle model.

  shuf    <cnf> <arg> <arg> <arg> <draws>     Shuffle(F, pa, va, ca) on the recorded draws
            <cnf>   = nvars #clauses (len lits…)*
            <arg>   = 0 ('fixed') | 1 ('shuffle') | 2 len ints… (explicit sequence)
            <draws> = #draws (0 v | 1 len ints…)*        choice value | list after random.shuffle
          answer: `OK nvars #clauses lits… 0 …` | `ERR <Exception>` |
                  `BAD draws` (stream does not fit the calls) | `BAD leftover` (draws not consumed)
  shufhdr #items (key value)*                 header after Shuffle (strings as code-point lists)
  shufnop                                     constant `OK` (oracle-only suites)
-/
import CnfgenModel.Driver.Util
import CnfgenModel.Trans.Shuffle
namespace Cnfgen.Driver.Shuffle
open Cnfgen Cnfgen.Driver Cnfgen.Shuffle

def cnfP : P CNF := do
  let n ← nat
  let cs ← listOf ints
  pure ⟨n, cs⟩

def argP : P Arg := do
  let t ← int
  if t == 0 then pure .fixed
  else if t == 1 then pure .shuffle
  else if t == 2 then do let l ← ints; pure (.explicit l)
  else failure

def drawP : P Draw := do
  let t ← int
  if t == 0 then do let v ← int; pure (.choice v)
  else if t == 1 then do let l ← ints; pure (.shuffled l)
  else failure

def fmtStr (s : String) : String :=
  let l := intsOfStr s
  toString l.length ++ l.foldl (fun acc c => acc ++ " " ++ toString c) ""

def fmtHeader (h : Header) : String :=
  toString h.length ++ h.foldl (fun acc p => acc ++ " " ++ fmtStr p.1 ++ " " ++ fmtStr p.2) ""

def callP : P (Option (Except Err CNF × List Draw)) := do
  let F ← cnfP; let pa ← argP; let va ← argP; let ca ← argP
  let ds ← listOf drawP
  pure (Shuffle.run F pa va ca ds)

def handle (opname : String) (a : Args) : Option String :=
  match opname with
  | "shuf" => run (do
      match (← callP) with
      | none => pure "BAD draws"
      | some (r, []) => pure (fmtExcept fmtCNF r)
      | some (_, _ :: _) => pure "BAD leftover") a
  | "shufhdr" => run (do
      let h ← listOf (do let k ← str; let v ← str; pure (k, v))
      pure (ok (fmtHeader (shuffleHeader h)))) a
  | "shufnop" => run (pure (ok "-")) a
  | _ => none

end Cnfgen.Driver.Shuffle
