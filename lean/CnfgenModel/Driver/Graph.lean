/-
Driver for graph update histories (C16).

  ghist <kind> <size…> <#ops> <op>…        kind 0 simple (n), 1 directed (n), 2 bipartite (l r),
                                            3 complete bipartite (l r)
  op ::= 0 u v | 1 u v | 2 k | 3 <#pairs> u v …     add_edge | remove_edge | update_vertex_number | add_edges_from
  ghistw <kind> <size…> <#ops> <op>… <#watch> i…   the same history, the views rendered only after the steps i
                                            (0 = after construction): `OK W[ <view>] | <outcome>[ <view>] | …`
  gnx <kind> <size…> <#pairs> u v …         the graph built from the pairs, sent through toNx/fromNx
  gfromnx <kind> <nxclass> <size…> <#pairs> u v …
                                            `from_networkx` of class <kind> on a networkx object of class
                                            <nxclass> (0 Graph, 1 DiGraph, 2 MultiGraph, 3 MultiDiGraph, 4 not a
                                            networkx graph) whose nodes are 1..n (bipartite: 1..l left, l+1..l+r
                                            right) and whose edge listing is ANY list of pairs: repeats (multigraphs),
                                            loops, both orientations, edges inside a side

Answer: `OK <view> | <outcome> <view> | …` — the views of the object after construction and
after every operation (all of them, so that drifting redundant state is visible at once).
-/
import CnfgenModel.Driver.Util
import CnfgenModel.Graph.Ops
namespace Cnfgen.Driver.Graph
open Cnfgen Cnfgen.Driver

def gop : P GOp := do
  let t ← int
  match t with
  | 0 => do let u ← int; let v ← int; pure (.addEdge u v)
  | 1 => do let u ← int; let v ← int; pure (.removeEdge u v)
  | 2 => do let k ← int; pure (.updateVertexNumber k)
  | 3 => do let es ← pairs; pure (.addEdgesFrom es)
  | _ => failure

def rows (ls : List (List Nat)) : String := ";".intercalate (ls.map fmtNats)

def fmtE {α} (f : α → String) : Except Err α → String
  | .ok a => f a
  | .error e => e.name

/-- vertices `1..n` as integers -/
def verts (n : Nat) : List Int := (List.range n).map (fun i => ((i + 1 : Nat) : Int))
/-- probes `-1..n+1` -/
def probes (n : Nat) : List Int := (List.range (n + 3)).map (fun (i : Nat) => (i : Int) - 1)
/-- out-of-range arguments on which the views must raise -/
def badVerts (n : Nat) : List Int := [-1, 0, (n : Int) + 1]

def bits (l : List Bool) : String := String.ofList (l.map (fun b => if b then '1' else '0'))

def viewSimple (G : SimpleG) : String :=
  " ".intercalate [
    toString G.numberOfVertices, toString G.numberOfEdges,
    "E", fmtPairs G.edges,
    "N", rows ((verts G.n).map (fun u => match G.neighbors u with | .ok l => l | .error _ => [0])),
    "D", ",".intercalate ((verts G.n).map (fun u => fmtE toString (G.degree u))),
    "H", bits ((probes G.n).flatMap (fun u => (probes G.n).map (fun v => G.hasEdge u v))),
    "X", ",".intercalate ((badVerts G.n).map (fun u => fmtE fmtNats (G.neighbors u) ++ "/" ++ fmtE toString (G.degree u))),
    "G", bits [G.isDag]]

def viewDi (G : DiG) : String :=
  " ".intercalate [
    toString G.numberOfVertices, toString G.numberOfEdges,
    "E", fmtPairs G.edges,
    "ES", fmtPairs G.edgesBySucc,
    "P", rows ((verts G.n).map (fun u => match G.predecessors u with | .ok l => l | .error _ => [0])),
    "S", rows ((verts G.n).map (fun u => match G.successors u with | .ok l => l | .error _ => [0])),
    "DI", ",".intercalate ((verts G.n).map (fun u => fmtE toString (G.inDegree u))),
    "DO", ",".intercalate ((verts G.n).map (fun u => fmtE toString (G.outDegree u))),
    "H", bits ((probes G.n).flatMap (fun u => (probes G.n).map (fun v => G.hasEdge u v))),
    "X", ",".intercalate ((badVerts G.n).map (fun u =>
            fmtE fmtNats (G.predecessors u) ++ "/" ++ fmtE fmtNats (G.successors u) ++ "/" ++
            fmtE toString (G.inDegree u) ++ "/" ++ fmtE toString (G.outDegree u))),
    "G", bits [G.isDag]]

def viewBip (G : BipG) : String :=
  " ".intercalate [
    toString G.l, toString G.r, toString G.numberOfVertices, toString G.numberOfEdges,
    "E", fmtPairs G.edges,
    "R", rows ((verts G.l).map (fun u => match G.rightNeighbors u with | .ok l => l | .error _ => [0])),
    "L", rows ((verts G.r).map (fun v => match G.leftNeighbors v with | .ok l => l | .error _ => [0])),
    "DR", ",".intercalate ((verts G.l).map (fun u => fmtE toString (G.rightDegree u))),
    "DL", ",".intercalate ((verts G.r).map (fun v => fmtE toString (G.leftDegree v))),
    "H", bits ((probes G.l).flatMap (fun u => (probes G.r).map (fun v => G.hasEdge u v))),
    "X", ",".intercalate ((badVerts G.l).map (fun u => fmtE fmtNats (G.rightNeighbors u) ++ "/" ++ fmtE toString (G.rightDegree u))
                          ++ (badVerts G.r).map (fun v => fmtE fmtNats (G.leftNeighbors v) ++ "/" ++ fmtE toString (G.leftDegree v)))]

/-- same layout as `viewBip`; the neighbour views of the complete graph never raise -/
def viewCBip (G : CBipG) : String :=
  " ".intercalate [
    toString G.l, toString G.r, toString (G.l + G.r), toString G.numberOfEdges,
    "E", fmtPairs G.edges,
    "R", rows ((verts G.l).map (fun u => G.rightNeighbors u)),
    "L", rows ((verts G.r).map (fun v => G.leftNeighbors v)),
    "DR", ",".intercalate ((verts G.l).map (fun u => toString (G.rightNeighbors u).length)),
    "DL", ",".intercalate ((verts G.r).map (fun v => toString (G.leftNeighbors v).length)),
    "H", bits ((probes G.l).flatMap (fun u => (probes G.r).map (fun v => G.hasEdge u v))),
    "X", ",".intercalate ((badVerts G.l).map (fun u => fmtNats (G.rightNeighbors u) ++ "/" ++ toString (G.rightNeighbors u).length)
                          ++ (badVerts G.r).map (fun v => fmtNats (G.leftNeighbors v) ++ "/" ++ toString (G.leftNeighbors v).length))]

/-- run a history, collecting outcome and view after every step -/
def hist {σ} (step : σ → GOp → σ × Outcome) (view : σ → String) (g : σ) (ops : List GOp) : String :=
  let r := ops.foldl (fun (acc : σ × String) o =>
    let (g', out) := step acc.1 o
    (g', acc.2 ++ " | " ++ out.name ++ " " ++ view g')) (g, view g)
  ok r.2

/-- run a history in which the caller LOOKS at the object only after the steps listed in `watch` (0 = right after
construction): the outcome of every call, the views only where they were read.  (The model is pure: reading a view
cannot change anything, so this is `hist` with the unread views left out; the real object is observed exactly there.) -/
def histW {σ} (step : σ → GOp → σ × Outcome) (view : σ → String) (g : σ) (ops : List GOp) (watch : List Nat) : String :=
  let v := fun (i : Nat) (g : σ) => if watch.contains i then " " ++ view g else ""
  let r := ops.foldl (fun (acc : σ × String × Nat) o =>
    let (g', out) := step acc.1 o
    (g', acc.2.1 ++ " | " ++ out.name ++ v (acc.2.2 + 1) g', acc.2.2 + 1)) (g, "W" ++ v 0 g, 0)
  ok r.2.1

def handle (opname : String) (a : Args) : Option String :=
  match opname with
  | "ghistw" => run (do
      let kind ← int
      match kind with
      | 0 => do
        let n ← int; let ops ← listOf gop; let w ← nats
        pure (match SimpleG.initI n with
          | .ok g => histW SimpleG.step viewSimple g ops w
          | .error e => err e)
      | 1 => do
        let n ← int; let ops ← listOf gop; let w ← nats
        pure (match DiG.initI n with
          | .ok g => histW DiG.step viewDi g ops w
          | .error e => err e)
      | 2 => do
        let l ← int; let r ← int; let ops ← listOf gop; let w ← nats
        pure (match BipG.initI l r with
          | .ok g => histW BipG.step viewBip g ops w
          | .error e => err e)
      | _ => failure) a
  | "ghist" => run (do
      let kind ← int
      match kind with
      | 0 => do
        let n ← int; let ops ← listOf gop
        pure (match SimpleG.initI n with
          | .ok g => hist SimpleG.step viewSimple g ops
          | .error e => err e)
      | 1 => do
        let n ← int; let ops ← listOf gop
        pure (match DiG.initI n with
          | .ok g => hist DiG.step viewDi g ops
          | .error e => err e)
      | 2 => do
        let l ← int; let r ← int; let ops ← listOf gop
        pure (match BipG.initI l r with
          | .ok g => hist BipG.step viewBip g ops
          | .error e => err e)
      | 3 => do
        let l ← int; let r ← int; let ops ← listOf gop
        pure (match BipG.initI l r with
          | .ok g => hist CBipG.step viewCBip ⟨g.l, g.r⟩ ops
          | .error e => err e)
      | _ => failure) a
  | "gnx" => run (do
      let kind ← int
      match kind with
      | 0 => do
        let n ← nat; let es ← natPairs
        pure (fmtExcept viewSimple (do let g ← SimpleG.ofEdges n es; SimpleG.fromNx g.toNx))
      | 1 => do
        let n ← nat; let es ← natPairs
        pure (fmtExcept viewDi (do let g ← DiG.ofEdges n es; DiG.fromNx g.toNx))
      | 2 => do
        let l ← nat; let r ← nat; let es ← natPairs
        pure (fmtExcept viewBip (do let g ← BipG.ofEdges l r es; BipG.fromNx g.toNx))
      | _ => failure) a
  | "gfromnx" => run (do
      let kind ← int
      let cls ← nat
      -- the `isinstance` test at the head of each `from_networkx`: every networkx class derives from
      -- `networkx.Graph`; `DiGraph` and `MultiDiGraph` derive from `networkx.DiGraph`
      let accepted := fun (k : Int) => if k == 1 then cls == 1 || cls == 3 else cls < 4
      match kind with
      | 0 => do
        let n ← nat; let es ← natPairs
        pure (if accepted 0 then fmtExcept viewSimple (SimpleG.fromNx (n, es)) else err .valueError)
      | 1 => do
        let n ← nat; let es ← natPairs
        pure (if accepted 1 then fmtExcept viewDi (DiG.fromNx (n, es)) else err .valueError)
      | 2 => do
        let l ← nat; let r ← nat; let es ← natPairs
        pure (if accepted 2 then fmtExcept viewBip (BipG.fromNx (l, r, es)) else err .valueError)
      | _ => failure) a
  | _ => none

end Cnfgen.Driver.Graph
