/-
Driver for graph file I/O (C14).

  fmt ::= 0 kthlist | 1 gml | 2 dot | 3 dimacs | 4 matrix
  ty  ::= 0 simple | 1 digraph | 2 dag | 3 bipartite
  graph literal: simple/digraph/dag `n <#e> u v …`, bipartite `l r <#e> u v …`

  wgraph fmt ty <name> <graph>   text written by writeGraph:  `OK <c> <#cp> cp…`, where c = 1 iff the
                                 model's lexer maps the text to the rows of the model's row writer
  rgraph fmt ty <text>           `OK <view>` | `ERR <exception>`  (lexer + reader + dag test; the text comes from a StringIO)
  rgraphf fmt ty <text>          the same for a text-mode FILE (universal newlines: "\r\n", "\r" → "\n" first)
  rtrip  fmt ty <name> <graph>   rgraph of the text of wgraph   (rtripf: rgraphf of it)
  relabel ty k <nodes> <edges>   k = 0: integer labels, k = 1: string labels, k = 2: string labels as the dot
                                 branch of readGraph treats them (all-digit names → ints) (nodes `<#> <str>…`, edges
                                 `<#> <str> <str> …`): normalize + from_networkx + dag test (ty ≠ bipartite)
  bipnx <#> (label color)… <#> (u v)…   BipartiteGraph.from_networkx; color −1 = missing/invalid
  ack3p                          `OK -` (gml / dot texts: the third-party parsers are not modelled; the
                                 harness runs only its oracle on them)

Views (what is compared): simple `S n m E <edges> A <adjacency rows>`,
directed `D n m <dag> E <edges> P <pred rows> S <succ rows>`, bipartite `B l r E <edges> R <rows> L <rows>`.
-/
import CnfgenModel.Driver.Util
import CnfgenModel.IO.GraphFmt
namespace Cnfgen.Driver.GraphIO
open Cnfgen Cnfgen.Driver Cnfgen.GraphFmt Cnfgen.GraphLex

def rowsStr (ls : List (List Nat)) : String := ";".intercalate (ls.map fmtNats)

def viewSimple (G : SimpleG) : String :=
  " ".intercalate ["S", toString G.n, toString G.m, "E", fmtPairs G.edges,
    "A", rowsStr ((List.range G.n).map (fun i => G.nbrs (i + 1)))]

def viewDi (G : DiG) : String :=
  " ".intercalate ["D", toString G.n, toString G.m, (if G.stillDag then "1" else "0"), "E", fmtPairs G.edges,
    "P", rowsStr ((List.range G.n).map (fun i => G.preds (i + 1))),
    "S", rowsStr ((List.range G.n).map (fun i => G.succs (i + 1)))]

def viewBip (G : BipG) : String :=
  " ".intercalate ["B", toString G.l, toString G.r, "E", fmtPairs G.edges,
    "R", rowsStr ((List.range G.l).map (fun i => G.rnbrs (i + 1))),
    "L", rowsStr ((List.range G.r).map (fun i => G.lnbrs (i + 1)))]

def viewAny : AnyG → String
  | .simple g => viewSimple g
  | .di g => viewDi g
  | .bip g => viewBip g

def fmtOf : Int → Option Fmt
  | 0 => some .kthlist | 1 => some .gml | 2 => some .dot | 3 => some .dimacs | 4 => some .matrix
  | _ => none

def tyOf : Int → Option GType
  | 0 => some .simple | 1 => some .digraph | 2 => some .dag | 3 => some .bipartite
  | _ => none

def pFmt : P Fmt := do let x ← int; match fmtOf x with | some f => pure f | none => failure
def pTy : P GType := do let x ← int; match tyOf x with | some t => pure t | none => failure

def chars : P Str := do let l ← ints; pure (l.map (fun i => Char.ofNat i.toNat))

def anyG (ty : GType) : P (Except Err AnyG) :=
  match ty with
  | .simple => do let g ← simpleG; pure (g.map .simple)
  | .bipartite => do let g ← bipG; pure (g.map .bip)
  | _ => do let g ← diG; pure (g.map .di)

def fmtText (s : Str) : String :=
  toString s.length ++ s.foldl (fun acc c => acc ++ " " ++ toString c.toNat) ""

def handle (opname : String) (a : Args) : Option String :=
  match opname with
  | "wgraph" => run (do
      let fmt ← pFmt; let ty ← pTy; let name ← chars; let g ← anyG ty
      pure (match g with
        | .error e => err e
        | .ok G =>
          match writeText name ty fmt G, writeGraph name ty fmt G with
          | .ok t, .ok rows =>
            ok ((if lexText fmt t = some rows then "1 " else "0 ") ++ fmtText t)
          | .error e, _ => err e
          | _, .error e => err e)) a
  | "rgraph" => run (do
      let fmt ← pFmt; let ty ← pTy; let t ← chars
      pure (fmtExcept viewAny (readText false ty fmt t))) a
  | "rgraphf" => run (do
      let fmt ← pFmt; let ty ← pTy; let t ← chars
      pure (fmtExcept viewAny (readText true ty fmt t))) a
  | "rtrip" => run (do
      let fmt ← pFmt; let ty ← pTy; let name ← chars; let g ← anyG ty
      pure (fmtExcept viewAny (do
        let G ← g
        let t ← writeText name ty fmt G
        readText false ty fmt t))) a
  | "rtripf" => run (do
      let fmt ← pFmt; let ty ← pTy; let name ← chars; let g ← anyG ty
      pure (fmtExcept viewAny (do
        let G ← g
        let t ← writeText name ty fmt G
        readText true ty fmt t))) a
  | "relabel" => run (do
      let ty ← pTy; let k ← int
      match k with
      | 0 => do let ns ← ints; let es ← pairs; pure (fmtExcept viewAny (readNx ty (relabelInts ns es)))
      | 1 => do
        let ns ← listOf chars; let es ← listOf (do let x ← chars; let y ← chars; pure (x, y))
        pure (fmtExcept viewAny (readNx ty (relabelStrs ns es)))
      | 2 => do
        let ns ← listOf chars; let es ← listOf (do let x ← chars; let y ← chars; pure (x, y))
        pure (fmtExcept viewAny (readNx ty (relabelDot ns es)))
      | _ => failure) a
  | "bipnx" => run (do
      let ns ← listOf (do
        let l ← int; let c ← int
        pure (l, if c == 0 then some false else if c == 1 then some true else none))
      let es ← pairs
      pure (fmtExcept viewBip (bipOfNx ns es))) a
  | "ack3p" => run (pure (ok "-")) a
  | _ => none

end Cnfgen.Driver.GraphIO
