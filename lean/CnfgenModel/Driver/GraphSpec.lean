/-
Driver requests for `parse_graph_argument` (model: Cli/GraphSpec.lean).  Strings are length-prefixed
code points.

  gs_parse <dot> <graphtype:str> <n> <tok:str>×n
      → OK <graphtype:str> <construction:ostr> <filename:ostr> <fileformat:ostr> <args> <k> (<name:str> <toks>)×k <save>
        ostr = -1 (None) | str;  args = -2 (no key) | -1 (None) | <n> str×n;  toks = <n> str×n;  save = -1 | toks
      | ERR <PythonExceptionName>
  gs_parse_str <dot> <graphtype:str> <spec:str>        the `isinstance(spec, str)` branch, same answer
  gs_float <tok:str>                → OK 0|1            does `float(tok)` return?
  gs_ext <name:str>                 → OK <str>          os.path.splitext(name)[-1][1:]
  gs_split <s:str>                  → OK <n> str×n      s.split()
  gs_resolve <dot> <graphtype:str> <fmt:str> <fname:str> → OK <ostr>   format used by writeGraph (-1 = ValueError)
  gs_render <dot> <graphtype:str> <n> <tok:str>×n     → OK <toks> of renderSpec (parse …) | ERR …
  gs_tables                         → OK <decimalRuns> <unicodeSpaces>
-/
import CnfgenModel.Driver.Util
import CnfgenModel.Cli.GraphSpec
namespace Cnfgen.Driver.GraphSpec
open Cnfgen Cnfgen.Driver Cnfgen.GSpec

def fmtStr (s : String) : String :=
  let l := intsOfStr s
  if l.isEmpty then "0" else toString l.length ++ " " ++ fmtInts l

def fmtOStr : Option String → String
  | none => "-1"
  | some s => fmtStr s

def fmtToks (l : List String) : String :=
  l.foldl (fun s t => s ++ " " ++ fmtStr t) (toString l.length)

def fmtParsed (p : Parsed) : String :=
  fmtStr p.graphtype ++ " " ++ fmtOStr p.construction ++ " " ++ fmtOStr p.filename ++ " " ++ fmtOStr p.fileformat ++ " " ++
  (match p.args with | none => "-2" | some none => "-1" | some (some l) => fmtToks l) ++ " " ++
  p.opts.foldl (fun s o => s ++ " " ++ fmtStr o.1 ++ " " ++ fmtToks o.2) (toString p.opts.length) ++ " " ++
  (match p.save with | none => "-1" | some l => fmtToks l)

def handle (opname : String) (a : Args) : Option String :=
  match opname with
  | "gs_parse" => run (do
      let dot ← bool; let ty ← str; let toks ← listOf str
      pure (fmtExcept fmtParsed (parseGraphArgument ty toks dot))) a
  | "gs_parse_str" => run (do
      let dot ← bool; let ty ← str; let s ← str
      pure (fmtExcept fmtParsed (parseGraphArgumentStr ty s dot))) a
  | "gs_float" => run (do
      let t ← str
      pure (ok (if isFloat t then "1" else "0"))) a
  | "gs_ext" => run (do
      let t ← str
      pure (ok (fmtStr (extension t)))) a
  | "gs_split" => run (do
      let t ← str
      pure (ok (fmtToks (pySplit t)))) a
  | "gs_resolve" => run (do
      let dot ← bool; let ty ← str; let f ← str; let fn ← str
      pure (ok (fmtOStr (resolveFormat dot ty f fn)))) a
  | "gs_render" => run (do
      let dot ← bool; let ty ← str; let toks ← listOf str
      pure (fmtExcept (fun p => fmtToks (renderSpec p dot)) (parseGraphArgument ty toks dot))) a
  | "gs_tables" => run (do
      pure (ok (fmtNats ([decimalRuns.length] ++ decimalRuns ++ [unicodeSpaces.length] ++ unicodeSpaces)))) a
  | _ => none

end Cnfgen.Driver.GraphSpec
