/-
Driver requests of property C15, networkx-backed constructions.  All request names start with `nx_`.

NxG out    : `<n> <G.edges()> A <adj row 0> ; <adj row 1> ; …`   (rows length-prefixed)
cnfgen out : `C <add_edge calls made> <S n m edges sorted-edgeset | ERR ValueError>`
             (calls made = all of them, or up to and including the first refused one)
Draw list  : `<#draws>` then per draw `0 num` (random() = num/2^53) | `1 i` (choice → i)
             | `2 <before list> <after list>` (shuffle)
`nx_gnd`   : `OK <S …> R <#unused>` | `ERR NetworkXError` | `ERR ValueError` | `STUCK` (order-free parts only:
             the iteration order of the Python set of edges is not modelled)
Random out : `… R <#unused draws>` | `STUCK`
`nx_cli`   : the request `gb_cli` of Driver/GraphBuild.lean with the list of networkx draws in front of the
             optional external graph (which is used for `gnd` only); same answer format as `gb_cli`
-/
import CnfgenModel.Driver.Util
import CnfgenModel.Graph.NxBuild
import CnfgenModel.Rand.NxDraws
import CnfgenModel.Cli.GraphArgsNx
import CnfgenModel.Driver.GraphBuild
namespace Cnfgen.Driver.NxBuild
open Cnfgen Cnfgen.Driver Cnfgen.Nx

def pairLe (a b : Nat × Nat) : Bool := a.1 < b.1 || (a.1 == b.1 && a.2 ≤ b.2)
def insertPair : List (Nat × Nat) → Nat × Nat → List (Nat × Nat)
  | [], v => [v]
  | x :: xs, v => if pairLe x v then x :: insertPair xs v else v :: x :: xs
def sortPairs (l : List (Nat × Nat)) : List (Nat × Nat) := l.foldl insertPair []

def fmtSimple (G : SimpleG) : String :=
  s!"S {G.n} {G.m} {fmtPairs G.edges} {fmtPairs (sortPairs G.edgeset)}"

def fmtRow (l : List Nat) : String := toString l.length ++ l.foldl (fun s x => s ++ " " ++ toString x) ""

def fmtNxG (G : NxG) : String :=
  s!"{G.n} {fmtPairs G.edges} A " ++ " ; ".intercalate ((List.range G.n).map (fun w => fmtRow (G.adj w)))

/-- the calls `add_edges_from` gets to make: it stops at the first refused one (a self-loop) -/
def callsMade (calls : List (Nat × Nat)) : List (Nat × Nat) :=
  let p := calls.span (fun e => e.1 != e.2)
  p.1 ++ p.2.take 1

def fmtFrom (G : NxG) : String :=
  match fromNetworkx G with
  | .ok S => s!"C {fmtPairs (fromNxCalls G)} {fmtSimple S}"
  | .error e => s!"C {fmtPairs (callsMade (fromNxCalls G))} {err e}"

def draw : P NxDraw := do
  let tag ← int
  match tag with
  | 0 => do let v ← nat; pure (.unit v)
  | 1 => do let v ← nat; pure (.choice v)
  | 2 => do let b ← nats; let a ← nats; pure (.shuffle b a)
  | _ => failure

def fmtOut (o : NxOut NxG) : String :=
  match o with
  | .ok G rest => s!"OK {fmtNxG G} | {fmtFrom G} R {rest.length}"
  | .stuck => "STUCK"

def fmtBoth (G : NxG) : String := s!"{fmtNxG G} | {fmtFrom G}"

def handle (opname : String) (a : Args) : Option String :=
  match opname with
  | "nx_grid" => run (do
      let per ← bool; let dims ← nats
      pure (ok (fmtBoth (gridGraph dims per)))) a
  | "nx_line" => run (do
      let per ← bool; let d ← nat
      pure (ok (fmtNxG (lineGraph per d)))) a
  | "nx_product" => run (do
      let na ← nat; let ea ← natPairs; let nb ← nat; let eb ← natPairs
      pure (ok (fmtNxG (cartesianProduct ⟨na, ea⟩ ⟨nb, eb⟩)))) a
  | "nx_multi" => run (do
      let sizes ← nats
      pure (ok (fmtBoth (completeMultipartite sizes)))) a
  | "nx_from" => run (do
      let n ← nat; let es ← natPairs
      pure (ok (fmtBoth ⟨n, es⟩))) a
  | "nx_gnp" => run (do
      let n ← nat; let pn ← int; let pd ← nat; let ds ← listOf draw
      pure (fmtOut (gnpGraph n pn pd ds))) a
  | "nx_gnm" => run (do
      let n ← nat; let m ← nat; let ds ← listOf draw
      pure (fmtOut (gnmGraph n m ds))) a
  | "nx_gnd" => run (do
      let n ← nat; let d ← nat; let ds ← listOf draw
      pure (match gndSimple n d ds with
        | .ok (some (.ok S)) rest => s!"OK {fmtSimple S} R {rest.length}"
        | .ok (some (.error e)) _ => err e
        | .ok none _ => "ERR NetworkXError"
        | .stuck => "STUCK")) a
  | "nx_cli" => run (do
      let gt ← int; let c ← int; let args ← listOf GraphBuild.arg
      let pc ← GraphBuild.optArgs; let pb ← GraphBuild.optArgs; let ae ← GraphBuild.optArgs; let se ← GraphBuild.optArgs
      let save ← int; let fuel ← nat; let nx ← listOf draw; let e ← GraphBuild.extG; let ds ← GraphBuild.draws
      match GraphBuild.gtypeOfInt gt, GraphBuild.consOfInt c with
      | some gt, some c =>
        pure (GraphBuild.fmtOut (fun res => GraphBuild.fmtCG res.1 ++ " " ++ GraphBuild.fmtSaved res.2)
          (GCli.obtainGraphNx gt ⟨c, args, pc, pb, ae, se, if save == 0 then none else some (save == 1)⟩ nx e fuel ds))
      | _, _ => failure) a
  | _ => none

end Cnfgen.Driver.NxBuild
