/-
Driver requests for a whole run of `cnfgen` / `pbgen` (Cli/Text.lean, Cli/OutcomeG.lean).

  cli_text <tool: 0 cnfgen | 1 pbgen> <fmt: 0 dimacs | 1 opb> <verbose> <varnames> <seed?> <cmdline…> <name> <argv…>
      the text written by `<tool> … <name> <argv>` (formula sub-command `name`), with an EMPTY generator header and
      the variable names `v1 v2 …` — the harness compares the non-comment lines and the lines `cli()` adds itself.
      answer: `OK text <n> <code points…>` | `OK cliError` | `OK escaped:<Exception>` | `UNSUPPORTED`
  cli_run <cls: 0 CNF (cnfgen) | 1 OPB (pbgen)> <name> <argv…>
      the whole run of the formula sub-command `name`, graph arguments resolved by the deterministic constructions
      (`detEnv`): `OK ok <formula in the class>` | `OK cliError` | `OK escaped:<Exception>` | `OK internalBug` |
      `UNSUPPORTED` (outside the model: random / third-party / file graph arguments, unmapped calls, argparse fragment)
  cli_line <token…>
      `cnfgen <tokens>` with `-T` chains (Cli/OutcomeT.lean): `OK ok <cnf>` | `OK cliError` | … | `UNSUPPORTED`
-/
import CnfgenModel.Driver.Util
import CnfgenModel.Cli.Text
import CnfgenModel.Cli.OutcomeG
import CnfgenModel.Cli.OutcomeT
namespace Cnfgen.Driver.CliText
open Cnfgen Cnfgen.Driver Cnfgen.Cli Cnfgen.Gen Cnfgen.IO

def fmtText (s : Str) : String :=
  toString s.length ++ s.foldl (fun acc c => acc ++ " " ++ toString c.toNat) ""

def optInt : P (Option Int) := do
  let b ← int
  if b == 0 then pure none else do let x ← int; pure (some x)

/-- the graph on one vertex (Pitfall's graph is not compared) -/
def oneVertex : SimpleG := ⟨1, 0, [[], []], []⟩

/-- `text.split("\n")` without the empty piece after the final line break -/
def splitLines : Str → List Str
  | [] => []
  | c :: rest =>
    if c = '\n' then [] :: splitLines rest
    else match splitLines rest with
      | [] => [[c]]
      | l :: ls => (c :: l) :: ls

/-- the lines the harness compares: everything that is not a comment, the problem line, and the two header lines
`cli()` adds itself -/
def keepLine (f : OutFmt) (l : Str) : Bool :=
  match f with
  | .dimacs => !("c".toList.isPrefixOf l) || "c command line: ".toList.isPrefixOf l || "c random seed: ".toList.isPrefixOf l
  | .opb => !("*".toList.isPrefixOf l) || "* #variable= ".toList.isPrefixOf l || "* command line: ".toList.isPrefixOf l ||
      "* random seed: ".toList.isPrefixOf l

def canonText (f : OutFmt) (t : Str) : Str :=
  ((splitLines t).filter (keepLine f)).flatMap (fun l => l ++ ['\n'])

def fmtOutcome : Outcome → String
  | .ok => "ok" | .cliError => "cliError" | .internalBug => "internalBug" | .escaped e => "escaped:" ++ e.name

def handle (opname : String) (a : Args) : Option String :=
  match opname with
  | "cli_text" => run (do
      let t ← int; let f ← int; let verbose ← bool; let varnames ← bool; let seed ← optInt
      let cmdline ← listOf str; let name ← str; let argv ← listOf str
      let gl : Global := ⟨if t == 0 then .cnfgen else .pbgen, if f == 0 then .dimacs else .opb, verbose, varnames,
        seed, cmdline⟩
      let fmt : OutFmt := if gl.tool == .pbgen then .opb else gl.fmt
      if !gl.legal then pure "UNSUPPORTED" else
      match helpers.find? (fun h => h.kind == "formula" && h.name == name) with
      | none => pure "UNSUPPORTED"
      | some h =>
        match Cnfgen.Cli.dispatch h argv with
        | .error .cliError => pure (ok "cliError")
        | .error (.crash e) => pure (ok ("escaped:" ++ e))
        | .error (.unsupported _) => pure "UNSUPPORTED"
        | .ok c =>
          match cliFormula oneVertex h argv with
          | none => pure "UNSUPPORTED"
          | some (.ok F) =>
            if c.fn == "PitfallFormula" then pure "UNSUPPORTED" else
            let names := (List.range F.nvars).map (fun i => 'v' :: natStr (i + 1))
            pure (ok ("text " ++ fmtText (canonText fmt (cliText gl [] names F))))
          | some r => pure (ok (fmtOutcome (shield r)))) a
  | "cli_run" => run (do
      let cls ← int; let name ← str; let argv ← listOf str
      match helpers.find? (fun h => h.kind == "formula" && h.name == name) with
      | none => pure "UNSUPPORTED"
      | some h =>
        match Cnfgen.Cli.dispatch h argv with
        | .error .cliError => pure (ok "cliError")
        | .error (.crash e) => pure (ok ("escaped:" ++ e))
        | .error (.unsupported _) => pure "UNSUPPORTED"
        | .ok c =>
          if !callDet c then pure "UNSUPPORTED" else
          if c.fn == "PitfallFormula" then
            pure (match cliOutcomeG detEnv h argv with
                  | some .ok => "UNSUPPORTED"
                  | some o => ok (fmtOutcome o)
                  | none => "UNSUPPORTED")
          else
          match cliBuiltG detEnv oneVertex h argv, cliOutcomeG detEnv h argv with
          | some (.result (.ok F)), some .ok => pure (ok ("ok " ++ fmtFormula cls F))
          | some _, some o => pure (ok (fmtOutcome o))
          | _, _ => pure "UNSUPPORTED") a
  | "cli_line" => run (do
      let line ← listOf str
      -- every graph argument of the line must be a deterministic specification
      let detF : Bool := match splitT line with
        | (name :: fargs) :: tcmds =>
          (match helpers.find? (fun h => h.kind == "formula" && h.name == name) with
           | some h => (match Cnfgen.Cli.dispatch h fargs with | .ok c => callDet c | _ => true)
           | none => true) &&
          tcmds.all (fun ch => match parseTrans ch with
            | some (.ok (.call c)) => callDet c
            | _ => true)
        | _ => true
      if !detF then pure "UNSUPPORTED" else
      match cliLineCNF detEnv oneVertex line, cliOutcomeLine detEnv line with
      | some (.ok G), some .ok =>
        if (match splitT line with | (name :: _) :: _ => name == "pitfall" | _ => false) then pure "UNSUPPORTED"
        else pure (ok ("ok " ++ fmtCNF G))
      | some (.error _), some o => pure (ok (fmtOutcome o))
      | _, _ => pure "UNSUPPORTED") a
  | _ => none

end Cnfgen.Driver.CliText
