/-
Driver requests for the graph families of C02 (second half):
  g2_iso       <cls> <nontrivial> <G1> <G2>
  g2_auto      <cls> <G>
  g2_subgraph  <cls> <induced> <symbreak> <G> <H>
  g2_clique    <cls> <k> <symbreak> <G>
  g2_binclique <cls> <k> <symbreak> <G>
  g2_ramseywit <cls> <k> <s> <symbreak> <G>
`<cls>`: 0 = CNF, 1 = OPB; a graph literal is `n m u₁ v₁ … u_m v_m`.
Answer: `OK <fmtFormula cls F>` or `ERR <exception>`.
-/
import CnfgenModel.Driver.Util
import CnfgenModel.Fam.Iso
import CnfgenModel.Fam.Subgraph
namespace Cnfgen.Driver.FamC02b
open Cnfgen Cnfgen.Driver Cnfgen.Fam.G2

def out (cls : Int) (r : Except Err Formula) : String := fmtExcept (fmtFormula cls) r

def handle (opname : String) (a : Args) : Option String :=
  match opname with
  | "g2_iso" => run (do
      let cls ← int; let nontrivial ← bool; let g1 ← simpleG; let g2 ← simpleG
      pure (out cls (do let G1 ← g1; let G2 ← g2; pure (graphIsomorphismOpt G1 G2 nontrivial)))) a
  | "g2_auto" => run (do
      let cls ← int; let g ← simpleG
      pure (out cls (do let G ← g; pure (graphAutomorphism G)))) a
  | "g2_subgraph" => run (do
      let cls ← int; let induced ← bool; let symbreak ← bool; let g ← simpleG; let h ← simpleG
      pure (out cls (do let G ← g; let H ← h; pure (subgraphFormula G H induced symbreak)))) a
  | "g2_clique" => run (do
      let cls ← int; let k ← int; let symbreak ← bool; let g ← simpleG
      pure (out cls (do let G ← g; cliqueFormula G k symbreak))) a
  | "g2_binclique" => run (do
      let cls ← int; let k ← int; let symbreak ← bool; let g ← simpleG
      pure (out cls (do let G ← g; binaryCliqueFormula G k symbreak))) a
  | "g2_ramseywit" => run (do
      let cls ← int; let k ← int; let s ← int; let symbreak ← bool; let g ← simpleG
      pure (out cls (do let G ← g; ramseyWitnessFormula G k s symbreak))) a
  | _ => none

end Cnfgen.Driver.FamC02b
