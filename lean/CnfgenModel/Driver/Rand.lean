/-
Driver ops for the random-formula samplers (C13, reseeding part of C07).

draw encoding (flat ints):  0 popLen k <#idx> idx…   sample
                            1 len i                  choice
                            2 a b v                  randint
                            3 num                    random  (num / 2^53)
                            4 len <#perm> perm…      shuffle
                            5 k v                    getrandbits
requests:
  randkcnf cls k n m seedflag seed <#planted> (<#a> a…)… <#pre> draws… <#post> draws…
  randkxor (same arguments)
  clikcnf  cls plant k n m <#draws> draws…
  clikxor  cls plant k n m <#draws> draws…
  allclauses k n <planted>       allparities k n <planted>
`pre` is the generator state before the call, `post` the state `random.seed(seed)` produces.
-/
import CnfgenModel.Driver.Util
import CnfgenModel.Rand.KXOR
namespace Cnfgen.Driver.Rand
open Cnfgen Cnfgen.Driver Cnfgen.Rand

def draw : P Draw := do
  let tag ← int
  match tag with
  | 0 => do let n ← nat; let k ← nat; let idx ← nats; pure (.sample n k idx)
  | 1 => do let l ← nat; let i ← nat; pure (.choice l i)
  | 2 => do let a ← int; let b ← int; let v ← int; pure (.randint a b v)
  | 3 => do let x ← nat; pure (.random x)
  | 4 => do let l ← nat; let p ← nats; pure (.shuffle l p)
  | 5 => do let k ← nat; let v ← nat; pure (.getrandbits k v)
  | _ => failure

def draws : P (List Draw) := listOf draw
def planted : P (List (List Int)) := listOf ints

def rerr (e : RErr) : String := "ERR " ++ e.name

def fmtSys (sys : List Parity) : String :=
  toString sys.length ++ sys.foldl (fun s p =>
    s ++ " " ++ toString p.1.length ++ (p.1.foldl (fun t x => t ++ " " ++ toString x) "") ++ " " ++ toString p.2) ""

def fmtR {α} (f : α → String) : Except RErr (α × List Draw) → String
  | .ok (a, rest) => ok (f a ++ " | rest " ++ toString rest.length)
  | .error e => rerr e

def seedArg : P (Option Int) := do
  let flag ← bool; let s ← int
  pure (if flag then some s else none)

def handle (opname : String) (a : Args) : Option String :=
  match opname with
  | "randkcnf" => run (do
      let cls ← int; let k ← int; let n ← int; let m ← int; let seed ← seedArg
      let pl ← planted; let pre ← draws; let post ← draws
      pure (fmtR (fmtFormula cls) (randomKCNFInt (fun _ => post) k n m seed pl pre))) a
  | "randkxor" => run (do
      let cls ← int; let k ← int; let n ← int; let m ← int; let seed ← seedArg
      let pl ← planted; let pre ← draws; let post ← draws
      pure (fmtR (fun sys => fmtFormula cls (kxorFormula n.toNat sys) ++ " | sys " ++ fmtSys sys)
        (randomKXORSysInt (fun _ => post) k n m seed pl pre))) a
  | "clikcnf" => run (do
      let cls ← int; let plant ← bool; let k ← nat; let n ← nat; let m ← nat; let ds ← draws
      pure (fmtR (fmtFormula cls) (cliRandKCNF plant k n m ds))) a
  | "clikxor" => run (do
      let cls ← int; let plant ← bool; let k ← nat; let n ← nat; let m ← nat; let ds ← draws
      pure (fmtR (fun sys => fmtFormula cls (kxorFormula n sys) ++ " | sys " ++ fmtSys sys)
        (cliRandKXORSys plant k n m ds))) a
  | "allclauses" => run (do
      let k ← nat; let n ← nat; let pl ← planted
      pure (ok (fmtClauses (allClauses k n pl)))) a
  | "allparities" => run (do
      let k ← nat; let n ← nat; let pl ← planted
      pure (fmtExcept fmtSys (allGoodParities k n pl))) a
  | _ => none

end Cnfgen.Driver.Rand
