import CnfgenModel.Driver.Util
import CnfgenModel.Build.Linear
import CnfgenModel.Build.OPB
namespace Cnfgen.Driver.L1
open Cnfgen Cnfgen.Driver

def handle (opname : String) (a : Args) : Option String :=
  match opname with
  | "lin" => run (do let o ← op; let k ← int; let ls ← ints; pure (ok (fmtClauses (Linear.add ls o k)))) a
  | "parity" => run (do let k ← int; let ls ← ints; pure (ok (fmtClauses (Linear.parity ls k)))) a
  | "maj" => run (do
      let kind ← int; let ls ← ints
      let cs := match kind with
        | 0 => Linear.looseMajority ls | 1 => Linear.looseMinority ls
        | 2 => Linear.strictMajority ls | _ => Linear.strictMinority ls
      pure (ok (fmtClauses cs))) a
  | "olin" => run (do let o ← op; let k ← int; let ls ← ints; pure (ok (fmtPBCs (PB.add ls o k)))) a
  | "oparity" => run (do let k ← int; let ls ← ints; pure (ok (fmtPBCs (PB.parity ls k)))) a
  | "omaj" => run (do
      let kind ← int; let ls ← ints
      let cs := match kind with
        | 0 => PB.looseMajority ls | 1 => PB.looseMinority ls
        | 2 => PB.strictMajority ls | _ => PB.strictMinority ls
      pure (ok (fmtPBCs cs))) a
  | "linF" => run (do
      -- a checked builder call on a formula that already has `nv` variables: new variable count + clauses
      let nv ← nat; let o ← op; let k ← int; let ls ← ints
      if ls.contains 0 then pure (err .valueError)
      else pure (ok (toString (ls.foldl (fun m l => max m l.natAbs) nv) ++ " " ++ fmtClauses (Linear.add ls o k)))) a
  | "both" => run (do
      let o ← op; let k ← int; let ls ← ints
      pure (ok (fmtClauses (Linear.add ls o k) ++ " || " ++ fmtPBCs (PB.add ls o k)))) a
  | "normopb" => run (do let o ← op; let k ← int; let ts ← pairs; pure (ok (fmtPBC (PB.normalize ⟨ts, o, k⟩)))) a
  | _ => none

end Cnfgen.Driver.L1
