/-
Driver requests for the C01 families:  `<name> <cls> params… [graph literal]`
answer `OK <fmtFormula cls F>` or `ERR <PythonExceptionName>`.
-/
import CnfgenModel.Driver.Util
import CnfgenModel.Fam.Php
import CnfgenModel.Fam.Counting
import CnfgenModel.Fam.SubsetCard
import CnfgenModel.Fam.CliqueColoring
namespace Cnfgen.Driver.FamC01
open Cnfgen Cnfgen.Driver Cnfgen.Fam

def out (cls : Int) : Except Err Formula → String
  | .ok F => ok (fmtFormula cls F)
  | .error e => err e

def handle (opname : String) (a : Args) : Option String :=
  match opname with
  | "php" => run (do
      let cls ← int; let m ← int; let n ← int; let f ← bool; let o ← bool
      pure (out cls (php m n f o))) a
  | "gphp" => run (do
      let cls ← int; let f ← bool; let o ← bool; let B ← bipG
      pure (out cls (B.map (fun B => gphp B f o)))) a
  | "bphp" => run (do
      let cls ← int; let m ← int; let n ← int
      pure (out cls (bphp m n))) a
  | "rphp" => run (do
      let cls ← int; let m ← int; let r ← int; let n ← int
      pure (out cls (rphp m r n))) a
  | "count" => run (do
      let cls ← int; let M ← int; let p ← int
      pure (out cls (counting M p))) a
  | "pmatch" => run (do
      let cls ← int; let G ← simpleG
      pure (out cls (G.map pmF))) a
  | "subsetcard" => run (do
      let cls ← int; let eq ← bool; let B ← bipG
      pure (out cls (B.map (fun B => subsetCardF B eq)))) a
  | "cliquecol" => run (do
      let cls ← int; let n ← int; let k ← int; let c ← int
      pure (out cls (cliqueColoring n k c))) a
  | _ => none

end Cnfgen.Driver.FamC01
