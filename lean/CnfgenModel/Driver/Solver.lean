/-
Line-protocol handlers for the solver bridge (property C20).

  pstdout L(lines, each a length-prefixed list of code points)   → parseStdout
  ptext   <bytes of the solver's stdout>                         → decodeAscii, then parseOutput (splitlines + parseStdout)
  pfile   <bytes of the result file>                             → decodeAscii, then parseMinisatFile
  nostart <iface 0|1|2>                                          → the interface function when Popen raised OSError
  select  <0 | 1 cmd> <0 | 1 sameas> L(installed names)          → selectInterface

Answers: `OK T <n> l₁ … l_n` (True, witness) | `OK T N` (True, None) | `OK F N` | `OK F <n> …`
         `OK <iface> <#tokens> tok₁ …` (each token a length-prefixed list of code points)
         `ERR <PythonExceptionName>`
-/
import CnfgenModel.Driver.Util
import CnfgenModel.Solver.Select
namespace Cnfgen.Driver.Solver
open Cnfgen Cnfgen.Driver Cnfgen.Solver

def chars : P Str := do let l ← ints; pure (l.map (fun i => Char.ofNat i.toNat))

def optStr : P (Option String) := do
  let flag ← int
  if flag == 0 then pure none else do let s ← chars; pure (some (String.ofList s))

def fmtVerdict (r : Bool × Option (List Int)) : String :=
  (if r.1 then "T" else "F") ++ " " ++
    (match r.2 with
     | none => "N"
     | some w => toString w.length ++ w.foldl (fun s l => s ++ " " ++ toString l) "")

def fmtTok (t : Str) : String :=
  toString t.length ++ t.foldl (fun s c => s ++ " " ++ toString c.toNat) ""

def fmtSelect (r : Iface × String) : String :=
  let toks := pySplit r.2.toList
  toString r.1.code ++ " " ++ toString toks.length ++ toks.foldl (fun s t => s ++ " " ++ fmtTok t) ""

def ifaceOfInt : Int → Option Iface
  | 0 => some .stdinStdout | 1 => some .fileInStdout | 2 => some .fileInFileOut | _ => none

def handle (opname : String) (a : Args) : Option String :=
  match opname with
  | "pstdout" => run (do let ls ← listOf chars; pure (fmtExcept fmtVerdict (parseStdout ls))) a
  | "ptext" => run (do let b ← nats; pure (fmtExcept fmtVerdict (parseOutput (decodeAscii b)))) a
  | "pfile" => run (do let b ← nats; pure (fmtExcept fmtVerdict (parseMinisatFile (decodeAscii b)))) a
  | "nostart" => run (do
      let i ← int
      match ifaceOfInt i with
      | some f => pure (fmtExcept fmtVerdict (runIface f none))
      | none => failure) a
  | "select" => run (do
      let cmd ← optStr; let sameas ← optStr
      let inst ← listOf (do let s ← chars; pure (String.ofList s))
      pure (fmtExcept fmtSelect (selectInterface cmd sameas inst))) a
  | _ => none

end Cnfgen.Driver.Solver
