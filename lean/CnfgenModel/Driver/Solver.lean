/-
Line-protocol handlers for the solver bridge (property C20).

  pstdout L(lines, each a length-prefixed list of code points)   → parseStdout
  ptext   <bytes of the solver's stdout>                         → decodeAscii, then parseOutput (splitlines + parseStdout)
  pfile   <bytes of the result file>                             → decodeAscii, then parseMinisatFile
  nostart <iface 0|1|2>                                          → the interface function when Popen raised OSError
  select  <0 | 1 cmd> <0 | 1 sameas> L(installed names)          → selectInterface

  fvariant                                                         → which snapshot the current source is (0 current, 1 patched, none)
  frun    <variant 0 current|1 patched|2 = the one the source matches> <iface> L(schedule: 0 ok, 1 OSError, 2 other) <rmIn> <rmOut> <hasFile>
          L(stdout bytes) L(file bytes) <exit>                     → runProg (one interface function under a fault schedule)
  fsolve  <variant> <0 | 1 cmd> <0 | 1 sameas> L(installed names) L(schedule) <rmIn> <rmOut> <hasFile>
          L(stdout bytes) L(file bytes) <exit>                     → solveW (the same solver behaviour behind every command)

Answers: `OK T <n> l₁ … l_n` (True, witness) | `OK T N` (True, None) | `OK F N` | `OK F <n> …`
         `OK <iface> <#tokens> tok₁ …` (each token a length-prefixed list of code points)
         `ERR <PythonExceptionName>`
         frun / fsolve: `OK <verdict as above | E <OSError|Other|PythonExceptionName>> | left <ids> | refused <ids> |
                         started <0|1> | <resource calls, e.g. mktemp:f0 render write:f0 close:f0 spawn:f0 communicate:0 unlink:f0>`
-/
import CnfgenModel.Driver.Util
import CnfgenModel.Solver.Select
import CnfgenModel.Solver.Run
namespace Cnfgen.Driver.Solver
open Cnfgen Cnfgen.Driver Cnfgen.Solver

def chars : P Str := do let l ← ints; pure (l.map (fun i => Char.ofNat i.toNat))

def optStr : P (Option String) := do
  let flag ← int
  if flag == 0 then pure none else do let s ← chars; pure (some (String.ofList s))

def fmtVerdict (r : Bool × Option (List Int)) : String :=
  (if r.1 then "T" else "F") ++ " " ++
    (match r.2 with
     | none => "N"
     | some w => toString w.length ++ w.foldl (fun s l => s ++ " " ++ toString l) "")

def fmtTok (t : Str) : String :=
  toString t.length ++ t.foldl (fun s c => s ++ " " ++ toString c.toNat) ""

def fmtSelect (r : Iface × String) : String :=
  let toks := pySplit r.2.toList
  toString r.1.code ++ " " ++ toString toks.length ++ toks.foldl (fun s t => s ++ " " ++ fmtTok t) ""

def ifaceOfInt : Int → Option Iface
  | 0 => some .stdinStdout | 1 => some .fileInStdout | 2 => some .fileInFileOut | _ => none

def slotName : Cnfgen.Gen.RSlot → String
  | .cnf => "f0" | .sat => "f1"

def opName : Cnfgen.Gen.ROp → String
  | .mktemp s => "mktemp:" ++ slotName s
  | .render => "render"
  | .write s => "write:" ++ slotName s
  | .close s => "close:" ++ slotName s
  | .spawn fs => "spawn:" ++ ",".intercalate (fs.map slotName)
  | .communicate i => "communicate:" ++ (if i then "1" else "0")
  | .openRead s => "open:" ++ slotName s
  | .read s => "read:" ++ slotName s
  | .unlink s => "unlink:" ++ slotName s
  | .unlinkIf s => "unlink:" ++ slotName s
  | .unknown w => "unknown:" ++ w

def fmtObs (o : Obs) : String :=
  (match o.outcome with
   | .ok r => fmtVerdict r
   | .error e => "E " ++ e.name) ++
  " | left" ++ o.left.foldl (fun s p => s ++ " " ++ toString p) "" ++
  " | refused" ++ o.refused.foldl (fun s p => s ++ " " ++ toString p) "" ++
  " | started " ++ (if o.started then "1" else "0") ++
  " |" ++ o.trace.foldl (fun s p => s ++ " " ++ opName p) ""

def faultOfInt : Int → Option Fault
  | 0 => some .ok | 1 => some .os | 2 => some .other | _ => none

def sched : P (List Fault) := do
  let l ← ints
  match l.mapM faultOfInt with
  | some s => pure s
  | none => failure

def variantOfInt : Int → Option Variant
  | 0 => some .current | 1 => some .patched
  | 2 => some (sourceVariant.getD .current)   -- the reviewed snapshot that the regenerated skeletons match (else: current)
  | _ => none

def beh : P Beh := do
  let rmIn ← bool; let rmOut ← bool; let hasFile ← bool
  let out ← nats; let file ← nats; let ex ← nat
  pure { stdout := out, file := if hasFile then some file else none, exit := ex, rmIn := rmIn, rmOut := rmOut }

def handle (opname : String) (a : Args) : Option String :=
  match opname with
  | "pstdout" => run (do let ls ← listOf chars; pure (fmtExcept fmtVerdict (parseStdout ls))) a
  | "ptext" => run (do let b ← nats; pure (fmtExcept fmtVerdict (parseOutput (decodeAscii b)))) a
  | "pfile" => run (do let b ← nats; pure (fmtExcept fmtVerdict (parseMinisatFile (decodeAscii b)))) a
  | "nostart" => run (do
      let i ← int
      match ifaceOfInt i with
      | some f => pure (fmtExcept fmtVerdict (runIface f none))
      | none => failure) a
  | "select" => run (do
      let cmd ← optStr; let sameas ← optStr
      let inst ← listOf (do let s ← chars; pure (String.ofList s))
      pure (fmtExcept fmtSelect (selectInterface cmd sameas inst))) a
  | "fvariant" => run (pure (match sourceVariant with
      | some .current => "OK 0" | some .patched => "OK 1" | none => "ERR none")) a
  | "frun" => run (do
      let v ← int; let i ← int
      let sc ← sched; let b ← beh
      match variantOfInt v, ifaceOfInt i with
      | some v, some f => pure (ok (fmtObs (runProg v f b sc)))
      | _, _ => failure) a
  | "fsolve" => run (do
      let v ← int
      let cmd ← optStr; let sameas ← optStr
      let inst ← listOf (do let s ← chars; pure (String.ofList s))
      let sc ← sched; let b ← beh
      match variantOfInt v with
      | some v => pure (ok (fmtObs (solveW v inst (fun _ _ => b) sc cmd sameas)))
      | none => failure) a
  | _ => none

end Cnfgen.Driver.Solver
