import CnfgenModel.Driver.Util
import CnfgenModel.Cli.Validate
import CnfgenModel.Cli.Chain
import CnfgenModel.Cli.Phases
import CnfgenModel.Cli.PhaseTable
import CnfgenModel.Cli.Msg
namespace Cnfgen.Driver.Cli
open Cnfgen Cnfgen.Driver Cnfgen.Cli

def fmtChunks (cs : List (List String)) : String :=
  toString cs.length ++ cs.foldl (fun s c => s ++ " | " ++ toString c.length ++
    c.foldl (fun s t => s ++ " " ++ fmtInts (intsOfStr t) ++ " ;") "") ""

def handle (opname : String) (a : Args) : Option String :=
  match opname with
  | "validate" => run (do
      let name ← str; let tok ← str
      pure (match validate name tok with | some v => ok (toString v) | none => "REJECT")) a
  | "pyint" => run (do
      let tok ← str
      pure (match pyInt? tok with | some v => ok (toString v) | none => "ERR ValueError")) a
  | "splitT" => run (do
      let toks ← listOf str
      let (g, ts) := parseCommandLine toks
      pure (ok (fmtChunks (g :: ts)))) a
  | "phase" => run (do
      let s ← int; let has ← bool
      let c : Cmd := { seed := if has then some s else none, parseDraws := 1, buildDraws := 1 }
      let r := firstEvents sourceVariant c     -- the variant computed from the regenerated phase table
      pure (ok (toString (if r.1 then 1 else 0) ++ " " ++ toString r.2))) a
  | "errlines" => run (do
      let pre ← str; let prog ← str; let hasUsage ← bool; let usage ← listOf str; let message ← listOf str
      let ls := errorMsgLines pre (cliErrorLines message (if hasUsage then some usage else none) prog)
      pure (ok (toString ls.length ++ ls.foldl (fun s l => s ++ " | " ++ fmtInts (intsOfStr l)) ""))) a
  | "phase3" => run (do
      let s ← int; let has ← bool
      let c : Cmd := { seed := if has then some s else none, parseDraws := 1, buildDraws := 1 }
      let r := firstEvents sourceVariant c
      pure (ok (toString (if r.1 then 1 else 0) ++ " " ++ toString r.2 ++ " " ++ toString (seedEvents sourceVariant c)))) a
  | _ => none

end Cnfgen.Driver.Cli
