/-
Driver requests for the variable groups, the variables manager and the mapping builders.

  vg_q   <off> <spec> <#queries> <query>…     queries on one group created after
                                               update_variable_number(off)
  vg_hist <dfmt> <#ops> <op>…                  manager history; <op> = `0 <check> <clause>` | `1 <n>` | `2 <spec>` |
                                               `3 <check> <#picks> (<gi> <pos> <sign>)…` — a clause written with the
                                               variables of the groups created so far: `sign` times the identifier that
                                               the `gi`-th created group (mod their number) gives to its `pos`-th legal
                                               index (mod their number), obtained through the group's own `indices` / `call`
  vg_map <off> <mapspec> <which> <cls>         force_*_mapping
  vg_forbid <off> <n> <m> <i> <j>              BinaryMappingVariables.forbid

<spec>   : kind + arguments (see `spec`), labels are `-1` (not given) or `<len> <code points>`
<pattern>: `<len>` then per entry `0` (None) or `1 <int>`
-/
import CnfgenModel.Driver.Util
import CnfgenModel.Vars.Manager
import CnfgenModel.Vars.Mapping
namespace Cnfgen.Driver.Vars
open Cnfgen Cnfgen.Driver Cnfgen.Vars

def optStr : P (Option String) := do
  let n ← int
  if n < 0 then pure none else do let l ← takeN n.toNat; pure (some (strOfInts l))

def optInt : P (Option Int) := do
  let f ← int
  if f == 0 then pure none else do let x ← int; pure (some x)

def pattern : P Pattern := listOf optInt

/-- a group specification; graph literals that the model's own `addEdge` rejects make the
request fail with that error -/
def spec : P (Except Err GroupSpec) := do
  let kind ← int
  match kind with
  | 0 => do let l ← optStr; pure (.ok (.variable l))
  | 1 => do let r ← ints; let l ← optStr; pure (.ok (.block r l))
  | 2 => do let n ← int; let k ← int; let l ← optStr; pure (.ok (.combinations n k l))
  | 3 => do let n ← int; let k ← int; let l ← optStr; pure (.ok (.combinationsRepl n k l))
  | 4 => do let n ← int; let k ← optInt; let l ← optStr; pure (.ok (.permutations n k l))
  | 5 => do let n ← int; let k ← int; let l ← optStr; pure (.ok (.words n k l))
  | 6 => do let g ← bipG; let l ← optStr; pure (g.map (.bipartite · l))
  | 7 => do let g ← simpleG; let l ← optStr; pure (g.map (.graph · l))
  | 8 => do
    let g ← diG; let l ← optStr; let sb ← int
    let sortby := if sb == 0 then SortBy.pred else if sb == 1 then SortBy.succ else SortBy.other
    pure (g.map (.digraph · l sortby))
  | 9 => do let n ← int; let m ← int; let l ← optStr; pure (.ok (.mapping n m l))
  | 10 => do let g ← bipG; let l ← optStr; pure (g.map (.sparseMapping · l))
  | 11 => do let n ← int; let m ← int; let l ← optStr; pure (.ok (.binaryMapping n m l))
  | _ => failure

/-! output -/
def fmtList (l : List String) : String := "[" ++ ",".intercalate l ++ "]"
def fmtNatList (l : List Nat) : String := fmtList (l.map toString)
def fmtLabel : Option String → String
  | none => "None"
  | some s => "'" ++ ".".intercalate (s.toList.map (fun c => toString c.toNat)) ++ "'"

def fmtRes {α} (f : α → String) : Res α → String
  | .one a => "one " ++ f a
  | .many l => "many " ++ fmtList (l.map f)

def fmtE {α} (f : α → String) : Except Err α → String
  | .ok a => f a
  | .error e => "E:" ++ e.name

inductive Query where
  | call (p : Pattern) | indices (p : Pattern) | label (p : Pattern) | toIndex (lit : Int)
  | contains (lit : Int)

def query : P Query := do
  let k ← int
  match k with
  | 0 => do let p ← pattern; pure (.call p)
  | 1 => do let p ← pattern; pure (.indices p)
  | 2 => do let p ← pattern; pure (.label p)
  | 3 => do let l ← int; pure (.toIndex l)
  | 4 => do let l ← int; pure (.contains l)
  | _ => failure

def answer (g : Group) : Query → String
  | .call p => fmtE (fmtRes toString) (g.call p)
  | .indices p => fmtE (fun l => fmtList (l.map fmtNatList)) (g.indices p)
  | .label p => fmtE (fmtRes fmtLabel) (g.label p)
  | .toIndex l => fmtE fmtNatList (g.toIndex l)
  | .contains l => if g.contains l then "True" else "False"

def mop : P (Except Err MOp) := do
  let k ← int
  match k with
  | 0 => do let check ← bool; let c ← ints; pure (.ok (.addClause c check))
  | 1 => do let n ← int; pure (.ok (.updateVarNum n))
  | 2 => do let s ← spec; pure (s.map .newGroup)
  | _ => failure

/-- an operation of a history as the harness writes it: a manager operation, or a clause whose literals are looked up
in the groups created so far (resolved against the state in which it is executed) -/
inductive HOp where
  | plain (op : MOp)
  | use (check : Bool) (picks : List (Nat × Nat × Int))

def hop : P (Except Err HOp) := do
  let k ← int
  match k with
  | 0 => do let check ← bool; let c ← ints; pure (.ok (.plain (.addClause c check)))
  | 1 => do let n ← int; pure (.ok (.plain (.updateVarNum n)))
  | 2 => do let s ← spec; pure (s.map (fun sp => .plain (.newGroup sp)))
  | 3 => do
    let check ← bool
    let picks ← listOf (do let gi ← nat; let pos ← nat; let sg ← int; pure (gi, pos, sg))
    pure (.ok (.use check picks))
  | _ => failure

/-- `sign * g(*list(g.indices())[pos])` for the `gi`-th created group; nothing when there is no group / no index -/
def pickLit (created : List Group) (gi pos : Nat) (sign : Int) : Option Int :=
  match created[gi % created.length]? with
  | none => none
  | some g =>
    match g.indices [] with
    | .error _ => none
    | .ok idxs =>
      match idxs[pos % idxs.length]? with
      | none => none
      | some idx =>
        match g.call (idx.map (fun x => some (Int.ofNat x))) with
        | .ok (.one v) => some (sign * Int.ofNat v)
        | .ok (.many (v :: _)) => some (sign * Int.ofNat v)
        | _ => none

/-- `Vars.trace` over harness operations; `created` = the groups returned by the successful `new_*` calls so far -/
def traceH (s : MState) (created : List Group) : List HOp → List (MState × Outcome)
  | [] => []
  | h :: hs =>
    let op : MOp := match h with
      | .plain op => op
      | .use check picks => .addClause (picks.filterMap (fun p => pickLit created p.1 p.2.1 p.2.2)) check
    let r := step s op
    let created' := match r.2 with
      | .ok (some g) => created ++ [g]
      | _ => created
    r :: traceH r.1 created' hs

def fmtOutcome : Outcome → String
  | .ok none => "-"
  | .ok (some g) => toString g.start ++ "+" ++ toString g.len
  | .error e => "E:" ++ e.name

def fmtTrace (t : List (MState × Outcome)) : List String :=
  t.map (fun r => toString r.1.numvar ++ ":" ++ toString r.1.maxMentioned ++ ":" ++ fmtOutcome r.2)

def sequence {α} : List (Except Err α) → Except Err (List α)
  | [] => .ok []
  | x :: xs => do let a ← x; let as ← sequence xs; pure (a :: as)

def mapSpec : P (Except Err (Nat → MapG)) := do
  let kind ← int
  match kind with
  | 0 => do let n ← nat; let m ← nat; pure (.ok (fun s => .unary s (BipG.complete n m)))
  | 1 => do let g ← bipG; pure (g.map (fun G s => .unary s G))
  | 2 => do let n ← nat; let m ← nat; pure (.ok (fun s => .binary s n m))
  | _ => failure

def mapLen : MapG → Nat
  | .unary _ G => G.numberOfEdges
  | .binary _ n m => n * clog2 m

def handle (opname : String) (a : Args) : Option String :=
  match opname with
  | "vg_q" => run (do
      let off ← nat; let sp ← spec; let qs ← listOf query
      match sp with
      | .error e => pure (err e)
      | .ok sp =>
        match mkGroup off sp with
        | .error e => pure (err e)
        | .ok g =>
          pure (ok (" ; ".intercalate
            ((toString g.start ++ " " ++ toString g.len) :: qs.map (answer g))))) a
  | "vg_hist" => run (do
      let dfmt ← str; let ops ← listOf hop
      match sequence ops with
      | .error e => pure (err e)
      | .ok ops =>
        let t := traceH MState.init [] ops
        let final := (t.getLast?.map (·.1)).getD MState.init
        pure (ok (" ; ".intercalate
          (fmtTrace t ++ [fmtE (fun l => fmtList (l.map fmtLabel)) (allLabels final dfmt)])))) a
  | "vg_map" => run (do
      let off ← nat; let ms ← mapSpec; let which ← int; let cls ← int
      match ms with
      | .error e => pure (err e)
      | .ok mk =>
        let f := mk (off + 1)
        let cons := match which with
          | 0 => forceComplete f | 1 => forceFunctional f | 2 => forceSurjective f
          | 3 => forceInjective f | _ => forceNondecreasing f
        pure (fmtExcept (fun cs => fmtFormula cls ⟨off + mapLen f, cs⟩) cons)) a
  | "vg_forbid" => run (do
      let off ← nat; let n ← nat; let m ← nat; let i ← int; let j ← int
      pure (fmtExcept (fun c => fmtClauses [c]) (forbidFull (off + 1) n (clog2 m) i j))) a
  | _ => none

end Cnfgen.Driver.Vars
