/-
Driver handler for the extended command line interpreter (Cli/Argparse.lean).

  dispatchx <tool: 0 cnfgen | 1 pbgen> <kind: 0 formula | 1 transformation> <name> <ord> <argv…>
      answer `<by the tables regenerated from the source> ## <by the documented tables>`, each: `OK CALL …` (same text as `dispatch`), `OK FORMULA <nvars> <clauses>`,
      `OK SAME`, `EXIT 0` (help), `ERR CLIError`, `ERR <exception>`, `UNSUPPORTED`.
      <ord>: the number of vertices of every graph given as a FILE on this command line.
  dispatchx_supported <kind>                       names of the sub-commands handled
  ap_classify <tool> <kind> <name> <token>         how the sub-command's parser classifies one token
-/
import CnfgenModel.Driver.Util
import CnfgenModel.Driver.Dispatch
import CnfgenModel.Cli.Argparse
import CnfgenModel.Cli.DispatchDoc
namespace Cnfgen.Driver.Argparse
open Cnfgen Cnfgen.Driver Cnfgen.Cli Cnfgen.Cli.AP Cnfgen.Gen

def toolName (k : Int) : String := if k == 0 then "cnfgen" else "pbgen"

def fmtBuilt : Except PErr Built → String
  | .ok (.call c) => ok (Dispatch.fmtCall c)
  | .ok (.formula n cs) => ok ("FORMULA " ++ toString n ++ " " ++ fmtClauses cs)
  | .ok .same => ok "SAME"
  | .error .cliError => "ERR CLIError"
  | .error .helpExit => "EXIT 0"
  | .error (.crash e) => "ERR " ++ e
  | .error (.unsupported _) => "UNSUPPORTED"

def fmtTarget : Target → String
  | .help => "help"
  | .opt o => o.dest

def fmtItem : Item → String
  | .arg _ => "A"
  | .dd => "-"
  | .opt tg os none => "O " ++ fmtTarget tg ++ " " ++ Dispatch.fmtStr os
  | .opt tg os (some e) => "O " ++ fmtTarget tg ++ " " ++ Dispatch.fmtStr os ++ " =" ++ Dispatch.fmtStr e
  | .unknown _ => "U"
  | .ambiguous _ => "AMBIGUOUS"

/-- the DOCUMENTED side: the reviewed snapshot (Cli/Documented.lean) for the sub-commands that make a library call,
the pinned bodies (`inlinePinned`) for the ones that build their formula inline -/
def docSpecX (s : CliSpec) : CliSpec :=
  match documentedSpec s.kind s.name with
  | some d => d
  | none =>
    match inlinePinned.lookup s.cls with
    | some ts => { s with templates := ts }
    | none => s

def handle (opname : String) (a : Args) : Option String :=
  match opname with
  | "dispatchx" => run (do
      let tl ← int; let k ← int; let name ← str; let ord ← nat; let argv ← listOf str
      let cur := fmtBuilt (dispatchNamedX (toolName tl) (fun _ => ord) (Dispatch.kindName k) name argv)
      let doc := match cliSpecs.find? (fun s => s.kind == Dispatch.kindName k && s.name == name) with
        | some s => fmtBuilt (dispatchSpecX (toolName tl) (fun _ => ord) (docSpecX s) argv)
        | none => "UNSUPPORTED"
      pure (cur ++ " ## " ++ doc)) a
  | "dispatchx_supported" => run (do
      let k ← int
      pure (ok (" ".intercalate (supportedNamesX (Dispatch.kindName k))))) a
  | "ap_classify" => run (do
      let k ← int; let name ← str; let t ← str
      pure (match cliSpecs.find? (fun s => s.kind == Dispatch.kindName k && s.name == name) with
            | some s => ok (fmtItem (classifyTok (mainSpec s).strings t))
            | none => "UNSUPPORTED")) a
  | _ => none

end Cnfgen.Driver.Argparse
