/-
Driver handlers for the two small tools (Cli/ToolArgs.lean, Cli/Tools.lean).

  <str>     = len cp…                       (code points)
  <content> = 0 <str> | 1 | 2               text | undecodable | unreadable
  <env>     = <content> universal <str:stdinName> #files (<str:path> <content>)* #unwritable <str:path>*
              <str:generator> <str:copyright> <str:url>
  <argv>    = #tokens <str>*
  <draws>   = #draws (0 v | 1 len ints…)*

  targs    tool <env> <argv>          tool: 0 = cnfshuffle, 1 = kthlist2pebbling.  The parse alone:
             `OK help` | `OK error` | `OK sub <str:name> #rest <str>*` |
             `OK ns <in> <out> <seed> p v c verbose`   (<in>/<out> = 0 | 1 <str:path> | 2 ; <seed> = 0 | 1 <str>)
  tshuffle <env> <argv> <draws>       the process cnfshuffle
  tk2p     <env> <argv>               the process kthlist2pebbling
             `OK ok <dest> <str:text>` (<dest> = 0 | 1 <str:path>) | `OK help` | `OK cliError <str:pfx>` |
             `OK silent` | `OK escaped <str:exc>` | `OK badDraws` | `OK sub` (tk2p: a transformation is selected)
-/
import CnfgenModel.Driver.Util
import CnfgenModel.Cli.Tools
namespace Cnfgen.Driver.Tools
open Cnfgen Cnfgen.Driver Cnfgen.Cli.ToolArgs Cnfgen.Cli.Tools

def chars : P (List Char) := do let l ← ints; pure (l.map (fun i => Char.ofNat i.toNat))

def contentP : P Content := do
  let t ← int
  if t == 0 then do let s ← chars; pure (.text s)
  else if t == 1 then pure .undecodable
  else if t == 2 then pure .unreadable
  else failure

def envP : P Env := do
  let stdin ← contentP
  let u ← bool
  let nm ← str
  let files ← listOf (do let p ← str; let c ← contentP; pure (p, c))
  let unw ← listOf str
  let g ← str; let c ← str; let url ← str
  pure { stdin := stdin, stdinUniversal := u, stdinName := nm,
         file := fun p => files.lookup p, writable := fun p => !unw.contains p,
         generator := g, copyright := c, url := url }

def drawP : P Shuffle.Draw := do
  let t ← int
  if t == 0 then do let v ← int; pure (.choice v)
  else if t == 1 then do let l ← ints; pure (.shuffled l)
  else failure

def fmtChars (l : List Char) : String :=
  toString l.length ++ l.foldl (fun acc c => acc ++ " " ++ toString c.toNat) ""

def fmtStr (s : String) : String := fmtChars s.toList

def fmtIn : InArg → String
  | .stdin => "0" | .file p => "1 " ++ fmtStr p
def fmtOut : OutArg → String
  | .stdout => "0" | .file p => "1 " ++ fmtStr p
def fmtB (b : Bool) : String := if b then "1" else "0"

def fmtArgs (a : Cli.Tools.Args) : String :=
  "ns " ++ fmtIn a.input ++ " " ++ fmtOut a.output ++ " " ++
    (match a.seed with | none => "0" | some s => "1 " ++ fmtStr s) ++ " " ++
    fmtB a.noFlips ++ " " ++ fmtB a.noVperm ++ " " ++ fmtB a.noCperm ++ " " ++ fmtB a.verbose

def fmtParse : Except (Stop Cli.Tools.Args) Cli.Tools.Args → String
  | .ok a => fmtArgs a
  | .error .help => "help"
  | .error .error => "error"
  | .error (.sub n r _ _) =>
    "sub " ++ fmtStr n ++ " " ++ toString r.length ++ r.foldl (fun acc t => acc ++ " " ++ fmtStr t) ""

def fmtOutcome : Outcome → String
  | .ok .stdout t => "ok 0 " ++ fmtChars t
  | .ok (.file p) t => "ok 1 " ++ fmtStr p ++ " " ++ fmtChars t
  | .help => "help"
  | .cliError _ pfx => "cliError " ++ fmtStr pfx
  | .escaped e => "escaped " ++ fmtStr e
  | .badDraws => "badDraws"

def handle (opname : String) (a : Driver.Args) : Option String :=
  match opname with
  | "targs" => run (do
      let tool ← int
      let env ← envP
      let argv ← listOf str
      pure (ok (fmtParse (parse (if tool == 0 then shuffleSpec else k2pSpec) (act env) argv ({} : Cli.Tools.Args))))) a
  | "tshuffle" => run (do
      let env ← envP
      let argv ← listOf str
      let ds ← listOf drawP
      pure (ok (fmtOutcome (cnfshuffleRun env argv ds)))) a
  | "tk2p" => run (do
      let env ← envP
      let argv ← listOf str
      pure (ok (match k2pRun env argv with | some o => fmtOutcome o | none => "sub"))) a
  | _ => none

end Cnfgen.Driver.Tools
