/-
L1 — abstract constraints.  A family model is a list of `Con`s over DIMACS literals;
it is rendered either as clauses (class `CNF`, via `CNFLinear`) or as pseudo-Boolean
constraints (class `OPB`, via `BaseOPB`).  `Con.holds` is the arithmetic meaning.
Import-free.
-/
import CnfgenModel.Build.Linear
import CnfgenModel.Build.OPB
namespace Cnfgen

inductive MajKind where
  | looseMaj | looseMin | strictMaj | strictMin
  deriving DecidableEq, Repr, Inhabited

inductive Con where
  /-- `add_clause(c)` -/
  | clause (c : Clause)
  /-- `add_linear(lits, op, k)` / `cardinality_*` -/
  | lin (lits : List Int) (op : Op) (k : Int)
  /-- `add_parity(lits, constant)` -/
  | parity (lits : List Int) (constant : Int)
  /-- `add_{loose,strict}_{majority,minority}(lits)` -/
  | maj (kind : MajKind) (lits : List Int)
  deriving Repr, Inhabited

namespace Con

def lits : Con → List Int
  | clause c => c
  | lin ls _ _ => ls
  | parity ls _ => ls
  | maj _ ls => ls

/-- arithmetic meaning -/
def holds (α : Assign) : Con → Bool
  | clause c => clauseHolds α c
  | lin ls o k => o.denote (count α ls) k
  | parity ls b => decide (count α ls % 2 = (if b == 1 then 1 else 0))
  | maj .looseMaj ls => decide (ls.length ≤ 2 * count α ls)
  | maj .looseMin ls => decide (2 * count α ls ≤ ls.length)
  | maj .strictMaj ls => decide (ls.length < 2 * count α ls)
  | maj .strictMin ls => decide (2 * count α ls < ls.length)

/-- clauses appended by the CNF class -/
def toCNF : Con → List Clause
  | clause c => [c]
  | lin ls o k => Linear.add ls o k
  | parity ls b => Linear.parity ls b
  | maj .looseMaj ls => Linear.looseMajority ls
  | maj .looseMin ls => Linear.looseMinority ls
  | maj .strictMaj ls => Linear.strictMajority ls
  | maj .strictMin ls => Linear.strictMinority ls

/-- constraints appended by the OPB class -/
def toOPB : Con → List PBC
  | clause c => [PBC.ofClause c]
  | lin ls o k => PB.add ls o k
  | parity ls b => PB.parity ls b
  | maj .looseMaj ls => PB.looseMajority ls
  | maj .looseMin ls => PB.looseMinority ls
  | maj .strictMaj ls => PB.strictMajority ls
  | maj .strictMin ls => PB.strictMinority ls

end Con

/-- a formula before the choice of the formula class -/
structure Formula where
  nvars : Nat
  cons : List Con
  deriving Repr, Inhabited

namespace Formula
def holds (α : Assign) (F : Formula) : Bool := F.cons.all (Con.holds α)
def toCNF (F : Formula) : CNF := ⟨F.nvars, F.cons.flatMap Con.toCNF⟩
def toOPB (F : Formula) : OPB := ⟨F.nvars, F.cons.flatMap Con.toOPB⟩
/-- every literal is non-zero and within `nvars` -/
def WF (F : Formula) : Prop := ∀ c ∈ F.cons, ∀ l ∈ c.lits, l ≠ 0 ∧ l.natAbs ≤ F.nvars
def wfb (F : Formula) : Bool := F.cons.all (fun c => c.lits.all (fun l => l != 0 && l.natAbs ≤ F.nvars))
end Formula

end Cnfgen
