/-
L1 — clause encodings of `CNFLinear.add_linear`, `add_parity`, majorities
(cnfgen/formula/linear.py).  Import-free.
-/
import CnfgenModel.Core.Sem
import CnfgenModel.Core.Iter
namespace Cnfgen
namespace Linear

/-- the `>=` base case of `add_linear` -/
def geq (lits : List Int) (k : Int) : List Clause :=
  if k ≤ 0 then []
  else if k > lits.length then [[]]
  else combos lits (lits.length - k.toNat + 1)

/-- `<=` : negate the literals, `>= n - k` -/
def leq (lits : List Int) (k : Int) : List Clause :=
  geq (lits.map (fun l => -l)) ((lits.length : Int) - k)

/-- the loop of the `!=` branch: for every `k`-subset of positions (in
`combinations` order) the literal list with those positions negated -/
def neqClauses : List Int → Nat → List Clause
  | ls, 0 => [ls]
  | [], _ + 1 => []
  | x :: xs, k + 1 =>
      (neqClauses xs k).map (fun c => (-x) :: c) ++ (neqClauses xs (k + 1)).map (fun c => x :: c)

def neq (lits : List Int) (k : Int) : List Clause :=
  if k < 0 ∨ k > lits.length then [] else neqClauses lits k.toNat

/-- `add_linear(lits, op, constant)`: the clauses appended, in order -/
def add (lits : List Int) (op : Op) (k : Int) : List Clause :=
  match op with
  | .ne => neq lits k
  | .eq => leq lits k ++ geq lits k
  | .lt => leq lits (k - 1)
  | .gt => geq lits (k + 1)
  | .le => leq lits k
  | .ge => geq lits k

/-- clauses of `add_parity`; `want = true` means "product of signs = +1",
i.e. `constant == 1`. Order = `product([1,-1], repeat=n)` filtered. -/
def parityClauses : List Int → Bool → List Clause
  | [], want => if want then [[]] else []
  | x :: xs, want =>
      (parityClauses xs want).map (fun c => x :: c) ++
      (parityClauses xs (!want)).map (fun c => (-x) :: c)

/-- `add_parity(lits, constant)`; any constant other than 1 behaves like 0 -/
def parity (lits : List Int) (constant : Int) : List Clause :=
  parityClauses lits (constant == 1)

def looseMajority (lits : List Int) : List Clause := add lits .ge ((lits.length + 1) / 2 : Nat)
def looseMinority (lits : List Int) : List Clause := add lits .le (lits.length / 2 : Nat)
def strictMajority (lits : List Int) : List Clause := add lits .ge (lits.length / 2 + 1 : Nat)
def strictMinority (lits : List Int) : List Clause :=
  add lits .le (((lits.length : Int) - 1) / 2)   -- Python floor division; `Int./` is floor for positive divisor

end Linear
end Cnfgen
