/-
L1 — `normalize_opb` and the pseudo-Boolean builders of `BaseOPB`
(cnfgen/formula/baseopb.py).  Import-free.
-/
import CnfgenModel.Core.Sem
import CnfgenModel.Build.Linear
namespace Cnfgen
namespace PB

/-- the coefficient loop of `normalize_opb`: negative coefficients are flipped,
the degree is raised by their absolute value -/
def normTerms : List (Int × Int) → Int → List (Int × Int) × Int
  | [], v => ([], v)
  | (c, l) :: ts, v =>
      if c < 0 then
        let r := normTerms ts (v + (-c))
        ((-c, -l) :: r.1, r.2)
      else if c = 0 then normTerms ts v     -- terms with coefficient zero are dropped
      else
        let r := normTerms ts v
        ((c, l) :: r.1, r.2)

/-- `normalize_opb(constraint)` -/
def normalize (c : PBC) : PBC :=
  -- strict to loose
  let (op1, v1) : Op × Int := match c.op with
    | .lt => (.le, c.rhs - 1)
    | .gt => (.ge, c.rhs + 1)
    | o => (o, c.rhs)
  -- invert the sign
  let (ts2, op2, v2) : List (Int × Int) × Op × Int := match op1 with
    | .le => (c.terms.map (fun t => (-t.1, t.2)), .ge, -v1)
    | o => (c.terms, o, v1)
  let r := normTerms ts2 v2
  ⟨r.1, op2, r.2⟩

def unit (lits : List Int) : List (Int × Int) := lits.map (fun l => (1, l))

/-- `BaseOPB.add_constraint` on unit-coefficient constraints -/
def card (lits : List Int) (op : Op) (k : Int) : PBC := normalize ⟨unit lits, op, k⟩

/-- `BaseOPB.cardinality_*` / `add_linear`-like interface: the constraints appended -/
def add (lits : List Int) (op : Op) (k : Int) : List PBC :=
  match op with
  | .ne => (Linear.neq lits k).map PBC.ofClause
  | o => [card lits o k]

def parity (lits : List Int) (constant : Int) : List PBC :=
  (Linear.parity lits constant).map PBC.ofClause

def looseMajority (lits : List Int) : List PBC := [card lits .ge ((lits.length + 1) / 2 : Nat)]
def looseMinority (lits : List Int) : List PBC := [card lits .le (lits.length / 2 : Nat)]
def strictMajority (lits : List Int) : List PBC := [card lits .gt (lits.length / 2 : Nat)]
def strictMinority (lits : List Int) : List PBC := [card lits .lt ((lits.length + 1) / 2 : Nat)]

/-- `BaseOPB._check_and_update` on a (normalised) constraint -/
def check (numvar : Nat) (c : PBC) : Except Err Nat :=
  if c.terms.any (fun t => t.2 == 0) then .error .valueError
  else if c.terms.any (fun t => t.1 < 0) then .error .valueError
  else if c.op != .ge && c.op != .eq then .error .valueError
  else .ok (c.terms.foldl (fun m t => max m t.2.natAbs) numvar)

end PB
end Cnfgen
