/-
C19 heap model, part 3 — the transformations (cnfgen/transformations/substitutions.py, shuffle.py) as
store transformers.

Every transformation of the code has the same discipline:

    newF = CNF()                                   -- new objects
    newF.header = copy(F.header)                   -- a new dictionary
    … newF.new_block / new_variable / update_variable_number / add_description / add_linear …
    newF.add_clauses_from(apply_substitution(F, subst))   -- reads F, calls newF.add_clause
    return newF

i.e. after the allocation of `newF` a list of *actions on `newF`* (`Act`), some of which READ the input
`F` (its header, its clause objects — lazily, clause by clause, as the generator does — its variable
count).  `runActs` interprets the actions; a transformation is its argument checks + `newCNF` + a list of
actions, written next to the Python text it transcribes.  The clause contents come from the pure
functions of `Trans/Subst.lean` / `Trans/Shuffle.lean` (the gadget encoders build temporary `CNF()`
objects and tuples that never escape; they are not allocated here — notes/C19.md).
Import-free.
-/
import CnfgenModel.Heap.Formula
import CnfgenModel.Trans.Subst
import CnfgenModel.Trans.Header
namespace Cnfgen
namespace Heap
local notation "Addr" => Nat

/-- one statement executed on the result formula `newF` -/
inductive Act where
  /-- `newF.header = copy(F.header)` -/
  | copyHeader (src : Addr)
  /-- `add_description(newF, text)` -/
  | describe (text : String)
  /-- `if 'description' in out.header: out.header['description'] += " (reshuffled)"` -/
  | reshuffled
  /-- `newF.update_variable_number(n)` -/
  | updVar (n : Int)
  /-- `newF.new_block(…)` / `newF.new_variable(…)` -/
  | newGroup (spec : Vars.GroupSpec)
  /-- `N = newF.number_of_variables(); for y in range(k+1, N+1, 2*k): newF.add_linear([y+i for i in range(k)], '==', 1)` -/
  | liftSelectors (k : Nat)
  /-- `newF.add_clauses_from(apply_substitution(F, subst))` -/
  | substFrom (src : Addr) (enc : Int → List Clause)
  /-- `for (old, new) in clauses_mapping: assert new == out.number_of_clauses(); out.add_clause(substitution[lit] for lit in F[old])` -/
  | loadShuffled (src : Addr) (tbl : List (Option Int)) (mapping : List (Nat × Int))

/-- `newF.add_linear(lits, op, k)` (check=True): `_check_and_update(lits)` once, then the clauses unchecked -/
def addLinear (s : Store) (r : Addr) (lits : List Int) (op : Op) (k : Int) : Store × Except Err Unit :=
  match readCNF s r with
  | none => (s, .error modelErr)
  | some o =>
    if lits.isEmpty then addAllVals s r false (Linear.add lits op k)
    else match checkLits o.nv lits with
      | .error e => (s, .error e)
      | .ok nv' => addAllVals (write s r (.cnf o.cl o.hd o.gr nv')) r false (Linear.add lits op k)

def addLinearAll (s : Store) (r : Addr) (op : Op) (k : Int) : List (List Int) → Store × Except Err Unit
  | [] => (s, .ok ())
  | l :: ls =>
    match addLinear s r l op k with
    | (s1, .error e) => (s1, .error e)
    | (s1, .ok _) => addLinearAll s1 r op k ls

/-- the loop of `apply_substitution` consumed by `add_clauses_from`: for every stored clause OBJECT of the
input (read now, from the current store), its block of new clauses is added to `r` -/
def substLoop (r : Addr) (tbl : List (Option (List Clause))) : Store → List Addr → Store × Except Err Unit
  | s, [] => (s, .ok ())
  | s, c :: cs =>
    match readInts s c with
    | none => (s, .error modelErr)
    | some lits =>
      match Subst.substClausePy tbl lits with
      | .error e => (s, .error e)
      | .ok block =>
        match addAllVals s r true block with
        | (s1, .error e) => (s1, .error e)
        | (s1, .ok _) => substLoop r tbl s1 cs

/-- the loop of `Shuffle` -/
def shuffleLoop (r src : Addr) (tbl : List (Option Int)) : Store → List (Nat × Int) → Store × Except Err Unit
  | s, [] => (s, .ok ())
  | s, m :: ms =>
    match readCNF s r, readCNF s src with
    | some o, some f =>
      match readRefs s o.cl, readRefs s f.cl with
      | some mine, some theirs =>
        if m.2 ≠ (mine.length : Int) then (s, .error .assertion)
        else
          match pyIdx theirs (m.1 : Int) with
          | .error e => (s, .error e)
          | .ok a =>
            match readInts s a with            -- `F[old]`: the content of the stored clause, now
            | none => (s, .error modelErr)
            | some c =>
              match Shuffle.substClause tbl c with
              | .error e => (s, .error e)
              | .ok c' =>
                match addClauseVals s r c' true with
                | (s1, .error e) => (s1, .error e)
                | (s1, .ok _) => shuffleLoop r src tbl s1 ms
      | _, _ => (s, .error modelErr)
    | _, _ => (s, .error modelErr)

/-- `range(a, b, s)` for `s > 0` -/
def rangeStep (a b st : Nat) : List Nat := Subst.rangeStep a b st

def runAct (s : Store) (r : Addr) : Act → Store × Except Err Unit
  | .copyHeader src => copyHeader s r src
  | .describe text => describe s r text
  | .reshuffled =>
    match readCNF s r with
    | none => (s, .error modelErr)
    | some o =>
      match readDict s o.hd with
      | none => (s, .error modelErr)
      | some es =>
        (write s o.hd (.dict (es.map (fun p => if p.1 == "description" then (p.1, p.2 ++ " (reshuffled)") else p))), .ok ())
  | .updVar n => updVar s r n
  | .newGroup spec => newGroup s r spec
  | .liftSelectors k =>
    match readCNF s r with
    | none => (s, .error modelErr)
    | some o =>
      addLinearAll s r .eq 1
        ((rangeStep (k + 1) (o.nv + 1) (2 * k)).map (fun y => (List.range k).map (fun i => ((y + i : Nat) : Int))))
  | .substFrom src enc =>
    match readCNF s src with
    | none => (s, .error modelErr)
    | some f =>
      match readRefs s f.cl with
      | none => (s, .error modelErr)
      | some cs => substLoop r (Subst.table f.nv enc) s cs
  | .loadShuffled src tbl mapping => shuffleLoop r src tbl s mapping

/-- the statements in order; an exception ends the call -/
def runActs (r : Addr) : Store → List Act → Store × Except Err Unit
  | s, [] => (s, .ok ())
  | s, a :: as =>
    match runAct s r a with
    | (s1, .error e) => (s1, .error e)
    | (s1, .ok _) => runActs r s1 as

/-- `newF = CNF(); <acts>; return newF` -/
def build (cfg : Cfg) (s : Store) (acts : List Act) : Store × Except Err Addr :=
  let (s1, r) := newCNF cfg s
  match runActs r s1 acts with
  | (s2, .error e) => (s2, .error e)
  | (s2, .ok _) => (s2, .ok r)

/-! ### labels of the new variables -/

/-- `text.replace('{','{{').replace('}','}}')` -/
def escapeCurly (t : String) : String :=
  String.ofList (t.toList.flatMap (fun c => if c = '{' then ['{', '{'] else if c = '}' then ['}', '}'] else [c]))

/-- `'{{' + escape_curly(name) + '}}' + suffix`, with a prefix for lifting -/
def wrapLabel (pre name suf : String) : String := pre ++ "{{" ++ escapeCurly name ++ "}}" ++ suf

/-- `list(F.all_variable_labels())` of the input; the labels are strings (an unnamed variable gets its
default name) -/
def inputLabels (s : Store) (f : Addr) : Except Err (List String) :=
  match snap s f with
  | none => .error modelErr
  | some S =>
    match S.names with
    | .error e => .error e
    | .ok ls => .ok (ls.map (fun o => o.getD ""))

/-- `for name in F.all_variable_labels(): newF.new_block(k, label='{{'+escape_curly(name)+'}}^{}')` -/
def blockActs (k : Int) (labels : List String) : List Act :=
  labels.map (fun nm => .newGroup (.block [k] (some (wrapLabel "" nm "^{}"))))

/-- the arity-`k` substitutions: `positive_int(k)`, blocks, description, clauses -/
def kSubst (cfg : Cfg) (s : Store) (f : Addr) (k : Int) (text : String) (enc : Nat → Int → List Clause) :
    Store × Except Err Addr :=
  if k < 1 then (s, .error .valueError)
  else match inputLabels s f with
    | .error e => (s, .error e)
    | .ok labels =>
      build cfg s ([.copyHeader f] ++ blockActs k labels ++ [.describe text, .substFrom f (enc k.toNat)])

/-- the transformations of the library -/
inductive Tr where
  | flip
  | xor (k : Int) | or (k : Int) | maj (k : Int) | allEqual (k : Int) | notAllEqual (k : Int)
  | exactlyOne (k : Int)
  | linear (k : Int) (o : Op) (C : Int)
  | ite
  | lift (k : Int)
  /-- `VariableCompression(F, B, function)`: `B` a `BipartiteGraph` object of the caller; `fn` 0 = 'xor', 1 = 'maj' -/
  | compress (B : Addr) (fn : Int)
  /-- `Shuffle(F, fl, vp, cp)`: each argument a list object of the caller, or `none` for `'fixed'`
  (`'shuffle'` draws a NEW list from the generator and then behaves like an explicit one) -/
  | shuffle (fl vp cp : Option Addr)
  deriving Repr, DecidableEq, Inhabited

/-- an optional list argument of `Shuffle`: `'fixed'` or the content of the caller's list -/
def readArg (s : Store) : Option Addr → Option (Option (List Int))
  | none => some none
  | some a => (readInts s a).map some

def resolveFlips (N : Nat) : Option (List Int) → Except Err (List Int)
  | none => .ok (List.replicate N 1)
  | some l => match Shuffle.checkFlips N l with | .error e => .error e | .ok _ => .ok l

def resolveVperm (N : Nat) : Option (List Int) → Except Err (List Int)
  | none => .ok (Shuffle.iota1 N)
  | some l => match Shuffle.checkPerm 1 N l with | .error e => .error e | .ok _ => .ok l

def resolveCperm (M : Nat) : Option (List Int) → Except Err (List (Nat × Int))
  | none => .ok ((List.range M).map (fun (i : Nat) => (i, (i : Int))))
  | some l => match Shuffle.checkPerm 0 M l with | .error e => .error e | .ok _ => .ok (Shuffle.sortedMapping l)

/-- `Shuffle`: the header of `out` is written first, then the three argument blocks (reading the
caller's lists), then the table, then the clauses -/
def shuffleActs (f : Addr) (N M : Nat) (fl vp cp : Option (List Int)) : List Act × Except Err Unit :=
  let pre : List Act := [.copyHeader f, .reshuffled, .describe "Formula reshuffling", .updVar N]
  match resolveFlips N fl with
  | .error e => (pre, .error e)
  | .ok fl' =>
    match resolveVperm N vp with
    | .error e => (pre, .error e)
    | .ok vp' =>
      match resolveCperm M cp with
      | .error e => (pre, .error e)
      | .ok mapping =>
        match Shuffle.substTable N fl' vp' with
        | .error e => (pre, .error e)
        | .ok tbl => (pre ++ [.loadShuffled f tbl mapping], .ok ())

/-- `T(F, …)` : the store after the call and the returned object (or the exception) -/
def Tr.apply (cfg : Cfg) (t : Tr) (s : Store) (f : Addr) : Store × Except Err Addr :=
  match snap s f with
  | none => (s, .error modelErr)
  | some F =>
    match t with
    | .flip =>
      build cfg s [.copyHeader f, .describe (Header.descr .flip), .updVar F.numvar, .substFrom f Subst.flipLit]
    | .xor k => kSubst cfg s f k (Header.descr (.xor k)) Subst.xorify
    | .or k => kSubst cfg s f k (Header.descr (.or k)) Subst.orify
    | .maj k => kSubst cfg s f k (Header.descr (.maj k)) Subst.majorify
    | .allEqual k => kSubst cfg s f k (Header.descr (.allEqual k)) (Subst.aesubst false)
    | .notAllEqual k => kSubst cfg s f k (Header.descr (.notAllEqual k)) (Subst.aesubst true)
    | .exactlyOne k => kSubst cfg s f k (Header.descr (.exactlyOne k)) Subst.oneify
    | .linear k o C => kSubst cfg s f k (Header.descr (.linear k o C)) (Subst.linear o C)
    | .ite =>
      match inputLabels s f with
      | .error e => (s, .error e)
      | .ok labels =>
        build cfg s ([.copyHeader f]
          ++ labels.map (fun nm => .newGroup (.variable (some (wrapLabel "" nm "^{i}"))))
          ++ labels.map (fun nm => .newGroup (.variable (some (wrapLabel "" nm "^{t}"))))
          ++ labels.map (fun nm => .newGroup (.variable (some (wrapLabel "" nm "^{e}"))))
          ++ [.describe (Header.descr .ite), .substFrom f (Subst.ite F.numvar)])
    | .lift k =>
      if k < 1 then (s, .error .valueError)
      else match inputLabels s f with
        | .error e => (s, .error e)
        | .ok labels =>
          build cfg s ([.copyHeader f]
            ++ labels.flatMap (fun nm => [.newGroup (.block [k] (some (wrapLabel "X_" nm "^{}"))),
                                          .newGroup (.block [k] (some (wrapLabel "Y_" nm "^{}")))])
            ++ [.describe (Header.descr (.lift k)), .liftSelectors k.toNat, .substFrom f (Subst.lift k.toNat)])
    | .compress b fn =>
      if fn ≠ 0 ∧ fn ≠ 1 then (s, .error .valueError)
      else match readBipG s b with          -- `B = BipartiteGraph.normalize(B)`: the same object
        | none => (s, .error modelErr)
        | some B =>
          if B.l ≠ F.numvar then (s, .error .valueError)
          else build cfg s [.copyHeader f, .updVar B.r, .describe (Header.descr (.compress fn B.l B.r)),
                            .substFrom f (if fn = 0 then Subst.applyxor B else Subst.applymaj B)]
    | .shuffle fl vp cp =>
      match readArg s fl, readArg s vp, readArg s cp with
      | some fl', some vp', some cp' =>
        let (s1, r) := newCNF cfg s
        let (acts, chk) := shuffleActs f F.numvar F.clauses.length fl' vp' cp'
        match runActs r s1 acts with
        | (s2, .error e) => (s2, .error e)
        | (s2, .ok _) =>
          match chk with
          | .error e => (s2, .error e)
          | .ok _ => (s2, .ok r)
      | _, _, _ => (s, .error modelErr)

end Heap
end Cnfgen
