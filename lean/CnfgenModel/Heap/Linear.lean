/-
C19 heap model, part 5 — the constraint builders that get a list object OF THE CALLER:
`CNFLinear.add_linear` (linear.py) with its in-place `!=` loop, and the storage of `BaseOPB`
(baseopb.py): `add_clause`, `add_constraint` (normalize_opb), `cardinality_*`, `cardinality_neq`.

The `!=` loop as it is in the code today (after the repair of D21):

    lits = list(lits)                      # a PRIVATE working copy `w`
    for flips in combinations(range(n), constant):
        for i in flips: lits[i] *= -1      # in place, on `w`
        self.add_clause(lits, check=False) # stores `list(lits)`: another copy
        for i in flips: lits[i] *= -1      # in place, on `w`

Between the flip and the un-flip only `add_clause(…, check=False)` runs: `list(clause)` and
`self._clauses.append(data)` — no statement that can raise, so there is no exceptional exit inside
an iteration; and `w` is not the caller's object anyway.  Import-free.
-/
import CnfgenModel.Heap.Mut
import CnfgenModel.Build.OPB
namespace Cnfgen
namespace Heap
local notation "Addr" => Nat

/-- `for i in flips: lits[i] *= -1` on the content of the working list -/
def flipAt (S : List Nat) (xs : List Int) : List Int := xs.mapIdx (fun j v => if S.contains j then -v else v)

/-- the loop; `emit s w` is `self.add_clause(lits, check=False)` (it reads the working list object `w`) -/
def neqLoop (emit : Store → Addr → Store × Except Err Unit) (w : Addr) :
    Store → List (List Nat) → Store × Except Err Unit
  | s, [] => (s, .ok ())
  | s, S :: rest =>
    match readInts s w with
    | none => (s, .error modelErr)
    | some cur =>
      let s1 := write s w (.ints (flipAt S cur))
      match emit s1 w with
      | (s2, .error e) => (s2, .error e)
      | (s2, .ok _) =>
        match readInts s2 w with
        | none => (s2, .error modelErr)
        | some cur2 => neqLoop emit w (write s2 w (.ints (flipAt S cur2))) rest

/-- `F.add_linear(L, op, k, check)` for a list object `L` of the caller -/
def addLinearFrom (s : Store) (x l : Addr) (op : Op) (k : Int) (check : Bool) : Store × Except Err Unit :=
  match readCNF s x, readInts s l with
  | some o, some xs =>
    -- `if check: self._check_and_update(lits)` (a no-op on an empty list)
    let chk : Except Err Store :=
      if check ∧ ¬ xs.isEmpty then
        match checkLits o.nv xs with
        | .error e => .error e
        | .ok nv' => .ok (write s x (.cnf o.cl o.hd o.gr nv'))
      else .ok s
    match chk with
    | .error e => (s, .error e)
    | .ok s1 =>
      match op with
      | .ne =>
        let (s2, w) := alloc s1 (.ints xs)
        if k < 0 ∨ k > xs.length then (s2, .ok ())
        else neqLoop (fun s a => addClauseFrom s x a false) w s2 (combos (List.range xs.length) k.toNat)
      | o' => addAllVals s1 x false (Linear.add xs o' k)     -- `[-lit for lit in lits]`, tuples of `combinations`: new objects only
  | _, _ => (s, .error modelErr)

/-! ### BaseOPB -/

def readOPB (s : Store) (r : Addr) : Option Obj :=
  match s[r]? with
  | some (.opb cl hd gr nv) => some ⟨cl, hd, gr, nv⟩
  | _ => none

def readPBC (s : Store) (a : Addr) : Option PBC :=
  match s[a]? with | some (.pbc c) => some c | _ => none

def readPBCAll (s : Store) : List Addr → Option (List PBC)
  | [] => some []
  | a :: as =>
    match readPBC s a, readPBCAll s as with
    | some x, some xs => some (x :: xs)
    | _, _ => none

/-- `OPB(description=…)` -/
def newOPB (cfg : Cfg) (s : Store) (descr : Option String := none) : Store × Addr :=
  let (s1, hd) := alloc s (.dict (("description", descr.getD "Pseudo-boolean formula") :: cfg.hdr0))
  let (s2, cl) := alloc s1 (.refs [])
  let (s3, gr) := alloc s2 (.groups [])
  alloc s3 (.opb cl hd gr 0)

/-- store a NEW constraint list with content `c`: `if check: self._check_and_update(c)`, then `self._constraints.append(c)` -/
def opbStore (s : Store) (x : Addr) (c : PBC) (check : Bool) : Store × Except Err Unit :=
  match readOPB s x with
  | none => (s, .error modelErr)
  | some o =>
    let (s1, d) := alloc s (.pbc c)
    if check then
      match PB.check o.nv c with
      | .error e => (s1, .error e)
      | .ok nv' => (appendRef (write s1 x (.opb o.cl o.hd o.gr nv')) o.cl d, .ok ())
    else (appendRef s1 o.cl d, .ok ())

/-- `O.add_clause(L, check)`: `data = [(1,l) for l in clause] + ['>=', 1]` -/
def opbAddClauseVals (s : Store) (x : Addr) (xs : List Int) (check : Bool) : Store × Except Err Unit :=
  opbStore s x (PBC.ofClause xs) check

def opbAddClauseFrom (s : Store) (x l : Addr) (check : Bool) : Store × Except Err Unit :=
  match readInts s l with
  | none => (s, .error modelErr)
  | some xs => opbAddClauseVals s x xs check

/-- `O.add_constraint(C, check)` for a constraint list object `C` of the caller: `normalize_opb` slices and
rebuilds (`constraint[:-2]`, list comprehensions): the stored object is new -/
def opbAddConstraintFrom (s : Store) (x c : Addr) (check : Bool) : Store × Except Err Unit :=
  match readPBC s c with
  | none => (s, .error modelErr)
  | some pc => opbStore s x (PB.normalize pc) check

/-- `O.cardinality_leq/geq/eq(L, k)` (and `<`, `>` through `add_constraint`): `lits = [(1,l) for l in lits]` -/
def opbCardFrom (s : Store) (x l : Addr) (op : Op) (k : Int) (check : Bool) : Store × Except Err Unit :=
  match readInts s l with
  | none => (s, .error modelErr)
  | some xs => opbStore s x (PB.card xs op k) check

/-- `O.cardinality_neq(L, value, check)`: private copy first, one check through a dummy constraint, the loop -/
def opbCardNeqFrom (s : Store) (x l : Addr) (k : Int) (check : Bool) : Store × Except Err Unit :=
  match readOPB s x, readInts s l with
  | some o, some xs =>
    let (s1, w) := alloc s (.ints xs)
    let chk : Except Err Store :=
      if check then
        match PB.check o.nv ⟨PB.unit xs, .eq, 0⟩ with
        | .error e => .error e
        | .ok nv' => .ok (write s1 x (.opb o.cl o.hd o.gr nv'))
      else .ok s1
    match chk with
    | .error e => (s1, .error e)
    | .ok s2 =>
      if k < 0 ∨ k > xs.length then (s2, .ok ())
      else neqLoop (fun s a => opbAddClauseFrom s x a false) w s2 (combos (List.range xs.length) k.toNat)
  | _, _ => (s, .error modelErr)

/-- `C[i] = (coef, lit)` on a constraint list the caller holds (or got from iterating over the formula) -/
def pbcSetTerm (s : Store) (c : Addr) (i : Nat) (coef lit : Int) : Store × Except Err Unit :=
  match readPBC s c with
  | none => (s, .error modelErr)
  | some pc =>
    if pc.terms.length ≤ i then (s, .error .indexError)
    else (write s c (.pbc { pc with terms := pc.terms.set i (coef, lit) }), .ok ())

/-- the `i`-th stored constraint object (what iteration yields) -/
def opbIterItem (s : Store) (x : Addr) (i : Int) : Store × Except Err Addr :=
  match readOPB s x with
  | none => (s, .error modelErr)
  | some o =>
    match readRefs s o.cl with
    | none => (s, .error modelErr)
    | some as => (s, pyIdx as i)

/-- `O[i]` — a copy -/
def opbGetItem (s : Store) (x : Addr) (i : Int) : Store × Except Err Addr :=
  match opbIterItem s x i with
  | (_, .error e) => (s, .error e)
  | (_, .ok a) =>
    match readPBC s a with
    | none => (s, .error modelErr)
    | some pc => let (s1, c) := alloc s (.pbc pc); (s1, .ok c)

structure OSnap where
  numvar : Nat
  constraints : List PBC
  header : Hdr
  deriving Repr, DecidableEq, Inhabited

def osnap (s : Store) (r : Addr) : Option OSnap :=
  match readOPB s r with
  | none => none
  | some o =>
    match readRefs s o.cl, readDict s o.hd with
    | some as, some es =>
      match readPBCAll s as with
      | some cs => some ⟨o.nv, cs, es⟩
      | none => none
    | _, _ => none

end Heap
end Cnfgen
