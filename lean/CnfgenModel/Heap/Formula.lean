/-
C19 heap model, part 2 — `BaseCNF` / `CNF` objects on the store (cnfgen/formula/basecnf.py, cnf.py,
the `_groups` list of variables.py), transcribed statement by statement.  Import-free.

    BaseCNF.__init__            newCNF          header dict, `_clauses = []`, `_groups = []`, `_numvar = 0`
    add_clause(clause, check)   addClauseFrom   `data = list(clause)` ALLOCATES; the stored object is `data`, never `clause`
                                addClauseVals   the same for a clause given by a generator / tuple (no list object of the caller)
    add_clauses_from            addClausesFrom
    __getitem__                 getItem         `self._clauses[idx][:]`   — a copy
    __iter__                    iterItem        `iter(self._clauses)`     — yields the STORED list objects (aliases)
    clauses()                   clausesView     `ClausesView`: `.data` IS `F._clauses` (alias)
    ClausesView.__getitem__     viewGet (int: copy), viewSlice (slice: a new outer list of the stored clause objects)
    update_variable_number      updVar
    new_variable / new_block …  newGroup        `_groups.append(vg)`, `_numvar` raised
    header[k] = v               hdrSet
-/
import CnfgenModel.Heap.Store
import CnfgenModel.Trans.Shuffle
namespace Cnfgen
namespace Heap
local notation "Addr" => Nat

/-- what `BaseCNF.__init__` writes into a new header after `description`: generator, copyright, url
(their values come from `cnfgen.info`; the harness passes them) -/
structure Cfg where
  hdr0 : Hdr
  deriving Repr, Inhabited

/-- the attribute slots of a formula object -/
structure Obj where
  cl : Addr
  hd : Addr
  gr : Addr
  nv : Nat
  deriving Repr, DecidableEq, Inhabited

def readCNF (s : Store) (r : Addr) : Option Obj :=
  match s[r]? with
  | some (.cnf cl hd gr nv) => some ⟨cl, hd, gr, nv⟩
  | _ => none

/-- `CNF(description=…)` without clauses -/
def newCNF (cfg : Cfg) (s : Store) (descr : Option String := none) : Store × Addr :=
  let (s1, hd) := alloc s (.dict (("description", descr.getD "Formula in CNF") :: cfg.hdr0))
  let (s2, cl) := alloc s1 (.refs [])
  let (s3, gr) := alloc s2 (.groups [])
  alloc s3 (.cnf cl hd gr 0)

/-- `add_clause(clause, check)` where the literals of `clause` are `xs`:
```
    data = list(clause)                       # a new list object
    if len(data) == 0: self._clauses.append([]); return
    if check: self._check_and_update(data)    # ValueError on a 0; raises _numvar
    self._clauses.append(data)
``` -/
def addClauseVals (s : Store) (r : Addr) (xs : List Int) (check : Bool) : Store × Except Err Unit :=
  match readCNF s r with
  | none => (s, .error modelErr)
  | some o =>
    let (s1, d) := alloc s (.ints xs)
    if xs.isEmpty then (appendRef s1 o.cl d, .ok ())
    else if check then
      match checkLits o.nv xs with
      | .error e => (s1, .error e)
      | .ok nv' => (appendRef (write s1 r (.cnf o.cl o.hd o.gr nv')) o.cl d, .ok ())
    else (appendRef s1 o.cl d, .ok ())

/-- `F.add_clause(L, check)` for a list object `L` of the caller -/
def addClauseFrom (s : Store) (r l : Addr) (check : Bool) : Store × Except Err Unit :=
  match readInts s l with
  | none => (s, .error modelErr)
  | some xs => addClauseVals s r xs check

/-- `for c in block: self.add_clause(c, check)` for clauses produced by a generator -/
def addAllVals (s : Store) (r : Addr) (check : Bool) : List (List Int) → Store × Except Err Unit
  | [] => (s, .ok ())
  | c :: cs =>
    match addClauseVals s r c check with
    | (s1, .error e) => (s1, .error e)
    | (s1, .ok _) => addAllVals s1 r check cs

/-- the loop of `add_clauses_from` over list objects -/
def addAllFrom (s : Store) (r : Addr) (check : Bool) : List Addr → Store × Except Err Unit
  | [] => (s, .ok ())
  | l :: ls =>
    match addClauseFrom s r l check with
    | (s1, .error e) => (s1, .error e)
    | (s1, .ok _) => addAllFrom s1 r check ls

/-- `F.add_clauses_from(LL, check)` for a caller's list `LL` of list objects (the elements are read when
the loop starts; `LL` is not `F._clauses` — that call would not terminate in Python) -/
def addClausesFrom (s : Store) (r ll : Addr) (check : Bool) : Store × Except Err Unit :=
  match readRefs s ll with
  | none => (s, .error modelErr)
  | some ls => addAllFrom s r check ls

/-- Python `l[i]` on the model's lists -/
def pyIdx {α : Type} (l : List α) (i : Int) : Except Err α :=
  let j : Int := if i < 0 then i + (l.length : Int) else i
  if j < 0 then .error .indexError
  else match l[j.toNat]? with
    | some x => .ok x
    | none => .error .indexError

/-- the `i`-th stored clause object: what `iter(F)` yields, what `F._clauses[i]` is — an ALIAS -/
def iterItem (s : Store) (r : Addr) (i : Int) : Store × Except Err Addr :=
  match readCNF s r with
  | none => (s, .error modelErr)
  | some o =>
    match readRefs s o.cl with
    | none => (s, .error modelErr)
    | some as => (s, pyIdx as i)

/-- `x[:]` for a list of integers -/
def copyInts (s : Store) (a : Addr) : Store × Except Err Addr :=
  match readInts s a with
  | none => (s, .error modelErr)
  | some xs => let (s1, c) := alloc s (.ints xs); (s1, .ok c)

/-- `F[i]` = `self._clauses[i][:]` — a COPY -/
def getItem (s : Store) (r : Addr) (i : Int) : Store × Except Err Addr :=
  match iterItem s r i with
  | (_, .error e) => (s, .error e)
  | (_, .ok a) => copyInts s a

/-- `F.clauses()` -/
def clausesView (s : Store) (r : Addr) : Store × Except Err Addr :=
  match readCNF s r with
  | none => (s, .error modelErr)
  | some o => let (s1, v) := alloc s (.view r o.cl); (s1, .ok v)

def readView (s : Store) (v : Addr) : Option (Addr × Addr) :=
  match s[v]? with | some (.view f d) => some (f, d) | _ => none

/-- the `i`-th object yielded by `iter(V)` — an alias of the stored clause -/
def viewIter (s : Store) (v : Addr) (i : Int) : Store × Except Err Addr :=
  match readView s v with
  | none => (s, .error modelErr)
  | some (_, d) =>
    match readRefs s d with
    | none => (s, .error modelErr)
    | some as => (s, pyIdx as i)

/-- `V[i]` for an `int`: `self.data[i][:]` — a copy -/
def viewGet (s : Store) (v : Addr) (i : Int) : Store × Except Err Addr :=
  match viewIter s v i with
  | (_, .error e) => (s, .error e)
  | (_, .ok a) => copyInts s a

/-- `V[i:j]` (`0 ≤ i`, `0 ≤ j`): `self.data[i:j]` — a NEW outer list holding the STORED clause objects -/
def viewSlice (s : Store) (v : Addr) (i j : Nat) : Store × Except Err Addr :=
  match readView s v with
  | none => (s, .error modelErr)
  | some (_, d) =>
    match readRefs s d with
    | none => (s, .error modelErr)
    | some as => let (s1, a) := alloc s (.refs ((as.drop i).take (j - i))); (s1, .ok a)

/-- `len(V)` — the view is live: it reads `F._clauses` now -/
def viewLen (s : Store) (v : Addr) : Option Nat :=
  match readView s v with
  | none => none
  | some (_, d) => (readRefs s d).map List.length

/-- `F.update_variable_number(n)` -/
def updVar (s : Store) (r : Addr) (n : Int) : Store × Except Err Unit :=
  match readCNF s r with
  | none => (s, .error modelErr)
  | some o =>
    if n < 0 then (s, .error .valueError)
    else (write s r (.cnf o.cl o.hd o.gr (max o.nv n.toNat)), .ok ())

/-- `F.new_variable(…)`, `F.new_block(…)`, …: the constructor of the group reads `_numvar`, then
`_add_variable_group`: `self._groups.append(vg)` and `update_variable_number(end)`.
The decision logic is the pure `Vars.newGroup` (C10/C11). -/
def newGroup (s : Store) (r : Addr) (spec : Vars.GroupSpec) : Store × Except Err Unit :=
  match readCNF s r with
  | none => (s, .error modelErr)
  | some o =>
    match readGroups s o.gr with
    | none => (s, .error modelErr)
    | some gs =>
      match Vars.newGroup ⟨o.nv, gs, []⟩ spec with
      | (_, .error e) => (s, .error e)
      | (m, .ok _) => (write (write s o.gr (.groups m.groups)) r (.cnf o.cl o.hd o.gr m.numvar), .ok ())

/-! ### header -/

def hasKey (h : Hdr) (k : String) : Bool := h.any (fun e => e.1 == k)

/-- `d[k] = v` on an ordered dictionary: an existing key keeps its position -/
def setKey (h : Hdr) (k v : String) : Hdr :=
  if hasKey h k then h.map (fun e => if e.1 == k then (k, v) else e) else h ++ [(k, v)]

/-- `F.header[k] = v` -/
def hdrSet (s : Store) (r : Addr) (k v : String) : Store × Except Err Unit :=
  match readCNF s r with
  | none => (s, .error modelErr)
  | some o =>
    match readDict s o.hd with
    | none => (s, .error modelErr)
    | some es => (write s o.hd (.dict (setKey es k v)), .ok ())

/-- `newF.header = copy(F.header)`: a NEW dictionary with the same items; the attribute slot of
`newF` is rebound (the dictionary `CNF()` had made becomes garbage) -/
def copyHeader (s : Store) (r src : Addr) : Store × Except Err Unit :=
  match readCNF s r, readCNF s src with
  | some o, some f =>
    match readDict s f.hd with
    | none => (s, .error modelErr)
    | some es =>
      let (s1, d) := alloc s (.dict es)
      (write s1 r (.cnf o.cl d o.gr o.nv), .ok ())
  | _, _ => (s, .error modelErr)

/-- `add_description(F, text)`:
```
    i = 1
    while 'transformation {}'.format(i) in F.header: i += 1
    F.header['transformation {}'.format(i)] = text
```
on string keys (`Shuffle.tkey`, `Shuffle.firstFree`: the loop with its fuel, shared with shuffle.py's copy of it) -/
def addDescription (h : Hdr) (text : String) : Hdr :=
  setKey h (Shuffle.tkey (Shuffle.firstFree h)) text

def describe (s : Store) (r : Addr) (text : String) : Store × Except Err Unit :=
  match readCNF s r with
  | none => (s, .error modelErr)
  | some o =>
    match readDict s o.hd with
    | none => (s, .error modelErr)
    | some es => (write s o.hd (.dict (addDescription es text)), .ok ())

/-! ### mutation of a list object the caller holds -/

/-- `L[i] = v` -/
def setItem (s : Store) (l : Addr) (i v : Int) : Store × Except Err Unit :=
  match readInts s l with
  | none => (s, .error modelErr)
  | some xs =>
    let j : Int := if i < 0 then i + (xs.length : Int) else i
    if j < 0 ∨ (xs.length : Int) ≤ j then (s, .error .indexError)
    else (write s l (.ints (xs.set j.toNat v)), .ok ())

/-- `L.append(v)` -/
def appendInt (s : Store) (l : Addr) (v : Int) : Store × Except Err Unit :=
  match readInts s l with
  | none => (s, .error modelErr)
  | some xs => (write s l (.ints (xs ++ [v])), .ok ())

/-! ### observation -/

/-- a deep snapshot of a formula: what `number_of_variables()`, `[list(c) for c in F]`,
`F.header.items()` and the groups (hence `all_variable_labels()`) show -/
structure Snap where
  numvar : Nat
  clauses : List (List Int)
  header : Hdr
  groups : List Vars.Group
  deriving Repr, DecidableEq, Inhabited

def snap (s : Store) (r : Addr) : Option Snap :=
  match readCNF s r with
  | none => none
  | some o =>
    match readRefs s o.cl, readDict s o.hd, readGroups s o.gr with
    | some as, some es, some gs =>
      match readIntsAll s as with
      | some cs => some ⟨o.nv, cs, es, gs⟩
      | none => none
    | _, _, _ => none

/-- `list(F.all_variable_labels())` -/
def Snap.names (S : Snap) : Except Err (List (Option String)) := Vars.allLabels ⟨S.numvar, S.groups, S.clauses⟩

/-- the pure formula of the snapshot -/
def Snap.cnf (S : Snap) : CNF := ⟨S.numvar, S.clauses⟩

/-- every object a formula consists of: itself, its three attribute objects, its clause objects -/
def footprint (s : Store) (r : Addr) : List Addr :=
  match readCNF s r with
  | none => [r]
  | some o => r :: o.cl :: o.hd :: o.gr :: (readRefs s o.cl).getD []

end Heap
end Cnfgen
