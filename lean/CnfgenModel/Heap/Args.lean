/-
C19 heap model, part 7 — the ARGUMENTS OF THE GENERATORS (worker w19b).

What the families of cnfgen/families/*.py do with the objects their caller owns:

* graphs.  `G = Graph.normalize(G)` (resp. `DirectedGraph.` / `BipartiteGraph.`): for a cnfgen object of the right class the
  SAME object comes back (`normalize` below returns the address it was given); a networkx object is converted by
  `from_networkx` into a FRESH cnfgen object (`alloc`; `networkx.convert_node_labels_to_integers` copies, the nx object is
  only iterated); anything else is a TypeError.  After that the family uses the graph ONLY through read-only methods —
  this is not assumed: tools/extract_graph_uses.py regenerates, on every run, the list of everything each family applies to
  its graph names, and `C19.families_use_graphs_read_only` proves by `decide` that all of it is in the reviewed list
  (order / number_of_vertices / vertices / edges / has_edge / neighbors / degree / predecessors / successors / in_degree /
  out_degree / is_dag / parts / left_order / right_order / left_neighbors / right_neighbors / left_degree / right_degree,
  the string attribute `name`, and the `new_*` methods of the formula).  Which of them hand out internal objects (read
  graphs.py): `neighbors` / `predecessors` / `successors` are generators (`yield from self.adjlist[u]`: integers come out, the
  list object never does); `right_neighbors` / `left_neighbors` return `…[:]`, a copy; `vertices` / `parts` return `range`s;
  `edges()` returns a small view object holding the graph and reading it; `has_edge`, the degrees and the orders return
  immutable values.  So everything a family can learn is a function of the graph's current VALUE: `readG` hands the value
  (`GVal`) to the continuation.
* lists.  `TseitinFormula(G, charges)`: `sum(charges)`, `[bool(c) for c in charges]` (a new list, the name is rebound),
  `charges + [False] * …` (a new list): the caller's list is iterated twice, never written (`readL`).
  `RandomKCNF` / `RandomKXOR(…, planted_assignments)`: `for assignment in assignments: … lit in assignment`: the outer and
  the inner lists are iterated / searched, never written (`readLL`).
* the formula.  `F = formula_class(description=…)` is a new object; every other statement goes through it
  (`act` = a statement of Heap/Trans.lean — header, `update_variable_number`, `new_*` group —, `clause` = `F.add_clause`,
  `linear` = `F.add_linear`).
* O1.  `F.new_bipartite_edges(B)` / `F.new_sparse_mapping(B)` build a group object whose attribute `G` IS the caller's graph
  (`self.G = G`): `keepRef` allocates that object, a `bgroup` cell holding the graph's ADDRESS (a borrowed reference,
  `Cell.borrows`).  The group answers `indices()` / `to_index` by reading the graph object as it is THEN (`bgroupEdges`).
  `new_graph_edges` / `new_digraph_edges` build a private auxiliary graph instead and keep nothing of the caller's.

A family is a program `FamProg` over these operations, with ARBITRARY continuations (any Lean function of what was read):
the frame theorem of Props/C19/Args.lean holds for every such program; the concrete programs below (Tseitin, the graph
pigeonhole principle, a planted random formula once its draws are fixed) are the ones the correspondence suite executes.
Import-free (compiled into the driver).
-/
import CnfgenModel.Heap.Trans
import CnfgenModel.Fam.Tseitin
import CnfgenModel.Fam.Php
import CnfgenModel.Core.Iter
namespace Cnfgen
namespace Heap
local notation "Addr" => Nat

inductive GKind where
  | simple | directed | bipartite
  deriving DecidableEq, Repr, Inhabited

/-- the value of a cnfgen graph object -/
inductive GVal where
  | simple (G : SimpleG)
  | directed (D : DiG)
  | bip (B : BipG)
  deriving DecidableEq, Repr, Inhabited

def readGraph (s : Store) (a : Addr) : Option GVal :=
  match s[a]? with
  | some (.graph G) => some (.simple G)
  | some (.dig D) => some (.directed D)
  | some (.bipg B) => some (.bip B)
  | _ => none

/-- allocate the converted graph, or fail with the conversion's exception -/
def allocConv (s : Store) (r : Except Err Cell) : Store × Except Err Addr :=
  match r with
  | .ok c => let p := alloc s c; (p.1, .ok p.2)
  | .error e => (s, .error e)

/-- `<cls>.normalize(G)`.  The networkx objects of the model have the vertices 1..n (so `normalize_networkx_labels` is the
identity on values); `networkx.DiGraph` is a subclass of `networkx.Graph`, hence accepted by `Graph.normalize` (every arc
becomes an edge); a `networkx.Graph` without `bipartite` attributes is refused by `BipartiteGraph.from_networkx` as soon as
it has a vertex. -/
def normalize (s : Store) (cls : GKind) (a : Addr) : Store × Except Err Addr :=
  match s[a]?, cls with
  | some (.graph _), .simple => (s, .ok a)
  | some (.dig _), .directed => (s, .ok a)
  | some (.bipg _), .bipartite => (s, .ok a)
  | some (.nx _ n es), .simple => allocConv s ((SimpleG.fromNx (n, es)).map Cell.graph)
  | some (.nx true n es), .directed => allocConv s ((DiG.fromNx (n, es)).map Cell.dig)
  | some (.nx _ n _), .bipartite =>
    if n = 0 then allocConv s (.ok (.bipg (BipG.init 0 0))) else (s, .error .valueError)
  | _, _ => (s, .error .typeError)

/-- the caller edits its graph: `G.add_edge(u, v)` -/
def graphAddEdge (s : Store) (a : Addr) (u v : Int) : Store × Except Err Unit :=
  match s[a]? with
  | some (.graph G) =>
    match G.addEdge u v with
    | .ok G' => (write s a (.graph G'), .ok ())
    | .error e => (s, .error e)
  | some (.dig D) =>
    match D.addEdge u v with
    | .ok D' => (write s a (.dig D'), .ok ())
    | .error e => (s, .error e)
  | some (.bipg B) =>
    match B.addEdge u v with
    | .ok B' => (write s a (.bipg B'), .ok ())
    | .error e => (s, .error e)
  | _ => (s, .error modelErr)

/-- content of a caller's list of lists (`planted_assignments`) -/
def readNested (s : Store) (a : Addr) : Option (List (List Int)) :=
  match readRefs s a with
  | some as => readIntsAll s as
  | none => none

/-- a family, after its normalisations: a program over reads of its arguments and statements on the new formula.
`args` are positions in the argument list of the call. -/
inductive FamProg where
  /-- `return F` -/
  | ret
  /-- `raise …` -/
  | raise (e : Err)
  /-- anything the read-only methods of graph argument `i` can tell: its current value -/
  | readG (i : Nat) (k : GVal → FamProg)
  /-- iterate over / index / search list argument `i` (integers; booleans as 0/1) -/
  | readL (i : Nat) (k : List Int → FamProg)
  /-- the same for a list of lists -/
  | readLL (i : Nat) (k : List (List Int) → FamProg)
  /-- a statement on the new formula: header entry, `update_variable_number`, `new_*` (group by value), `add_description` -/
  | act (a : Act) (k : FamProg)
  /-- `F.add_clause(<literals computed by the family>, check)` -/
  | clause (xs : List Int) (check : Bool) (k : FamProg)
  /-- `F.add_linear(<literals computed by the family>, op, k)` -/
  | linear (xs : List Int) (op : Op) (c : Int) (k : FamProg)
  /-- O1: the group object made by `new_bipartite_edges` / `new_sparse_mapping` keeps `self.G = G`: a new object holding the
  ADDRESS of graph argument `i`; the family gets the object (`e = F.new_…(B)`) -/
  | keepRef (i : Nat) (k : Addr → FamProg)

/-- run a family body on the new formula `r`; `args` = the (normalised) argument objects -/
def runFam (r : Addr) (args : List Addr) : Store → FamProg → Store × Except Err Unit
  | s, .ret => (s, .ok ())
  | s, .raise e => (s, .error e)
  | s, .readG i k =>
    match args[i]? with
    | none => (s, .error modelErr)
    | some a =>
      match readGraph s a with
      | none => (s, .error modelErr)
      | some v => runFam r args s (k v)
  | s, .readL i k =>
    match args[i]? with
    | none => (s, .error modelErr)
    | some a =>
      match readInts s a with
      | none => (s, .error modelErr)
      | some xs => runFam r args s (k xs)
  | s, .readLL i k =>
    match args[i]? with
    | none => (s, .error modelErr)
    | some a =>
      match readNested s a with
      | none => (s, .error modelErr)
      | some xs => runFam r args s (k xs)
  | s, .act a k =>
    match runAct s r a with
    | (s1, .error e) => (s1, .error e)
    | (s1, .ok _) => runFam r args s1 k
  | s, .clause xs c k =>
    match addClauseVals s r xs c with
    | (s1, .error e) => (s1, .error e)
    | (s1, .ok _) => runFam r args s1 k
  | s, .linear xs op c k =>
    match addLinear s r xs op c with
    | (s1, .error e) => (s1, .error e)
    | (s1, .ok _) => runFam r args s1 k
  | s, .keepRef i k =>
    match args[i]? with
    | none => (s, .error modelErr)
    | some a =>
      let first := match readCNF s r with | some o => o.nv | none => 0
      let p := alloc s (.bgroup a first)
      runFam r args p.1 (k p.2)

/-- the normalisations at the top of a family, in order: argument position and class -/
def normAll : Store → List Addr → List (Nat × GKind) → Store × Except Err (List Addr)
  | s, args, [] => (s, .ok args)
  | s, args, (i, cls) :: ns =>
    match args[i]? with
    | none => (s, .error modelErr)
    | some a =>
      match normalize s cls a with
      | (s1, .error e) => (s1, .error e)
      | (s1, .ok b) => normAll s1 (args.set i b) ns

/-- a whole call `Family(args…)`:
```
    G = Graph.normalize(G, 'G') …          # normAll
    F = formula_class(description=…)       # newCNF (the reads made before it do not change the store)
    <body>                                 # runFam
    return F
``` -/
def famCall (cfg : Cfg) (s : Store) (args : List Addr) (norms : List (Nat × GKind)) (descr : Option String)
    (body : FamProg) : Store × Except Err Addr :=
  match normAll s args norms with
  | (s1, .error e) => (s1, .error e)
  | (s1, .ok args1) =>
    let p := newCNF cfg s1 descr
    match runFam p.2 args1 p.1 body with
    | (s2, .error e) => (s2, .error e)
    | (s2, .ok _) => (s2, .ok p.2)

/-! ### the group object that refers to the caller's graph (O1) -/

/-- what the live group object enumerates NOW (`indices()`, hence `all_variable_labels`): the edges of the graph object
its attribute `G` points to, as that object is in the current store -/
def bgroupEdges (s : Store) (a : Addr) : Option (List (Nat × Nat)) :=
  match s[a]? with
  | some (.bgroup g _) =>
    match s[g]? with
    | some (.bipg B) => some B.edges
    | _ => none
  | _ => none

/-- the group object made by the family call that returned the formula at `f`: the first `bgroup` cell allocated after
the formula object (a family call that keeps a reference allocates the formula's four cells, then — `keepRef` — the group
object; no other operation of the model allocates a `bgroup` cell) -/
def lastBGroup (s : Store) (f : Addr) : Option Addr :=
  match s[f + 1]? with
  | some (.bgroup _ _) => some (f + 1)
  | _ => none

/-- `list(F.all_variable_labels())` when the only group of `F` is a bipartite group whose live object refers to a graph
that is now `Bnow` (it was `Gold` when the group was made): `len(vg)` was fixed at creation, `vg.label()` enumerates the
graph as it is now (variables.py: `indices()` returns `self.G.edges()`) -/
def liveNames1 (numvar st : Nat) (Gold Bnow : BipG) (fmt : String) (un : Bool) (dfmt : String := "x{}") :
    Except Err (List (Option String)) :=
  if Gold.numberOfEdges = 0 then Vars.allLabels ⟨numvar, [], []⟩ dfmt
  else do
    let gap ← Vars.defaultNames dfmt 1 st
    let ls ← (Vars.Group.bip st Bnow fmt un).allLabels
    let varid := max 1 st + Gold.numberOfEdges
    let tail ← Vars.defaultNames dfmt varid (numvar + 1)
    if max varid (numvar + 1) ≠ numvar + 1 then throw Err.assertion
    pure (gap ++ ls ++ tail)

/-- `list(F.all_variable_labels())` of the formula at `f` in the CURRENT store.  A formula returned by a family call that
kept a reference (`keepRef` right after `CNF()`: the group object is the cell after the formula object) and that still has
this one group answers through the live group object, i.e. from the caller's graph as it is now; every other formula has
its groups by value (`Snap.names`). -/
def liveNames (s : Store) (f : Addr) : Option (Except Err (List (Option String))) :=
  match snap s f with
  | none => none
  | some S =>
    match s[f + 1]?, S.groups with
    | some (.bgroup g _), [.bip st Gold fmt un] =>
      match s[g]? with
      | some (.bipg Bnow) => some (liveNames1 S.numvar st Gold Bnow fmt un)
      | _ => some S.names
    | _, _ => some S.names

/-! ### concrete families (executed by the correspondence suite) -/

/-- add the clauses of an abstract formula, unchecked (`add_parity` / `add_linear` check once and add unchecked;
the variables exist already: they were made by the `new_*` call) -/
def clausesProg : List Clause → FamProg → FamProg
  | [], k => k
  | c :: cs, k => .clause c false (clausesProg cs k)

/-- `TseitinFormula(G, charges)`: args = [G] or [G, charges] -/
def tseitinProg (withCharges : Bool) : FamProg :=
  .readG 0 fun v =>
    match v with
    | .simple G =>
      let body (ch : Option (List Bool)) : FamProg :=
        .act (.newGroup (.graph G (some "E_{{{0},{1}}}"))) (clausesProg (Fam.tseitin G ch).toCNF.clauses .ret)
      if withCharges then .readL 1 fun xs => body (some (xs.map (· != 0))) else body none
    | _ => .raise modelErr

/-- `GraphPigeonholePrinciple(B, functional, onto)`: args = [B] -/
def gphpProg (functional onto : Bool) : FamProg :=
  .readG 0 fun v =>
    match v with
    | .bip B =>
      -- the group object is allocated right after the formula object (address `F + 1`, see `liveNames`)
      .keepRef 0 fun _ =>
        .act (.newGroup (.sparseMapping B (some "p_{{{},{}}}")))
          (clausesProg (Fam.gphp B functional onto).toCNF.clauses .ret)
    | _ => .raise modelErr

/-- `all_clauses(k, n, [])`: `combinations(range(1, n+1), k)` x `product([-1, 1], repeat=k)` -/
def allClauses (k n : Nat) : List (List Int) :=
  (combos (rangeI 1 (n + 1)) k).flatMap (fun dom => (productRep [(-1 : Int), 1] k).map (fun pol => List.zipWith (· * ·) pol dom))

/-- `RandomKCNF(k, n, m, planted_assignments=P)` (k ≤ n) once the draws are fixed.  `cands` = the clauses the sparse sampler
of `sample_clauses` asks `clause_satisfied` about, in order (a proposal equal to an accepted clause is skipped before); each
is kept iff every planted assignment satisfies it (`lit in assignment`); the loop stops with `m` clauses.  Otherwise the dense
sampler: all clauses satisfied by the planted assignments; fewer than `m` ⇒ ValueError, else `random.sample` of them =
`dense` (given).  args = [P] -/
def plantedProg (k n m : Nat) (cands dense : List (List Int)) : FamProg :=
  .readLL 0 fun P =>
    let okc (c : List Int) : Bool := P.all (fun asg => c.any (fun l => asg.contains l))
    let sparse := (cands.filter okc).take m
    .act (.updVar n)
      (if sparse.length = m then clausesProg sparse .ret
       else if ((allClauses k n).filter okc).length < m then .raise .valueError
       else clausesProg dense .ret)

end Heap
end Cnfgen
