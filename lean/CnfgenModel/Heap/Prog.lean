/-
C19 heap model, part 6 — histories: a small instruction set over registers holding objects, its
interpreter, and the observation the correspondence suite compares with the real objects:
outcomes, deep snapshots, and the SHARING GRAPH (which object slots hold the same object), canonicalised
as alias classes (first occurrence numbering), never as addresses.  Import-free.
-/
import CnfgenModel.Heap.Linear
import CnfgenModel.Heap.Args
namespace Cnfgen
namespace Heap
local notation "Addr" => Nat

/-- a register index -/
abbrev Reg := Nat

inductive Instr where
  | newCNF (descr : Option String)
  | mkList (xs : List Int)                        -- `L = [ … ]`
  | mkLists (ls : List Reg)                       -- `LL = [L1, L2, …]`
  | addClause (f l : Reg) (check : Bool)          -- `F.add_clause(L, check)`
  | addClauseGen (f : Reg) (xs : List Int) (check : Bool)   -- `F.add_clause(tuple / generator)`
  | addFrom (f ll : Reg) (check : Bool)           -- `F.add_clauses_from(LL, check)`
  | getItem (f : Reg) (i : Int)                   -- `F[i]`
  | iterItem (f : Reg) (i : Int)                  -- the i-th object yielded by `iter(F)`
  | view (f : Reg)                                -- `F.clauses()`
  | viewGet (v : Reg) (i : Int)                   -- `V[i]`
  | viewSlice (v : Reg) (i j : Nat)               -- `V[i:j]`
  | viewIter (v : Reg) (i : Int)                  -- the i-th object yielded by `iter(V)`
  | elem (ll : Reg) (i : Int)                     -- `LL[i]` of a list of lists
  | setItem (l : Reg) (i v : Int)                 -- `L[i] = v`
  | append (l : Reg) (v : Int)                    -- `L.append(v)`
  | hdrSet (f : Reg) (k v : String)               -- `F.header[k] = v`
  | updVar (f : Reg) (n : Int)
  | newGroup (f : Reg) (spec : Vars.GroupSpec)
  | describe (f : Reg) (text : String)            -- `add_description(F, text)`
  | trans (f : Reg) (t : Tr)                      -- register indices inside `t` (graph, lists) are resolved by the interpreter
  | mkBip (G : BipG)
  | addLinear (f l : Reg) (op : Op) (k : Int) (check : Bool)   -- `F.add_linear(L, op, k, check)`
  | newOPB (descr : Option String)
  | mkPBC (c : PBC)                               -- a constraint list of the caller
  | opbAddClause (o l : Reg) (check : Bool)
  | opbAddConstraint (o c : Reg) (check : Bool)
  | opbCard (o l : Reg) (op : Op) (k : Int) (check : Bool)     -- `cardinality_*` / `!=`: `cardinality_neq`
  | opbGetItem (o : Reg) (i : Int)
  | opbIterItem (o : Reg) (i : Int)
  | pbcSet (c : Reg) (i : Nat) (coef lit : Int)
  | normBip (g : Reg)                             -- `BipartiteGraph.normalize(B)`: the SAME object for a cnfgen graph
  | bipAddEdge (g : Reg) (u v : Int)              -- `B.add_edge(u, v)` by the caller
  -- w19b: arguments of the generators (Heap/Args.lean)
  | mkGraph (G : SimpleG)                         -- a `cnfgen.graphs.Graph` of the caller
  | mkDiG (D : DiG)                               -- a `DirectedGraph`
  | mkNx (directed : Bool) (n : Nat) (es : List (Nat × Nat))   -- a networkx object
  | normalize (cls : GKind) (g : Reg)             -- `<cls>.normalize(G)`
  | gAddEdge (g : Reg) (u v : Int)                -- `G.add_edge(u, v)` by the caller, any cnfgen graph
  | tseitin (g : Reg) (charges : Option Reg) (descr : String)          -- `TseitinFormula(G, charges)`
  | gphp (g : Reg) (functional onto : Bool) (descr : String)            -- `GraphPigeonholePrinciple(B, functional, onto)`
  | planted (p : Reg) (k n m : Nat) (cands dense : List (List Int)) (descr : String)   -- `RandomKCNF(k, n, m, planted_assignments=P)`, draws fixed
  | liveGroup (f : Reg)                           -- the group object `p` made by the family call that returned `f`
  deriving Repr, Inhabited

/-- machine state: the store, the registers (one per executed instruction; `none`: no object), the outcomes -/
structure Machine where
  store : Store
  regs : Array (Option Addr)
  outs : Array (Option Err)
  deriving Repr, Inhabited

def Machine.reg (m : Machine) (r : Reg) : Option Addr := (m.regs[r]?).join

/-- resolve the register indices a `Tr` carries (graph of `compress`, the three lists of `shuffle`) -/
def resolveTr (m : Machine) : Tr → Option Tr
  | .compress b fn => (m.reg b).map (fun a => .compress a fn)
  | .shuffle fl vp cp =>
    let res : Option Reg → Option (Option Addr) := fun o =>
      match o with | none => some none | some r => (m.reg r).map some
    match res fl, res vp, res cp with
    | some a, some b, some c => some (.shuffle a b c)
    | _, _, _ => none
  | t => some t

/-- push the result of an instruction: new store, new register, outcome -/
def Machine.push (m : Machine) (s : Store) (r : Except Err (Option Addr)) : Machine :=
  match r with
  | .ok a => { store := s, regs := m.regs.push a, outs := m.outs.push none }
  | .error e => { store := s, regs := m.regs.push none, outs := m.outs.push (some e) }

def unitRes (p : Store × Except Err Unit) : Store × Except Err (Option Addr) := (p.1, p.2.map (fun _ => none))
def addrRes (p : Store × Except Err Addr) : Store × Except Err (Option Addr) := (p.1, p.2.map some)

/-- one instruction; `none`: ill-formed program (a register that holds no object) -/
def step (cfg : Cfg) (m : Machine) (ins : Instr) : Option Machine :=
  let s := m.store
  let fin (p : Store × Except Err (Option Addr)) : Option Machine := some (m.push p.1 p.2)
  match ins with
  | .newCNF d => let (s1, a) := newCNF cfg s d; fin (s1, .ok (some a))
  | .mkList xs => let (s1, a) := alloc s (.ints xs); fin (s1, .ok (some a))
  | .mkLists ls =>
    match ls.mapM m.reg with
    | none => none
    | some as => let (s1, a) := alloc s (.refs as); fin (s1, .ok (some a))
  | .addClause f l c => do let f ← m.reg f; let l ← m.reg l; fin (unitRes (addClauseFrom s f l c))
  | .addClauseGen f xs c => do let f ← m.reg f; fin (unitRes (addClauseVals s f xs c))
  | .addFrom f ll c => do let f ← m.reg f; let ll ← m.reg ll; fin (unitRes (addClausesFrom s f ll c))
  | .getItem f i => do let f ← m.reg f; fin (addrRes (getItem s f i))
  | .iterItem f i => do let f ← m.reg f; fin (addrRes (iterItem s f i))
  | .view f => do let f ← m.reg f; fin (addrRes (clausesView s f))
  | .viewGet v i => do let v ← m.reg v; fin (addrRes (viewGet s v i))
  | .viewSlice v i j => do let v ← m.reg v; fin (addrRes (viewSlice s v i j))
  | .viewIter v i => do let v ← m.reg v; fin (addrRes (viewIter s v i))
  | .elem ll i => do
      let ll ← m.reg ll
      match readRefs s ll with
      | none => none
      | some as => fin (s, (pyIdx as i).map some)
  | .setItem l i v => do let l ← m.reg l; fin (unitRes (setItem s l i v))
  | .append l v => do let l ← m.reg l; fin (unitRes (appendInt s l v))
  | .hdrSet f k v => do let f ← m.reg f; fin (unitRes (Heap.hdrSet s f k v))
  | .updVar f n => do let f ← m.reg f; fin (unitRes (Heap.updVar s f n))
  | .newGroup f spec => do let f ← m.reg f; fin (unitRes (Heap.newGroup s f spec))
  | .describe f t => do let f ← m.reg f; fin (unitRes (Heap.describe s f t))
  | .trans f t => do let f ← m.reg f; let t ← resolveTr m t; fin (addrRes (t.apply cfg s f))
  | .mkBip G => let (s1, a) := alloc s (.bipg G); fin (s1, .ok (some a))
  | .addLinear f l op k c => do let f ← m.reg f; let l ← m.reg l; fin (unitRes (addLinearFrom s f l op k c))
  | .newOPB d => let (s1, a) := newOPB cfg s d; fin (s1, .ok (some a))
  | .mkPBC c => let (s1, a) := alloc s (.pbc c); fin (s1, .ok (some a))
  | .opbAddClause o l c => do let o ← m.reg o; let l ← m.reg l; fin (unitRes (opbAddClauseFrom s o l c))
  | .opbAddConstraint o c chk => do let o ← m.reg o; let c ← m.reg c; fin (unitRes (opbAddConstraintFrom s o c chk))
  | .opbCard o l op k c => do
      let o ← m.reg o; let l ← m.reg l
      fin (unitRes (if op = .ne then opbCardNeqFrom s o l k c else opbCardFrom s o l op k c))
  | .opbGetItem o i => do let o ← m.reg o; fin (addrRes (opbGetItem s o i))
  | .opbIterItem o i => do let o ← m.reg o; fin (addrRes (opbIterItem s o i))
  | .pbcSet c i coef lit => do let c ← m.reg c; fin (unitRes (pbcSetTerm s c i coef lit))
  | .normBip g => do
      let g ← m.reg g
      match readBipG s g with
      | none => none
      | some _ => fin (s, .ok (some g))
  | .bipAddEdge g u v => do
      let g ← m.reg g
      match readBipG s g with
      | none => none
      | some B =>
        match B.addEdge u v with
        | .error e => fin (s, .error e)
        | .ok B' => fin (write s g (.bipg B'), .ok none)
  | .mkGraph G => let (s1, a) := alloc s (.graph G); fin (s1, .ok (some a))
  | .mkDiG D => let (s1, a) := alloc s (.dig D); fin (s1, .ok (some a))
  | .mkNx d n es => let (s1, a) := alloc s (.nx d n es); fin (s1, .ok (some a))
  | .normalize cls g => do let g ← m.reg g; fin (addrRes (Heap.normalize s cls g))
  | .gAddEdge g u v => do let g ← m.reg g; fin (unitRes (graphAddEdge s g u v))
  | .tseitin g ch d => do
      let g ← m.reg g
      match ch with
      | none => fin (addrRes (famCall cfg s [g] [(0, .simple)] (some d) (tseitinProg false)))
      | some c => do let c ← m.reg c; fin (addrRes (famCall cfg s [g, c] [(0, .simple)] (some d) (tseitinProg true)))
  | .gphp g fn onto d => do
      let g ← m.reg g
      fin (addrRes (famCall cfg s [g] [(0, .bipartite)] (some d) (gphpProg fn onto)))
  | .planted p k n mm cands dense d => do
      let p ← m.reg p
      fin (addrRes (famCall cfg s [p] [] (some d) (plantedProg k n mm cands dense)))
  | .liveGroup f => do
      let f ← m.reg f
      match lastBGroup s f with
      | none => none
      | some a => fin (s, .ok (some a))

def runProg (cfg : Cfg) : Machine → List Instr → Option Machine
  | m, [] => some m
  | m, i :: is => match step cfg m i with | none => none | some m' => runProg cfg m' is

def Machine.init : Machine := ⟨#[], #[], #[]⟩

/-! ### observation -/

/-- the object slots of a register's object, in a fixed order: the object itself, then what it holds -/
def slots (s : Store) (a : Addr) : List Addr :=
  match s[a]? with
  | some (.cnf cl hd gr _) => [a, hd, cl, gr] ++ (readRefs s cl).getD []
  | some (.opb cl hd gr _) => [a, hd, cl, gr] ++ (readRefs s cl).getD []
  | some (.refs as) => a :: as
  | some (.view f d) => [a, f, d]
  | some (.bgroup g _) => [a, g]          -- the group object and the graph its attribute `G` holds
  | _ => [a]

/-- first-occurrence numbering of a list of addresses -/
def aliasClasses (as : List Addr) : List Nat :=
  let rec go (seen : List Addr) : List Addr → List Nat
    | [] => []
    | a :: rest =>
      match seen.idxOf? a with
      | some i => i :: go seen rest
      | none => seen.length :: go (seen ++ [a]) rest
  go [] as

def Machine.sharing (m : Machine) : List Nat :=
  aliasClasses (m.regs.toList.flatMap (fun r => match r with | none => [] | some a => slots m.store a))

end Heap
end Cnfgen
