/-
C19 heap model, part 1 — a store of Python objects.

Why a heap: in the pure model every transformation is a function, so "the input is left untouched" and
"the result shares nothing with the input" cannot even be stated.  Here an object is a *cell* at an
*address*; a Python name / attribute / list element holding an object holds its address; two names
alias iff they hold the same address.  `list(x)`, `x[:]`, `copy(d)` allocate, `l.append`, `l[i] = v`,
`d[k] = v`, `self._numvar = …` overwrite a cell.

What is a cell
  ints    a Python list of integers           a clause stored in a formula, a caller's list of literals,
                                              of polarity flips, of positions (a permutation)
  refs    a Python list of objects            `F._clauses`, a caller's list of clauses, `V[i:j]`
  dict    `OrderedDict[str, str]`             `F.header` (keys and values are immutable strings)
  groups  the list `F._groups`                the group objects are never written after their creation by the
                                              modelled code, they are kept by value (see notes/C19.md: a group made
                                              from a graph refers to the caller's graph in Python; by value here)
  cnf     a `CNF` object                      attribute slots `_clauses`, `header`, `_groups` (addresses), `_numvar`
  view    a `ClausesView`                     `.F`, `.data` (addresses)
  bipg    a `BipartiteGraph` object           by value (only read by the modelled code)
  pbcs / opb : see Heap/OPB.lean

The store is an array; allocation appends (the new address is the old size), nothing is ever freed
(garbage stays: an unreachable cell is harmless, and the theorems speak about ALL old cells).
Import-free (compiled into the driver).
-/
import CnfgenModel.Core.Sem
import CnfgenModel.Graph.Basic
import CnfgenModel.Vars.Manager
namespace Cnfgen
namespace Heap

/-- an address is a natural number: the index of the cell (a local notation, so that `omega` sees `Nat`) -/
local notation "Addr" => Nat

/-- header dictionary content: insertion-ordered association list, keys distinct -/
abbrev Hdr := List (String × String)

inductive Cell where
  | ints (xs : List Int)
  | refs (as : List Addr)
  | dict (es : Hdr)
  | groups (gs : List Vars.Group)
  | cnf (clauses header groups : Addr) (numvar : Nat)
  | view (formula data : Addr)
  | bipg (G : BipG)
  /-- a pseudo-Boolean constraint stored in an OPB formula: the Python list `[(c,l), …, op, value]` -/
  | pbc (c : PBC)
  /-- an `OPB` / `BaseOPB` object: `_constraints`, `header`, `_groups`, `_numvar` -/
  | opb (constraints header groups : Addr) (numvar : Nat)
  /-- a `cnfgen.graphs.Graph` object (w19b: arguments of the generators, Heap/Args.lean) -/
  | graph (G : SimpleG)
  /-- a `cnfgen.graphs.DirectedGraph` object -/
  | dig (D : DiG)
  /-- a `networkx.Graph` (`directed = false`) / `networkx.DiGraph` object on the vertices 1..n, its edges in order -/
  | nx (directed : Bool) (n : Nat) (es : List (Nat × Nat))
  /-- a `BipartiteEdgesVariables` / `UnaryMappingVariables` object: `self.G` HOLDS THE ADDRESS of the caller's graph
  (observation O1: a borrowed reference, see `Cell.borrows`), `first` = the identifier before its first variable -/
  | bgroup (g : Addr) (first : Nat)
  deriving Repr, DecidableEq, Inhabited

/-- the addresses a cell holds -/
def Cell.refsOf : Cell → List Addr
  | .refs as => as
  | .cnf cl hd gr _ => [cl, hd, gr]
  | .opb cl hd gr _ => [cl, hd, gr]
  | .view f d => [f, d]
  | _ => []

/-- the addresses a cell BORROWS: objects it refers to without owning them (they belong to the caller).
Only the live group objects made from a bipartite graph have one: the caller's graph. -/
def Cell.borrows : Cell → List Addr
  | .bgroup g _ => [g]
  | _ => []

abbrev Store := Array Cell

/-- a new object -/
def alloc (s : Store) (c : Cell) : Store × Addr := (s.push c, s.size)

/-- overwrite the content of an existing object (no effect on a dangling address: the callers test first) -/
def write (s : Store) (a : Addr) (c : Cell) : Store := s.setIfInBounds a c

/-! ### typed reads (`none`: dangling address or an object of another type) -/

def readInts (s : Store) (a : Addr) : Option (List Int) :=
  match s[a]? with | some (.ints xs) => some xs | _ => none

def readRefs (s : Store) (a : Addr) : Option (List Addr) :=
  match s[a]? with | some (.refs as) => some as | _ => none

def readDict (s : Store) (a : Addr) : Option Hdr :=
  match s[a]? with | some (.dict es) => some es | _ => none

def readGroups (s : Store) (a : Addr) : Option (List Vars.Group) :=
  match s[a]? with | some (.groups gs) => some gs | _ => none

def readBipG (s : Store) (a : Addr) : Option BipG :=
  match s[a]? with | some (.bipg G) => some G | _ => none

/-- the contents of the list objects whose addresses are given (all must be lists of integers) -/
def readIntsAll (s : Store) : List Addr → Option (List (List Int))
  | [] => some []
  | a :: as =>
    match readInts s a, readIntsAll s as with
    | some x, some xs => some (x :: xs)
    | _, _ => none

/-- "the model was asked to follow a dangling or ill-typed reference": never the case for a store
built by the operations of this model from well-typed registers (the driver never reports it) -/
def modelErr : Err := .runtimeError

/-- `l.append(x)` on a list of objects -/
def appendRef (s : Store) (l x : Addr) : Store :=
  match s[l]? with
  | some (.refs as) => write s l (.refs (as ++ [x]))
  | _ => s

end Heap
end Cnfgen
