/-
C19 heap model, part 4 — what a caller can do to a formula object it holds (used to state non-interference,
and by the driver's instruction set).  Import-free.
-/
import CnfgenModel.Heap.Trans
namespace Cnfgen
namespace Heap
local notation "Addr" => Nat

/-- a mutation of the formula object `x` through its public interface — or through the aliases that
iterating over it hands out -/
inductive Mut where
  /-- `x.add_clause(<iterable with these literals>, check)` -/
  | addClause (xs : List Int) (check : Bool)
  /-- `c = list(x)[i]; c[j] = v` — iteration yields the stored clause OBJECT; writing into it edits the formula -/
  | setLit (i j v : Int)
  /-- `x.header[k] = v` -/
  | hdrSet (k v : String)
  /-- `x.update_variable_number(n)` -/
  | updVar (n : Int)
  /-- `x.new_variable(…)`, `x.new_block(…)`, … -/
  | newGroup (spec : Vars.GroupSpec)
  /-- `add_description(x, text)` -/
  | describe (text : String)
  deriving Repr, Inhabited

def Mut.run (s : Store) (x : Addr) : Mut → Store × Except Err Unit
  | .addClause xs check => addClauseVals s x xs check
  | .setLit i j v =>
    match iterItem s x i with
    | (_, .error e) => (s, .error e)
    | (_, .ok a) => setItem s a j v
  | .hdrSet k v => Heap.hdrSet s x k v
  | .updVar n => Heap.updVar s x n
  | .newGroup spec => Heap.newGroup s x spec
  | .describe text => Heap.describe s x text

/-- a history of mutations of `x`; an exception is caught by the caller and the history goes on -/
def runMuts (x : Addr) : Store → List Mut → Store
  | s, [] => s
  | s, m :: ms => runMuts x (m.run s x).1 ms

end Heap
end Cnfgen
