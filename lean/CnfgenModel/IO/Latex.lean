/-
L6 (ii) — LaTeX output (`cnfgen/utils/latexoutput.py`) and format selection
(`cnfio.guess_output_format`, `CNFio.to_file`, `OPBio.to_file`).

* text level, character by character: `latexBodyText` (= `_print_latex`), `latexDocumentText`
  (= `to_latex_document`), the literal table `litText` with the `_`/`^` split for `\overline`;
* token level (what the theorems speak about): `latexBlocks` — the pages (`align` blocks) as lists
  of token rows, one row per clause / constraint —, `pageBlocks` (the split every
  `clauses_per_page` rows), and the specification-side row readers `readClauseRow`,
  `readConstraintRow` (NOT cnfgen code: cnfgen has no LaTeX reader);
* `lexLatexLine`: whitespace split + separation of a coefficient glued to its literal (`2{x_3}`);
* `readLatexClausesText`, `readLatexConstraintsText`: the row readers applied to the CHARACTERS of a body
  (`Props/C12/LatexText.lean`: on what `_print_latex` writes they return the formula's clauses / constraints).
Import-free.
-/
import CnfgenModel.Core.Sem
import CnfgenModel.IO.Lex
import CnfgenModel.IO.Dimacs
namespace Cnfgen.IO

/-- either formula class (`isinstance(F, BaseCNF)` / `BaseOPB`) -/
inductive AnyF where
  | cnf (F : CNF)
  | opb (G : OPB)
  deriving Repr

def AnyF.nvars : AnyF → Nat
  | .cnf F => F.nvars
  | .opb G => G.nvars

def AnyF.len : AnyF → Nat
  | .cnf F => F.clauses.length
  | .opb G => G.constraints.length

def AnyF.isOpb : AnyF → Bool
  | .cnf _ => false
  | .opb _ => true

/-! ### literal table -/

/-- `name.find(c)` (`none` = -1) -/
def findChar (c : Char) (s : Str) : Option Nat := s.findIdx? (· == c)

/-- `min([x for x in [name.find("_"), name.find("^")] if x > 0])`, `none` if the list is empty -/
def splitPoint (name : Str) : Option Nat :=
  let a := (findChar '_' name).filter (· > 0)
  let b := (findChar '^' name).filter (· > 0)
  match a, b with
  | some x, some y => some (min x y)
  | some x, none => some x
  | none, some y => some y
  | none, none => none

def litTextPos (name : Str) : Str := "           {".toList ++ name ++ ['}']

def litTextNeg (name : Str) : Str :=
  match splitPoint name with
  | none => "  \\overline{".toList ++ name ++ ['}']
  | some k => "{\\overline{".toList ++ name.take k ++ ['}'] ++ name.drop k ++ ['}']

/-- `\\overline{` -/
def overlineOpen : Str := ['\\', 'o', 'v', 'e', 'r', 'l', 'i', 'n', 'e', '{']

/-- the text of a literal without the alignment blanks (what `strip()` leaves of `littext[±v]`) -/
def litCore (name : Str) (neg : Bool) : Str :=
  if neg then
    match splitPoint name with
    | none => overlineOpen ++ name ++ ['}']
    | some k => '{' :: (overlineOpen ++ (name.take k ++ '}' :: name.drop k) ++ ['}'])
  else '{' :: (name ++ ['}'])

/-- `littext[l]`; `names` = `all_variable_labels('x_{}')`; a literal without entry is a `KeyError` -/
def litText (opb : Bool) (names : List Str) (l : Int) : Except Err Str :=
  if l = 0 then .error .keyError
  else match names[l.natAbs - 1]? with
    | none => .error .keyError
    | some nm =>
      let t := if l < 0 then litTextNeg nm else litTextPos nm
      .ok (if opb then strip t else t)

/-! ### text level -/

def clauseRowText (names : List Str) (first compact : Bool) (c : Clause) : Except Err Str :=
  let pre := (if first then "\n&".toList else " \\\\\n&".toList) ++
             (if !compact || first then "       ".toList else " \\land ".toList)
  if c.isEmpty then .ok (pre ++ "\\square".toList)
  else match c.mapM (litText false names) with
    | .error e => .error e
    | .ok ls =>
      if compact then .ok (pre ++ "\\left( ".toList ++ join " \\lor ".toList ls ++ " \\right)".toList)
      else .ok (pre ++ join " \\lor ".toList ls)

def latexOpText (o : Op) : Str := if o = .ge then "\\geq".toList else "=".toList

def termText (names : List Str) (t : Int × Int) : Except Err Str :=
  match litText true names t.2 with
  | .error e => .error e
  | .ok lt => .ok ((if t.1 = 1 then [] else intStr t.1) ++ lt)

def constraintRowText (names : List Str) (first : Bool) (c : PBC) : Except Err Str :=
  let pre := if first then "\n& ".toList else " \\\\\n& ".toList
  let lhs : Except Err Str :=
    if c.terms.isEmpty then .ok ['0']
    else match c.terms.mapM (termText names) with
      | .error e => .error e
      | .ok ts => .ok (join " + ".toList ts)
  match lhs with
  | .error e => .error e
  | .ok text => .ok (pre ++ text ++ [' '] ++ latexOpText c.op ++ [' '] ++ intStr c.rhs)

/-- the `for i in range(len(F))` loop of `_print_latex` -/
def latexLoop {α} (rowText : Bool → α → Except Err Str) (split : Int) : Nat → List α → Except Err Str
  | _, [] => .ok []
  | i, r :: rs =>
    let isSplit := split > 0 ∧ (i : Int) % split = 0 ∧ i ≠ 0
    match rowText (isSplit || i == 0) r with
    | .error e => .error e
    | .ok t =>
      match latexLoop rowText split (i + 1) rs with
      | .error e => .error e
      | .ok rest =>
        .ok ((if isSplit then "\n\\end{align}\\pagebreak\n\\begin{align}".toList else []) ++ t ++ rest)

/-- `_print_latex(F, out, split_every, compact)` -/
def latexBodyText (F : AnyF) (names : List Str) (split : Int) (compact : Bool) : Except Err Str :=
  if F.len = 0 then .ok ("\\begin{align}".toList ++ "\n   \\top".toList ++ "\n\\end{align}".toList)
  else
    let body := match F with
      | .cnf F => latexLoop (fun first c => clauseRowText names first compact c) split 0 F.clauses
      | .opb G => latexLoop (fun first c => constraintRowText names first c) split 0 G.constraints
    match body with
    | .error e => .error e
    | .ok b => .ok ("\\begin{align}".toList ++ b ++ "\n\\end{align}".toList)

/-- `to_latex_string(F)` -/
def latexString (F : AnyF) (names : List Str) : Except Err Str := latexBodyText F names (-1) true

def clausesPerPage : Nat := 35

def latexPreamble : Str :=
  ("%\n\\documentclass[10pt,a4paper]{article}\n\\usepackage[margin=1in]{geometry}\n" ++
   "\\usepackage{amsmath}\n\\usepackage{listings}\n\\usepackage[utf8]{inputenc}\n").toList

/-- `s.replace("_", "\\_")` -/
def escapeUnderscore (s : Str) : Str := s.flatMap (fun c => if c = '_' then ['\\', '_'] else [c])

/-- `"{}: {}\n".format(field, value)` with non-ASCII replaced (inside `lstlisting`, no prefix) -/
def latexHeaderLine (kv : Str × Str) : Str := asciiReplace (kv.1 ++ ": ".toList ++ kv.2 ++ ['\n'])

/-- `to_latex_document(F, out, export_header, extra_text)`; `hdr` is always needed (title) -/
def latexDocumentText (F : AnyF) (names : List Str) (hdr : Header) (exportHeader : Bool) (extra : Str) :
    Except Err Str :=
  -- `F.header.get('description', '')` (a missing entry raised KeyError before the fix 41a4c01 in /repo)
  match some ((hdr.lookup "description".toList).getD []) with
  | none => .error .keyError
  | some title =>
    match latexBodyText F names clausesPerPage false with
    | .error e => .error e
    | .ok body =>
      .ok (latexPreamble ++ "\\begin{document}\n".toList ++
        "\\title{".toList ++ escapeUnderscore title ++ "}\n".toList ++
        "\\author{CNFgen formula generator}\n".toList ++ "\\maketitle\n".toList ++
        (if exportHeader then
          "\\noindent\\textbf{Formula header:}\n".toList ++ "\\begin{lstlisting}[breaklines]\n".toList ++
          (hdr.map latexHeaderLine).flatten ++ "\\end{lstlisting}\n".toList ++ "\\bigskip\n".toList
         else []) ++
        extra ++
        (match F with
          | .cnf F => "\\noindent\\textbf{CNF with ".toList ++ natStr F.nvars ++ " variables and and ".toList ++
              natStr F.clauses.length ++ " clauses:}\n".toList
          | .opb G => "\\noindent\\textbf{Pseudo-boolean formula with ".toList ++ natStr G.nvars ++
              " variables and and ".toList ++ natStr G.constraints.length ++ " constraints:}\n".toList) ++
        body ++ "\n\\end{document}".toList)

/-! ### token level -/

def W (s : String) : Tok := .word s.toList

/-- a literal as one token (its text without alignment blanks) -/
def latexLitTok (names : List Str) (l : Int) : Except Err Tok :=
  if l = 0 then .error .keyError
  else match names[l.natAbs - 1]? with
    | none => .error .keyError
    | some nm => .ok (.word (litCore nm (decide (l < 0))))

def sepBy (sep : Tok) : List (List Tok) → List Tok
  | [] => []
  | [x] => x
  | x :: xs => x ++ sep :: sepBy sep xs

/-- content of a clause row -/
def clauseCore (names : List Str) (compact : Bool) (c : Clause) : Except Err Row :=
  if c.isEmpty then .ok [W "\\square"]
  else match c.mapM (latexLitTok names) with
    | .error e => .error e
    | .ok ls =>
      let body := sepBy (W "\\lor") (ls.map (fun t => [t]))
      .ok (if compact then W "\\left(" :: (body ++ [W "\\right)"]) else body)

def termToks (names : List Str) (t : Int × Int) : Except Err (List Tok) :=
  match latexLitTok names t.2 with
  | .error e => .error e
  | .ok lt => .ok (if t.1 = 1 then [lt] else [.int t.1, lt])

/-- content of a constraint row -/
def constraintCore (names : List Str) (c : PBC) : Except Err Row :=
  let lhs : Except Err Row :=
    if c.terms.isEmpty then .ok [.int 0]
    else match c.terms.mapM (termToks names) with
      | .error e => .error e
      | .ok ts => .ok (sepBy (W "+") ts)
  match lhs with
  | .error e => .error e
  | .ok l => .ok (l ++ [.word (latexOpText c.op), .int c.rhs])

/-- the framing of a physical line: `&`, `\land` (compact, not first of its block), `\\` (not last of its block) -/
def frame (land last : Bool) (core : Row) : Row :=
  W "&" :: ((if land then [W "\\land"] else []) ++ core ++ (if last then [] else [W "\\\\"]))

/-- pages: a new block starts at every row whose index is a positive multiple of `split` -/
def pageBlocks {α} (split : Nat) : Nat → List α → List (List α)
  | _, [] => []
  | _, [r] => [[r]]
  | i, r :: r' :: rs =>
    let rest := pageBlocks split (i + 1) (r' :: rs)
    if split > 0 ∧ (i + 1) % split = 0 then [r] :: rest
    else match rest with
      | b :: bs => (r :: b) :: bs
      | [] => [[r]]

/-- rows of one block, framed -/
def blockRows (compact : Bool) : Bool → List Row → List Row
  | _, [] => []
  | first, [c] => [frame (compact && !first) true c]
  | first, c :: c' :: cs => frame (compact && !first) false c :: blockRows compact false (c' :: cs)

/-- the row contents, one per clause / constraint, in order -/
def latexCores (F : AnyF) (names : List Str) (compact : Bool) : Except Err (List Row) :=
  match F with
  | .cnf F => F.clauses.mapM (clauseCore names compact)
  | .opb G => G.constraints.mapM (constraintCore names)

/-- the `align` blocks of the body, each as its list of framed rows; `\top` for the empty formula -/
def latexBlocks (F : AnyF) (names : List Str) (split : Nat) (compact : Bool) : Except Err (List (List Row)) :=
  if F.len = 0 then .ok [[[W "\\top"]]]
  else match latexCores F names compact with
    | .error e => .error e
    | .ok cores => .ok ((pageBlocks split 0 cores).map (blockRows (compact && !F.isOpb) true))

/-- all physical lines of the body -/
def latexBodyRows (blocks : List (List Row)) : List Row :=
  match blocks with
  | [] => []
  | [b] => [W "\\begin{align}"] :: (b ++ [[W "\\end{align}"]])
  | b :: bs => [W "\\begin{align}"] :: (b ++ [[W "\\end{align}\\pagebreak"]]) ++ latexBodyRows bs

/-- leading ASCII digits of a token -/
def spanDigits : Str → Str × Str
  | [] => ([], [])
  | c :: cs => if (digit? c).isSome then let p := spanDigits cs; (c :: p.1, p.2) else ([], c :: cs)

/-- `2{x_3}` → `2`, `{x_3}`: a coefficient (`str(c)`, possibly negative) is glued to the literal it multiplies -/
def splitCoef (t : Str) : List Tok :=
  let neg := t.head? = some '-'
  let p := spanDigits (if neg then t.drop 1 else t)
  match p.1, p.2 with
  | _ :: _, c :: _ =>
    if c = '{' ∨ c = '\\' then
      match plainNat? p.1 with
      | some v => [.int (if neg then -(v : Int) else (v : Int)), .word p.2]
      | none => [classify t]
    else [classify t]
  | _, _ => [classify t]

def lexLatexLine (l : Str) : Row := (splitWS l).flatMap splitCoef

def lexLatex (s : Str) : List Row := (physLines false s).map lexLatexLine

/-! ### specification-side row readers -/

/-- the literal table as an association list text ↦ signed identifier -/
def litTable (names : List Str) : List (Str × Int) :=
  (enum1 names).flatMap (fun p => [(litCore p.2 false, (p.1 : Int)), (litCore p.2 true, -(p.1 : Int))])

def readLit (tbl : List (Str × Int)) : Tok → Except Err Int
  | .word s => match tbl.lookup s with
    | some l => .ok l
    | none => .error .valueError
  | _ => .error .valueError

/-- `l (\lor l)*` -/
def readDisj (tbl : List (Str × Int)) : Row → Except Err Clause
  | [t] => match readLit tbl t with
    | .ok l => .ok [l]
    | .error e => .error e
  | t :: s :: rest =>
    if s = W "\\lor" then
      match readLit tbl t, readDisj tbl rest with
      | .ok l, .ok ls => .ok (l :: ls)
      | .error e, _ => .error e
      | _, .error e => .error e
    else .error .valueError
  | [] => .error .valueError

def dropFrame (r : Row) : Except Err Row :=
  match r with
  | a :: rest =>
    if a = W "&" then
      let rest := match rest with
        | b :: rest' => if b = W "\\land" then rest' else rest
        | [] => rest
      .ok (if rest.getLast? = some (W "\\\\") then rest.dropLast else rest)
    else .error .valueError
  | [] => .error .valueError

/-- a framed clause row back to the clause -/
def readClauseRow (names : List Str) (r : Row) : Except Err Clause :=
  match dropFrame r with
  | .error e => .error e
  | .ok core =>
    if core = [W "\\square"] then .ok []
    else
      let inner := match core with
        | a :: rest => if a = W "\\left(" ∧ rest.getLast? = some (W "\\right)") then rest.dropLast else core
        | [] => core
      readDisj (litTable names) inner

/-- `[c] l (+ [c] l)*` up to the relation; returns the terms and the remaining tokens -/
def readSum (tbl : List (Str × Int)) : Nat → Row → Except Err (List (Int × Int) × Row)
  | 0, _ => .error .valueError
  | fuel + 1, r =>
    let ct : Except Err ((Int × Int) × Row) :=
      match r with
      | .int c :: t :: rest => match readLit tbl t with
        | .ok l => .ok ((c, l), rest)
        | .error e => .error e
      | t :: rest => match readLit tbl t with
        | .ok l => .ok ((1, l), rest)
        | .error e => .error e
      | [] => .error .valueError
    match ct with
    | .error e => .error e
    | .ok (term, rest) =>
      match rest with
      | s :: rest' =>
        if s = W "+" then
          match readSum tbl fuel rest' with
          | .ok (ts, tail) => .ok (term :: ts, tail)
          | .error e => .error e
        else .ok ([term], rest)
      | [] => .ok ([term], [])

/-- the left-hand side of a constraint row and what follows it; the empty sum is written `0` -/
def readLhs (tbl : List (Str × Int)) (core : Row) : Except Err (List (Int × Int) × Row) :=
  match core with
  | [.int 0, .word w, .int d] => .ok ([], [.word w, .int d])
  | _ => readSum tbl core.length core

/-- relation and bound -/
def readRel (ts : List (Int × Int)) : Row → Except Err PBC
  | [.word w, .int d] =>
    if w = "\\geq".toList then .ok ⟨ts, .ge, d⟩
    else if w = "=".toList then .ok ⟨ts, .eq, d⟩
    else .error .valueError
  | _ => .error .valueError

/-- a framed constraint row back to the constraint -/
def readConstraintRow (names : List Str) (r : Row) : Except Err PBC :=
  match dropFrame r with
  | .error e => .error e
  | .ok core =>
    match readLhs (litTable names) core with
    | .error e => .error e
    | .ok p => readRel p.1 p.2

/-! ### specification-side reader of a whole body TEXT -/

/-- the delimiter lines of the `align` blocks -/
def isAlignRow : Row → Bool
  | [t] => t == W "\\begin{align}" || t == W "\\end{align}" || t == W "\\end{align}\\pagebreak"
  | _ => false

/-- the rows between the delimiters, read one by one; a single `\top` is the empty formula -/
def readLatexRows {α} (readRow : Row → Except Err α) (rows : List Row) : Except Err (List α) :=
  let body := rows.filter (fun r => !isAlignRow r)
  if body = [[W "\\top"]] then .ok [] else body.mapM readRow

/-- an independent reader (NOT cnfgen code) of the CHARACTERS of a LaTeX body: physical lines, white-space
split, coefficients un-glued, `align` delimiters dropped, every remaining line read as a clause row -/
def readLatexClausesText (names : List Str) (t : Str) : Except Err (List Clause) :=
  readLatexRows (readClauseRow names) (lexLatex t)

/-- … as a constraint row -/
def readLatexConstraintsText (names : List Str) (t : Str) : Except Err (List PBC) :=
  readLatexRows (readConstraintRow names) (lexLatex t)

/-! ### format selection -/

inductive Fmt where
  | dimacs | opb | latex
  deriving DecidableEq, Repr

def Fmt.name : Fmt → String
  | .dimacs => "dimacs" | .opb => "opb" | .latex => "latex"

/-- what `fileorname` is, as far as `guess_output_format` can tell -/
inductive FileArg where
  /-- a `str` -/
  | path (s : Str)
  /-- an object whose `.name` is a `str` (a file opened by name, `sys.stdout`) -/
  | named (s : Str)
  /-- an object whose `.name` is an `int` (a file opened from a descriptor) -/
  | fdNamed
  /-- `None`, `StringIO`, … : no `.name` attribute -/
  | nameless
  deriving Repr

def rfind (c : Char) (s : Str) : Option Nat :=
  (s.reverse.findIdx? (· == c)).map (fun i => s.length - 1 - i)

/-- `os.path.splitext(p)[1]` (posix) -/
def splitext (p : Str) : Str :=
  match rfind '.' p with
  | none => []
  | some dot =>
    let fnStart := match rfind '/' p with | some s => s + 1 | none => 0
    if fnStart ≤ dot ∧ (((p.drop fnStart).take (dot - fnStart)).any (· != '.')) then p.drop dot else []

/-- `ext` after the `try` block: `os.path.splitext(name)[-1][1:]`, or `None` when the name cannot
be had (`AttributeError` for an object without `.name`, `TypeError` for a non-string name — caught
since the fix 8a26dc4 of D30) -/
def fileExt : FileArg → Option Str
  | .path s => some ((splitext s).drop 1)
  | .named s => some ((splitext s).drop 1)
  | .fdNamed => none
  | .nameless => none

/-- `guess_output_format(fileorname, fileformat_request)`; `request = none` ⇔ `None` -/
def guessOutputFormat (f : FileArg) (request : Option Str) : Except Err Fmt :=
  match request with
  | some r =>
    if r = "latex".toList then .ok .latex
    else if r = "dimacs".toList then .ok .dimacs
    else if r = "opb".toList then .ok .opb
    else .error .valueError
  | none =>
    if fileExt f = some "tex".toList then .ok .latex
    else if fileExt f = some "opb".toList then .ok .opb
    else .ok .dimacs

/-- which writer `CNFio.to_file` / `OPBio.to_file` call -/
def toFileWriter (isOpb : Bool) (f : FileArg) (request : Option Str) : Except Err Fmt :=
  match guessOutputFormat f request with
  | .error e => .error e
  | .ok .latex => .ok .latex
  | .ok .opb => .ok .opb
  | .ok .dimacs => .ok (if isOpb then .opb else .dimacs)

end Cnfgen.IO
