/-
L6 (i) — the LEXER of the graph-file readers of cnfgen/graphs.py
(`_kthlist_parse`, `_read_graph_dimacs_format`, `_read_graph_matrix_format`).

`text → List Row`, one row per physical line, one row type per format.  Everything the
readers do with *characters* is here: `readlines()`, `l[0] == 'c'`, `strip()`, `split()`,
`':' in l`, `l.split(':')`, Python `int()` on ASCII tokens.  What the readers do with the
*values* (the state machines) is in `IO/GraphFmt.lean`; the theorems are about that layer.
On the texts the writers of `IO/GraphFmt.lean` emit the lexer is PROVEN to return the rows of the
row-level writers (`Lemmas/IOGraphText*.lean`, `Props/C14/Text.lean`); on every other text it is
compared with Python (every `rgraph` / `rgraphf` request of the harness).

Texts are `List Char` (code points).  ASCII fragment: Python's `int()` also accepts
non-ASCII decimal digits; those are outside the model (the harness generates ASCII texts).
A `StringIO` does no newline translation; a text-mode file translates "\r\n" and "\r" to
"\n" before the reader sees the text (`universalNL`).  No Mathlib; builds on `IO/Lex.lean`
(character classes, `split()`, `strip()`, digit scanner, decimal printer are shared with the
formula formats).
-/
import CnfgenModel.IO.Lex
namespace Cnfgen.GraphLex

abbrev Str := List Char

/-! The character classes, `strip()`, `split()`, the digit scanner of `int()` and the decimal printer
are the ones of the formula lexer `IO/Lex.lean` (same constants, so the lemmas of
`Lemmas/IOText*.lean` apply to the graph formats as they are). -/
export Cnfgen.IO (wsCodes isSpace universalNLAux universalNL splitWS strip digit? scanDigits maxStrDigits
  digitChar natStrAux natStr join)

/-- what `int()` itself strips from an ASCII string: C `isspace` (`" 5\x1f"` is rejected
although `"\x1f".isspace()`) -/
def isIntSpace (c : Char) : Bool := [9, 10, 11, 12, 13, 32].contains c.toNat

/-- `readlines()`: the lines *with* their terminator; no line for an empty tail -/
def readlinesAux : Str → Str → List Str
  | [], cur => if cur.isEmpty then [] else [cur.reverse]
  | c :: cs, cur =>
    if c = '\n' then (c :: cur).reverse :: readlinesAux cs [] else readlinesAux cs (c :: cur)

def readlines (s : Str) : List Str := readlinesAux s []

/-- `s.split(sep)` for a one-character separator (never empty) -/
def splitOn (sep : Char) : Str → List Str
  | [] => [[]]
  | c :: cs =>
    if c = sep then [] :: splitOn sep cs
    else match splitOn sep cs with
      | l :: ls => (c :: l) :: ls
      | [] => [[c]]

/-- ASCII fragment of Python's `int(s)`; `none` = ValueError: optional sign, decimal digits with single
`_` between them, and CPython's limit of `maxStrDigits` = 4300 digits (`sys.get_int_max_str_digits()`,
leading zeros count): beyond it `int()` raises ValueError too. -/
def pyInt? (s : Str) : Option Int :=
  let s := ((s.dropWhile isIntSpace).reverse.dropWhile isIntSpace).reverse
  let nb : Bool × Str := match s with
    | c :: r => if c = '-' then (true, r) else if c = '+' then (false, r) else (false, s)
    | [] => (false, [])
  match scanDigits 0 0 false nb.2 with
  | some (v, nd) => if nd > maxStrDigits then none else some (if nb.1 then -(v : Int) else (v : Int))
  | none => none

/-! ### kthlist -/

/-- one physical line of a kthlist file as `_kthlist_parse` sees it -/
inductive KRow where
  /-- `l[0] == 'c'` -/
  | comment
  /-- `len(l.strip()) == 0` -/
  | blank
  /-- no `':'` in the line: `int(l.strip())`, `none` = ValueError -/
  | spec (size : Option Int)
  /-- `left, right = l.split(':')`, `int(left.strip())`, `[int(s) for s in right.split()]`;
  `none` = one of these raised (all of them raise ValueError) -/
  | adj (a : Option (Int × List Int))
  deriving DecidableEq, Repr, Inhabited

def lexKthLine (l : Str) : KRow :=
  if l.head? = some 'c' then .comment
  else if (strip l).isEmpty then .blank
  else if ¬ l.contains ':' then .spec (pyInt? (strip l))
  else match splitOn ':' l with
    | [a, b] =>
      match pyInt? (strip a), (splitWS b).mapM pyInt? with
      | some x, some r => .adj (some (x, r))
      | _, _ => .adj none
    | _ => .adj none

def lexKth (s : Str) : List KRow := (readlines s).map lexKthLine

/-! ### DIMACS edge format -/

/-- one physical line of a graph-DIMACS file as `_read_graph_dimacs_format` sees it -/
inductive DRow where
  /-- `l.strip()` is empty -/
  | blank
  /-- first character `c` -/
  | comment
  /-- first character `p`: `_, fmt, nstr, mstr = l.split()`, `fmt == 'edge'`, `int(nstr)`,
  `int(mstr)`; `none` = one of these raised ValueError -/
  | prob (p : Option (Int × Int))
  /-- first character `e`: `_, v, w = l.split()`, `int(v)`, `int(w)` -/
  | edge (e : Option (Int × Int))
  /-- any other first character: the line is skipped -/
  | other
  deriving DecidableEq, Repr, Inhabited

def lexDimacsLine (l : Str) : DRow :=
  let s := strip l
  match s with
  | [] => .blank
  | c :: _ =>
    if c = 'c' then .comment
    else if c = 'p' then
      match splitWS s with
      | [_, f, n, m] =>
        if f = ['e', 'd', 'g', 'e'] then
          match pyInt? n, pyInt? m with
          | some a, some b => .prob (some (a, b))
          | _, _ => .prob none
        else .prob none
      | _ => .prob none
    else if c = 'e' then
      match splitWS s with
      | [_, v, w] =>
        match pyInt? v, pyInt? w with
        | some a, some b => .edge (some (a, b))
        | _, _ => .edge none
      | _ => .edge none
    else .other

def lexDimacs (s : Str) : List DRow := (readlines s).map lexDimacsLine

/-! ### matrix -/

/-- one physical line of a matrix file as `scan_integer` sees it -/
inductive MRow where
  /-- no token, or the first token starts with `#` -/
  | skip
  /-- `[int(t) for t in line.split()]`; `none` = ValueError -/
  | nums (l : Option (List Int))
  deriving DecidableEq, Repr, Inhabited

def lexMatrixLine (l : Str) : MRow :=
  match splitWS l with
  | [] => .skip
  | t :: ts => if t.head? = some '#' then .skip else .nums ((t :: ts).mapM pyInt?)

def lexMatrix (s : Str) : List MRow := (readlines s).map lexMatrixLine

/-! ### printing -/

/-- `s.isdigit()` on the ASCII fragment: non-empty, only `0..9` -/
def isDigitStr (s : Str) : Bool := !s.isEmpty && s.all (fun c => (digit? c).isSome)

/-- `int(s)` for a string with `isDigitStr s` -/
def digitsVal (s : Str) : Nat := s.foldl (fun a c => a * 10 + (c.toNat - 48)) 0

/-- the line boundaries of `str.splitlines()` (besides the pair `\r\n`) -/
def isLineBreak (c : Char) : Bool := [10, 11, 12, 13, 28, 29, 30, 133, 8232, 8233].contains c.toNat

/-- `s.splitlines()`: no piece for an empty tail, `\r\n` is one boundary -/
def splitlinesAux : Bool → Str → Str → List Str
  | _, [], cur => if cur.isEmpty then [] else [cur.reverse]
  | afterCR, c :: cs, cur =>
    if afterCR && c = '\n' then splitlinesAux false cs cur
    else if isLineBreak c then cur.reverse :: splitlinesAux (c = '\r') cs []
    else splitlinesAux false cs (c :: cur)

def splitlines (s : Str) : List Str := splitlinesAux false s []

/-- `str(name).splitlines() or ['']` -/
def nameLines (name : Str) : List Str :=
  match splitlines name with
  | [] => [[]]
  | l => l

end Cnfgen.GraphLex
