/-
L6 (ii) — DIMACS writer and reader (`cnfgen/utils/parsedimacs.py`).

* `renderDimacsText`  : the text `to_dimacs_file` writes, character by character.
* `renderDimacs`      : the same output as token rows, one row per PHYSICAL line.
  Structured lines (`p cnf n m`, clause lines) are built directly as tokens;
  the free-text comment lines (`c <field>: <value>`, `c varname <i> <label>`)
  go through the lexer.  (Before the `fix:` commit 81c9102 a header value or a label
  containing a line break produced non-comment lines — defect D14; the current
  code splits the value with `splitlines()` and prefixes every line, and joins the
  lines of a label with a blank; the model follows the current code.)
  (The driver checks `lex (renderDimacsText …) = renderDimacs …` on every case; `Lemmas/IOTextDimacs.lean`
  proves it for every formula whose numbers have at most `maxStrDigits` digits.)
* `parseDimacs`       : `from_dimacs_file` ∘ `parse_dimacs`, the reader's state
  machine over token rows, with its exceptions.
Import-free.
-/
import CnfgenModel.Core.Sem
import CnfgenModel.IO.Lex
namespace Cnfgen.IO

/-- `formula.header`: an ordered dictionary field ↦ value (both already `str()`-ed) -/
abbrev Header := List (Str × Str)

/-- the comment lines of one header entry: `"{}: {}".format(field, value)`, non-ASCII replaced
by `?`, `splitlines()`, every line prefixed (`pfx` = `"c "` / `"* "`) and terminated -/
def headerLines (pfx : Str) (kv : Str × Str) : List Str :=
  (splitlines (asciiReplace (kv.1 ++ ": ".toList ++ kv.2))).map (fun l => pfx ++ l ++ ['\n'])

/-- `" ".join(str(label).splitlines())` -/
def flatLabel (label : Str) : Str := join [' '] (splitlines label)

/-- `enumerate(labels, start=1)` -/
def enumFrom {α} : Nat → List α → List (Nat × α)
  | _, [] => []
  | i, x :: xs => (i, x) :: enumFrom (i + 1) xs

def enum1 {α} (l : List α) : List (Nat × α) := enumFrom 1 l

def varnameWord : Str := "varname ".toList

/-- `"c varname {0} {1}\n".format(varid, label)` -/
def dimacsVarnameLine (p : Nat × Str) : Str :=
  'c' :: ' ' :: (varnameWord ++ natStr p.1 ++ [' '] ++ flatLabel p.2) ++ ['\n']

def clauseText (c : Clause) : Str := c.flatMap (fun l => intStr l ++ [' ']) ++ "0\n".toList

/-- the comment lines preceding `p cnf`, as the list of `write()` calls -/
def dimacsCommentChunks (hdr : Option Header) (names : Option (List Str)) : List Str :=
  (match hdr with
    | some h => h.flatMap (headerLines ['c', ' ']) ++ [['c', '\n']]
    | none => []) ++
  (match names with
    | some ns => (enum1 ns).map dimacsVarnameLine ++ [['c', '\n']]
    | none => [])

/-- `to_dimacs_file(formula, export_header, export_varnames)`; `hdr = none` ⇔ `export_header=False` -/
def renderDimacsText (F : CNF) (hdr : Option Header) (names : Option (List Str)) : Str :=
  (dimacsCommentChunks hdr names).flatten ++
  "p cnf ".toList ++ natStr F.nvars ++ [' '] ++ natStr F.clauses.length ++ ['\n'] ++
  F.clauses.flatMap clauseText

/-! token rows -/

def specRow (n m : Nat) : Row := [.word ['p'], .word "cnf".toList, .int n, .int m]

def clauseRow (c : Clause) : Row := c.map Tok.int ++ [.int 0]

/-- rows of the comment part: every chunk is lexed into its physical lines -/
def dimacsCommentRows (u : Bool) (hdr : Option Header) (names : Option (List Str)) : List Row :=
  (dimacsCommentChunks hdr names).flatMap (lex u)

def renderDimacs (u : Bool) (F : CNF) (hdr : Option Header) (names : Option (List Str)) : List Row :=
  dimacsCommentRows u hdr names ++ specRow F.nvars F.clauses.length :: F.clauses.map clauseRow

/-! ### reader -/

inductive RowClass where
  | blank | comment | spec | lits
  deriving DecidableEq, Repr

/-- `len(line) == 0`, `line[0] == 'c'`, `line[0] == 'p'`, otherwise a literal line -/
def Row.cls : Row → RowClass
  | [] => .blank
  | .word (c :: _) :: _ => if c = 'c' then .comment else if c = 'p' then .spec else .lits
  | _ => .lits

structure PState where
  /-- `(n, m)`; `none` until the spec line is met -/
  spec : Option (Nat × Nat)
  /-- `literal_buffer` -/
  buf : List Int
  /-- the clauses yielded so far (`clauses_count` is their number) -/
  out : List Clause
  deriving Repr, DecidableEq

/-- `_, _, nstr, mstr = line.split(); n = int(nstr); m = int(mstr); if n < 0 or m < 0: raise` -/
def parseSpec : Row → Except Err (Nat × Nat)
  | [_, _, .int n, .int m] =>
    if n < 0 ∨ m < 0 then .error .valueError else .ok (n.toNat, m.toNat)
  | _ => .error .valueError

/-- one token of a literal line -/
def litTok (n : Nat) (st : List Int × List Clause) : Tok → Except Err (List Int × List Clause)
  | .int lv =>
    if lv = 0 then .ok ([], st.2 ++ [st.1])
    else if 1 ≤ lv.natAbs ∧ lv.natAbs ≤ n then .ok (st.1 ++ [lv], st.2)
    else .error .valueError
  | _ => .error .valueError

/-- body of the `for line in infile.readlines()` loop -/
def rowStep (st : PState) (r : Row) : Except Err PState :=
  match r.cls with
  | .blank => .ok st
  | .comment => .ok st
  | .spec =>
    match st.spec with
    | some _ => .error .valueError
    | none =>
      match parseSpec r with
      | .ok nm => .ok { st with spec := some nm }
      | .error e => .error e
  | .lits =>
    match st.spec with
    | none => .error .valueError
    | some (n, _) =>
      match r.foldlM (litTok n) (st.buf, st.out) with
      | .ok bo => .ok { st with buf := bo.1, out := bo.2 }
      | .error e => .error e

/-- the checks after the loop -/
def finish (st : PState) : Except Err PState :=
  if st.buf ≠ [] then .error .valueError
  else match st.spec with
    | none => .error .valueError
    | some (_, m) => if m ≠ st.out.length then .error .valueError else .ok st

def PState.init : PState := ⟨none, [], []⟩

/-- the generator `parse_dimacs` run to exhaustion -/
def runGenerator (rows : List Row) : Except Err PState :=
  match rows.foldlM rowStep PState.init with
  | .ok st => finish st
  | .error e => .error e

/-- `from_dimacs_file`: `n = next(g); m = next(g); F.update_variable_number(n); for c in g: F.add_clause(c)`.
An exception raised anywhere in the generator propagates; `next()` on a generator that
finishes without yielding would be `StopIteration` (shown unreachable in T-C06.4). -/
def parseDimacs (rows : List Row) : Except Err CNF :=
  match runGenerator rows with
  | .error e => .error e
  | .ok st =>
    match st.spec with
    | none => .error .stopIteration
    | some (n, _) => st.out.foldlM (fun F c => F.addClause c true) (CNF.empty.updateVarNum n)

/-- reading a text: lexer, then parser -/
def readDimacsText (u : Bool) (s : Str) : Except Err CNF := parseDimacs (lex u s)

end Cnfgen.IO
