/-
L6 (i) — the LEXER.  `text → List (List Tok)`.

What is modelled and compared with Python by the correspondence.  (Proven about it, in
`Lemmas/IOText*.lean` / `Props/C06/Text.lean` / `Props/C12/Text.lean`: on the text the DIMACS and OPB writers
emit, `lex` returns exactly the token rows of the token-level writers — `pyInt? (intStr z) = some z` up to
`maxStrDigits` digits, `splitWS` of blank-joined tokens, `physLines` of newline-closed lines.  On any other
text the lexer is compared with Python only.)
* `readlines()` of a text stream: split at "\n" (after the universal-newline
  translation "\r\n", "\r" → "\n" when the stream is a text-mode file; a
  `StringIO` does not translate), no line for the empty tail;
* `line.strip()` / `line.split()`: Python's whitespace set;
* first-character class of a line = first character of its first token;
* `int(token)`: optional sign, decimal ASCII digits, single `_` between digits,
  surrounding blanks, and CPython's 4300-digit limit (`sys.get_int_max_str_digits`);
  non-ASCII digits are outside the fragment (separate harness stream);
* the OPB variable tokens `x<digits>` / `~x<digits>`.

Texts are `List Char` (code points) throughout the IO layer.  Import-free.
-/
namespace Cnfgen.IO

abbrev Str := List Char

/-- code points for which Python's `str.isspace()` is true (what `strip()` and `split()` remove) -/
def wsCodes : List Nat :=
  [9, 10, 11, 12, 13, 28, 29, 30, 31, 32, 133, 160, 5760, 8192, 8193, 8194, 8195, 8196, 8197,
   8198, 8199, 8200, 8201, 8202, 8232, 8233, 8239, 8287, 12288]

def isSpace (c : Char) : Bool := wsCodes.contains c.toNat

/-- universal-newline translation done by text-mode `open()` on reading -/
def universalNLAux : Bool → Str → Str
  | _, [] => []
  | prevCR, c :: rest =>
    if c = '\r' then '\n' :: universalNLAux true rest
    else if c = '\n' then (if prevCR then universalNLAux false rest else '\n' :: universalNLAux false rest)
    else c :: universalNLAux false rest

def universalNL (s : Str) : Str := universalNLAux false s

/-- `s.split('\n')` (never empty) -/
def splitNL : Str → List Str
  | [] => [[]]
  | c :: cs =>
    if c = '\n' then [] :: splitNL cs
    else match splitNL cs with
      | l :: ls => (c :: l) :: ls
      | [] => [[c]]

/-- `readlines()` without the terminators: the pieces of `split('\n')`, minus an empty last piece -/
def readlines (s : Str) : List Str :=
  let parts := splitNL s
  if parts.getLast? = some [] then parts.dropLast else parts

/-- code points at which `str.splitlines()` breaks ("\r\n" counts once) -/
def lineBreakCodes : List Nat := [10, 11, 12, 13, 28, 29, 30, 133, 8232, 8233]

def isLineBreak (c : Char) : Bool := lineBreakCodes.contains c.toNat

/-- the pieces between line boundaries (never the empty list); `prevCR`: the previous character was "\r" -/
def splitLB : Bool → Str → List Str
  | _, [] => [[]]
  | prevCR, c :: cs =>
    if c = '\n' ∧ prevCR = true then splitLB false cs
    else if isLineBreak c then [] :: splitLB (c = '\r') cs
    else match splitLB false cs with
      | l :: ls => (c :: l) :: ls
      | [] => [[c]]

/-- `s.splitlines()` -/
def splitlines (s : Str) : List Str :=
  let parts := splitLB false s
  if parts.getLast? = some [] then parts.dropLast else parts

/-- the physical lines seen by a reader; `universal = true` for a text-mode file -/
def physLines (universal : Bool) (s : Str) : List Str :=
  readlines (if universal then universalNL s else s)

/-- `s.split()` -/
def splitWS : Str → List Str
  | [] => []
  | c :: cs =>
    if isSpace c then splitWS cs
    else match cs with
      | [] => [[c]]
      | d :: _ =>
        if isSpace d then [c] :: splitWS cs
        else match splitWS cs with
          | t :: ts => (c :: t) :: ts
          | [] => [[c]]

def strip (s : Str) : Str := ((s.dropWhile isSpace).reverse.dropWhile isSpace).reverse

def digit? (c : Char) : Option Nat :=
  if 48 ≤ c.toNat ∧ c.toNat ≤ 57 then some (c.toNat - 48) else none

/-- `digit (_? digit)*`; returns (value, number of digits). `prev` = previous char was a digit. -/
def scanDigits : Nat → Nat → Bool → Str → Option (Nat × Nat)
  | acc, nd, prev, [] => if prev then some (acc, nd) else none
  | acc, nd, prev, c :: cs =>
    if c = '_' then (if prev then scanDigits acc nd false cs else none)
    else match digit? c with
      | some d => scanDigits (acc * 10 + d) (nd + 1) true cs
      | none => none

/-- `sys.get_int_max_str_digits()` default -/
def maxStrDigits : Nat := 4300

/-- ASCII fragment of Python's `int(s)`; `none` = ValueError -/
def pyInt? (s : Str) : Option Int :=
  let s := strip s
  let nb : Bool × Str := match s with
    | c :: r => if c = '-' then (true, r) else if c = '+' then (false, r) else (false, s)
    | [] => (false, [])
  match scanDigits 0 0 false nb.2 with
  | some (v, nd) => if nd > maxStrDigits then none else some (if nb.1 then -(v : Int) else (v : Int))
  | none => none

/-- plain decimal digits, no sign, no underscore -/
def plainNat? (s : Str) : Option Nat :=
  if s.contains '_' then none
  else match scanDigits 0 0 false s with
    | some (v, nd) => if nd > maxStrDigits then none else some v
    | none => none

/-- `x<digits>` / `~x<digits>` -/
def xvar? (s : Str) : Option (Bool × Nat) :=
  match s with
  | c :: r =>
    if c = '~' then
      match r with
      | d :: r' => if d = 'x' then (plainNat? r').map (fun v => (true, v)) else none
      | [] => none
    else if c = 'x' then (plainNat? r).map (fun v => (false, v))
    else none
  | [] => none

/-- a classified token -/
inductive Tok where
  /-- a token on which `int()` succeeds, with its value -/
  | int (i : Int)
  /-- `x<v>` (neg = false) or `~x<v>` (neg = true) -/
  | xvar (neg : Bool) (v : Nat)
  /-- anything else, verbatim (non-empty, no whitespace) -/
  | word (s : Str)
  deriving DecidableEq, Repr, Inhabited

abbrev Row := List Tok

def classify (t : Str) : Tok :=
  match pyInt? t with
  | some i => .int i
  | none =>
    match xvar? t with
    | some (neg, v) => .xvar neg v
    | none => .word t

def lexLine (l : Str) : Row := (splitWS l).map classify

/-- THE LEXER: one row per physical line -/
def lex (universal : Bool) (s : Str) : List Row := (physLines universal s).map lexLine

/-! ### printing of numbers (Python `str(int)`, `'{:+}'.format(int)`) -/

def digitChar : Nat → Char
  | 0 => '0' | 1 => '1' | 2 => '2' | 3 => '3' | 4 => '4'
  | 5 => '5' | 6 => '6' | 7 => '7' | 8 => '8' | _ => '9'

def natStrAux : Nat → Nat → Str → Str
  | 0, _, acc => acc
  | f + 1, n, acc =>
    if n < 10 then digitChar n :: acc else natStrAux f (n / 10) (digitChar (n % 10) :: acc)

def natStr (n : Nat) : Str := natStrAux (n + 1) n []

/-- `str(i)` -/
def intStr (i : Int) : Str := if i < 0 then '-' :: natStr i.natAbs else natStr i.natAbs

/-- `'{:+}'.format(i)` -/
def intStrPlus (i : Int) : Str := if i < 0 then '-' :: natStr i.natAbs else '+' :: natStr i.natAbs

/-- `s.encode('ascii', errors='replace').decode('ascii')` -/
def asciiReplace (s : Str) : Str := s.map (fun c => if c.toNat < 128 then c else '?')

def join (sep : Str) : List Str → Str
  | [] => []
  | [x] => x
  | x :: xs => x ++ sep ++ join sep xs

end Cnfgen.IO
