/-
L6 (ii) — graph-file readers and writers of cnfgen/graphs.py over ROWS (the output of the
lexer `IO/GraphLex.lean`), plus the relabelling step `normalize_networkx_labels` /
`from_networkx` that follows the third-party gml / dot parsers.

Transcribed from: `_process_graph_io_arguments`, `readGraph`, `writeGraph`,
`_kthlist_parse`, `_read_bipartite_kthlist`, `_read_nonbipartite_kthlist`,
`_read_graph_dimacs_format`, `_read_graph_matrix_format`, `_write_graph_kthlist_nonbipartite`,
`_write_graph_kthlist_bipartite`, `_write_graph_dimacs_format`, `_write_graph_matrix_format`,
`normalize_networkx_labels`, `Graph/DirectedGraph/BipartiteGraph.from_networkx`.

The model follows the code as it is (after the `fix:` commits 97bcab4, db71920, ea21017, 8f27729,
1cd08f4, 91715a4):
  * a kthlist file without a size line: `next(parser)` → StopIteration is caught → ValueError;
  * a blank line in a graph-DIMACS file is skipped;
  * `_read_bipartite_kthlist` assigns `previous = left` (`bipAdvance`), so a repeated or
    out-of-order left vertex is a ValueError;
  * `normalize_networkx_labels` sorts the labels as they are; the dot branch of `readGraph` first
    turns all-digit string names into integers (`relabelDot`, fix 8f27729, former defect D15);
  * the gml branch turns NetworkXError, TypeError and IndexError of the third-party parser into
    ValueError (fix 1cd08f4; the parser itself is not modelled);
  * the writers print one `c ` line per line of the graph name (fix 91715a4).
Graph names (the `c` comments) are not part of the model's graphs; the writers take the name
as a parameter.  Import-free.
-/
import CnfgenModel.Graph.Basic
import CnfgenModel.IO.GraphLex
namespace Cnfgen.GraphFmt
open Cnfgen Cnfgen.GraphLex

inductive GType where
  | simple | digraph | dag | bipartite
  deriving DecidableEq, Repr, Inhabited

inductive Fmt where
  | kthlist | gml | dot | dimacs | matrix
  deriving DecidableEq, Repr, Inhabited

/-- `supported_file_formats()` of the class chosen for the graph type (pydot present) -/
def supported : GType → List Fmt
  | .bipartite => [.kthlist, .gml, .dot, .matrix]
  | _ => [.kthlist, .gml, .dot, .dimacs]

/-- the format test of `_process_graph_io_arguments` (explicit format) -/
def checkArgs (ty : GType) (fmt : Fmt) : Except Err Unit :=
  if (supported ty).contains fmt then .ok () else .error .valueError

/-- a graph object of one of the three classes -/
inductive AnyG where
  | simple (G : SimpleG)
  | di (G : DiG)
  | bip (G : BipG)
  deriving DecidableEq, Repr, Inhabited

/-- what the non-bipartite readers use of `graph_class` -/
structure GClass (γ : Type) where
  init : Nat → γ
  addEdge : γ → Int → Int → Except Err γ
  order : γ → Nat

def simpleClass : GClass SimpleG := ⟨SimpleG.init, SimpleG.addEdge, (·.n)⟩
def diClass : GClass DiG := ⟨DiG.init, DiG.addEdge, (·.n)⟩

/-! ## kthlist -/

/-- `_kthlist_parse` up to its first `yield` (`size = -1` so far): comments and blank lines are
skipped, the first line without `:` gives the size; an adjacency line raises ValueError on
every path (`left > size` at the latest); no such line at all: the generator ends, the
StopIteration of `next(parser)` is caught and re-raised as ValueError -/
def kthHeader : List KRow → Except Err (Nat × List KRow)
  | [] => .error .valueError
  | .comment :: rs => kthHeader rs
  | .blank :: rs => kthHeader rs
  | .spec none :: _ => .error .valueError
  | .spec (some s) :: rs => if s < 0 then .error .valueError else .ok (s.toNat, rs)
  | .adj _ :: _ => .error .valueError

/-- the checks of `_kthlist_parse` on one adjacency line once the size is known -/
def kthAdj (size : Nat) : Option (Int × List Int) → Except Err (Nat × List Nat)
  | none => .error .valueError
  | some (left, right) =>
    if right.getLast? ≠ some 0 then .error .valueError
    else if left < 1 ∨ left > size then .error .valueError
    else if right.dropLast.any (fun x => x < 1 || x > size) then .error .valueError
    else .ok (left.toNat, right.dropLast.map Int.toNat)

/-- `for v in predecessors: G.add_edge(v, succ)` -/
def addPreds {γ} (C : GClass γ) (G : γ) (succ : Nat) (preds : List Nat) : Except Err γ :=
  preds.foldlM (fun g (v : Nat) => C.addEdge g (v : Int) (succ : Int)) G

/-- the loop of `_read_nonbipartite_kthlist` (a second size line is a ValueError) -/
def readKthBody {γ} (C : GClass γ) (size : Nat) : γ → Nat → List KRow → Except Err γ
  | G, _, [] => .ok G
  | G, prev, .comment :: rs => readKthBody C size G prev rs
  | G, prev, .blank :: rs => readKthBody C size G prev rs
  | _, _, .spec _ :: _ => .error .valueError
  | G, prev, .adj a :: rs =>
    match kthAdj size a with
    | .error e => .error e
    | .ok (succ, preds) =>
      if succ ≤ prev then .error .valueError
      else match addPreds C G succ preds with
        | .error e => .error e
        | .ok G' => readKthBody C size G' succ rs

/-- `_read_nonbipartite_kthlist` -/
def readKth {γ} (C : GClass γ) (rows : List KRow) : Except Err γ :=
  match kthHeader rows with
  | .error e => .error e
  | .ok (size, rest) =>
    match readKthBody C size (C.init size) 0 rest with
    | .error e => .error e
    | .ok G => if size ≠ C.order G then .error .valueError else .ok G

/-- Python `d[k] = v` on an insertion-ordered dict -/
def dictSet (d : List (Nat × List Nat)) (k : Nat) (v : List Nat) : List (Nat × List Nat) :=
  if d.any (fun p => p.1 == k) then d.map (fun p => if p.1 == k then (k, v) else p) else d ++ [(k, v)]

/-- what becomes of `previous` after a line of the bipartite reader: `previous = left`
(the assignment was missing before fix db71920, former defect D11) -/
def bipAdvance (_prev left : Nat) : Nat := left

/-- `for v in right: if v < lo: raise; hi = min(hi, v - 1)` -/
def bipRight (lo : Nat) : Nat → List Nat → Except Err Nat
  | hi, [] => .ok hi
  | hi, v :: vs => if v < lo then .error .valueError else bipRight lo (min hi (v - 1)) vs

/-- the loop of `_read_bipartite_kthlist`; `lo, hi` = `bipartition_ambiguous` -/
def readBipBody (size : Nat) : Nat → Nat → Nat → List (Nat × List Nat) → List KRow →
    Except Err (Nat × List (Nat × List Nat))
  | _, lo, _, d, [] => .ok (lo, d)
  | prev, lo, hi, d, .comment :: rs => readBipBody size prev lo hi d rs
  | prev, lo, hi, d, .blank :: rs => readBipBody size prev lo hi d rs
  | _, _, _, _, .spec _ :: _ => .error .valueError
  | prev, lo, hi, d, .adj a :: rs =>
    match kthAdj size a with
    | .error e => .error e
    | .ok (left, right) =>
      if left ≤ prev then .error .valueError
      else if left > hi then .error .valueError
      else
        let lo' := max lo (left + 1)
        match bipRight lo' hi right with
        | .error e => .error e
        | .ok hi' => readBipBody size (bipAdvance prev left) lo' hi' (dictSet d left right) rs

/-- `for u in edges: for v in edges[u]: G.add_edge(u, v - L)` -/
def addBipLists (L : Nat) (G : BipG) (d : List (Nat × List Nat)) : Except Err BipG :=
  d.foldlM (fun g p => p.2.foldlM (fun g (v : Nat) => g.addEdge (p.1 : Int) ((v : Int) - (L : Int))) g) G

/-- `_read_bipartite_kthlist` -/
def readBipKth (rows : List KRow) : Except Err BipG :=
  match kthHeader rows with
  | .error e => .error e
  | .ok (size, rest) =>
    match readBipBody size 0 1 size [] rest with
    | .error e => .error e
    | .ok (lo, d) =>
      let L : Int := (lo : Int) - 1
      let R : Int := (size : Int) - (lo : Int) + 1
      if L < 0 ∨ R < 0 then .error .valueError
      else match addBipLists L.toNat (BipG.init L.toNat R.toNat) d with
        | .error e => .error e
        | .ok G => if size ≠ G.l + G.r then .error .valueError else .ok G

/-! ## DIMACS edge format -/

/-- `G` (None before the `p` line), `m`, `m_cnt` -/
structure DSt (γ : Type) where
  G : Option γ
  m : Int
  cnt : Nat

/-- the loop of `_read_graph_dimacs_format`: blank lines are skipped (fix ea21017, former
defect D12), and so are lines that start with anything but `c p e` -/
def readDimacsBody {γ} (C : GClass γ) : DSt γ → List DRow → Except Err (DSt γ)
  | st, [] => .ok st
  | st, .blank :: rs => readDimacsBody C st rs
  | st, .comment :: rs => readDimacsBody C st rs
  | st, .other :: rs => readDimacsBody C st rs
  | st, .prob p :: rs =>
    match st.G with
    | some _ => .error .valueError
    | none =>
      match p with
      | none => .error .valueError
      | some (n, m) =>
        if n < 0 then .error .valueError
        else readDimacsBody C { G := some (C.init n.toNat), m := m, cnt := st.cnt } rs
  | st, .edge e :: rs =>
    match st.G with
    | none => .error .valueError
    | some G =>
      match e with
      | none => .error .valueError
      | some (v, w) =>
        match C.addEdge G v w with
        | .error _ => .error .valueError
        | .ok G' => readDimacsBody C { G := some G', m := st.m, cnt := st.cnt + 1 } rs

/-- `_read_graph_dimacs_format` (`m = -1`, `m_cnt = 0` initially, so `G` is set whenever the
counts agree) -/
def readDimacs {γ} (C : GClass γ) (rows : List DRow) : Except Err γ :=
  match readDimacsBody C ⟨none, -1, 0⟩ rows with
  | .error e => .error e
  | .ok st =>
    if st.m ≠ (st.cnt : Int) then .error .valueError
    else match st.G with
      | some G => .ok G
      | none => .error .valueError

/-! ## matrix -/

/-- the integers `scan_integer` yields, in order; `none` = it raises ValueError on loading
that line (nothing is read after it) -/
def matrixStream : List MRow → List (Option Int)
  | [] => []
  | .skip :: rs => matrixStream rs
  | .nums none :: _ => [none]
  | .nums (some l) :: rs => l.map some ++ matrixStream rs

/-- `next(scanner)` inside the `try … except StopIteration: raise ValueError` -/
def nextTok : List (Option Int) → Except Err (Int × List (Option Int))
  | [] => .error .valueError
  | none :: _ => .error .valueError
  | some x :: r => .ok (x, r)

/-- `for i in 1..n: for j in 1..m:` in row-major order -/
def matrixCells (n m : Nat) : List (Nat × Nat) :=
  (List.range n).flatMap (fun i => (List.range m).map (fun j => (i + 1, j + 1)))

def readCells : List (Nat × Nat) → BipG → List (Option Int) → Except Err (BipG × List (Option Int))
  | [], G, s => .ok (G, s)
  | c :: cs, G, s =>
    match nextTok s with
    | .error e => .error e
    | .ok (b, s') =>
      if b = 1 then
        match G.addEdge (c.1 : Int) (c.2 : Int) with
        | .error e => .error e
        | .ok G' => readCells cs G' s'
      else if b = 0 then readCells cs G s'
      else .error .valueError

/-- `_read_graph_matrix_format` -/
def readMatrix (rows : List MRow) : Except Err BipG :=
  match nextTok (matrixStream rows) with
  | .error e => .error e
  | .ok (n, s1) =>
    match nextTok s1 with
    | .error e => .error e
    | .ok (m, s2) =>
      if n < 0 ∨ m < 0 then .error .valueError
      else match readCells (matrixCells n.toNat m.toNat) (BipG.init n.toNat m.toNat) s2 with
        | .error e => .error e
        | .ok (G, rest) => if rest.isEmpty then .ok G else .error .valueError

/-! ## `readGraph` for the in-house formats -/

/-- lexed text of an in-house format -/
inductive Rows where
  | kth (r : List KRow)
  | dimacs (r : List DRow)
  | matrix (r : List MRow)
  deriving DecidableEq, Repr, Inhabited

def Rows.fmt : Rows → Fmt
  | .kth _ => .kthlist | .dimacs _ => .dimacs | .matrix _ => .matrix

/-- `readGraph(file, graph_type, file_format)`: format check, reader, and the acyclicity test
for `'dag'` -/
def readGraph (ty : GType) (rows : Rows) : Except Err AnyG :=
  match checkArgs ty rows.fmt with
  | .error e => .error e
  | .ok () =>
    match ty, rows with
    | .bipartite, .kth r => (readBipKth r).map .bip
    | .bipartite, .matrix r => (readMatrix r).map .bip
    | .simple, .kth r => (readKth simpleClass r).map .simple
    | .simple, .dimacs r => (readDimacs simpleClass r).map .simple
    | .digraph, .kth r => (readKth diClass r).map .di
    | .digraph, .dimacs r => (readDimacs diClass r).map .di
    | .dag, .kth r =>
      match readKth diClass r with
      | .error e => .error e
      | .ok G => if G.stillDag then .ok (.di G) else .error .valueError
    | .dag, .dimacs r =>
      match readDimacs diClass r with
      | .error e => .error e
      | .ok G => if G.stillDag then .ok (.di G) else .error .valueError
    | _, _ => .error .runtimeError

/-! ## writers (rows) -/

def kthAdjRow (v : Nat) (ns : List Nat) : KRow :=
  .adj (some ((v : Int), ns.map Int.ofNat ++ [0]))

/-- the lines `_write_graph_kthlist_*` print: `k ≥ 1` comment lines (one per line of the graph
name), order, one list per vertex, and the empty line that `print(output.getvalue())` appends -/
def kthRows (k n : Nat) (lists : List (Nat × List Nat)) : List KRow :=
  List.replicate k .comment ++ .spec (some (n : Int)) :: (lists.map (fun p => kthAdjRow p.1 p.2) ++ [.blank])

/-- `for v in G.vertices(): G.neighbors(v)` -/
def simpleLists (G : SimpleG) : List (Nat × List Nat) :=
  (List.range G.n).map (fun i => (i + 1, G.nbrs (i + 1)))

/-- `for v in G.vertices(): G.predecessors(v)` -/
def diLists (G : DiG) : List (Nat × List Nat) :=
  (List.range G.n).map (fun i => (i + 1, G.preds (i + 1)))

/-- `for u in U: [v + offset for v in G.right_neighbors(u)]` -/
def bipLists (G : BipG) : List (Nat × List Nat) :=
  (List.range G.l).map (fun i => (i + 1, (G.rnbrs (i + 1)).map (· + G.l)))

def writeKthSimple (k : Nat) (G : SimpleG) : List KRow := kthRows k G.n (simpleLists G)
def writeKthDi (k : Nat) (G : DiG) : List KRow := kthRows k G.n (diLists G)
def writeKthBip (k : Nat) (G : BipG) : List KRow := kthRows k (G.l + G.r) (bipLists G)

/-- `_write_graph_dimacs_format` -/
def dimacsRows (k n m : Nat) (edges : List (Nat × Nat)) : List DRow :=
  List.replicate k .comment ++ .prob (some ((n : Int), (m : Int))) :: edges.map (fun e => .edge (some ((e.1 : Int), (e.2 : Int))))

def writeDimacsSimple (k : Nat) (G : SimpleG) : List DRow := dimacsRows k G.n G.m G.edges
def writeDimacsDi (k : Nat) (G : DiG) : List DRow := dimacsRows k G.n G.m G.edges

/-- `_write_graph_matrix_format`: for `r = 0` every row is an empty line -/
def matrixRow (G : BipG) (u : Nat) : MRow :=
  if G.r = 0 then .skip
  else .nums (some ((List.range G.r).map (fun j => if G.hasEdge (u : Int) ((j + 1 : Nat) : Int) then 1 else 0)))

def writeMatrix (G : BipG) : List MRow :=
  .nums (some [(G.l : Int), (G.r : Int)]) :: (List.range G.l).map (fun i => matrixRow G (i + 1))

/-- `writeGraph` for the in-house formats (graph object of the class of the type); the graph name
contributes one comment line per line of `str(G.name).splitlines() or ['']` -/
def writeGraph (name : Str) (ty : GType) (fmt : Fmt) (G : AnyG) : Except Err Rows :=
  let k := (nameLines name).length
  match checkArgs ty fmt with
  | .error e => .error e
  | .ok () =>
    match fmt, G with
    | .kthlist, .simple g => .ok (.kth (writeKthSimple k g))
    | .kthlist, .di g => .ok (.kth (writeKthDi k g))
    | .kthlist, .bip g => .ok (.kth (writeKthBip k g))
    | .dimacs, .simple g => .ok (.dimacs (writeDimacsSimple k g))
    | .dimacs, .di g => .ok (.dimacs (writeDimacsDi k g))
    | .matrix, .bip g => .ok (.matrix (writeMatrix g))
    | _, _ => .error .assertion

/-! ## writers (text) -/

def kthListText (p : Nat × List Nat) : Str :=
  natStr p.1 ++ " :".toList ++ p.2.flatMap (fun i => ' ' :: natStr i) ++ " 0\n".toList

def kthText (name : Str) (n : Nat) (lists : List (Nat × List Nat)) : Str :=
  (nameLines name).flatMap (fun l => "c ".toList ++ l ++ ['\n']) ++
  natStr n ++ ['\n'] ++ lists.flatMap kthListText ++ ['\n']

def dimacsText (name : Str) (n m : Nat) (edges : List (Nat × Nat)) : Str :=
  (nameLines name).flatMap (fun l => strip ("c ".toList ++ l) ++ ['\n']) ++
  "p edge ".toList ++ natStr n ++ [' '] ++ natStr m ++ ['\n'] ++
  edges.flatMap (fun e => "e ".toList ++ natStr e.1 ++ [' '] ++ natStr e.2 ++ ['\n'])

def matrixText (G : BipG) : Str :=
  natStr G.l ++ [' '] ++ natStr G.r ++ ['\n'] ++
  (List.range G.l).flatMap (fun i =>
    join [' '] ((List.range G.r).map (fun j =>
      if G.hasEdge ((i + 1 : Nat) : Int) ((j + 1 : Nat) : Int) then ['1'] else ['0'])) ++ ['\n'])

/-- the text `writeGraph` produces -/
def writeText (name : Str) (ty : GType) (fmt : Fmt) (G : AnyG) : Except Err Str :=
  match checkArgs ty fmt with
  | .error e => .error e
  | .ok () =>
    match fmt, G with
    | .kthlist, .simple g => .ok (kthText name g.n (simpleLists g))
    | .kthlist, .di g => .ok (kthText name g.n (diLists g))
    | .kthlist, .bip g => .ok (kthText name (g.l + g.r) (bipLists g))
    | .dimacs, .simple g => .ok (dimacsText name g.n g.m g.edges)
    | .dimacs, .di g => .ok (dimacsText name g.n g.m g.edges)
    | .matrix, .bip g => .ok (matrixText g)
    | _, _ => .error .assertion

/-- the lexer of the format -/
def lexText (fmt : Fmt) (s : Str) : Option Rows :=
  match fmt with
  | .kthlist => some (.kth (lexKth s))
  | .dimacs => some (.dimacs (lexDimacs s))
  | .matrix => some (.matrix (lexMatrix s))
  | _ => none

/-- `readGraph(file, graph_type, file_format)` on the CHARACTERS of an in-house format: the physical
lines (`universal = true`: a text-mode file, which translates "\r\n" and "\r" to "\n" first;
`false`: a `StringIO`), the lexer of the format, the reader, the acyclicity test.  gml / dot are
parsed by third-party code that is not modelled (`runtimeError` marks "outside the model"). -/
def readText (universal : Bool) (ty : GType) (fmt : Fmt) (s : Str) : Except Err AnyG :=
  match checkArgs ty fmt with
  | .error e => .error e
  | .ok () =>
    match lexText fmt (if universal then universalNL s else s) with
    | some rows => readGraph ty rows
    | none => .error .runtimeError

/-! ## gml / dot: the relabelling after the third-party parser -/

def insertBy {α} (le : α → α → Bool) (x : α) : List α → List α
  | [] => [x]
  | y :: ys => if le x y then x :: y :: ys else y :: insertBy le x ys

/-- `sorted(labels)` (the labels of a networkx graph are distinct) -/
def sortBy {α} (le : α → α → Bool) (l : List α) : List α := l.foldr (insertBy le) []

/-- Python `str <= str`: lexicographic by code point, a proper prefix is smaller -/
def strLe : Str → Str → Bool
  | [], _ => true
  | _ :: _, [] => false
  | a :: as, b :: bs =>
    if a.toNat < b.toNat then true else if b.toNat < a.toNat then false else strLe as bs

/-- `mapping[x]` of `convert_node_labels_to_integers(G, first_label=1, ordering='sorted')` -/
def rank {α} [BEq α] (sorted : List α) (x : α) : Nat := sorted.idxOf x + 1

/-- `normalize_networkx_labels`: new number of every node, in node order -/
def relabelWith {α} [BEq α] (le : α → α → Bool) (nodes : List α) (edges : List (α × α)) :
    Nat × List (Nat × Nat) :=
  let s := sortBy le nodes
  (nodes.length, edges.map (fun e => (rank s e.1, rank s e.2)))

/-- integer labels (gml: `label='id'`) -/
def relabelInts (nodes : List Int) (edges : List (Int × Int)) : Nat × List (Nat × Nat) :=
  relabelWith (fun a b => decide (a ≤ b)) nodes edges

/-- string labels (dot) -/
def relabelStrs (nodes : List Str) (edges : List (Str × Str)) : Nat × List (Nat × Nat) :=
  relabelWith strLe nodes edges

/-- first occurrences, in order (the nodes of `networkx.relabel_nodes` when the mapping merges
two names, e.g. `"1"` and `"01"`) -/
def dedupAux {α} [BEq α] (seen : List α) : List α → List α
  | [] => []
  | x :: xs => if seen.contains x then dedupAux seen xs else x :: dedupAux (x :: seen) xs

def dedup {α} [BEq α] (l : List α) : List α := dedupAux [] l

/-- the dot branch of `readGraph` (fix 8f27729): when every node name is a string of digits the
names are replaced by their integer values before `normalize`; otherwise they stay strings -/
def relabelDot (nodes : List Str) (edges : List (Str × Str)) : Nat × List (Nat × Nat) :=
  if nodes.all isDigitStr then
    relabelInts (dedup (nodes.map (fun u => (digitsVal u : Int))))
      (edges.map (fun e => ((digitsVal e.1 : Int), (digitsVal e.2 : Int))))
  else relabelStrs nodes edges

/-- `Graph.from_networkx` after relabelling: `cls(G.order())`, `add_edges_from(G.edges())` -/
def simpleOfNx (N : Nat × List (Nat × Nat)) : Except Err SimpleG := SimpleG.ofEdges N.1 N.2
def diOfNx (N : Nat × List (Nat × Nat)) : Except Err DiG := DiG.ofEdges N.1 N.2

/-- the gml / dot branch of `readGraph` after the third-party parser, for the non-bipartite
types: `graph_class.normalize(G)` (relabelling, `from_networkx`) and the acyclicity test -/
def readNx (ty : GType) (N : Nat × List (Nat × Nat)) : Except Err AnyG :=
  match ty with
  | .simple => (simpleOfNx N).map .simple
  | .digraph => (diOfNx N).map .di
  | .dag =>
    match diOfNx N with
    | .error e => .error e
    | .ok G => if G.stillDag then .ok (.di G) else .error .valueError
  | .bipartite => .error .runtimeError

/-- `BipartiteGraph.from_networkx`: NO relabelling by sorted label; each side is numbered in
node order.  `nodes` = (label, `bipartite` attribute) in node order, attribute `none` =
missing or not in `{0, 1, '0', '1'}`; `edges` in the orientation networkx reports. -/
def bipOfNx {α} [BEq α] (nodes : List (α × Option Bool)) (edges : List (α × α)) : Except Err BipG :=
  if nodes.any (fun p => p.2.isNone) then .error .valueError
  else
    let left := (nodes.filter (fun p => p.2 == some false)).map (·.1)
    let right := (nodes.filter (fun p => p.2 == some true)).map (·.1)
    edges.foldlM (fun g e =>
      let ucolor := !(left.contains e.1)     -- 0 if u in index[0] else 1
      let vcolor := right.contains e.2       -- 1 if v in index[1] else 0
      if ucolor == vcolor then .error .valueError
      else if !ucolor then g.addEdge (rank left e.1 : Nat) (rank right e.2 : Nat)
      else g.addEdge (rank left e.2 : Nat) (rank right e.1 : Nat))
      (BipG.init left.length right.length)

/-- `BaseBipartiteGraph.to_networkx`: nodes `1..l` (bipartite=0), `l+1..l+r` (bipartite=1),
edges `(u, v + l)` -/
def bipToNx (G : BipG) : List (Nat × Option Bool) × List (Nat × Nat) :=
  ((List.range G.l).map (fun i => (i + 1, some false)) ++
   (List.range G.r).map (fun j => (G.l + j + 1, some true)),
   G.edges.map (fun e => (e.1, e.2 + G.l)))

end Cnfgen.GraphFmt
