/-
L6 — GML files (C14): what `writeGraph(G, f, ty, 'gml')` writes and what `readGraph(f, ty, 'gml')`
reads, INCLUDING the part of networkx 3.6.1 (`networkx/readwrite/gml.py`) cnfgen runs through.
Import-free (no Mathlib); compiled into the driver.  Tied to the installed networkx by the
correspondence suites `gml_w`, `gml_p`, `gml_r` (harness/props/C14_gml.py).

WRITE   `G.to_networkx()` (nodes `1..n` first, then `add_edges_from(G.edges())`; bipartite: the
        `bipartite` node attribute, `v + l` for right vertices, `G.name`), `generate_gml` on such an
        object (`node_id` = position, `label "<int>"`, `directed 1`, `name "<escaped>"`, the edge
        order of `G.edges(data=True)`), `escape` (XML character references for every character
        outside `' '..'~'`, for `&` and for `"`), `write_gml` (a `\n` after every line) and cnfgen's
        `print(...)` (one more `\n`).
READ    the line iteration of the file object (`\n`-terminated lines, optionally after the
        universal-newline translation of a text-mode file), `line.encode('ascii')`, `read_gml`'s
        `filter_lines`, `parse_gml_lines`: `tokenize` (the seven regular expressions in their
        order, the multi-line string logic with its `line[-1]` on an empty line, `int()` with
        CPython's 4300-digit limit, EOF token), `parse_kv` / `parse_dict` / `parse_graph` (as a
        pushdown automaton over the LAZY token stream: an error of the tokenizer surfaces only when
        the parser pulls that token), `unescape`, the `"()"` / `"[]"` special strings,
        `clean_dict_value` (`_networkx_list_start`), then the graph construction (`directed`,
        `multigraph`, `node` / `edge` lists, `id` / `source` / `target`, duplicate and undefined
        nodes, duplicate edges, the keyword-argument clash of `add_node(id, **node)` /
        `add_edge(u, v, **edge)`), with `label='id'` and no destringizer — the way cnfgen calls it.
        After that cnfgen's own part: `normalize` (type test), `normalize_networkx_labels`
        (`sorted()` of the labels, `TypeError` for mixed labels → insertion order), the relabelling
        copy, `from_networkx` (the exact `add_edge` sequence; `BipartiteGraph.from_networkx` without
        relabelling), the `except` clauses of `readGraph`, the `is_dag` test.

The model is TOTAL and never guesses: where the outcome depends on something that is not modelled
it answers `Res.unmodelled` (the harness does not compare there).  Not modelled: the VALUE of a float
(`real` token) where it matters (`directed`, `multigraph`, `id`, `source`, `target`, `bipartite`),
`multigraph` true, the empty tuple `"()"` as a node id, named character entities (`&amp;` …:
the 252-entry table of `html.entities`) and references to surrogate code points inside a string that
matters, nesting deeper than `maxDepth` (CPython's recursion limit lives there: beyond it `readGraph`
answers ValueError since 3609e15, below it the text is parsed; the limit itself is not modelled).
-/
import CnfgenModel.IO.GraphFmt
import CnfgenModel.Graph.NxBuild
namespace Cnfgen.Gml
open Cnfgen GraphLex GraphFmt

/-- the exception classes that occur below (raw, before `readGraph`'s `except` clauses) -/
inductive Exc where
  | networkx | typeError | indexError | valueError | unicodeEncode | attributeError
  deriving DecidableEq, Repr, Inhabited

def Exc.name : Exc → String
  | .networkx => "NetworkXError" | .typeError => "TypeError" | .indexError => "IndexError"
  | .valueError => "ValueError" | .unicodeEncode => "UnicodeEncodeError"
  | .attributeError => "AttributeError"

/-- outcome of a modelled computation -/
inductive Res (α : Type) where
  | ok (a : α)
  | err (e : Exc)
  | unmodelled
  deriving Repr, Inhabited

instance {α} [DecidableEq α] : DecidableEq (Res α) := fun a b =>
  match a, b with
  | .ok x, .ok y => if h : x = y then isTrue (by rw [h]) else isFalse (by intro h'; cases h'; exact h rfl)
  | .err x, .err y => if h : x = y then isTrue (by rw [h]) else isFalse (by intro h'; cases h'; exact h rfl)
  | .unmodelled, .unmodelled => isTrue rfl
  | .ok _, .err _ => isFalse (by intro h; cases h)
  | .ok _, .unmodelled => isFalse (by intro h; cases h)
  | .err _, .ok _ => isFalse (by intro h; cases h)
  | .err _, .unmodelled => isFalse (by intro h; cases h)
  | .unmodelled, .ok _ => isFalse (by intro h; cases h)
  | .unmodelled, .err _ => isFalse (by intro h; cases h)

def Res.bind {α β} (x : Res α) (f : α → Res β) : Res β :=
  match x with
  | .ok a => f a
  | .err e => .err e
  | .unmodelled => .unmodelled

instance : Monad Res where
  pure := Res.ok
  bind := Res.bind

def Res.mapErr {α} (f : Exc → Exc) : Res α → Res α
  | .ok a => .ok a
  | .err e => .err (f e)
  | .unmodelled => .unmodelled

/-! ## writer -/

/-- the networkx object `to_networkx()` builds: nodes inserted first (label, `bipartite`
attribute), edges as pairs of node POSITIONS in the order of the `add_edge` calls -/
structure NxOut where
  directed : Bool
  /-- `G.graph['name']` (set by `BaseBipartiteGraph.to_networkx` only) -/
  name : Option Str
  nodes : List (Nat × Option Bool)
  tedges : List (Nat × Nat)
  deriving Repr, DecidableEq, Inhabited

/-- `Graph.to_networkx` -/
def toNxSimple (G : SimpleG) : NxOut :=
  ⟨false, none, (List.range G.n).map (fun i => (i + 1, none)), G.edges.map (fun e => (e.1 - 1, e.2 - 1))⟩

/-- `DirectedGraph.to_networkx` -/
def toNxDi (G : DiG) : NxOut :=
  ⟨true, none, (List.range G.n).map (fun i => (i + 1, none)), G.edges.map (fun e => (e.1 - 1, e.2 - 1))⟩

/-- `BaseBipartiteGraph.to_networkx` -/
def toNxBip (name : Str) (G : BipG) : NxOut :=
  ⟨false, some name,
   (List.range G.l).map (fun i => (i + 1, some false)) ++ (List.range G.r).map (fun j => (G.l + j + 1, some true)),
   G.edges.map (fun e => (e.1 - 1, e.2 + G.l - 1))⟩

/-- `DiGraph.edges()` (`OutEdgeView`): nodes in order, successors in dict order -/
def diEdges (n : Nat) (tedges : List (Nat × Nat)) : List (Nat × Nat) :=
  (List.range n).flatMap (fun w => (Nx.dedup ((tedges.filter (fun e => e.1 == w)).map (·.2))).map (fun x => (w, x)))

/-- `G.edges()` of the networkx object, as pairs of positions -/
def nxEdges (directed : Bool) (n : Nat) (tedges : List (Nat × Nat)) : List (Nat × Nat) :=
  if directed then diEdges n tedges else (Nx.NxG.mk n tedges).edges

/-- `escape`: `re.sub('[^ -~]|[&"]', lambda m: '&#' + str(ord(m.group(0))) + ';', text)` -/
def escapeChar (c : Char) : Str :=
  if c.toNat < 32 ∨ 126 < c.toNat ∨ c = '&' ∨ c = '"' then
    '&' :: '#' :: (natStr c.toNat ++ [';'])
  else [c]

def escape (s : Str) : Str := s.flatMap escapeChar

def nodeLines (i : Nat) (p : Nat × Option Bool) : List Str :=
  ["  node [".toList, "    id ".toList ++ natStr i, "    label \"".toList ++ natStr p.1 ++ ['"']] ++
  (match p.2 with
   | none => []
   | some b => ["    bipartite ".toList ++ (if b then ['1'] else ['0'])]) ++
  ["  ]".toList]

def edgeLines (e : Nat × Nat) : List Str :=
  ["  edge [".toList, "    source ".toList ++ natStr e.1, "    target ".toList ++ natStr e.2, "  ]".toList]

def nodesLines : Nat → List (Nat × Option Bool) → List Str
  | _, [] => []
  | i, p :: ps => nodeLines i p ++ nodesLines (i + 1) ps

/-- `generate_gml(G)` for the objects above -/
def generateGml (X : NxOut) : List Str :=
  ["graph [".toList] ++
  (if X.directed then ["  directed 1".toList] else []) ++
  (match X.name with
   | none => []
   | some nm => ["  name \"".toList ++ escape nm ++ ['"']]) ++
  nodesLines 0 X.nodes ++
  (nxEdges X.directed X.nodes.length X.tedges).flatMap edgeLines ++
  ["]".toList]

/-- `write_gml` into the buffer (`line + "\n"` for every line), then `print(buffer, file=f)` -/
def gmlText (X : NxOut) : Str :=
  (generateGml X).flatMap (fun l => l ++ ['\n']) ++ ['\n']

/-- the networkx object `writeGraph` hands to `write_gml` -/
def toNx (name : Str) : AnyG → NxOut
  | .simple G => toNxSimple G
  | .di G => toNxDi G
  | .bip G => toNxBip name G

/-- the text `writeGraph(G, f, ty, 'gml')` writes (`name` = `G.name`, a `str`) -/
def writeGml (name : Str) (G : AnyG) : Str := gmlText (toNx name G)

/-! ## reader: lines -/

/-- the lines a file object yields, without their `\n` (`filter_lines` strips it) -/
def splitNL : Str → List Str
  | [] => []
  | c :: cs =>
    if c = '\n' then [] :: splitNL cs
    else match splitNL cs with
      | [] => [[c]]
      | l :: ls => (c :: l) :: ls

def isAscii (s : Str) : Bool := s.all (fun c => decide (c.toNat < 128))

/-! ## reader: tokens -/

inductive Tok where
  | key (s : Str)
  | real
  | int (z : Int)
  | str (s : Str)
  | lb
  | rb
  | eof
  /-- the tokenizer raises when the parser asks for this token -/
  | bad (e : Exc)
  deriving DecidableEq, Repr, Inhabited

def isAlpha (c : Char) : Bool := (65 ≤ c.toNat && c.toNat ≤ 90) || (97 ≤ c.toNat && c.toNat ≤ 122)
def isDigit (c : Char) : Bool := 48 ≤ c.toNat && c.toNat ≤ 57
def isWord (c : Char) : Bool := isAlpha c || isDigit c || c == '_'
/-- `\s` of `re` and `str.strip()` on ASCII text -/
def isWs (c : Char) : Bool := (9 ≤ c.toNat && c.toNat ≤ 13) || (28 ≤ c.toNat && c.toNat ≤ 32)
def isHex (c : Char) : Bool := isDigit c || (65 ≤ c.toNat && c.toNat ≤ 70) || (97 ≤ c.toNat && c.toNat ≤ 102)
def isSign (c : Char) : Bool := c == '+' || c == '-'

def lstrip (s : Str) : Str := s.dropWhile isWs
def rstrip (s : Str) : Str := (s.reverse.dropWhile isWs).reverse
def strip (s : Str) : Str := rstrip (lstrip s)

/- `maxStrDigits` (= 4300, `sys.get_int_max_str_digits()`) is the constant of `IO/Lex.lean`, exported by
`GraphLex`. -/

/-- optional sign removed -/
def dropSign : Str → Str
  | c :: r => if isSign c then r else c :: r
  | [] => []

/-- `(?:[Ee][+-]?[0-9]+)?` : what is left after the optional exponent -/
def dropExponent (s : Str) : Str :=
  match s with
  | c :: r =>
    if c == 'E' || c == 'e' then
      let r' := dropSign r
      if (r'.takeWhile isDigit).isEmpty then s else r'.dropWhile isDigit
    else s
  | [] => s

/-- `[+-]?(?:[0-9]*\.[0-9]+|[0-9]+\.[0-9]*|INF)(?:[Ee][+-]?[0-9]+)?` at the start of `s`:
the rest after the match -/
def matchReal (s : Str) : Option Str :=
  let s1 := dropSign s
  let d1 := s1.takeWhile isDigit
  match s1.dropWhile isDigit with
  | '.' :: r2 =>
    if !(r2.takeWhile isDigit).isEmpty then some (dropExponent (r2.dropWhile isDigit))
    else if !d1.isEmpty then some (dropExponent r2)
    else none
  | _ =>
    match s1 with
    | 'I' :: 'N' :: 'F' :: r => some (dropExponent r)
    | _ => none

/-- `[+-]?[0-9]+` at the start of `s`: (negative, digits, rest) -/
def matchInt (s : Str) : Option (Bool × Str × Str) :=
  let neg := match s with | c :: _ => c == '-' | [] => false
  let s1 := dropSign s
  let d := s1.takeWhile isDigit
  if d.isEmpty then none else some (neg, d, s1.dropWhile isDigit)

/-- `".*?"` at the start of `s` (`s` starts after the opening quote): content and rest -/
def matchString (s : Str) : Option (Str × Str) :=
  match s.dropWhile (fun c => c != '"') with
  | _ :: r => some (s.takeWhile (fun c => c != '"'), r)
  | [] => none

/-- one step of the `while pos < length` loop: the token (none for blanks and comments) and
the rest of the line; `none`: "cannot tokenize" -/
def tokStep (s : Str) : Option (Option Tok × Str) :=
  match s with
  | [] => none
  | c :: r =>
    if isAlpha c then some (some (.key (s.takeWhile isWord)), s.dropWhile isWord)
    else match matchReal s with
      | some rest => some (some .real, rest)
      | none =>
        match matchInt s with
        | some (neg, d, rest) =>
          if maxStrDigits < d.length then some (some (.bad .valueError), rest)
          else some (some (.int (if neg then -(digitsVal d : Int) else (digitsVal d : Int))), rest)
        | none =>
          if c == '"' then
            match matchString r with
            | some (content, rest) => some (some (.str content), rest)
            | none => none
          else if c == '[' then some (some .lb, r)
          else if c == ']' then some (some .rb, r)
          else if c == '#' then some (none, [])
          else if isWs c then some (none, s.dropWhile isWs)
          else none

/-- the tokens of one (logical) line; a failure ends the list with `bad` -/
def tokLine : Nat → Str → List Tok
  | _, [] => []
  | 0, _ :: _ => [.bad .networkx]
  | f + 1, s =>
    match tokStep s with
    | none => [.bad .networkx]
    | some (some (.bad e), _) => [.bad e]
    | some (some t, r) => t :: tokLine f r
    | some (none, r) => tokLine f r

def tokenizeLine (s : Str) : List Tok := tokLine s.length s

def endsBad : List Tok → Bool
  | [] => false
  | [.bad _] => true
  | _ :: ts => endsBad ts

def countQuotes (s : Str) : Nat := s.count '"'

/-- the `for line in lines` loop of `tokenize`: `pending` = `multilines` -/
def lexLines : Option (List Str) → List Str → List Tok
  | _, [] => [.eof]
  | pend, l :: ls =>
    if !isAscii l then [.bad .unicodeEncode]
    else match pend with
      | some ml =>
        match l.getLast? with
        | none => [.bad .indexError]
        | some c =>
          if c == '"' then
            let toks := tokenizeLine (GraphLex.join [' '] (ml ++ [strip l]))
            if endsBad toks then toks else toks ++ lexLines none ls
          else lexLines (some (ml ++ [strip l])) ls
      | none =>
        if countQuotes l == 1 && (strip l).head? != some '"' && (strip l).getLast? != some '"' then
          lexLines (some [rstrip l]) ls
        else
          let toks := tokenizeLine l
          if endsBad toks then toks else toks ++ lexLines none ls

/-- the token stream `parse_gml_lines` works on, for a file with the given text -/
def tokenize (universal : Bool) (text : Str) : List Tok :=
  lexLines none (splitNL (if universal then universalNL text else text))

/-! ## reader: `unescape` -/

inductive UnStr where
  | ok (s : Str)
  /-- contains a named entity or a reference to a surrogate: content not modelled -/
  | opaque
  /-- `int()` of more than 4300 digits: ValueError -/
  | fail
  deriving DecidableEq, Repr, Inhabited

def hexVal (s : Str) : Nat :=
  s.foldl (fun a c => a * 16 + (if isDigit c then c.toNat - 48 else if c.toNat ≤ 70 then c.toNat - 55 else c.toNat - 87)) 0

def isAlnum (c : Char) : Bool := isAlpha c || isDigit c

inductive Ref where
  | none                      -- no match at this `&`
  | named (rest : Str)
  | code (n : Nat) (len : Nat) (rest : Str)   -- character reference: value, length of the match after `&`
  | tooLong
  deriving Repr

/-- `&(?:[0-9A-Za-z]+|#(?:[0-9]+|x[0-9A-Fa-f]+));` at a `&`; `s` = what follows the `&` -/
def matchRef (s : Str) : Ref :=
  match s with
  | '#' :: r =>
    let d := r.takeWhile isDigit
    if !d.isEmpty then
      match r.dropWhile isDigit with
      | ';' :: rest => if maxStrDigits < d.length then .tooLong else .code (digitsVal d) (d.length + 2) rest
      | _ => .none
    else match r with
      | 'x' :: r2 =>
        let h := r2.takeWhile isHex
        if h.isEmpty then .none
        else match r2.dropWhile isHex with
          | ';' :: rest => .code (hexVal h) (h.length + 3) rest
          | _ => .none
      | _ => .none
  | _ =>
    let w := s.takeWhile isAlnum
    if w.isEmpty then .none
    else match s.dropWhile isAlnum with
      | ';' :: rest => .named rest
      | _ => .none

/-- `unescape(text)`; the fuel is the length of the text -/
def unescapeAux : Nat → Str → UnStr
  | _, [] => .ok []
  | 0, _ :: _ => .ok []
  | f + 1, c :: r =>
    let keep : UnStr → UnStr := fun x => match x with | .ok t => .ok (c :: t) | y => y
    if c == '&' then
      match matchRef r with
      | .none => keep (unescapeAux f r)
      | .named _ => .opaque
      | .tooLong => .fail
      | .code n len rest =>
        if 0xD800 ≤ n ∧ n ≤ 0xDFFF then .opaque
        else if 0x10FFFF < n then
          -- `chr` raises: the text of the reference is left unchanged
          match unescapeAux f rest with
          | .ok t => .ok (c :: (r.take len ++ t))
          | y => y
        else match unescapeAux f rest with
          | .ok t => .ok (Char.ofNat n :: t)
          | y => y
    else keep (unescapeAux f r)

def unescape (s : Str) : UnStr := unescapeAux s.length s

/-! ## reader: the parser -/

/-- a parsed GML value (`dict`: the raw key/value pairs in the order of the file) -/
inductive Val where
  | int (z : Int)
  | real
  | str (s : Str)
  /-- a string whose content is not modelled (never empty) -/
  | ostr
  /-- `"()"` -/
  | tuple0
  /-- `"[]"` -/
  | list0
  | dict (items : List (Str × Val))
  deriving Repr, Inhabited

def maxDepth : Nat := 100

structure Frame where
  key : Str
  items : List (Str × Val)    -- reversed
  deriving Repr, Inhabited

inductive Mode where
  | wantKey
  | wantVal (k : Str)
  deriving Repr, Inhabited

structure PState where
  stack : List Frame
  cur : List (Str × Val)      -- reversed
  mode : Mode
  /-- the next token is pulled inside `try … except Exception` (the id/label branch) -/
  guarded : Bool
  deriving Repr, Inhabited

inductive PRes where
  | run (s : PState)
  | done (top : List (Str × Val))
  | fail (e : Exc)
  | unmodelled
  deriving Repr, Inhabited

def specialKeys : List Str := ["id".toList, "label".toList, "source".toList, "target".toList]

def valOfString (s : Str) : Res Val :=
  match unescape s with
  | .fail => .err .valueError
  | .opaque => .ok .ostr
  | .ok t =>
    if t = "()".toList then .ok .tuple0
    else if t = "[]".toList then .ok .list0
    else .ok (.str t)

def PState.push (st : PState) (k : Str) (v : Val) (guarded : Bool) : PRes :=
  .run { st with cur := (k, v) :: st.cur, mode := .wantKey, guarded := guarded }

/-- one token of `parse_kv` / `parse_dict` / `parse_graph` -/
def step (st : PState) (t : Tok) : PRes :=
  match t with
  | .bad e => .fail (if st.guarded then .networkx else e)
  | _ =>
    match st.mode with
    | .wantKey =>
      match t with
      | .key k => .run { st with mode := .wantVal k, guarded := false }
      | .rb =>
        match st.stack with
        | fr :: rest => .run { stack := rest, cur := (fr.key, .dict st.cur.reverse) :: fr.items,
                               mode := .wantKey, guarded := false }
        | [] => .fail .networkx
      | .eof => if st.stack.isEmpty then .done st.cur.reverse else .fail .networkx
      | _ => .fail .networkx
    | .wantVal k =>
      match t with
      | .int z => st.push k (.int z) false
      | .real => st.push k .real false
      | .str s =>
        match valOfString s with
        | .ok v => st.push k v false
        | .err e => .fail e
        | .unmodelled => .unmodelled
      | .lb =>
        if maxDepth ≤ st.stack.length then .unmodelled
        else .run { stack := ⟨k, st.cur⟩ :: st.stack, cur := [], mode := .wantKey, guarded := false }
      | .key k2 =>
        if specialKeys.contains k then st.push k (.str k2) true
        else if k2 = "NAN".toList ∨ k2 = "INF".toList then st.push k .real false
        else .fail .networkx
      | .rb => if specialKeys.contains k then st.push k (.str [']']) true else .fail .networkx
      | _ => .fail .networkx

def runP : PState → List Tok → PRes
  | st, [] => .run st
  | st, t :: ts =>
    match step st t with
    | .run st' => runP st' ts
    | r => r

def initP : PState := ⟨[], [], .wantKey, false⟩

/-- the top-level dictionary `parse_graph` obtains from the token stream -/
def parseToks (toks : List Tok) : Res (List (Str × Val)) :=
  match runP initP toks with
  | .done top => .ok top
  | .fail e => .err e
  | .unmodelled => .unmodelled
  | .run _ => .err .networkx      -- a stream without EOF: does not occur

/-! ## reader: from the dictionary to the networkx graph -/

/-- the value of a key after `clean_dict_value` -/
inductive Field where
  | absent
  | one (v : Val)
  | many (vs : List Val)
  deriving Repr, Inhabited

def listStart : Str := "_networkx_list_start".toList

def isListStart : Val → Bool
  | .str s => s == listStart
  | _ => false

def lookup (items : List (Str × Val)) (k : Str) : Field :=
  match (items.filter (fun p => p.1 == k)).map (·.2) with
  | [] => .absent
  | [v] => .one v
  | v :: vs => if isListStart v then .many vs else .many (v :: vs)

def hasKey (items : List (Str × Val)) (k : Str) : Bool := items.any (fun p => p.1 == k)

/-- `bool(value)`; `none`: a float -/
def truthy : Field → Option Bool
  | .absent => some false
  | .many _ => some true
  | .one v =>
    match v with
    | .int z => some (z != 0)
    | .real => none
    | .str s => some (!s.isEmpty)
    | .ostr => some true
    | .tuple0 => some false
    | .list0 => some false
    | .dict items => some (!items.isEmpty)

/-- `x if isinstance(x, list) else [x]` for `graph.get(key, [])` -/
def Field.toList : Field → List Val
  | .absent => []
  | .one .list0 => []
  | .one v => [v]
  | .many vs => vs

/-- a node identifier of the parsed graph -/
inductive Label where
  | int (z : Int)
  | str (s : Str)
  deriving DecidableEq, Repr, Inhabited

/-- the value used as a node (`id`, `source`, `target`) -/
inductive NodeRef where
  | label (l : Label)
  | unhashable
  | other            -- hashable, but never a node here: the empty tuple
  | unknown          -- a float, or a string whose content is not modelled
  deriving Repr

def nodeRef : Field → NodeRef
  | .absent => .other
  | .many _ => .unhashable
  | .one v =>
    match v with
    | .int z => .label (.int z)
    | .str s => .label (.str s)
    | .real => .unknown
    | .ostr => .unknown
    | .tuple0 => .other
    | .list0 => .unhashable
    | .dict _ => .unhashable

/-- the `bipartite` attribute as `BipartiteGraph.from_networkx` reads it -/
inductive Colour where
  | left | right
  | invalid          -- missing, or not in `['0', 0, '1', 1]`
  | unknown          -- a float / an unmodelled string
  deriving DecidableEq, Repr, Inhabited

def colourOf : Field → Colour
  | .absent => .invalid
  | .many _ => .invalid
  | .one v =>
    match v with
    | .int z => if z = 0 then .left else if z = 1 then .right else .invalid
    | .str s => if s = ['0'] then .left else if s = ['1'] then .right else .invalid
    | .real => .unknown
    | .ostr => .unknown
    | _ => .invalid

/-- what `parse_gml_lines` returns (as far as cnfgen looks at it) -/
structure Parsed where
  directed : Bool
  labels : List Label
  colours : List Colour
  /-- the `add_edge` calls, as positions of the nodes -/
  tedges : List (Nat × Nat)
  name : Field
  deriving Repr, Inhabited

def nodeKwClash : List Str := ["self".toList, "node_for_adding".toList]
def edgeKwClash : List Str := ["self".toList, "u_of_edge".toList, "v_of_edge".toList]

/-- the `for i, node in enumerate(nodes)` loop -/
def addNodes : List Val → List Label → List Colour → Res (List Label × List Colour)
  | [], ls, cs => .ok (ls, cs)
  | v :: vs, ls, cs =>
    match v with
    | .dict items =>
      match lookup items "id".toList with
      | .absent => .err .networkx
      | f =>
        match nodeRef f with
        | .unhashable => .err .typeError
        | .unknown => .unmodelled
        | .other => .unmodelled
        | .label l =>
          if ls.contains l then .err .networkx
          else if nodeKwClash.any (hasKey items) then .err .typeError
          else addNodes vs (ls ++ [l]) (cs ++ [colourOf (lookup items "bipartite".toList)])
    | .list0 => .err .typeError
    | _ => .err .attributeError

/-- `source not in G` / `target not in G` (`Graph.__contains__` answers `False` for an unhashable
value: "undefined source") -/
def findNode (ls : List Label) : NodeRef → Res Nat
  | .unhashable => .err .networkx
  | .unknown => .unmodelled
  | .other => .err .networkx
  | .label l => if ls.contains l then .ok (ls.idxOf l) else .err .networkx

def hasEdge (directed : Bool) (es : List (Nat × Nat)) (s t : Nat) : Bool :=
  es.contains (s, t) || (!directed && es.contains (t, s))

/-- the `for i, edge in enumerate(edges)` loop (`multigraph` false) -/
def addEdges (directed : Bool) (ls : List Label) : List Val → List (Nat × Nat) → Res (List (Nat × Nat))
  | [], es => .ok es
  | v :: vs, es =>
    match v with
    | .dict items =>
      match lookup items "source".toList, lookup items "target".toList with
      | .absent, _ => .err .networkx
      | _, .absent => .err .networkx
      | fs, ft =>
        match findNode ls (nodeRef fs) with
        | .err e => .err e
        | .unmodelled => .unmodelled
        | .ok s =>
          match findNode ls (nodeRef ft) with
          | .err e => .err e
          | .unmodelled => .unmodelled
          | .ok t =>
            if hasEdge directed es s t then .err .networkx
            else if edgeKwClash.any (hasKey items) then .err .typeError
            else addEdges directed ls vs (es ++ [(s, t)])
    | .list0 => .err .typeError
    | _ => .err .attributeError

/-- `parse_gml_lines` after `parse_graph` -/
def buildGraph (top : List (Str × Val)) : Res Parsed :=
  match lookup top "graph".toList with
  | .absent => .err .networkx
  | .many _ => .err .networkx
  | .one .list0 => .err .networkx
  | .one (.dict g) =>
    match truthy (lookup g "directed".toList) with
    | none => .unmodelled
    | some directed =>
      match truthy (lookup g "multigraph".toList) with
      | none => .unmodelled
      | some true => .unmodelled
      | some false =>
        match addNodes (lookup g "node".toList).toList [] [] with
        | .err e => .err e
        | .unmodelled => .unmodelled
        | .ok (ls, cs) =>
          match addEdges directed ls (lookup g "edge".toList).toList [] with
          | .err e => .err e
          | .unmodelled => .unmodelled
          | .ok es => .ok ⟨directed, ls, cs, es, lookup g "name".toList⟩
  | .one _ => .err .attributeError

/-- `networkx.read_gml((line.encode('ascii') for line in f), label='id')` -/
def parseGml (universal : Bool) (text : Str) : Res Parsed :=
  match parseToks (tokenize universal text) with
  | .ok top => buildGraph top
  | .err e => .err e
  | .unmodelled => .unmodelled

/-! ## reader: cnfgen's part -/

def Label.le : Label → Label → Bool
  | .int a, .int b => decide (a ≤ b)
  | .str a, .str b => strLe a b
  | _, _ => true

def Label.isInt : Label → Bool
  | .int _ => true
  | .str _ => false

/-- `normalize_networkx_labels`: the new number of the node at every position.
`sorted(G.nodes())` raises `TypeError` exactly when integers and strings are mixed; then the
insertion order is used -/
def ranks (ls : List Label) : List Nat :=
  if ls.all Label.isInt || ls.all (fun l => !l.isInt) then
    let s := sortBy Label.le ls
    ls.map (fun l => rank s l)
  else (List.range ls.length).map (· + 1)

/-- the `add_edge` calls of `from_networkx` after `normalize_networkx_labels` (a relabelling copy:
`H.add_edges_from(G.edges(data=True))`, then `C.add_edges_from(H.edges())`) -/
def fromNxCalls (P : Parsed) : List (Nat × Nat) :=
  let n := P.labels.length
  let r := ranks P.labels
  (nxEdges P.directed n (nxEdges P.directed n P.tedges)).map (fun e => (r.getD e.1 0, r.getD e.2 0))

def liftE {α} : Except Err α → Res α
  | .ok a => .ok a
  | .error _ => .err .valueError      -- the graph classes raise ValueError only

def colourBool : Colour → Option Bool
  | .left => some false
  | .right => some true
  | _ => none

/-- `graph_class.normalize(G)` inside the `try` of `readGraph` -/
def normalize (ty : GType) (P : Parsed) : Res AnyG :=
  match ty with
  | .simple => (liftE (SimpleG.ofEdges P.labels.length (fromNxCalls P))).bind (fun g => .ok (.simple g))
  | .bipartite =>
    if P.colours.contains .unknown then .unmodelled
    else
      let nodes := (List.range P.labels.length).zip (P.colours.map colourBool)
      (liftE (bipOfNx nodes (nxEdges P.directed P.labels.length P.tedges))).bind (fun g => .ok (.bip g))
  | _ =>
    if !P.directed then .err .typeError
    else (liftE (DiG.ofEdges P.labels.length (fromNxCalls P))).bind (fun g => .ok (.di g))

/-- the `except` clauses of the gml branch of `readGraph`:
`except (networkx.NetworkXError, TypeError, IndexError, AttributeError, RecursionError)` (the last two
since 3609e15: networkx calls `.pop` on a non-dictionary `graph` / `node` / `edge` value — AttributeError,
former defect D43; RecursionError, former D44, lives beyond `maxDepth`) and `except UnicodeEncodeError` -/
def cnfgenCatch : Exc → Exc
  | .networkx => .valueError
  | .typeError => .valueError
  | .indexError => .valueError
  | .attributeError => .valueError
  | .unicodeEncode => .valueError
  | .valueError => .valueError

/-- the clauses before 3609e15 (kept for the regression statements) -/
def cnfgenCatchOld : Exc → Exc
  | .attributeError => .attributeError
  | e => cnfgenCatch e

/-- `G.name` of the object returned (`C.name = G.name`; the default is `''`) -/
def nameOf (P : Parsed) : Field :=
  match P.name with
  | .absent => .one (.str [])
  | f => f

/-- `readGraph(f, ty, 'gml')` for a file with the given text (`universal`: a text-mode file,
which translates `\r\n` and `\r`; `false`: an `io.StringIO`) -/
def readGml (universal : Bool) (ty : GType) (text : Str) : Res (AnyG × Field) :=
  match (parseGml universal text).bind (fun P => (normalize ty P).bind (fun G => .ok (G, nameOf P))) with
  | .err e => .err (cnfgenCatch e)
  | .unmodelled => .unmodelled
  | .ok (G, nm) =>
    match ty, G with
    | .dag, .di g => if g.stillDag then .ok (G, nm) else .err .valueError
    | _, _ => .ok (G, nm)

end Cnfgen.Gml
