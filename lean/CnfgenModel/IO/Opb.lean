/-
L6 (ii) — OPB writer (`cnfgen/utils/opb.py: to_opb_file`) and an independent strict OPB reader.

* `renderOpbTextCNF` / `renderOpbText` : the text written for a CNF (every clause as `+1 l … >= 1`)
  and for a pseudo-Boolean formula (`{:+} x{}` terms, `>=` iff the stored operator is `>=`, else `=`).
* `renderOpbCNF` / `renderOpb` : the same as token rows (one row per physical line; comment
  chunks go through the lexer, exactly as in `Dimacs.lean`).
* `readOpb` : NOT a model of cnfgen code (cnfgen has no OPB reader).  It is the specification-side
  reader of property C12: first row `* #variable= n #constraint= m`, then comment rows (`*…`)
  and constraint rows `c x|~x … >=|= d`, variables within `1..n`, exactly `m` constraints;
  anything else is rejected.
Import-free.
-/
import CnfgenModel.Core.Sem
import CnfgenModel.IO.Lex
import CnfgenModel.IO.Dimacs
namespace Cnfgen.IO

def varnameXWord : Str := "varname x".toList

/-- `"* varname x{0} {1}\n".format(varid, label)` -/
def opbVarnameLine (p : Nat × Str) : Str :=
  '*' :: ' ' :: (varnameXWord ++ natStr p.1 ++ [' '] ++ flatLabel p.2) ++ ['\n']

def opbCommentChunks (hdr : Option Header) (names : Option (List Str)) : List Str :=
  (match hdr with
    | some h => h.flatMap (headerLines ['*', ' ']) ++ [['*', '\n']]
    | none => []) ++
  (match names with
    | some ns => (enum1 ns).map opbVarnameLine ++ [['*', '\n']]
    | none => [])

/-- `"x{}".format(l)` if `l >= 0` else `"~x{}".format(-l)` -/
def opbLitText (l : Int) : Str :=
  if l ≥ 0 then 'x' :: intStr l else '~' :: 'x' :: intStr (-l)

def opbSpecText (n m : Nat) : Str :=
  "* #variable= ".toList ++ natStr n ++ " #constraint= ".toList ++ natStr m ++ ['\n']

/-- branch `isinstance(formula, BaseCNF)` -/
def opbClauseText (c : Clause) : Str :=
  c.flatMap (fun l => "+1 ".toList ++ opbLitText l ++ [' ']) ++ ">= 1\n".toList

/-- `op = ">=" if lin[-2]==">=" else "="` -/
def opbOpText (o : Op) : Str := if o = .ge then ">=".toList else "=".toList

/-- branch `isinstance(formula, BaseOPB)` -/
def opbConstraintText (c : PBC) : Str :=
  c.terms.flatMap (fun t => intStrPlus t.1 ++ [' '] ++ opbLitText t.2 ++ [' ']) ++
  opbOpText c.op ++ [' '] ++ intStr c.rhs ++ ['\n']

def renderOpbTextCNF (F : CNF) (hdr : Option Header) (names : Option (List Str)) : Str :=
  opbSpecText F.nvars F.clauses.length ++ (opbCommentChunks hdr names).flatten ++
  F.clauses.flatMap opbClauseText

def renderOpbText (G : OPB) (hdr : Option Header) (names : Option (List Str)) : Str :=
  opbSpecText G.nvars G.constraints.length ++ (opbCommentChunks hdr names).flatten ++
  G.constraints.flatMap opbConstraintText

/-! token rows -/

def opbSpecRow (n m : Nat) : Row :=
  [.word ['*'], .word "#variable=".toList, .int n, .word "#constraint=".toList, .int m]

def opbLitTok (l : Int) : Tok := .xvar (decide (l < 0)) l.natAbs

def opbClauseRow (c : Clause) : Row :=
  c.flatMap (fun l => [.int 1, opbLitTok l]) ++ [.word ">=".toList, .int 1]

def opbConstraintRow (c : PBC) : Row :=
  c.terms.flatMap (fun t => [.int t.1, opbLitTok t.2]) ++ [.word (opbOpText c.op), .int c.rhs]

def opbCommentRows (u : Bool) (hdr : Option Header) (names : Option (List Str)) : List Row :=
  (opbCommentChunks hdr names).flatMap (lex u)

def renderOpbCNF (u : Bool) (F : CNF) (hdr : Option Header) (names : Option (List Str)) : List Row :=
  opbSpecRow F.nvars F.clauses.length :: (opbCommentRows u hdr names ++ F.clauses.map opbClauseRow)

def renderOpb (u : Bool) (G : OPB) (hdr : Option Header) (names : Option (List Str)) : List Row :=
  opbSpecRow G.nvars G.constraints.length :: (opbCommentRows u hdr names ++ G.constraints.map opbConstraintRow)

/-! ### the independent strict reader -/

def opbIsComment : Row → Bool
  | .word (c :: _) :: _ => c = '*'
  | _ => false

/-- `(c x | c ~x)* (>= | =) d` with every variable in `1..n` -/
def readConstraint (n : Nat) : Row → Except Err PBC
  | [.word w, .int d] =>
    if w = ">=".toList then .ok ⟨[], .ge, d⟩
    else if w = "=".toList then .ok ⟨[], .eq, d⟩
    else .error .valueError
  | .int c :: .xvar neg v :: rest =>
    if 1 ≤ v ∧ v ≤ n then
      match readConstraint n rest with
      | .ok p => .ok { p with terms := (c, if neg then -(v : Int) else (v : Int)) :: p.terms }
      | .error e => .error e
    else .error .valueError
  | _ => .error .valueError

def readOpb (rows : List Row) : Except Err (Nat × List PBC) :=
  match rows with
  | [.word s, .word v, .int n, .word k, .int m] :: rest =>
    if s = ['*'] ∧ v = "#variable=".toList ∧ k = "#constraint=".toList ∧ 0 ≤ n ∧ 0 ≤ m then
      match (rest.filter (fun r => !opbIsComment r)).mapM (readConstraint n.toNat) with
      | .ok cs => if cs.length = m.toNat then .ok (n.toNat, cs) else .error .valueError
      | .error e => .error e
    else .error .valueError
  | _ => .error .valueError

def readOpbText (u : Bool) (s : Str) : Except Err (Nat × List PBC) := readOpb (lex u s)

end Cnfgen.IO
