/-
L7 — the random generator as an explicit input.

A `Draw` is the record of ONE call of a function of Python's `random` module made by the
code under test: the request (population size, bounds, …) together with the answer, in call
order.  Every in-house sampler is a pure function of a list of draws (the future of the
generator).  The harness records the draws of a real run through a proxy and replays them.

* a model primitive (`sample`, `choice`, `randint`, …) consumes the next draw; it fails with
  `RErr.outOfDraws` if there is none and with `RErr.mismatch` if the recorded request is not
  the request the model makes at that point (then the list cannot have come from this program);
* `Draw.Legal` is the ONLY thing assumed about Python's generator (the documented contract of
  each function); theorems quantify over all `Legal` draw lists;
* the primitives raise the Python exception the real function raises on a bad request
  (`random.sample` with `k > len(pop)`: ValueError; `random.choice([])`: IndexError;
  `randint(a,b)` with `a > b`: ValueError) — without consuming a draw.

Import-free (compiled into the native driver).
-/
import CnfgenModel.Core.Sem
namespace Cnfgen.Rand

inductive Draw where
  /-- `random.sample(pop, k)` with `len(pop) = popLen`: the chosen POSITIONS of `pop`, in the order returned -/
  | sample (popLen k : Nat) (idx : List Nat)
  /-- `random.choice(seq)` with `len(seq) = len`: the chosen position -/
  | choice (len i : Nat)
  /-- `random.randint(a, b)` -/
  | randint (a b v : Int)
  /-- `random.random()`: the float `num / 2^53` -/
  | random (num : Nat)
  /-- `random.shuffle(x)` with `len(x) = len`: afterwards `x[i] = old x[perm[i]]` -/
  | shuffle (len : Nat) (perm : List Nat)
  /-- `random.getrandbits(k)` -/
  | getrandbits (k v : Nat)
  deriving DecidableEq, Repr, Inhabited

/-- the documented contract of Python's `random` functions -/
def Draw.Legal : Draw → Prop
  | .sample n k idx => idx.length = k ∧ idx.Nodup ∧ ∀ i ∈ idx, i < n
  | .choice len i => i < len
  | .randint a b v => a ≤ v ∧ v ≤ b
  | .random num => num < 2 ^ 53
  | .shuffle len perm => perm.length = len ∧ perm.Nodup ∧ ∀ i ∈ perm, i < len
  | .getrandbits k v => v < 2 ^ k

instance : DecidablePred Draw.Legal := fun d => by
  cases d <;> unfold Draw.Legal <;> infer_instance

/-- every recorded answer respects the contract of the function that produced it -/
def Legal (ds : List Draw) : Prop := ∀ d ∈ ds, d.Legal

instance : DecidablePred Legal := fun ds => by unfold Legal; infer_instance

/-- outcome kinds of a model run: a Python exception, or one of the two distinguished
errors that say "this draw list is not a complete recording of a run of this program" -/
inductive RErr where
  | py (e : Err)
  | outOfDraws
  | mismatch
  deriving DecidableEq, Repr, Inhabited

def RErr.name : RErr → String
  | .py e => e.name
  | .outOfDraws => "OutOfDraws"
  | .mismatch => "DrawMismatch"

/-- state monad over the remaining draws (= the state of the generator) -/
def RandM (α : Type) : Type := List Draw → Except RErr (α × List Draw)

namespace RandM
@[inline] protected def pure {α} (a : α) : RandM α := fun ds => .ok (a, ds)
@[inline] protected def bind {α β} (x : RandM α) (f : α → RandM β) : RandM β := fun ds =>
  match x ds with
  | .error e => .error e
  | .ok (a, ds') => f a ds'
instance : Monad RandM where
  pure := RandM.pure
  bind := RandM.bind
/-- raise a Python exception -/
def raise {α} (e : Err) : RandM α := fun _ => .error (.py e)
/-- lift a pure computation that may raise -/
def lift {α} : Except Err α → RandM α
  | .ok a => pure a
  | .error e => raise e
end RandM

/-- `random.sample(pop, k)`, `popLen = len(pop)`: the chosen positions -/
def sample (popLen k : Nat) : RandM (List Nat) := fun ds =>
  if popLen < k then .error (.py .valueError)
  else match ds with
    | [] => .error .outOfDraws
    | .sample n' k' idx :: rest => if n' = popLen ∧ k' = k then .ok (idx, rest) else .error .mismatch
    | _ :: _ => .error .mismatch

/-- `random.choice(seq)`, `len = len(seq)`: the chosen position -/
def choice (len : Nat) : RandM Nat := fun ds =>
  if len = 0 then .error (.py .indexError)
  else match ds with
    | [] => .error .outOfDraws
    | .choice len' i :: rest => if len' = len then .ok (i, rest) else .error .mismatch
    | _ :: _ => .error .mismatch

/-- `random.randint(a, b)` -/
def randint (a b : Int) : RandM Int := fun ds =>
  if b < a then .error (.py .valueError)
  else match ds with
    | [] => .error .outOfDraws
    | .randint a' b' v :: rest => if a' = a ∧ b' = b then .ok (v, rest) else .error .mismatch
    | _ :: _ => .error .mismatch

/-- `random.random()`; numerator over `2^53` -/
def random : RandM Nat := fun ds =>
  match ds with
  | [] => .error .outOfDraws
  | .random num :: rest => .ok (num, rest)
  | _ :: _ => .error .mismatch

/-- `random.shuffle(x)`, `len = len(x)`: the permutation applied -/
def shuffle (len : Nat) : RandM (List Nat) := fun ds =>
  match ds with
  | [] => .error .outOfDraws
  | .shuffle len' perm :: rest => if len' = len then .ok (perm, rest) else .error .mismatch
  | _ :: _ => .error .mismatch

/-- `random.getrandbits(k)` -/
def getrandbits (k : Nat) : RandM Nat := fun ds =>
  match ds with
  | [] => .error .outOfDraws
  | .getrandbits k' v :: rest => if k' = k then .ok (v, rest) else .error .mismatch
  | _ :: _ => .error .mismatch

/-- the elements of `pop` at the sampled positions -/
def sampleFrom {α} (pop : List α) (k : Nat) (dflt : α) : RandM (List α) := do
  let idx ← sample pop.length k
  pure (idx.map (fun i => pop.getD i dflt))

/-- `random.choice(seq)` as an element -/
def choiceFrom {α} (seq : List α) (dflt : α) : RandM α := do
  let i ← choice seq.length
  pure (seq.getD i dflt)

/-- `random.seed(s)` when `seed is not None`: the generator state becomes a function of `s`
only (`σ s`), whatever it was before. -/
def reseed (σ : Int → List Draw) (seed : Option Int) : RandM Unit := fun rng =>
  match seed with
  | some s => .ok ((), σ s)
  | none => .ok ((), rng)

/-- insertion sort = `sorted(...)` on integers -/
def insertSorted (x : Int) : List Int → List Int
  | [] => [x]
  | y :: ys => if x ≤ y then x :: y :: ys else y :: insertSorted x ys

def isort : List Int → List Int
  | [] => []
  | x :: xs => insertSorted x (isort xs)

/-- `range(1, n+1)` -/
def vars (n : Nat) : List Int := (List.range n).map (fun (i : Nat) => (i : Int) + 1)

/-- `sys.maxsize` (64-bit CPython): `random.sample` refuses a population longer than this -/
abbrev sysMaxsize : Nat := 2 ^ 63 - 1

/-- `while len(chosen) < k: chosen.add(random.randint(1, n))` of `sample_variables` (branch
`n > sys.maxsize`).  The loop has no bound of its own: every iteration consumes one draw, so the
recursion is over the draw list (no draw left = `outOfDraws`).  `chosen` (a set in the code) is kept
in insertion order, newest first; a repeated value is simply not added. -/
def rejectVars (k n : Nat) : List Int → RandM (List Int)
  | chosen, [] => if chosen.length < k then .error .outOfDraws else .ok (chosen, [])
  | chosen, d :: rest =>
    if chosen.length < k then
      match d with
      | .randint a b v =>
        if a = 1 ∧ b = (n : Int) then rejectVars k n (if chosen.contains v then chosen else v :: chosen) rest
        else .error .mismatch
      | _ => .error .mismatch
    else .ok (chosen, d :: rest)

/-- `sample_variables(n, k)`: `sorted(random.sample(range(1, n+1), k))` when `n <= sys.maxsize`;
otherwise `k > n` ⇒ ValueError, else distinct `randint(1, n)` answers collected in a set until
there are `k`, sorted -/
def drawVars (k n : Nat) : RandM (List Int) :=
  if n ≤ sysMaxsize then do
    let idx ← sample n k
    pure (isort (idx.map (fun (i : Nat) => (i : Int) + 1)))
  else if n < k then RandM.raise .valueError
  else do
    let chosen ← rejectVars k n []
    pure (isort chosen)

end Cnfgen.Rand
