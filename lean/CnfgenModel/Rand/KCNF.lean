/-
L7 — `cnfgen/families/randomformulas.py` (RandomKCNF, sample_clauses, all_clauses,
clause_satisfied) and the `randkcnf [-p]` helper of `clihelpers/simple_helpers.py`.
Import-free.
-/
import CnfgenModel.Rand.Draws
import CnfgenModel.Core.Iter
import CnfgenModel.Build.Constr
namespace Cnfgen.Rand

/-- `clause_satisfied(cls, assignments)`: every assignment (a list of literals) contains
some literal of the clause -/
def clauseSatisfied (c : Clause) (planted : List (List Int)) : Bool :=
  planted.all (fun a => c.any (fun l => a.contains l))

/-- `[p*v for p,v in zip(polarity,domain)]` -/
def signed (pol dom : List Int) : Clause := List.zipWith (· * ·) pol dom

/-- `all_clauses(k, n, planted)`: the dense enumeration, in the generator's order -/
def allClauses (k n : Nat) (planted : List (List Int)) : List Clause :=
  (combos (vars n) k).flatMap fun dom =>
    ((productRep [-1, 1] k).map (fun pol => signed pol dom)).filter (fun c => clauseSatisfied c planted)

/-- `[v*random.choice([1, -1]) for v in selection]` -/
def signClause : List Int → RandM Clause
  | [] => pure []
  | v :: vs => do
    let s ← choiceFrom [1, -1] 1
    let rest ← signClause vs
    pure (v * s :: rest)

/-- one candidate of the rejection loop -/
def drawClause (k n : Nat) : RandM Clause := do
  let sel ← drawVars k n
  signClause sel

/-- the `while len(clauses) < m and t < 10*m` loop; `fuel = 10*m - t`.  `sampled` (a set of
tuples) and `clauses` (a list) always hold the same clauses, so one list models both. -/
def sparseLoop (k n m : Nat) (planted : List (List Int)) : Nat → List Clause → RandM (List Clause)
  | 0, acc => pure acc
  | fuel + 1, acc =>
    if acc.length < m then do
      let cls ← drawClause k n
      if acc.contains cls then sparseLoop k n m planted fuel acc
      else if !clauseSatisfied cls planted then sparseLoop k n m planted fuel acc
      else sparseLoop k n m planted fuel (acc ++ [cls])
    else pure acc

/-- the dense sampling at the end of `sample_clauses`.  `itertools.combinations(range(1, n+1), k)`
builds `tuple(range(1, n+1))` first: beyond `sys.maxsize` elements that is an OverflowError
("Python int too large to convert to C ssize_t"), raised by `list(all_clauses(...))` before
anything is enumerated (for every `k`, `k = 0` included). -/
def denseClauses (k n m : Nat) (planted : List (List Int)) : RandM (List Clause) :=
  if sysMaxsize < n then RandM.raise .overflowError
  else
    let fullset := allClauses k n planted
    if fullset.length < m then RandM.raise .valueError
    else sampleFrom fullset m []

/-- the retry budget `10 * m` of `sample_clauses` -/
def retryBudget (m : Nat) : Nat := 10 * m

/-- `sample_clauses(k, n, m, planted_assignments)` -/
def sampleClauses (k n m : Nat) (planted : List (List Int)) : RandM (List Clause) := do
  let clauses ← sparseLoop k n m planted (retryBudget m) []
  if clauses.length = m then pure clauses
  else denseClauses k n m planted

/-- `RandomKCNF(k, n, m, seed, planted_assignments)` after the `non_negative_int` checks.
`σ` is what `random.seed` does (unknown, but a function of the seed only).
`except ValueError: raise ValueError(...)` keeps the kind, so errors pass unchanged. -/
def randomKCNF (σ : Int → List Draw) (k n m : Nat) (seed : Option Int) (planted : List (List Int)) :
    RandM Formula := do
  reseed σ seed
  if n < k then RandM.raise .valueError
  else
    let cls ← sampleClauses k n m planted
    pure { nvars := n, cons := cls.map Con.clause }

/-- `RandomKCNF` on arbitrary integers: `non_negative_int(n), (m), (k)` come first -/
def randomKCNFInt (σ : Int → List Draw) (k n m : Int) (seed : Option Int) (planted : List (List Int)) :
    RandM Formula :=
  if n < 0 ∨ m < 0 ∨ k < 0 then RandM.raise .valueError
  else randomKCNF σ k.toNat n.toNat m.toNat seed planted

/-- `[random.choice([-1,1])*v for v in range(1,n+1)]` of the `--plant` option -/
def plantFrom : List Int → RandM (List Int)
  | [] => pure []
  | v :: vs => do
    let s ← choiceFrom [-1, 1] 1
    let rest ← plantFrom vs
    pure (s * v :: rest)

def plantAssignment (n : Nat) : RandM (List Int) := plantFrom (vars n)

/-- `RandCmdHelper.build_formula` (`cnfgen randkcnf [-p] k n m`) -/
def cliRandKCNF (plant : Bool) (k n m : Nat) : RandM Formula := do
  if plant then
    let a ← plantAssignment n
    randomKCNF (fun _ => []) k n m none [a]
  else randomKCNF (fun _ => []) k n m none []

end Cnfgen.Rand
