/-
L7 — random draws as explicit inputs, for the graph samplers of cnfgen/graphs.py and
cnfgen/clitools/graph_build.py.  Import-free (self-contained; `Rand/Draws.lean` of the k-CNF
samplers is a separate file, to be unified by the coordinator).

A `Draw` is the return value of ONE call of a function of Python's `random` module made by the
code under test, in call order.  A sampler of the model is a function of the list of draws still
to be consumed (`RM`), and has four kinds of outcome:

* `ok a rest`  — the code returns `a`; `rest` are the draws it did not consume;
* `exc e`      — the code raises the Python exception `e`;
* `foreign`    — the code lets an exception of a third-party library escape (networkx);
* `stuck`      — the draw list is not a legal record of this run: it is exhausted, the next draw
                 is of another kind than the call the code makes, or it violates the ONLY
                 assumptions made about Python's generator:
                   `random.sample(pop, k)`  = `k` members of `pop` at distinct positions
                                              (distinct values when `pop` has no repeats),
                   `random.randint(a, b)`   ∈ [a, b],
                   `random.random()`        = `num / 2^53` with `num < 2^53`.
So "for ALL legal draws" is "for all draw lists on which the run is not `stuck`", and a theorem
`run ds = ok G rest → P G` is a statement about every outcome of the generator.
-/
import CnfgenModel.Core.Sem
namespace Cnfgen.GRand
open Cnfgen

inductive Draw where
  /-- `random.sample(population of integers, k)` -/
  | sample (l : List Nat)
  /-- `random.sample(list of pairs, k)` -/
  | samplePairs (l : List (Nat × Nat))
  /-- `random.randint(a, b)` -/
  | randint (v : Int)
  /-- `random.random()` as the numerator of `num / 2^53` -/
  | unit (num : Nat)
  deriving Repr, DecidableEq, Inhabited

inductive Out (α : Type) where
  | ok (a : α) (rest : List Draw)
  | exc (e : Err)
  /-- an exception class of a third-party library escapes (`networkx.NetworkXError`) -/
  | foreign
  | stuck
  deriving Repr, Inhabited

abbrev RM (α : Type) := List Draw → Out α

namespace RM
@[inline] def pure {α} (a : α) : RM α := fun ds => .ok a ds
@[inline] def bind {α β} (x : RM α) (f : α → RM β) : RM β := fun ds =>
  match x ds with
  | .ok a rest => f a rest
  | .exc e => .exc e
  | .foreign => .foreign
  | .stuck => .stuck
instance : Monad RM where
  pure := RM.pure
  bind := RM.bind
/-- raise a Python exception -/
def raise {α} (e : Err) : RM α := fun _ => .exc e
/-- lift a pure computation that may raise -/
def lift {α} : Except Err α → RM α
  | .ok a => RM.pure a
  | .error e => raise e
end RM

/-- 2^53: `random.random()` returns a multiple of 2^-53 in [0, 1) -/
def unitDen : Nat := 9007199254740992

def distinctNat : List Nat → Bool
  | [] => true
  | x :: xs => !xs.contains x && distinctNat xs

def distinctPairs : List (Nat × Nat) → Bool
  | [] => true
  | x :: xs => !xs.contains x && distinctPairs xs

/-- `random.sample(pop, k)` for a sequence of distinct integers (`range`): `ValueError` unless
`0 ≤ k ≤ len(pop)`; otherwise the next draw, which must be `k` distinct members of `pop` -/
def sample (pop : List Nat) (k : Int) : RM (List Nat) := fun ds =>
  if k < 0 ∨ (pop.length : Int) < k then .exc .valueError
  else match ds with
    | .sample l :: rest =>
      if (l.length : Int) = k ∧ distinctNat l = true ∧ l.all (pop.contains ·) = true then .ok l rest else .stuck
    | _ => .stuck

/-- `random.sample(pop, k)` for a list of distinct pairs -/
def samplePairs (pop : List (Nat × Nat)) (k : Int) : RM (List (Nat × Nat)) := fun ds =>
  if k < 0 ∨ (pop.length : Int) < k then .exc .valueError
  else match ds with
    | .samplePairs l :: rest =>
      if (l.length : Int) = k ∧ distinctPairs l = true ∧ l.all (pop.contains ·) = true then .ok l rest else .stuck
    | _ => .stuck

/-- `random.sample(generator, k)`: Python ≥ 3.11 raises `TypeError` ("Population must be a
sequence") before looking at anything else -/
def sampleFromGenerator {α} : RM α := RM.raise .typeError

/-- `random.randint(a, b)`: `ValueError` (empty range) when `a > b` -/
def randint (a b : Int) : RM Int := fun ds =>
  if b < a then .exc .valueError
  else match ds with
    | .randint v :: rest => if a ≤ v ∧ v ≤ b then .ok v rest else .stuck
    | _ => .stuck

/-- `random.random()`, as a numerator over 2^53 -/
def random : RM Nat := fun ds =>
  match ds with
  | .unit num :: rest => if num < unitDen then .ok num rest else .stuck
  | _ => .stuck

/-- `x <= p` for `x = num/2^53` and the float `p = pn/pd` (exact value of the float, `pd > 0`) -/
def unitLe (num : Nat) (pn : Int) (pd : Nat) : Bool := (num : Int) * (pd : Int) ≤ pn * (unitDen : Int)
/-- `x < p` -/
def unitLt (num : Nat) (pn : Int) (pd : Nat) : Bool := (num : Int) * (pd : Int) < pn * (unitDen : Int)

end Cnfgen.GRand
