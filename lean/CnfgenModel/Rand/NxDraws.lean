/-
L7 — the random networkx generators that cnfgen calls (`obtain_gnp` with t = 1:
`networkx.gnp_random_graph(n, p)` — NOT `fast_gnp_random_graph`; `obtain_gnm`:
`networkx.gnm_random_graph(n, m)`; `obtain_gnd`: `networkx.random_regular_graph(d, n)`), as functions of
the list of draws they request.  Import-free.

networkx's `@py_random_state` decorator turns `seed=None` into `random._inst`, the instance behind
the functions of Python's `random` module (the harness checks the identity on every run), so these
draws come from the same stream as cnfgen's own.  A `NxDraw` is the return value of ONE call made by
networkx:

* `unit num`   — `seed.random()` = `num / 2^53`, `num < 2^53`;
* `choice i`   — `seed.choice(nlist)` where `nlist = list(G)` = `[0, …, n-1]`: the member `i`, `i < n`;
* `shuffle before after` — `seed.shuffle(stubs)`: the list handed in and the list afterwards; legal iff
  `before` is the list the model has at that point and `after` is a rearrangement of it.

Outcome `stuck`: the list is not a legal record of the run (exhausted, wrong kind, out of range).
"For every legal draw list" = "for every list on which the run is `ok`".
Version modelled: networkx 3.6.1 (tied by the correspondence suites `nx_gnp`, `nx_gnm`).
-/
import CnfgenModel.Graph.NxBuild
namespace Cnfgen.Nx
open Cnfgen

inductive NxDraw where
  | unit (num : Nat)
  | choice (i : Nat)
  | shuffle (before after : List Nat)
  deriving Repr, DecidableEq, Inhabited

inductive NxOut (α : Type) where
  | ok (a : α) (rest : List NxDraw)
  | stuck
  deriving Repr, Inhabited

/-- 2^53 -/
def unitDen : Nat := 9007199254740992

/-- `x < p` for `x = num / 2^53` and the float `p = pn / pd` (its exact value, `pd > 0`) -/
def unitLt (num : Nat) (pn : Int) (pd : Nat) : Bool := (num : Int) * (pd : Int) < pn * (unitDen : Int)

/-- `for e in combinations(range(n), 2): if seed.random() < p: G.add_edge(*e)` over the remaining
pairs: the chosen pairs, in order -/
def gnpLoop (pn : Int) (pd : Nat) : List (Nat × Nat) → List NxDraw → NxOut (List (Nat × Nat))
  | [], ds => .ok [] ds
  | e :: es, .unit num :: ds =>
    if num < unitDen then
      match gnpLoop pn pd es ds with
      | .ok l rest => .ok (if unitLt num pn pd then e :: l else l) rest
      | .stuck => .stuck
    else .stuck
  | _ :: _, _ => .stuck

/-- `networkx.gnp_random_graph(n, p)` for `p = pn / pd`:
`if p >= 1: return complete_graph(n)`; `if p <= 0: return empty_graph(n)`; else one draw per pair -/
def gnpGraph (n : Nat) (pn : Int) (pd : Nat) : List NxDraw → NxOut NxG := fun ds =>
  if (pd : Int) ≤ pn then .ok (completeGraph n) ds
  else if pn ≤ 0 then .ok (emptyGraph n) ds
  else match gnpLoop pn pd (allPairs n) ds with
    | .ok l rest => .ok ⟨n, l⟩ rest
    | .stuck => .stuck

/-- `G.has_edge(u, v)` on the time-ordered edge list -/
def hasEdge (te : List (Nat × Nat)) (u v : Nat) : Bool := te.contains (u, v) || te.contains (v, u)

/-- the `while edge_count < m` loop of `gnm_random_graph`: two `choice` draws per round (both are
made before the test), a loop or a present edge is skipped; `edge_count` is the length of the list -/
def gnmLoop (n m : Nat) : List (Nat × Nat) → List NxDraw → NxOut (List (Nat × Nat))
  | te, .choice u :: .choice v :: rest =>
    if m ≤ te.length then .ok te (.choice u :: .choice v :: rest)
    else if u < n ∧ v < n then
      if u = v ∨ hasEdge te u v = true then gnmLoop n m te rest
      else gnmLoop n m (te ++ [(u, v)]) rest
    else .stuck
  | te, ds => if m ≤ te.length then .ok te ds else .stuck

/-- `networkx.gnm_random_graph(n, m)`: `if n == 1: return empty_graph(n)`;
`if m >= n*(n-1)/2.0: return complete_graph(n)` (the float comparison is exact below 2^53); else the loop -/
def gnmGraph (n m : Nat) : List NxDraw → NxOut NxG := fun ds =>
  if n = 1 then .ok (emptyGraph n) ds
  else if n * (n - 1) ≤ 2 * m then .ok (completeGraph n) ds
  else match gnmLoop n m [] ds with
    | .ok te rest => .ok ⟨n, te⟩ rest
    | .stuck => .stuck

/-- `Graph.normalize(networkx.gnp_random_graph(n, p))` (= `Graph.from_networkx`) -/
def gnpSimple (n : Nat) (pn : Int) (pd : Nat) (ds : List NxDraw) : NxOut (Except Err SimpleG) :=
  match gnpGraph n pn pd ds with
  | .ok G rest => .ok (fromNetworkx G) rest
  | .stuck => .stuck

/-- `Graph.from_networkx(networkx.gnm_random_graph(n, m))` -/
def gnmSimple (n m : Nat) (ds : List NxDraw) : NxOut (Except Err SimpleG) :=
  match gnmGraph n m ds with
  | .ok G rest => .ok (fromNetworkx G) rest
  | .stuck => .stuck

/-! ### random_regular_graph (the pairing model with retries) -/

/-- `potential_edges[s] += 1` on a `defaultdict(lambda: 0)` (keys in insertion order) -/
def bump : List (Nat × Nat) → Nat → List (Nat × Nat)
  | [], s => [(s, 1)]
  | (k, c) :: rest, s => if k = s then (k, c + 1) :: rest else (k, c) :: bump rest s

/-- `for s1, s2 in zip(stubiter, stubiter)`: a pair of different nodes that is not yet an edge becomes
one (as `(smaller, larger)`), any other pair is remembered in `potential_edges` -/
def pairUp : List (Nat × Nat) → List (Nat × Nat) → List Nat → List (Nat × Nat) × List (Nat × Nat)
  | edges, pot, a :: b :: rest =>
    let s1 := min a b
    let s2 := max a b
    if s1 ≠ s2 ∧ edges.contains (s1, s2) = false then pairUp (edges ++ [(s1, s2)]) pot rest
    else pairUp edges (bump (bump pot s1) s2) rest
  | edges, pot, _ => (edges, pot)

/-- the inner loop of `_suitable` for one outer key.  networkx 3.6.1 writes
`for s1 in potential_edges: for s2 in potential_edges: if s1 == s2: break; if s1 > s2: s1, s2 = s2, s1;
if (s1, s2) not in edges: return True` — the swap ASSIGNS TO THE OUTER VARIABLE, so from then on the
inner loop compares with the smallest key seen so far (`cur`), not with the outer key: some pairs of
left-over nodes are never looked at and the `break` can come early or late.  Modelled as written
(an unnecessary `False` only causes one more restart). -/
def suitableInner (edges : List (Nat × Nat)) : Nat → List Nat → Bool
  | _, [] => false
  | cur, s2 :: rest =>
    if cur = s2 then false
    else if edges.contains (min cur s2, max cur s2) = false then true
    else suitableInner edges (min cur s2) rest

/-- `_suitable(edges, potential_edges)` -/
def suitable (edges pot : List (Nat × Nat)) : Bool :=
  pot.isEmpty || (pot.map Prod.fst).any (fun s1 => suitableInner edges s1 (pot.map Prod.fst))

/-- `[node for node, potential in potential_edges.items() for _ in range(potential)]` -/
def stubsOf (pot : List (Nat × Nat)) : List Nat := pot.flatMap (fun p => List.replicate p.2 p.1)

/-- `list(range(n)) * d` -/
def initialStubs (n d : Nat) : List Nat := (List.replicate d (List.range n)).flatten

/-- `_try_creation()` repeated until it succeeds: one `shuffle` per round; a round that leaves only
unsuitable stubs throws the edges away and starts again from `list(range(n)) * d` -/
def regularLoop (n d : Nat) : List (Nat × Nat) → List Nat → List NxDraw → NxOut (List (Nat × Nat))
  | edges, stubs, .shuffle before after :: rest =>
    if stubs.isEmpty then .ok edges (.shuffle before after :: rest)
    else if before = stubs ∧ after.isPerm stubs = true then
      let r := pairUp edges [] after
      if suitable r.1 r.2 then regularLoop n d r.1 (stubsOf r.2) rest
      else regularLoop n d [] (initialStubs n d) rest
    else .stuck
  | edges, stubs, ds => if stubs.isEmpty then .ok edges ds else .stuck

/-- `networkx.random_regular_graph(d, n)`; `none` = `NetworkXError` (`n * d` odd, or not `0 ≤ d < n`).
The edges are collected in a Python `set` and handed to `add_edges_from` in the iteration order of that set,
which is NOT modelled: `tedges` lists them in the order they were found, so only the unordered edge
relation of this `NxG` (and everything `Graph.from_networkx` derives from it except the order of the
`add_edge` calls) is meaningful -/
def regularGraph (d n : Nat) : List NxDraw → NxOut (Option NxG) := fun ds =>
  if (n * d) % 2 ≠ 0 ∨ ¬ d < n then .ok none ds
  else if d = 0 then .ok (some (emptyGraph n)) ds
  else match regularLoop n d [] (initialStubs n d) ds with
    | .ok es rest => .ok (some ⟨n, es⟩) rest
    | .stuck => .stuck

/-- `Graph.normalize(networkx.random_regular_graph(d, n))`; `none` = a `NetworkXError` escapes -/
def gndSimple (n d : Nat) (ds : List NxDraw) : NxOut (Option (Except Err SimpleG)) :=
  match regularGraph d n ds with
  | .ok (some G) rest => .ok (some (fromNetworkx G)) rest
  | .ok none rest => .ok none rest
  | .stuck => .stuck

end Cnfgen.Nx
