/-
L7 — the random networkx generators that cnfgen calls (`obtain_gnp` with t = 1:
`networkx.gnp_random_graph(n, p)` — NOT `fast_gnp_random_graph`; `obtain_gnm`:
`networkx.gnm_random_graph(n, m)`), as functions of the list of draws they request.  Import-free.

networkx's `@py_random_state` decorator turns `seed=None` into `random._inst`, the instance behind
the functions of Python's `random` module (the harness checks the identity on every run), so these
draws come from the same stream as cnfgen's own.  A `NxDraw` is the return value of ONE call made by
networkx:

* `unit num`   — `seed.random()` = `num / 2^53`, `num < 2^53`;
* `choice i`   — `seed.choice(nlist)` where `nlist = list(G)` = `[0, …, n-1]`: the member `i`, `i < n`.

Outcome `stuck`: the list is not a legal record of the run (exhausted, wrong kind, out of range).
"For every legal draw list" = "for every list on which the run is `ok`".
Version modelled: networkx 3.6.1 (tied by the correspondence suites `nx_gnp`, `nx_gnm`).
-/
import CnfgenModel.Graph.NxBuild
namespace Cnfgen.Nx
open Cnfgen

inductive NxDraw where
  | unit (num : Nat)
  | choice (i : Nat)
  deriving Repr, DecidableEq, Inhabited

inductive NxOut (α : Type) where
  | ok (a : α) (rest : List NxDraw)
  | stuck
  deriving Repr, Inhabited

/-- 2^53 -/
def unitDen : Nat := 9007199254740992

/-- `x < p` for `x = num / 2^53` and the float `p = pn / pd` (its exact value, `pd > 0`) -/
def unitLt (num : Nat) (pn : Int) (pd : Nat) : Bool := (num : Int) * (pd : Int) < pn * (unitDen : Int)

/-- `for e in combinations(range(n), 2): if seed.random() < p: G.add_edge(*e)` over the remaining
pairs: the chosen pairs, in order -/
def gnpLoop (pn : Int) (pd : Nat) : List (Nat × Nat) → List NxDraw → NxOut (List (Nat × Nat))
  | [], ds => .ok [] ds
  | e :: es, .unit num :: ds =>
    if num < unitDen then
      match gnpLoop pn pd es ds with
      | .ok l rest => .ok (if unitLt num pn pd then e :: l else l) rest
      | .stuck => .stuck
    else .stuck
  | _ :: _, _ => .stuck

/-- `networkx.gnp_random_graph(n, p)` for `p = pn / pd`:
`if p >= 1: return complete_graph(n)`; `if p <= 0: return empty_graph(n)`; else one draw per pair -/
def gnpGraph (n : Nat) (pn : Int) (pd : Nat) : List NxDraw → NxOut NxG := fun ds =>
  if (pd : Int) ≤ pn then .ok (completeGraph n) ds
  else if pn ≤ 0 then .ok (emptyGraph n) ds
  else match gnpLoop pn pd (allPairs n) ds with
    | .ok l rest => .ok ⟨n, l⟩ rest
    | .stuck => .stuck

/-- `G.has_edge(u, v)` on the time-ordered edge list -/
def hasEdge (te : List (Nat × Nat)) (u v : Nat) : Bool := te.contains (u, v) || te.contains (v, u)

/-- the `while edge_count < m` loop of `gnm_random_graph`: two `choice` draws per round (both are
made before the test), a loop or a present edge is skipped; `edge_count` is the length of the list -/
def gnmLoop (n m : Nat) : List (Nat × Nat) → List NxDraw → NxOut (List (Nat × Nat))
  | te, .choice u :: .choice v :: rest =>
    if m ≤ te.length then .ok te (.choice u :: .choice v :: rest)
    else if u < n ∧ v < n then
      if u = v ∨ hasEdge te u v = true then gnmLoop n m te rest
      else gnmLoop n m (te ++ [(u, v)]) rest
    else .stuck
  | te, ds => if m ≤ te.length then .ok te ds else .stuck

/-- `networkx.gnm_random_graph(n, m)`: `if n == 1: return empty_graph(n)`;
`if m >= n*(n-1)/2.0: return complete_graph(n)` (the float comparison is exact below 2^53); else the loop -/
def gnmGraph (n m : Nat) : List NxDraw → NxOut NxG := fun ds =>
  if n = 1 then .ok (emptyGraph n) ds
  else if n * (n - 1) ≤ 2 * m then .ok (completeGraph n) ds
  else match gnmLoop n m [] ds with
    | .ok te rest => .ok ⟨n, te⟩ rest
    | .stuck => .stuck

/-- `Graph.normalize(networkx.gnp_random_graph(n, p))` (= `Graph.from_networkx`) -/
def gnpSimple (n : Nat) (pn : Int) (pd : Nat) (ds : List NxDraw) : NxOut (Except Err SimpleG) :=
  match gnpGraph n pn pd ds with
  | .ok G rest => .ok (fromNetworkx G) rest
  | .stuck => .stuck

/-- `Graph.from_networkx(networkx.gnm_random_graph(n, m))` -/
def gnmSimple (n m : Nat) (ds : List NxDraw) : NxOut (Except Err SimpleG) :=
  match gnmGraph n m ds with
  | .ok G rest => .ok (fromNetworkx G) rest
  | .stuck => .stuck

end Cnfgen.Nx
