/-
L7 — the library generators of cnfgen/graphs.py that take a `seed` argument.  Every one of them has the shape
(table `seededGenerators` of `Generated/Phases.lean`, theorem `seeded_generators_seed_first`)

    if seed is not None:
        random.seed(seed)
    <sampler body>

`seeded σ seed body` is that shape over the draw-list samplers: `σ s` is the state `random.seed(s)` installs (the
answers the generator will give), the body then runs on it; without a seed it runs on the state it finds.
(`RandomKCNF` / `RandomKXOR` are modelled the same way in Rand/KCNF.lean, Rand/KXOR.lean with `Rand.reseed`.)
Import-free.
-/
import CnfgenModel.Rand.Mods
namespace Cnfgen.GRand
open Cnfgen

def seeded {α} (σ : Int → List Draw) (seed : Option Int) (body : RM α) : RM α :=
  fun ds => body (match seed with | some s => σ s | none => ds)

/-- `bipartite_random_left_regular(l, r, d, seed)` -/
def bipartiteRandomLeftRegular (σ : Int → List Draw) (l r d : Int) (seed : Option Int) : RM BipG :=
  seeded σ seed (leftRegular l r d)
/-- `bipartite_random_m_edges(L, R, m, seed)` -/
def bipartiteRandomMEdges (σ : Int → List Draw) (L R m : Int) (seed : Option Int) : RM BipG :=
  seeded σ seed (randomMEdges L R m)
/-- `bipartite_random(L, R, p, seed)`, `p = pn/pd` -/
def bipartiteRandom (σ : Int → List Draw) (L R : Int) (pn : Int) (pd : Nat) (seed : Option Int) : RM BipG :=
  seeded σ seed (bipRandom L R pn pd)
/-- `bipartite_random_regular(l, r, d, seed)`; the restarts call it again WITHOUT the seed -/
def bipartiteRandomRegular (σ : Int → List Draw) (l r d : Int) (fuel : Nat) (seed : Option Int) : RM BipG :=
  seeded σ seed (randomRegular l r d fuel)
/-- `add_random_missing_edges(G, m, seed)` for a simple / a bipartite graph -/
def addRandomMissingEdgesSimple (σ : Int → List Draw) (G : SimpleG) (m : Int) (seed : Option Int) : RM SimpleG :=
  seeded σ seed (addMissingSimple G m)
def addRandomMissingEdgesBip (σ : Int → List Draw) (G : BipG) (m : Int) (seed : Option Int) : RM BipG :=
  seeded σ seed (addMissingBip G m)
/-- `split_random_edges(G, k, seed)` -/
def splitRandomEdges (σ : Int → List Draw) (G : SimpleG) (k : Int) (seed : Option Int) : RM SimpleG :=
  seeded σ seed (splitEdges G k)

end Cnfgen.GRand
