/-
L7 — random modifications of a graph, as functions of explicit draws:
`add_random_missing_edges`, `split_random_edges` (cnfgen/graphs.py),
`modify_simple_graph_plantclique`, `modify_bipartite_graph_plantbiclique`,
`multipartite_tnp` (cnfgen/clitools/graph_build.py).  Import-free.
-/
import CnfgenModel.Rand.GraphDraws
import CnfgenModel.Rand.BipSamplers
import CnfgenModel.Graph.Basic
import CnfgenModel.Core.Iter
namespace Cnfgen.GRand
open Cnfgen

/-! ### add_random_missing_edges, simple graph -/

/-- `available_edges()`: `[(u, v) for u in 1..V-1 for v in u+1..V if not G.has_edge(u, v)]` -/
def availableSimple (G : SimpleG) : List (Nat × Nat) :=
  (rangeN 1 G.n).flatMap (fun u =>
    ((rangeN (u + 1) (G.n + 1)).filter (fun (v : Nat) => !G.hasEdge (u : Int) (v : Int))).map (fun v => (u, v)))

/-- `for _ in range(10*m): if G.number_of_edges() >= goal: break; u, v = random.sample(range(1, V+1), 2); …` -/
def sparseSimple (goal : Int) : Nat → SimpleG → RM SimpleG
  | 0, G => pure G
  | t + 1, G =>
    if (G.m : Int) ≥ goal then pure G
    else do
      let s ← sample (rangeN 1 (G.n + 1)) 2
      match s with
      | [u, v] =>
        if G.hasEdge u v then sparseSimple goal t G
        else do
          let G' ← RM.lift (G.addEdge u v)
          sparseSimple goal t G'
      | _ => fun _ => .stuck

/-- `add_random_missing_edges(G, m)` for a `Graph`.  `total_number_of_edges = V*(V-1)/2` is a
float in the code; its value is the integer `V*(V-1)//2` (exact below 2^53). -/
def addMissingSimple (G : SimpleG) (m : Int) : RM SimpleG :=
  if m < 0 then RM.raise .valueError
  else
    let total : Int := ((G.n * (G.n - 1) / 2 : Nat) : Int)
    let goal : Int := (G.m : Int) + m
    if goal > total then RM.raise .valueError
    else do
      let G1 ← sparseSimple goal (10 * m).toNat G
      if (G1.m : Int) < goal then do
        let es ← samplePairs (availableSimple G1) (goal - (G1.m : Int))
        RM.lift (G1.addEdgesFrom (pairsToInt es))
      else pure G1

/-! ### add_random_missing_edges, bipartite graph -/

/-- `[(u, v) for u in Left for v in Right if not G.has_edge(u, v)]` -/
def availableBip (G : BipG) : List (Nat × Nat) :=
  (allPairs G.l G.r).filter (fun e => !G.hasEdge (e.1 : Int) (e.2 : Int))

/-- as `sparseSimple`, with `u = random.sample(Left, 1)[0]; v = random.sample(Right, 1)[0]` -/
def sparseBip (goal : Int) : Nat → BipG → RM BipG
  | 0, G => pure G
  | t + 1, G =>
    if (G.numberOfEdges : Int) ≥ goal then pure G
    else do
      let su ← sample (rangeN 1 (G.l + 1)) 1
      let sv ← sample (rangeN 1 (G.r + 1)) 1
      match su, sv with
      | [u], [v] =>
        if G.hasEdge u v then sparseBip goal t G
        else do
          let G' ← RM.lift (G.addEdge u v)
          sparseBip goal t G'
      | _, _ => fun _ => .stuck

/-- `add_random_missing_edges(G, m)` for a `BipartiteGraph` -/
def addMissingBip (G : BipG) (m : Int) : RM BipG :=
  if m < 0 then RM.raise .valueError
  else
    let total : Int := ((G.l * G.r : Nat) : Int)
    let goal : Int := (G.numberOfEdges : Int) + m
    if goal > total then RM.raise .valueError
    else do
      let G1 ← sparseBip goal (10 * m).toNat G
      if (G1.numberOfEdges : Int) < goal then do
        let es ← samplePairs (availableBip G1) (goal - (G1.numberOfEdges : Int))
        RM.lift (G1.addEdgesFrom (pairsToInt es))
      else pure G1

/-- `add_random_missing_edges(G, m)` for a `CompleteBipartiteGraph(l, r)` object:
`number_of_edges()` is `l*r`, so anything but `m = 0` is refused, and `m = 0` does nothing -/
def addMissingCBip (_l _r : Nat) (m : Int) : RM Unit :=
  if m < 0 then RM.raise .valueError
  else if m > 0 then RM.raise .valueError
  else pure ()

/-! ### split_random_edges -/

/-- `for u, v in tosplit: G.remove_edge(u, v); G.add_edge(u, x); G.add_edge(x, v); x += 1` -/
def splitLoop : List (Nat × Nat) → Nat → SimpleG → Except Err SimpleG
  | [], _, G => pure G
  | (u, v) :: es, x, G => do
    let G1 := G.removeEdge u v
    let G2 ← G1.addEdge u x
    let G3 ← G2.addEdge x v
    splitLoop es (x + 1) G3

/-- `split_random_edges(G, k)` for a `Graph` (other classes: `TypeError`, see `Cli/GraphArgs`) -/
def splitEdges (G : SimpleG) (k : Int) : RM SimpleG :=
  if k < 0 then RM.raise .valueError
  else if k > (G.m : Int) then RM.raise .valueError
  else do
    let tosplit ← samplePairs G.edges k
    let G1 ← RM.lift (G.updateVertexNumber ((G.n : Int) + k))
    RM.lift (splitLoop tosplit (G.n + 1) G1)

/-! ### planted cliques (graph_build.py) -/

/-- `for v, w in combinations(clique, 2): G.add_edge(v, w)` -/
def cliqueCalls (clique : List Nat) : List (Int × Int) :=
  (combos clique 2).filterMap (fun c => match c with | [v, w] => some ((v : Int), (w : Int)) | _ => none)

/-- the part of `modify_simple_graph_plantclique` after the argument has been parsed:
`cliquesize > G.order()` is refused, then `random.sample(G.vertices(), cliquesize)` -/
def plantClique (G : SimpleG) (k : Int) : RM SimpleG :=
  if k > (G.n : Int) then RM.raise .valueError
  else do
    let clique ← sample (rangeN 1 (G.n + 1)) k
    RM.lift (G.addEdgesFrom (cliqueCalls clique))

/-- `for v, w in product(left, right): G.add_edge(v, w)` -/
def bicliqueCalls (left right : List Nat) : List (Int × Int) :=
  left.flatMap (fun (v : Nat) => right.map (fun (w : Nat) => ((v : Int), (w : Int))))

/-- `modify_bipartite_graph_plantbiclique` after parsing, for a `BipartiteGraph` -/
def plantBiclique (G : BipG) (a b : Int) : RM BipG :=
  if a > (G.l : Int) ∨ b > (G.r : Int) then RM.raise .valueError
  else do
    let left ← sample (rangeN 1 (G.l + 1)) a
    let right ← sample (rangeN 1 (G.r + 1)) b
    RM.lift (G.addEdgesFrom (bicliqueCalls left right))

/-- the same for a `CompleteBipartiteGraph(l, r)`: the two samples are drawn, `add_edge` is `pass` -/
def plantBicliqueCBip (l r : Nat) (a b : Int) : RM Unit :=
  if a > (l : Int) ∨ b > (r : Int) then RM.raise .valueError
  else do
    let _ ← sample (rangeN 1 (l + 1)) a
    let _ ← sample (rangeN 1 (r + 1)) b
    pure ()

/-! ### multipartite_tnp (gnp N p t with t > 1) -/

/-- `for i, j in combinations(range(t), 2): for a in block i: for b in block j` with
`V[a] = a + 1` (no shuffling on the command line) -/
def tnpPairs (t n : Nat) : List (Nat × Nat) :=
  (combos (List.range t) 2).flatMap (fun c => match c with
    | [i, j] => (rangeN (n * i) (n * (i + 1))).flatMap (fun a =>
        (rangeN (n * j) (n * (j + 1))).map (fun b => (a + 1, b + 1)))
    | _ => [])

/-- `if random.random() < p: G.add_edge(V[a], V[b])` over `tnpPairs` -/
def coinLoopS (lt : Nat → Bool) : List (Nat × Nat) → SimpleG → RM SimpleG
  | [], G => pure G
  | (u, v) :: ps, G => do
    let x ← random
    if lt x then do
      let G' ← RM.lift (G.addEdge u v)
      coinLoopS lt ps G'
    else coinLoopS lt ps G

/-- `multipartite_tnp(t, n, p)` with `shuffleblocks=False` -/
def multipartiteTnp (t n : Nat) (pn : Int) (pd : Nat) : RM SimpleG :=
  coinLoopS (fun x => unitLt x pn pd) (tnpPairs t n) (SimpleG.init (t * n))

end Cnfgen.GRand
