/-
L7 — the in-house bipartite samplers of cnfgen/graphs.py as functions of explicit draws:
`bipartite_random_left_regular` (glrd), `bipartite_random_m_edges` (glrm),
`bipartite_random` (glrp), `bipartite_random_regular` (regular).
Transcribed from the code as it is now (after the fixes of D8 — dense branch of glrm —, of
D10 — `regular` uses the pair found by its fallback scan — and of C15-F1/F2 — `regular` refuses
`d > r` and returns the empty graph for `r = 0`).  Import-free.
-/
import CnfgenModel.Rand.GraphDraws
import CnfgenModel.Graph.Basic
import CnfgenModel.Core.Iter
namespace Cnfgen.GRand

/-- `range(3 * d * d)`: random tries per edge of `bipartite_random_regular` (tied to the source by
`Props/C15/Source.lean`) -/
abbrev regularRetries (d : Nat) : Nat := 3 * d * d
/-- `L * R // 3`: above this many edges `bipartite_random_m_edges` samples densely -/
abbrev glrmDenseThreshold (L R : Int) : Int := L * R / 3
open Cnfgen

/-- `sorted(l)` for natural numbers -/
def sortNat (l : List Nat) : List Nat := l.foldl insertSorted []

/-- `for v in vs: G.add_edge(u, v)` -/
def addRow (G : BipG) (u : Nat) (vs : List Nat) : Except Err BipG :=
  vs.foldlM (fun g (v : Nat) => g.addEdge (u : Int) (v : Int)) G

/-! ### bipartite_random_left_regular -/

/-- `sys.maxsize` of the (64 bit) platform: `random.sample(range(1, r + 1), d)` raises
`OverflowError` above it, so the code switches to a rejection loop -/
abbrev sysMaxsize : Nat := 2 ^ 63 - 1

/-- `neighbours = set(); while len(neighbours) < d: neighbours.add(random.randint(1, r))`.
`need = d - len(neighbours)`, `acc` = the members of the set (most recent first; the set is only
read through `sorted`).  A repeated value is not added.  The loop has no bound of its own; `fuel`
is the number of draws available (every iteration consumes one), so running out of fuel is
running out of draws. -/
def distinctRandints (r : Int) : (fuel : Nat) → (need : Nat) → List Nat → RM (List Nat)
  | _, 0, acc => pure acc
  | 0, _ + 1, _ => fun _ => .stuck
  | fuel + 1, need + 1, acc => do
    let v ← randint 1 r
    if acc.contains v.toNat then distinctRandints r fuel (need + 1) acc
    else distinctRandints r fuel need (v.toNat :: acc)

/-- the neighbours of one left vertex, before `sorted`:
`random.sample(R, d) if r <= sys.maxsize else` the rejection loop -/
def glrdNeighbours (r : Nat) (d : Int) : RM (List Nat) :=
  if r ≤ sysMaxsize then sample (rangeN 1 (r + 1)) d
  else fun ds => distinctRandints r ds.length d.toNat [] ds

/-- `for u in L: neighbours = …; for v in sorted(neighbours): G.add_edge(u, v)` -/
def leftRegularLoop (r : Nat) (d : Int) : List Nat → BipG → RM BipG
  | [], G => pure G
  | u :: us, G => do
    let s ← glrdNeighbours r d
    let G' ← RM.lift (addRow G u (sortNat s))
    leftRegularLoop r d us G'

/-- `bipartite_random_left_regular(l, r, d)`; note `d = min(r, d)` -/
def leftRegular (l r d : Int) : RM BipG :=
  if l < 0 ∨ r < 0 ∨ d < 0 then RM.raise .valueError
  else leftRegularLoop r.toNat (min r d) (rangeN 1 (l.toNat + 1)) (BipG.init l.toNat r.toNat)

/-- a `BipartiteGraph` without its right adjacency table (which has `r + 1` entries in this
model, a `dict` in the code): what the compiled driver can afford for `r > sys.maxsize` -/
def dropRadj (G : BipG) : BipG := { G with radj := [] }

/-- `(BipG.init l r).dropRadj`, computed without the `r + 1` entries -/
def initNoRadj (l r : Nat) : BipG := ⟨l, r, List.replicate (l + 1) [], [], []⟩

/-- `leftRegular` run on a graph object without right adjacency table; equal to
`leftRegular` up to `dropRadj` (`leftRegularNoRadj_eq` in Lemmas/GraphBuildSamplers.lean) -/
def leftRegularNoRadj (l r d : Int) : RM BipG :=
  if l < 0 ∨ r < 0 ∨ d < 0 then RM.raise .valueError
  else leftRegularLoop r.toNat (min r d) (rangeN 1 (l.toNat + 1)) (initNoRadj l.toNat r.toNat)

/-! ### bipartite_random_m_edges -/

/-- the sparse strategy `while count < m: u = randint(1, L); v = randint(1, R); …`.
`need = m - count`.  The loop has no bound of its own; `fuel` is the number of draws available
(every iteration consumes two), so running out of fuel is running out of draws. -/
def mEdgesSparse (L R : Int) : (fuel : Nat) → (need : Nat) → BipG → RM BipG
  | _, 0, G => pure G
  | 0, _ + 1, _ => fun _ => .stuck
  | fuel + 1, need + 1, G => do
    let u ← randint 1 L
    let v ← randint 1 R
    if G.hasEdge u v then mEdgesSparse L R fuel (need + 1) G
    else do
      let G' ← RM.lift (G.addEdge u v)
      mEdgesSparse L R fuel need G'

/-- `for u in U: for v in V` -/
def allPairs (L R : Nat) : List (Nat × Nat) :=
  (rangeN 1 (L + 1)).flatMap (fun u => (rangeN 1 (R + 1)).map (fun v => (u, v)))

def pairsToInt (es : List (Nat × Nat)) : List (Int × Int) := es.map (fun e => ((e.1 : Int), (e.2 : Int)))

/-- the two sampling strategies of `bipartite_random_m_edges`, before the final assertion.
Dense branch (`m > L*R//3`): `for u, v in random.sample(E, m): G.add_edge(u, v)` with
`E = [(u, v) for u in U for v in V]`. -/
def mEdgesBody (L R m : Int) : RM BipG :=
  if m > glrmDenseThreshold L R then do
    let es ← samplePairs (allPairs L.toNat R.toNat) m
    RM.lift ((BipG.init L.toNat R.toNat).addEdgesFrom (pairsToInt es))
  else fun ds => mEdgesSparse L R ds.length m.toNat (BipG.init L.toNat R.toNat) ds

/-- `bipartite_random_m_edges(L, R, m)`; the final `assert G.number_of_edges() == m` is kept -/
def randomMEdges (L R m : Int) : RM BipG :=
  if L < 1 ∨ R < 1 ∨ m < 0 ∨ m > L * R then RM.raise .valueError
  else do
    let G ← mEdgesBody L R m
    if G.numberOfEdges = m.toNat then pure G else RM.raise .assertion

/-! ### bipartite_random -/

/-- `for (u, v) in pairs: if random.random() <= p: G.add_edge(u, v)`; `le x` is the outcome of
the comparison for the drawn `x` -/
def coinLoop (le : Nat → Bool) : List (Nat × Nat) → BipG → RM BipG
  | [], G => pure G
  | (u, v) :: ps, G => do
    let x ← random
    if le x then do
      let G' ← RM.lift (G.addEdge u v)
      coinLoop le ps G'
    else coinLoop le ps G

/-- `bipartite_random(L, R, p)` for the float `p = pn/pd` -/
def bipRandom (L R : Int) (pn : Int) (pd : Nat) : RM BipG :=
  if L < 1 ∨ R < 1 ∨ pn < 0 ∨ pn > pd then RM.raise .valueError
  else coinLoop (fun x => unitLe x pn pd) (allPairs L.toNat R.toNat) (BipG.init L.toNat R.toNat)

/-! ### bipartite_random_regular -/

/-- `A[i], A[j] = A[j], A[i]` -/
def swapAt (A : List Nat) (i j : Nat) : List Nat := (A.set i (A.getD j 0)).set j (A.getD i 0)

/-- `list(range(1, n+1)) * k` -/
def repeatRange (n k : Nat) : List Nat := (List.replicate k (rangeN 1 (n + 1))).flatten

/-- the inner loop `for retries in range(3*d*d)`: `some (ea, eb)` when a free pair is hit -/
def regularRetry (G : BipG) (A B : List Nat) (i hi : Int) : Nat → RM (Option (Nat × Nat))
  | 0 => pure none
  | t + 1 => do
    let ea ← randint i hi
    let eb ← randint i hi
    if !G.hasEdge (A.getD ea.toNat 0) (B.getD eb.toNat 0) then pure (some (ea.toNat, eb.toNat))
    else regularRetry G A B i hi t

/-- the fallback scan of the `else:` branch: the first `(ea, eb)`, `ea, eb ∈ [i, N)` in the
order of the two nested `for` loops, with no edge between `A[ea]` and `B[eb]` -/
def firstFreePair (G : BipG) (A B : List Nat) (i N : Nat) : Option (Nat × Nat) :=
  (rangeN i N).findSome? (fun ea => (rangeN i N).findSome? (fun eb =>
    if !G.hasEdge (A.getD ea 0) (B.getD eb 0) then some (ea, eb) else none))

/-- one iteration of `for i in range(l*d)`: the pair `(ea, eb)` that will be used — hit by
the retry loop, or else found by the scan; `none` = no free pair is left (restart) -/
def regularPick (tries N : Nat) (G : BipG) (A B : List Nat) (i : Nat) : RM (Option (Nat × Nat)) := do
  match ← regularRetry G A B i ((N : Int) - 1) tries with
  | some p => pure (some p)
  | none => pure (firstFreePair G A B i N)

/-- the loop `for i in range(l*d)`; `k` = iterations left.  Each iteration adds the edge
`A[ea]–B[eb]` and swaps `A[i] ↔ A[ea]`, `B[i] ↔ B[eb]`.  `none` = the code restarts from scratch. -/
def regularLoop (tries N : Nat) : (k : Nat) → (i : Nat) → BipG → List Nat → List Nat →
    RM (Option BipG)
  | 0, _, G, _, _ => pure (some G)
  | k + 1, i, G, A, B => do
    match ← regularPick tries N G A B i with
    | some (ea, eb) =>
      let G' ← RM.lift (G.addEdge (A.getD ea 0) (B.getD eb 0))
      regularLoop tries N k (i + 1) G' (swapAt A i ea) (swapAt B i eb)
    | none => pure none

/-- `bipartite_random_regular(l, r, d)`.  `fuel` is the recursion budget of the restart
`return bipartite_random_regular(l, r, d)` (Python: `RecursionError` when it is used up). -/
def randomRegular (l r d : Int) : (fuel : Nat) → RM BipG
  | 0 => RM.raise .recursion
  | fuel + 1 =>
    if l < 0 ∨ r < 0 ∨ d < 0 then RM.raise .valueError
    else if d > r then RM.raise .valueError
    else if r > 0 ∧ (l * d) % r ≠ 0 then RM.raise .valueError
    else if r = 0 then pure (BipG.init l.toNat r.toNat)      -- `if r == 0: return G`
    else do
      let N := (l * d).toNat
      let A := repeatRange l.toNat d.toNat
      let B := repeatRange r.toNat (l * d / r).toNat
      match ← regularLoop (regularRetries d.toNat) N N 0 (BipG.init l.toNat r.toNat) A B with
      | some G => pure G
      | none => randomRegular l r d fuel

end Cnfgen.GRand
