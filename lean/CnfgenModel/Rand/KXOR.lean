/-
L7 — `cnfgen/families/randomkxor.py` (RandomKXOR, sample_parities, all_good_parities,
parity_satisfied) and the `randkxor [-p]` helper.  Import-free.
-/
import CnfgenModel.Rand.KCNF
namespace Cnfgen.Rand

/-- a parity constraint `(X, b)`: `Σ_{x ∈ X} x ≡ b (mod 2)` -/
abbrev Parity := List Int × Int

/-- inner loop of `parity_satisfied`: number of `xi` with `xi in assignment`;
ValueError when neither `xi` nor `-xi` is in the assignment -/
def parityValue (a : List Int) : List Int → Except Err Nat
  | [] => .ok 0
  | x :: xs =>
    if a.contains x then (parityValue a xs).map (· + 1)
    else if a.contains (-x) then parityValue a xs
    else .error .valueError

/-- `parity_satisfied(X, b, assignments)`; returns False at the first assignment of the wrong
parity (later assignments are not inspected) -/
def paritySatisfied (X : List Int) (b : Int) : List (List Int) → Except Err Bool
  | [] => .ok true
  | a :: as =>
    match parityValue a X with
    | .error e => .error e
    | .ok v => if ((v : Int) % 2 != b) then .ok false else paritySatisfied X b as

/-- body of `all_good_parities` over a list of domains -/
def goodParitiesOf (planted : List (List Int)) : List (List Int) → Except Err (List Parity)
  | [] => .ok []
  | X :: Xs =>
    match paritySatisfied X 0 planted with
    | .error e => .error e
    | .ok s0 =>
      match paritySatisfied X 1 planted with
      | .error e => .error e
      | .ok s1 =>
        match goodParitiesOf planted Xs with
        | .error e => .error e
        | .ok rest => .ok ((if s0 then [(X, 0)] else []) ++ (if s1 then [(X, 1)] else []) ++ rest)

/-- `list(all_good_parities(k, n, planted))` -/
def allGoodParities (k n : Nat) (planted : List (List Int)) : Except Err (List Parity) :=
  goodParitiesOf planted (combos (vars n) k)

/-- the key stored in `sampled_set`: `tuple(X+[b])` -/
def Parity.key (p : Parity) : List Int := p.1 ++ [p.2]

/-- the `while len(sampled_list) < m and t < 10*m` loop -/
def sparseLoopX (k n m : Nat) (planted : List (List Int)) : Nat → List Parity → RandM (List Parity)
  | 0, acc => pure acc
  | fuel + 1, acc =>
    if acc.length < m then do
      let X ← drawVars k n
      let b ← randint 0 1
      if (acc.map Parity.key).contains (Parity.key (X, b)) then sparseLoopX k n m planted fuel acc
      else do
        let good ← RandM.lift (paritySatisfied X b planted)
        if !good then sparseLoopX k n m planted fuel acc
        else sparseLoopX k n m planted fuel (acc ++ [(X, b)])
    else pure acc

/-- dense sampling of `sample_parities`; `itertools.combinations(range(1, n+1), k)` inside
`all_good_parities` raises OverflowError once `n > sys.maxsize` (see `denseClauses`) -/
def denseParities (k n m : Nat) (planted : List (List Int)) : RandM (List Parity) :=
  if sysMaxsize < n then RandM.raise .overflowError
  else do
  let fullset ← RandM.lift (allGoodParities k n planted)
  if fullset.length < m then RandM.raise .valueError
  else sampleFrom fullset m ([], 0)

/-- `sample_parities(k, n, m, planted_assignments)` -/
def sampleParities (k n m : Nat) (planted : List (List Int)) : RandM (List Parity) := do
  let sampled ← sparseLoopX k n m planted (retryBudget m) []
  if m ≤ sampled.length then pure sampled
  else denseParities k n m planted

/-- the parity system drawn by `RandomKXOR` -/
def randomKXORSys (σ : Int → List Draw) (k n m : Nat) (seed : Option Int) (planted : List (List Int)) :
    RandM (List Parity) := do
  reseed σ seed
  if n < k then RandM.raise .valueError
  else sampleParities k n m planted

/-- `F.update_variable_number(n)`; `F.add_parity(X, b, check=False)` for each parity -/
def kxorFormula (n : Nat) (sys : List Parity) : Formula :=
  { nvars := n, cons := sys.map (fun p => Con.parity p.1 p.2) }

/-- `RandomKXOR(k, n, m, seed, planted_assignments)` -/
def randomKXOR (σ : Int → List Draw) (k n m : Nat) (seed : Option Int) (planted : List (List Int)) :
    RandM Formula := do
  let sys ← randomKXORSys σ k n m seed planted
  pure (kxorFormula n sys)

def randomKXORSysInt (σ : Int → List Draw) (k n m : Int) (seed : Option Int) (planted : List (List Int)) :
    RandM (List Parity) :=
  if n < 0 ∨ m < 0 ∨ k < 0 then RandM.raise .valueError
  else randomKXORSys σ k.toNat n.toNat m.toNat seed planted

/-- `RandXorHelper.build_formula` (`cnfgen randkxor [-p] k n m`), as the parity system -/
def cliRandKXORSys (plant : Bool) (k n m : Nat) : RandM (List Parity) := do
  if plant then
    let a ← plantAssignment n
    randomKXORSys (fun _ => []) k n m none [a]
  else randomKXORSys (fun _ => []) k n m none []

end Cnfgen.Rand
